# translators.py — regenerate the translated Coq files from /repo's current source (DESIGN §2.3).
import os, re


def write_if_changed(path, txt):
    if os.path.exists(path) and open(path).read() == txt:
        return False
    os.makedirs(os.path.dirname(path), exist_ok=True)
    with open(path, "w") as f:
        f.write(txt)
    return True


def run_all(repo, coq):
    for fn in GENERATORS:
        fn(repo, coq)


GENERATORS = []

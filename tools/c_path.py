# c_path.py — streams for the pure path properties (C14, C16, C15, C17, C05, C18).
from props import Stream
from gen import all_strings, random_string, line
from rvlib import unhx

PROPS = {}


def nontriv_changed(l, out):
    # non-trivial: the function changed its input
    f = l.split("\t")
    return out != "S:" + f[1]


def c14_streams(tier, rng, ctx):
    maxlen = 9 if tier == "quick" else 11
    inputs = list(all_strings("/.ab", maxlen))
    nrand = 20000 if tier == "quick" else 200000
    rand = [random_string(rng, 24) for _ in range(nrand)]
    ex = [line("clean", s) for s in inputs]
    rl = [line("clean", s) for s in rand]
    rule_ex = "every string over {/ . a b} of length <= %d" % maxlen
    sts = [
        Stream("pathlex-components", "mirror", [line("components", s) for s in inputs] + [line("components", s) for s in rand],
               rule=rule_ex + " + random wide-alphabet strings; std::path components vs PathLex.components"),
        Stream("clean-mirror", "mirror", ex + rl, nontrivial=nontriv_changed, exhaustive=True,
               rule=rule_ex + " + random; sys::clean vs mirror Clean.clean"),
        Stream("clean-spec", "spec", ex + rl, [line("clean_spec", s) for s in inputs + rand],
               rule="sys::clean vs the denotational normal form (spec)"),
        Stream("clean-go", "spec", ex + rl, [line("go_clean", s) for s in inputs + rand],
               rule="sys::clean vs a line-by-line transliteration of Go's path.Clean"),
        Stream("clean-idem", "spec", [line("clean2", s) for s in inputs + rand], [line("clean_spec", s) for s in inputs + rand],
               rule="clean(clean s) vs spec(s): idempotence on the implementation"),
    ]
    return sts


PROPS["C14"] = {
    "streams": c14_streams,
    "rule": "exhaustive strings over {/ . a b} up to the tier's length bound plus random wide-alphabet strings; "
            "non-trivial = clean changes the input; distinct = distinct input strings",
    "trusted": ["Base/PathLex.v model of std::path (components/push/render), validated by stream pathlex-components"],
    "assumptions": ["std::path::Path::components / PathBuf::push behave as Base/PathLex.v (validated, not verified)",
                    "paths are valid UTF-8"],
}

# c_path.py — streams for the pure path properties (C14, C16, C15, C17, C05, C18).
from props import Stream
from gen import all_strings, random_string, line
from rvlib import unhx

PROPS = {}


def nontriv_changed(l, out):
    # non-trivial: the function changed its input
    f = l.split("\t")
    return out != "S:" + f[1]


def c14_streams(tier, rng, ctx):
    maxlen = 9 if tier == "quick" else 11
    inputs = list(all_strings("/.ab", maxlen))
    nrand = 20000 if tier == "quick" else 200000
    rand = [random_string(rng, 24) for _ in range(nrand)]
    ex = [line("clean", s) for s in inputs]
    rl = [line("clean", s) for s in rand]
    rule_ex = "every string over {/ . a b} of length <= %d" % maxlen
    sts = [
        Stream("pathlex-components", "mirror", [line("components", s) for s in inputs] + [line("components", s) for s in rand],
               rule=rule_ex + " + random wide-alphabet strings; std::path components vs PathLex.components"),
        Stream("clean-mirror", "mirror", ex + rl, nontrivial=nontriv_changed, exhaustive=True,
               rule=rule_ex + " + random; sys::clean vs mirror Clean.clean"),
        Stream("clean-spec", "spec", ex + rl, [line("clean_spec", s) for s in inputs + rand],
               rule="sys::clean vs the denotational normal form (spec)"),
        Stream("clean-go", "spec", ex + rl, [line("go_clean", s) for s in inputs + rand],
               rule="sys::clean vs a line-by-line transliteration of Go's path.Clean"),
        Stream("clean-idem", "spec", [line("clean2", s) for s in inputs + rand], [line("clean_spec", s) for s in inputs + rand],
               rule="clean(clean s) vs spec(s): idempotence on the implementation"),
    ]
    return sts


PROPS["C14"] = {
    "streams": c14_streams,
    "rule": "exhaustive strings over {/ . a b} up to the tier's length bound plus random wide-alphabet strings; "
            "non-trivial = clean changes the input; distinct = distinct input strings",
    "trusted": ["Base/PathLex.v model of std::path (components/push/render), validated by stream pathlex-components"],
    "assumptions": ["std::path::Path::components / PathBuf::push behave as Base/PathLex.v (validated, not verified)",
                    "paths are valid UTF-8"],
}


# ---------------------------------------------------------------------------------------------
def clean_abs_paths(names, maxdepth):
    import itertools
    out = []
    for d in range(maxdepth + 1):
        for t in itertools.product(names, repeat=d):
            out.append("/" + "/".join(t))
    return out


def c16_streams(tier, rng, ctx):
    names = ["a", "b", "é"] if tier == "quick" else ["a", "b", "é", "a.b"]
    depth = 4 if tier == "quick" else 5
    paths = clean_abs_paths(names, depth)
    if tier == "thorough":
        paths = paths[:400] + rng.sample(paths, 600)
    pairs = [(p, b) for p in paths for b in paths]
    # random deeper pairs with multi-byte names
    pool = ["a", "b", "c", "語", "😀x", "é", "..a", "a..", ".x", "x y"]
    for _ in range(3000 if tier == "quick" else 30000):
        pre = [rng.choice(pool) for _ in range(rng.randint(0, 6))]
        p = pre + [rng.choice(pool) for _ in range(rng.randint(0, 5))]
        b = pre + [rng.choice(pool) for _ in range(rng.randint(0, 5))]
        pairs.append(("/" + "/".join(p), "/" + "/".join(b)))
    impl = [line("relative", p, b) for p, b in pairs]
    # arguments outside the theorem's hypothesis (unclean / relative) keep the mirror honest
    odd = []
    for _ in range(5000 if tier == "quick" else 50000):
        odd.append(line("relative", random_string(rng, 10, alphabet=["/", ".", "a", "b", "é"]),
                        random_string(rng, 10, alphabet=["/", ".", "a", "b", "é"])))

    def post(l, out):
        f = l.split("\t")
        r = out[2:] if out.startswith("S:") else "00"
        return "\t".join(["relative_check", f[1], f[2], r])

    def nontriv(l, out):
        f = l.split("\t")
        return f[1] != f[2]
    return [
        Stream("relative-mirror", "mirror", impl + odd, nontrivial=nontriv, exhaustive=True,
               rule="all ordered pairs of clean absolute paths (<= %d components over %d names) + random deeper pairs + unclean arguments" % (depth, len(names))),
        Stream("relative-spec", "spec", impl, [line("relative_spec", p, b) for p, b in pairs], nontrivial=nontriv,
               rule="sys::relative vs render(relative_spec) on clean absolute pairs"),
        Stream("relative-check", "check", impl, post=post, nontrivial=nontriv,
               rule="the property's own checker (relative, '..'* then normals, count, clean(join(base, r)) == path) applied to the implementation's result"),
    ]


PROPS["C16"] = {
    "streams": c16_streams,
    "rule": "all ordered pairs of clean absolute paths of the bounded namespace plus random deep pairs; non-trivial = path != base; distinct = distinct (path, base)",
    "trusted": ["Base/PathLex.v model of std::path"],
    "assumptions": ["std::path behaves as Base/PathLex.v (validated by the pathlex streams of C14/C15)", "paths are valid UTF-8"],
}


# ---------------------------------------------------------------------------------------------
def c15_streams(tier, rng, ctx):
    alpha1 = ["/", ".", ":", "a", "é", "語", "😀", "~"]
    n1 = 5 if tier == "quick" else 6
    unary = list(all_strings(alpha1, n1))
    alpha2 = ["/", ".", "a", "é", ":", "😀"]
    n2 = 3 if tier == "quick" else 4
    short = list(all_strings(alpha2, n2))
    pairs = [(x, y) for x in short for y in short]
    nr = 20000 if tier == "quick" else 200000
    runary = [random_string(rng, 20) for _ in range(nr)]
    rpairs = [(random_string(rng, 12), random_string(rng, 6)) for _ in range(nr)]
    # scheme-shaped inputs for trim_protocol
    schemes = ["file://", "ftp://", "http://", "https://", "FILE://", "Http://", "hTTps://", "ftp:/", "file:", "//", "ſile://", "Kttp://", "İle://",
               "httpx://", "https:///", "file://ftp://", "ftp://ftp://", "a//file://"]
    proto = [s + t for s in schemes for t in ["", "a", "/a", "é/b", "//x", "HTTP://y"]] + \
            [random_string(rng, 6) + rng.choice(schemes) + random_string(rng, 6) for _ in range(2000)]
    U = unary + runary
    P = pairs + rpairs
    sts = []
    un_fns = ["base", "first", "dir", "ext", "name", "trim_ext", "trim_first", "trim_last", "is_empty", "parse_paths",
              "std_parent", "std_file_name", "std_extension", "components"]
    for fn in un_fns:
        sts.append(Stream("h-" + fn, "mirror", [line(fn, s) for s in U], judge=lambda l, o: "PANIC" in o,
                          exhaustive=True, rule="sys::%s vs mirror on all strings over %s up to length %d + random" % (fn, "".join(alpha1), n1)))
    sts.append(Stream("h-trim_protocol", "mirror", [line("trim_protocol", s) for s in U + proto]))
    for fn in ["trim_prefix", "trim_suffix", "has", "has_prefix", "has_suffix", "mash", "concat", "std_push", "std_eq", "std_starts_with"]:
        sts.append(Stream("h-" + fn, "mirror", [line(fn, x, y) for x, y in P], exhaustive=True, judge=lambda l, o: "PANIC" in o,
                          rule="binary helper vs mirror on all pairs of strings up to length %d + random" % n2))
    # the laws of the statement, evaluated on the real code
    for law in ["law_ext", "law_name", "law_dir_base", "law_first", "law_last", "law_parse_paths"]:
        kq = (lambda l: ("KF-C15-ext", "kf_ext_class\t" + l.split("\t", 1)[1])) if law == "law_ext" else None
        sts.append(Stream(law, "spec", [line(law, s) for s in U], [line("true")] * len(U), known_query=kq,
                          rule="the statement's law evaluated on the implementation"))
    sts.append(Stream("law_trim_protocol", "spec", [line("law_trim_protocol", s) for s in U + proto], [line("true")] * len(U + proto)))
    for law in ["law_trim_prefix", "law_trim_prefix_id", "law_trim_suffix", "law_trim_suffix_id", "law_has", "law_mash", "law_concat"]:
        sts.append(Stream(law, "spec", [line(law, x, y) for x, y in P], [line("true")] * len(P)))
    return sts


def c15_known(l, impl_out, model_out):
    return None


PROPS["C15"] = {
    "streams": c15_streams,
    "rule": "exhaustive short strings / pairs over an alphabet with separators, dots, ':' and 2-, 3-, 4-byte characters, plus random longer ones; "
            "every helper vs its mirror and every law of the statement on the real code; distinct = distinct argument tuples",
    "trusted": ["Base/PathLex.v model of std::path (validated here by the std_* streams)",
                "str::to_lowercase enters trim_protocol only through ASCII letters (stream lowercase-scan)"],
    "assumptions": ["std::path and str primitives behave as Base/PathLex.v, Base/Str.v", "paths are valid UTF-8"],
}


# ---------------------------------------------------------------------------------------------
import itertools, re, os
from rvlib import hx


def envspec(env):
    return ";".join("%s=%s" % (k, hx(v)) for k, v in sorted(env.items()) if v is not None) or "-"


ENV_VALUES = {"unset": None, "empty": "", "plain": "val", "sep": "x/y", "abs": "/abs/x"}


def c17_envs(tier):
    envs = []
    # (HOME is used verbatim: the root itself, and values ending in separators, are values like any other)
    homes = [None, "", "/home/u", "rel/h", "/h$V", "/", "/h/"] if tier == "quick" else [None, "", "/home/u", "rel/h", "/h$V", "/", "/home/ü", "/h/", "//", "/h//"]
    vs = list(ENV_VALUES.values())
    for h in homes:
        for v in vs:
            for w in ([None, "w"] if tier == "quick" else vs):
                envs.append({"HOME": h, "V": v, "W": w})
    return envs


NAME_RE = r"[^${}/~]+"


def c17_in_domain(l, out):
    """inside the statement's specified domain: plain text, ~ forms, $NAME / ${NAME} with a bare name
    ending at '$', '/' or the end, or one of the listed failures"""
    f = l.split("\t")
    p = bytes.fromhex(f[2]).decode()
    if p.count("~") > 1:
        return True
    if p.count("~") == 1 and not (p == "~" or p.startswith("~/")):
        return True
    body = p[1:] if p.startswith("~") else p
    for comp in body.split("/"):
        if "{" in comp.replace("${", "") or "}" in re.sub(r"\$\{" + NAME_RE + r"\}", "", comp):
            # stray braces: only the empty-name failure is specified
            if re.search(r"\$(\$|\}|$|\{\})", comp) and not re.search(r"^[^$]*\$[^$}{]", comp):
                continue
            return False
        if not re.fullmatch(r"([^$]*|\$\{" + NAME_RE + r"\}|\$" + NAME_RE + r"(?=\$|$))*\$?", comp):
            return False
    return True


def c17_streams(tier, rng, ctx):
    toks = ["a", "~", "/", "$V", "${V}", "$W", "$", "{", "}", "é", "${W}b", "."]
    n = 4 if tier == "quick" else 5
    templates = set()
    for d in range(0, n + 1):
        for t in itertools.product(toks, repeat=d):
            templates.add("".join(t))
    templates = sorted(templates)
    if tier == "quick":
        templates = templates[:0] + rng.sample(templates, 6000) + ["~", "~/", "~/a", "a$", "$", "${}", "$V.txt", "foo/$V/bar", "~/~", "a/~", "~a", "${V", "$V}", "$$", "~//a"]
    sts = []
    for i, env in enumerate(c17_envs(tier)):
        es = envspec(env)
        lines = ["\t".join(["expand", es, hx(t)]) for t in templates]
        impl_env = {"HOME": env["HOME"], "V": env["V"], "W": env["W"]}
        if i == 0:
            # the environment changing between two calls of ONE process: each expansion reads the environment as it is then
            seq = []
            homes = ["/h1", "/h2", "-"]
            for h1 in homes:
                for h2 in homes:
                    for p1 in ["~", "~/x", "$HOME/x", "plain"]:
                        for p2 in ["~", "~/x", "$HOME/x"]:
                            seq.append("\t".join(["expand_seq", hx(h1) if h1 != "-" else "-", hx(p1), hx(h2) if h2 != "-" else "-", hx(p2)]))

            def seq_law(ln, out):
                f = ln.split("\t")
                h2 = None if f[3] == "-" else bytes.fromhex(f[3]).decode()
                p2 = bytes.fromhex(f[4]).decode()
                r2 = out.split(";")[-1]
                if h2 is None:
                    return r2.startswith("E:")
                want = h2 if p2 == "~" else h2 + "/x"
                return r2 == "S:" + want.encode().hex()
            sts.append(Stream("expand-env-changes", "pycheck", seq, pycheck=seq_law, exhaustive=True, impl_env=impl_env,
                              rule="two expansions in one process with HOME set, changed or removed in between: the second reads the environment as it is then"))
        sts.append(Stream("expand-env%02d" % i, "mirror", lines, judge=c17_in_domain, impl_env=impl_env,
                          nontrivial=lambda l, o: ("24" in l.split("\t")[2] or "7e" in l.split("\t")[2]),
                          rule="env %s: every template of <= %d tokens from %s (own process)" % (es, n, " ".join(toks))))
    return sts


PROPS["C17"] = {
    "streams": c17_streams,
    "rule": "environments {HOME, V, W} x {unset, empty, plain, with '/', absolute, ...}, each in its own harness process, x templates of tokens "
            "{lit, ~, /, $V, ${V}, $W, $, {, }, multi-byte}; non-trivial = the template contains '~' or '$'; distinct = distinct (environment, template)",
    "trusted": ["process environment as a finite map; std::env::var reports NotPresent for an unset name"],
    "assumptions": ["environment = finite map string -> string (DESIGN §4.9)",
                    "components combine with PathBuf::push semantics (an absolute value replaces what precedes it): pinned by the crate's own test /foo/${HOME}"],
}


def c05_streams(tier, rng, ctx):
    alpha = ["/", ".", "~", "$", ":", "a", "é"]
    n = 5 if tier == "quick" else 6
    strs = list(all_strings(alpha, n))
    if tier == "quick":
        strs = list(all_strings(alpha, 4)) + rng.sample(strs, 8000)
    extra = ["file://a", "FILE:///a/b", "http://x/../y", "ftp://", "https://é", "file:/a", "a//b", "~/a/..", "~/../..", "$V/x", "${V}/../y", "x/$V",
             "../../../..", "./.", "a/./../b/", "////", "..", "../a", "a/../../b",
             # a scheme prefix together with an expansion, in the text and in a variable's value (P = file:///foo/bar): expansion comes first, then the prefix goes
             "file://~/foo", "ftp://~", "HTTPS://~/a/../b", "file://$V", "file://$V/x", "http://${V}", "$P", "$P/x", "${P}/../y", "~/$P", "x/$P", "file://$P"]
    strs += extra
    # longer arguments built from components: every sequence of up to five of '..', '.', a name and an empty component, relative and rooted
    import itertools
    for k in range(1, 6):
        for t in itertools.product(["..", ".", "a", ""], repeat=k):
            strs.append("/".join(t))
            if k <= 4:
                strs.append("/" + "/".join(t))
    strs = list(dict.fromkeys(strs))
    base = os.path.join(ctx["work"], "..", "..", "sb", "c05")
    base = os.path.normpath(base)
    cwds = ["/", "/a", "/a/b", "/a/b/é"]
    sts = []
    homes = ["/home/u", None, "/a/b"] if tier == "quick" else ["/home/u", None, "/a/b", "", "rel"]
    for hi, home in enumerate(homes):
        env = {"HOME": home, "V": "/abs/x" if hi == 0 else "v", "P": "file:///foo/bar"}
        es = envspec(env)
        impl_env = {"HOME": home, "V": env["V"], "P": env["P"], "W": None}
        lm = ["\t".join(["abs_m", es, hx(c), hx(s)]) for c in cwds for s in strs]
        sts.append(Stream("abs-memfs-h%d" % hi, "mirror", lm, judge=lambda l, o: True, impl_env=impl_env, exhaustive=True,
                          nontrivial=lambda l, o: o.startswith("S:") and o[2:] != l.split("\t")[3],
                          rule="Memfs::abs vs mirror: strings over %s x cwds %s, HOME=%r" % ("".join(alpha), cwds, home)))
        ls = ["\t".join(["abs_s", es, hx(base + (c if c != "/" else "")), hx(s)]) for c in cwds for s in rng.sample(strs, min(len(strs), 3000)) + extra]
        sts.append(Stream("abs-stdfs-h%d" % hi, "mirror", ls, judge=lambda l, o: True, impl_env=impl_env,
                          rule="Stdfs::abs (process cwd set inside a sandbox) vs the same mirror"))
    return sts


PROPS["C05"] = {
    "streams": c05_streams,
    "rule": "strings over {/ . ~ $ : a é} up to the tier's length x cwds of a depth-3 tree x HOME values, on Memfs and on Stdfs (real process cwd in a sandbox); "
            "non-trivial = abs succeeds and changes the string; distinct = distinct (env, cwd, path)",
    "trusted": ["Base/PathLex.v model of std::path; process environment as a finite map; std::env::current_dir returns the directory set by set_current_dir"],
    "assumptions": ["cwd is a clean absolute path (Memfs: invariant of set_cwd; Stdfs: the kernel's getcwd)", "paths and environment values are valid UTF-8"],
}


# ---------------------------------------------------------------------------------------------
XDG_VARS = ["HOME", "XDG_CONFIG_HOME", "XDG_CONFIG_DIRS", "XDG_DATA_HOME", "XDG_DATA_DIRS", "XDG_CACHE_HOME",
            "XDG_STATE_HOME", "XDG_RUNTIME_DIR", "PATH", "SUDO_UID", "SUDO_GID"]
XDG_FNS = ["config_dir", "cache_dir", "data_dir", "state_dir", "runtime_dir", "sys_config_dirs", "sys_data_dirs", "path_dirs"]


def c18_streams(tier, rng, ctx):
    single = [None, "", "/x/cfg", "rel", "/ü/é"]
    lists = [None, "", "/a", "/a::/b:", "::", "/a:/b:/c", ":/z"]
    nums = [None, "", "1000", "+7", "abc", "4294967295", "4294967296", "-1", "12 "]
    dom = {"HOME": [None, "/home/u", "", "/h/", "h"], "XDG_CONFIG_HOME": single, "XDG_CONFIG_DIRS": lists,
           "XDG_DATA_HOME": single, "XDG_DATA_DIRS": lists, "XDG_CACHE_HOME": single, "XDG_STATE_HOME": single,
           "XDG_RUNTIME_DIR": [None, "", "/run/user/1"], "PATH": lists, "SUDO_UID": nums, "SUDO_GID": nums}
    nconf = 300 if tier == "quick" else 3000
    confs = []
    # each value of each variable with the others random (covers all singles), plus random products
    for var, vals in dom.items():
        for v in vals:
            c = {k: rng.choice(vs) for k, vs in dom.items()}
            c[var] = v
            confs.append(c)
    while len(confs) < nconf:
        confs.append({k: rng.choice(vs) for k, vs in dom.items()})
    groups = []
    for c in confs:
        es = envspec(c)
        lines = ["\t".join(["xdg", es, fn]) for fn in XDG_FNS]
        for uid, gid in [(0, 0), (0, 5), (1000, 1000), (1, 0)]:
            lines.append("\t".join(["getrids", es, str(uid), str(gid)]))
        groups.append((dict(c), lines))
    sts = [Stream("xdg-env", "mirror", None, groups=groups, judge=lambda l, o: True,
                  nontrivial=lambda l, o: True,
                  rule="%d environment configurations (every listed value of every variable at least once, the rest random), one process each; all 8 lookup functions + getrids" % len(confs))]
    # vfs.config_dir(name): which candidate directories contain the file
    sb = os.path.normpath(os.path.join(ctx["work"], "..", "..", "sb", "c18"))
    gm, gs = [], []
    name = "app.toml"
    cands = ["/c/home", "/etc/xdg", "/d1", "/d2", "/ü"]
    k = 0
    for home_set in [True, False]:
        for dirs in [None, "", "/d1:/d2", "/d2::/d1:", "/etc/xdg:/c/home:/ü", "/c/home"]:
            for r in range(len(cands) + 1):
                for sub in itertools.combinations(cands, r):
                    k += 1
                    env = {v: None for v in XDG_VARS}
                    env["HOME"] = "/c" if home_set else None
                    env["XDG_CONFIG_HOME"] = "/c/home" if home_set and r % 2 == 0 else None
                    env["XDG_CONFIG_DIRS"] = dirs
                    if not home_set:
                        env["XDG_CONFIG_HOME"] = "/c/home" if r % 2 else None
                    files = [d + "/" + name for d in sub]
                    gm.append((dict(env), ["\t".join(["vfs_config_dir_m", envspec(env), hx(name), ",".join(hx(x) for x in files)])]))
                    if k % 5 == 0:
                        root = "%s/%d" % (sb, k)
                        env2 = {kk: (None if v is None else ":".join((root + p) if p else p for p in v.split(":"))) for kk, v in env.items()}
                        files2 = [root + x for x in files]
                        gs.append((env2, ["\t".join(["vfs_config_dir_s", envspec(env2), hx(name), ",".join(hx(x) for x in files2), hx(root)])]))
    sts.append(Stream("vfs-config-dir-memfs", "mirror", None, groups=gm, judge=lambda l, o: True, exhaustive=True,
                      rule="Memfs::config_dir: subsets of candidate directories containing the file x settings of HOME / XDG_CONFIG_HOME / XDG_CONFIG_DIRS"))
    sts.append(Stream("vfs-config-dir-stdfs", "mirror", None, groups=gs, judge=lambda l, o: True,
                      rule="Stdfs::config_dir on a sandbox (XDG_* pointing under it)"))
    return sts


PROPS["C18"] = {
    "streams": c18_streams,
    "rule": "environment configurations over HOME, XDG_*, PATH, SUDO_* with values {unset, empty, single, lists with empty segments, ...}, one harness process per configuration; "
            "for config_dir(name) the subsets of candidate directories that contain the file, on Memfs and on a Stdfs sandbox; distinct = distinct (configuration, call)",
    "trusted": ["process environment as a finite map", "tools/translators.py gen_consts (variable names and defaults lifted from src/sys/user.rs into Gen/Consts.v)"],
    "assumptions": ["environment = finite map string -> string", "std u32::from_str = optional '+', decimal digits, value <= 2^32-1"],
}

# c_path.py — streams for the pure path properties (C14, C16, C15, C17, C05, C18).
from props import Stream
from gen import all_strings, random_string, line
from rvlib import unhx

PROPS = {}


def nontriv_changed(l, out):
    # non-trivial: the function changed its input
    f = l.split("\t")
    return out != "S:" + f[1]


def c14_streams(tier, rng, ctx):
    maxlen = 9 if tier == "quick" else 11
    inputs = list(all_strings("/.ab", maxlen))
    nrand = 20000 if tier == "quick" else 200000
    rand = [random_string(rng, 24) for _ in range(nrand)]
    ex = [line("clean", s) for s in inputs]
    rl = [line("clean", s) for s in rand]
    rule_ex = "every string over {/ . a b} of length <= %d" % maxlen
    sts = [
        Stream("pathlex-components", "mirror", [line("components", s) for s in inputs] + [line("components", s) for s in rand],
               rule=rule_ex + " + random wide-alphabet strings; std::path components vs PathLex.components"),
        Stream("clean-mirror", "mirror", ex + rl, nontrivial=nontriv_changed, exhaustive=True,
               rule=rule_ex + " + random; sys::clean vs mirror Clean.clean"),
        Stream("clean-spec", "spec", ex + rl, [line("clean_spec", s) for s in inputs + rand],
               rule="sys::clean vs the denotational normal form (spec)"),
        Stream("clean-go", "spec", ex + rl, [line("go_clean", s) for s in inputs + rand],
               rule="sys::clean vs a line-by-line transliteration of Go's path.Clean"),
        Stream("clean-idem", "spec", [line("clean2", s) for s in inputs + rand], [line("clean_spec", s) for s in inputs + rand],
               rule="clean(clean s) vs spec(s): idempotence on the implementation"),
    ]
    return sts


PROPS["C14"] = {
    "streams": c14_streams,
    "rule": "exhaustive strings over {/ . a b} up to the tier's length bound plus random wide-alphabet strings; "
            "non-trivial = clean changes the input; distinct = distinct input strings",
    "trusted": ["Base/PathLex.v model of std::path (components/push/render), validated by stream pathlex-components"],
    "assumptions": ["std::path::Path::components / PathBuf::push behave as Base/PathLex.v (validated, not verified)",
                    "paths are valid UTF-8"],
}


# ---------------------------------------------------------------------------------------------
def clean_abs_paths(names, maxdepth):
    import itertools
    out = []
    for d in range(maxdepth + 1):
        for t in itertools.product(names, repeat=d):
            out.append("/" + "/".join(t))
    return out


def c16_streams(tier, rng, ctx):
    names = ["a", "b", "é"] if tier == "quick" else ["a", "b", "é", "a.b"]
    depth = 4 if tier == "quick" else 5
    paths = clean_abs_paths(names, depth)
    if tier == "thorough":
        paths = paths[:400] + rng.sample(paths, 600)
    pairs = [(p, b) for p in paths for b in paths]
    # random deeper pairs with multi-byte names
    pool = ["a", "b", "c", "語", "😀x", "é", "..a", "a..", ".x", "x y"]
    for _ in range(3000 if tier == "quick" else 30000):
        pre = [rng.choice(pool) for _ in range(rng.randint(0, 6))]
        p = pre + [rng.choice(pool) for _ in range(rng.randint(0, 5))]
        b = pre + [rng.choice(pool) for _ in range(rng.randint(0, 5))]
        pairs.append(("/" + "/".join(p), "/" + "/".join(b)))
    impl = [line("relative", p, b) for p, b in pairs]
    # arguments outside the theorem's hypothesis (unclean / relative) keep the mirror honest
    odd = []
    for _ in range(5000 if tier == "quick" else 50000):
        odd.append(line("relative", random_string(rng, 10, alphabet=["/", ".", "a", "b", "é"]),
                        random_string(rng, 10, alphabet=["/", ".", "a", "b", "é"])))

    def post(l, out):
        f = l.split("\t")
        r = out[2:] if out.startswith("S:") else "00"
        return "\t".join(["relative_check", f[1], f[2], r])

    def nontriv(l, out):
        f = l.split("\t")
        return f[1] != f[2]
    return [
        Stream("relative-mirror", "mirror", impl + odd, nontrivial=nontriv, exhaustive=True,
               rule="all ordered pairs of clean absolute paths (<= %d components over %d names) + random deeper pairs + unclean arguments" % (depth, len(names))),
        Stream("relative-spec", "spec", impl, [line("relative_spec", p, b) for p, b in pairs], nontrivial=nontriv,
               rule="sys::relative vs render(relative_spec) on clean absolute pairs"),
        Stream("relative-check", "check", impl, post=post, nontrivial=nontriv,
               rule="the property's own checker (relative, '..'* then normals, count, clean(join(base, r)) == path) applied to the implementation's result"),
    ]


PROPS["C16"] = {
    "streams": c16_streams,
    "rule": "all ordered pairs of clean absolute paths of the bounded namespace plus random deep pairs; non-trivial = path != base; distinct = distinct (path, base)",
    "trusted": ["Base/PathLex.v model of std::path"],
    "assumptions": ["std::path behaves as Base/PathLex.v (validated by the pathlex streams of C14/C15)", "paths are valid UTF-8"],
}


# ---------------------------------------------------------------------------------------------
def c15_streams(tier, rng, ctx):
    alpha1 = ["/", ".", ":", "a", "é", "語", "😀", "~"]
    n1 = 5 if tier == "quick" else 6
    unary = list(all_strings(alpha1, n1))
    alpha2 = ["/", ".", "a", "é", ":", "😀"]
    n2 = 3 if tier == "quick" else 4
    short = list(all_strings(alpha2, n2))
    pairs = [(x, y) for x in short for y in short]
    nr = 20000 if tier == "quick" else 200000
    runary = [random_string(rng, 20) for _ in range(nr)]
    rpairs = [(random_string(rng, 12), random_string(rng, 6)) for _ in range(nr)]
    # scheme-shaped inputs for trim_protocol
    schemes = ["file://", "ftp://", "http://", "https://", "FILE://", "Http://", "hTTps://", "ftp:/", "file:", "//", "ſile://", "Kttp://", "İle://",
               "httpx://", "https:///", "file://ftp://", "ftp://ftp://", "a//file://"]
    proto = [s + t for s in schemes for t in ["", "a", "/a", "é/b", "//x", "HTTP://y"]] + \
            [random_string(rng, 6) + rng.choice(schemes) + random_string(rng, 6) for _ in range(2000)]
    U = unary + runary
    P = pairs + rpairs
    sts = []
    un_fns = ["base", "first", "dir", "ext", "name", "trim_ext", "trim_first", "trim_last", "is_empty", "parse_paths",
              "std_parent", "std_file_name", "std_extension", "components"]
    for fn in un_fns:
        sts.append(Stream("h-" + fn, "mirror", [line(fn, s) for s in U],
                          exhaustive=True, rule="sys::%s vs mirror on all strings over %s up to length %d + random" % (fn, "".join(alpha1), n1)))
    sts.append(Stream("h-trim_protocol", "mirror", [line("trim_protocol", s) for s in U + proto]))
    for fn in ["trim_prefix", "trim_suffix", "has", "has_prefix", "has_suffix", "mash", "concat", "std_push", "std_eq", "std_starts_with"]:
        sts.append(Stream("h-" + fn, "mirror", [line(fn, x, y) for x, y in P], exhaustive=True,
                          rule="binary helper vs mirror on all pairs of strings up to length %d + random" % n2))
    # the laws of the statement, evaluated on the real code
    for law in ["law_ext", "law_name", "law_dir_base", "law_first", "law_last", "law_parse_paths"]:
        kq = (lambda l: ("KF-C15-ext", "kf_ext_class\t" + l.split("\t", 1)[1])) if law == "law_ext" else None
        sts.append(Stream(law, "spec", [line(law, s) for s in U], [line("true")] * len(U), known_query=kq,
                          rule="the statement's law evaluated on the implementation"))
    sts.append(Stream("law_trim_protocol", "spec", [line("law_trim_protocol", s) for s in U + proto], [line("true")] * len(U + proto)))
    for law in ["law_trim_prefix", "law_trim_prefix_id", "law_trim_suffix", "law_trim_suffix_id", "law_has", "law_mash", "law_concat"]:
        sts.append(Stream(law, "spec", [line(law, x, y) for x, y in P], [line("true")] * len(P)))
    return sts


def c15_known(l, impl_out, model_out):
    return None


PROPS["C15"] = {
    "streams": c15_streams,
    "rule": "exhaustive short strings / pairs over an alphabet with separators, dots, ':' and 2-, 3-, 4-byte characters, plus random longer ones; "
            "every helper vs its mirror and every law of the statement on the real code; distinct = distinct argument tuples",
    "trusted": ["Base/PathLex.v model of std::path (validated here by the std_* streams)",
                "str::to_lowercase enters trim_protocol only through ASCII letters (stream lowercase-scan)"],
    "assumptions": ["std::path and str primitives behave as Base/PathLex.v, Base/Str.v", "paths are valid UTF-8"],
}

#!/usr/bin/env python3
# seedtest.py <seed-name> <worktree> [property ids...] — confirm a seeded change (demo passes without,
# fails with; lib tests unchanged), store it under seeded/<seed-name>/, run our checks against it.
import json, os, shutil, subprocess, sys
V = os.path.dirname(os.path.dirname(os.path.abspath(__file__)))


def run(cmd, cwd=None, timeout=3000):
    p = subprocess.run(cmd, shell=True, cwd=cwd, stdout=subprocess.PIPE, stderr=subprocess.STDOUT, text=True, timeout=timeout)
    return p.returncode, p.stdout


def main():
    name, wt = sys.argv[1], sys.argv[2]
    pids = [a for a in sys.argv[3:] if not a.startswith("--")]
    made_wt = False
    if "--fast" in sys.argv:
        # no demonstration run: the saved seed is applied to /repo, the checks run, /repo is restored
        wt = os.path.join(V, "seeded", name)
        fast_body(name, pids)
        return
    if wt == "-":
        # fresh scratch worktree from the saved seed
        wt = "/tmp/wt/seedtest-" + name
        run("git -C /repo worktree remove --force %s" % wt)
        rc, out = run("git -C /repo worktree add -q --detach %s HEAD" % wt)
        if rc != 0:
            print(out); sys.exit(2)
        made_wt = True
        shutil.copytree(os.path.join(V, "seeded", name), os.path.join(wt, "SEED"))
    try:
        body(name, wt, pids)
    finally:
        if made_wt:
            run("git -C /repo worktree remove --force %s" % wt)


def fast_body(name, pids):
    dst = os.path.join(V, "seeded", name)
    meta = json.load(open(os.path.join(dst, "meta.json")))
    pids = pids or [meta["property"]]
    rc, out = run("git -C /repo status --porcelain")
    if out.strip():
        print("/repo not clean, refusing"); sys.exit(4)
    saved = {}
    for pid in pids:
        ep = os.path.join(V, "evidence", pid + ".json")
        if os.path.exists(ep):
            saved[ep] = open(ep).read()
    caught = False
    res = {}
    try:
        rc, out = run("git -C /repo apply %s" % os.path.join(dst, "patch.diff"))
        if rc != 0:
            print("patch does not apply to /repo:", out); sys.exit(5)
        for pid in pids:
            rc, out = run("./rv check %s --tier quick" % pid, cwd=V)
            vl = [l for l in out.split("\n") if l.startswith("VIOLATION")]
            print(pid, rc, vl[:1])
            res[pid] = {"exit": rc, "lines": vl[:3] + ["re-run with --fast after the checks were strengthened"]}
            caught = caught or rc == 1
    finally:
        run("git -C /repo checkout -- .")
        for ep, txt in saved.items():
            open(ep, "w").write(txt)
    meta["caught"] = caught
    meta.setdefault("our_checks", {})
    meta["our_checks"].update(res)
    json.dump(meta, open(os.path.join(dst, "meta.json"), "w"), indent=1)
    print("CAUGHT" if caught else "MISSED")


def body(name, wt, pids):
    seed = os.path.join(wt, "SEED")
    meta = json.load(open(os.path.join(seed, "meta.json")))
    if not pids:
        pids = [meta["property"]]
    ran = []
    confirm = "--no-confirm" not in sys.argv
    run("git checkout -- . && git clean -fdq tests", cwd=wt)
    os.makedirs(os.path.join(wt, "tests"), exist_ok=True)
    demo_src = os.path.join(seed, "demo.rs")
    shutil.copy(demo_src, os.path.join(wt, "tests", "seed_demo.rs"))
    rc0, out0 = run("cargo test --offline --test seed_demo 2>&1 | tail -15", cwd=wt)
    ok_without = "test result: ok" in out0
    ran.append("without patch: cargo test --test seed_demo -> %s" % ("pass" if ok_without else "FAIL"))
    rc, out = run("git apply SEED/patch.diff", cwd=wt)
    if rc != 0:
        print("patch does not apply:", out); sys.exit(2)
    rc1, out1 = run("cargo test --offline --test seed_demo 2>&1 | tail -15", cwd=wt)
    fails_with = "test result: FAILED" in out1 or "panicked" in out1 or "timed out" in out1
    ran.append("with patch: cargo test --test seed_demo -> %s" % ("fail" if fails_with else "PASSES"))
    rc2, out2 = run("cargo test --offline --lib 2>&1 | grep -E '^test result|FAILED' | head", cwd=wt)
    lib_ok = "224 passed; 1 failed" in out2
    ran.append("with patch: cargo test --lib -> %s" % out2.strip().replace("\n", " | "))
    run("git checkout -- . && rm -f tests/seed_demo.rs", cwd=wt)
    print("\n".join(ran))
    if not (ok_without and fails_with and lib_ok):
        print("SEED NOT CONFIRMED"); print(out0[-800:]); print(out1[-800:])
        sys.exit(3)
    dst = os.path.join(V, "seeded", name)
    os.makedirs(dst, exist_ok=True)
    for f in os.listdir(seed):
        if os.path.abspath(seed) != os.path.abspath(dst) and os.path.isfile(os.path.join(seed, f)):
            shutil.copy(os.path.join(seed, f), dst)
    # run our checks against it
    rc, out = run("git -C /repo status --porcelain")
    if out.strip():
        print("/repo not clean, refusing"); sys.exit(4)
    results = {}
    # evidence files describe the unchanged tree: keep them aside while the seed is applied
    saved = {}
    for pid in pids:
        ep = os.path.join(V, "evidence", pid + ".json")
        if os.path.exists(ep):
            saved[ep] = open(ep).read()
    try:
        rc, out = run("git -C /repo apply %s" % os.path.join(dst, "patch.diff"))
        if rc != 0:
            print("patch does not apply to /repo:", out); sys.exit(5)
        for pid in pids:
            rc, out = run("./rv check %s --tier quick" % pid, cwd=V)
            lines = [l for l in out.split("\n") if l.startswith("VIOLATION") or l.startswith(pid)]
            results[pid] = {"exit": rc, "lines": lines}
            print(pid, rc, lines)
            for l in lines:
                if l.startswith("VIOLATION") and "replay=" in l:
                    rp = l.split("replay=")[1].split()[0]
                    if os.path.exists(rp):
                        shutil.copy(rp, os.path.join(dst, "replay_%s.json" % pid))
    finally:
        run("git -C /repo checkout -- .")
        for ep, txt in saved.items():
            open(ep, "w").write(txt)
    meta["confirmed"] = ran
    meta["our_checks"] = results
    meta["caught"] = any(r["exit"] == 1 for r in results.values())
    json.dump(meta, open(os.path.join(dst, "meta.json"), "w"), indent=1)
    print("CAUGHT" if meta["caught"] else "MISSED")


if __name__ == "__main__":
    main()

# props.py — per-property check orchestration: proofs, audit, correspondence, violation search,
# known findings, evidence.
import json, os, random, sys, time, traceback
import rvlib
from rvlib import CheckError, log, VERIF, BUILD, COQ, REPO

TRUSTED_COMMON = [
    "Coq 8.16.1 kernel (coqc; vm_compute used in reflection proofs and witnesses; no native_compute)",
    "extraction: ExtrOcamlBasic only (Extract Inductive bool/option/unit/list/prod/sumbool/sumor; Extract Inlined Constant andb/orb); OCaml 4.13.1 ocamlopt",
    "ocaml/conv.ml + driver.ml (script parsing, UTF-8 <-> list N, printing)",
    "harness/ (Rust: calls rivia, maps errors to kinds)",
    "tools/*.py (generators, differ, translators)",
]


class Stream:
    """A correspondence stream: the same cases run on the implementation (rvh) and the model (rvm).
    role = 'mirror' (model mirrors the code) or 'spec' (model side is the property's own definition:
    a disagreement is a failing input by itself)."""

    def __init__(self, name, role, impl_lines, model_lines=None, judge=None, nontrivial=None,
                 exhaustive=False, rule="", canon=None, impl_env=None, known=None, post=None, known_query=None, groups=None, judge_query=None, pycheck=None, canon_line=None):
        self.name = name
        self.role = role
        self.impl_lines = impl_lines
        self.model_lines = model_lines if model_lines is not None else impl_lines
        self.judge = judge            # judge(impl_line, impl_out) -> True if the property fails on this input
        self.nontrivial = nontrivial  # nontrivial(impl_line, impl_out) -> bool
        self.exhaustive = exhaustive
        self.rule = rule
        self.canon = canon            # canon(out) -> out  (applied to both sides)
        self.impl_env = impl_env
        self.known = known            # known(impl_line, impl_out, model_out) -> finding id or None
        # role 'check': post(impl_line, impl_out) -> model line evaluating the property's own boolean
        # checker on the implementation's output; the expected model output is "B:1"
        self.post = post
        # known_query(impl_line) -> (finding id, model line evaluating the finding's Coq class predicate)
        self.known_query = known_query
        # groups: [(env, lines)] — one implementation process per group, each with its own environment;
        # impl_lines is then the concatenation of the groups' lines
        # judge_query(impl_line, impl_out) -> model line running the property's own checker on the
        # implementation's behaviour; the answer "B:0" means the property fails on this input
        self.judge_query = judge_query
        # role 'pycheck': pycheck(impl_line, impl_out) -> True when the implementation's behaviour on this
        # case satisfies the property (an executable checker independent of the mirror)
        self.pycheck = pycheck
        self.canon_line = canon_line   # canon_line(impl_line, out) -> out (applied to both sides, after canon)
        self.groups = groups
        if groups is not None:
            self.impl_lines = [l for _, ls in groups for l in ls]
            if model_lines is None:
                self.model_lines = self.impl_lines


def load_known_findings():
    p = os.path.join(VERIF, "known_findings.json")
    if not os.path.exists(p):
        return {"findings": [], "fixed": []}
    return json.load(open(p))


def registry():
    import c_path, c_core, c_mem, c_wrap, c_std
    reg = {}
    for mod in (c_path, c_core, c_mem, c_wrap, c_std):
        reg.update(mod.PROPS)
    return reg


def run_check(pid, tier, seed):
    t0 = time.time()
    reg = registry()
    if pid not in reg:
        print("unknown or unclaimed property %s" % pid)
        return 2
    P = reg[pid]
    ev = {"property_id": pid, "tier": tier, "seed": seed, "level": "proof",
          "coverage": {}, "assumptions": [], "wall_s": 0.0, "violations": 0}
    cov = ev["coverage"]
    violations = []      # (replay dict)
    notes = []
    replay_dir = os.path.join(VERIF, "replays")
    os.makedirs(replay_dir, exist_ok=True)

    # ---- 1. proofs
    gen_failed = rvlib.coq_prepare()
    pfile = os.path.join(COQ, "Properties", pid + ".v")
    thms = rvlib.theorems_in(pfile)
    targets = ["Properties/%s.vo" % pid] + list(P.get("extra_targets", []))
    ok, out, dt_make = rvlib.coq_make(targets)
    checker_cmds = ["cd coq && make -j%d %s" % (rvlib.NCPU, " ".join(targets))]
    proof_ok = ok
    broken = []
    if not ok:
        # which file / lemma failed
        tail = out[-2500:]
        broken.append({"kind": "proof", "detail": tail})
        log("PROOF BUILD FAILED for %s:\n%s" % (pid, tail))
    deps = rvlib.coq_deps(pfile)
    for gfile, msg in gen_failed.items():
        if gfile in deps:
            # the model this property's theorems are about could not be regenerated from the current source
            broken.append({"kind": "translator", "detail": "%s could not be regenerated: %s" % (gfile, msg)})
            proof_ok = False
            log("TRANSLATOR FAILED for %s: %s" % (gfile, msg))
    hygiene = rvlib.coq_audit_grep()
    shape = rvlib.check_properties_file_shape(pfile)
    if hygiene:
        broken.append({"kind": "hygiene", "detail": hygiene})
        proof_ok = False
    if shape:
        broken.append({"kind": "shape", "detail": shape})
        proof_ok = False
    assumptions = {}
    if ok:
        assumptions, dt_audit = rvlib.coq_print_assumptions(pid)
        checker_cmds.append("coqc Audit_%s.v (Print Assumptions for every property theorem)" % pid)
        for th, ax in assumptions.items():
            if ax is None or any(a not in rvlib.ALLOWED_AXIOMS for a in ax):
                broken.append({"kind": "axioms", "detail": "%s depends on %s" % (th, ax)})
                proof_ok = False
    if tier == "thorough" and ok:
        rc, o, dt = rvlib.sh("timeout 2400 coqchk -silent -o -Q . RV RV.Properties.%s > coqchk.%s.out 2>&1; echo rc=$?; tail -30 coqchk.%s.out; rm -f coqchk.%s.out" % (pid, pid, pid, pid),
                             cwd=COQ, check=False, timeout=2500)
        checker_cmds.append("coqchk -silent -o -Q . RV RV.Properties.%s" % pid)
        cov["coqchk_tail"] = o.strip().split("\n")[-12:]
        cov["coqchk_seconds"] = round(dt, 1)
        if "rc=124" in o:
            # the independent re-check did not finish in time: said so, not counted as a failure of the proofs (make and Print Assumptions passed)
            notes.append("coqchk did not finish within 2400 s; the kernel check by coqc (make) and Print Assumptions stand")
        else:
            if "Axioms: <none>" not in o and "Axioms:" in o:
                notes.append("coqchk lists axioms of loaded libraries: see coqchk_tail")
            if "rc=0" not in o or "Fatal" in o or "Error" in o:
                broken.append({"kind": "coqchk", "detail": o[-1500:]})
                proof_ok = False
    discharged = len(thms) if proof_ok else 0
    cov.update({"obligations": len(thms), "discharged": discharged, "theorems": thms,
                "print_assumptions": {k: (v if v else "Closed under the global context") for k, v in assumptions.items()},
                "checker_cmd": " && ".join(checker_cmds),
                "trusted_base": TRUSTED_COMMON + P.get("trusted", [])})
    ev["assumptions"] = P.get("assumptions", [])

    # ---- 2. the tie: build driver + harness, run streams
    rvm = rvlib.build_model_driver()
    try:
        rvh, dt_h = rvlib.build_harness()
    except CheckError as e:
        rvh = None
        broken.append({"kind": "harness-build", "detail": str(e)[-2500:]})
        log(str(e)[-3000:])
    evaluations = 0
    distinct_nt = 0
    nt_all = set()
    samples = []
    stream_stats = []
    ref_cov = [0, 0, 0]
    mismatches_total = 0
    known_hit = {}
    if rvh:
        rng = random.Random(seed)
        work = os.path.join(BUILD, "work", pid)
        os.makedirs(work, exist_ok=True)
        streams = P["streams"](tier, rng, {"rvm": rvm, "rvh": rvh, "work": work, "seed": seed})
        spec_failed_inputs = set()
        listed_kf = set(f["id"] for f in load_known_findings().get("findings", []) if f["property"] == pid)
        mirror_mismatch = []
        for st in streams:
            ts = time.time()
            if st.groups is not None:
                io = [o for outs in rvlib.run_groups(rvh, st.groups, work, st.name + ".impl") for o in outs]
            else:
                io = rvlib.run_sharded(rvh, st.impl_lines, work, st.name + ".impl", env=st.impl_env, hang_is_outcome=True)
            if st.role == "pycheck":
                io_raw = io
                io = ["B:1" if st.pycheck(l, o) else "B:0 impl=" + o[:400] for l, o in zip(st.impl_lines, io_raw)]
                mo = ["B:1"] * len(io)
            elif st.role == "check":
                st.model_lines = [st.post(l, o) for l, o in zip(st.impl_lines, io)]
                mo = rvlib.run_sharded(rvm, st.model_lines, work, st.name + ".model")
                io_raw = io
                io = ["B:1" if o == "B:1" else "B:0 impl=" + r for o, r in zip(mo, io_raw)]
                mo = ["B:1"] * len(io)
            else:
                mo = rvlib.run_sharded(rvm, st.model_lines, work, st.name + ".model")
                io_raw = io
            n = len(st.impl_lines)
            evaluations += n
            nt = set()
            mism = []
            for i in range(n):
                a, b = io[i], mo[i]
                raw_i = io_raw[i]
                if raw_i == "NOTRUN-AFTER-HANG":
                    continue          # the batch was killed at a hang: the lines after it were never run and say nothing
                if raw_i == "HANG":
                    # the code under test did not come back from this call: a failing input in its own right (no property tolerates a hang)
                    mism.append((i, st.impl_lines[i], "HANG", mo[i] if st.role not in ("pycheck", "check") else "B:1"))
                    continue
                if st.canon:
                    a, b = st.canon(a), st.canon(b)
                if st.canon_line:
                    a, b = st.canon_line(st.impl_lines[i], a), st.canon_line(st.impl_lines[i], b)
                if a != b:
                    mism.append((i, st.impl_lines[i], io_raw[i] if st.role == "pycheck" else io[i], mo[i]))
                if st.nontrivial is None or st.nontrivial(st.impl_lines[i], io_raw[i]):
                    nt.add(st.impl_lines[i].split("\t", 1)[-1])
            nt_all |= nt
            distinct_nt = len(nt_all)
            k = min(3, n)
            for i in sorted(rng.sample(range(n), k)) if n else []:
                samples.append({"stream": st.name, "impl_in": st.impl_lines[i], "impl_out": io[i], "model_out": mo[i]})
            stream_stats.append({"stream": st.name, "role": st.role, "cases": n, "nontrivial_distinct": len(nt),
                                 "mismatches": len(mism), "exhaustive": st.exhaustive, "rule": st.rule,
                                 "wall_s": round(time.time() - ts, 2)})
            if st.role not in ("pycheck",):
                rc = rvlib.refcov(work, st.name + ".model")
                if rc[1]:
                    stream_stats[-1]["reference_fs"] = {"calls": rc[1], "covered_by_reference": rc[0], "disagreements": rc[2]}
                    ref_cov[0] += rc[0]; ref_cov[1] += rc[1]; ref_cov[2] += rc[2]
            mismatches_total += len(mism)
            # classify
            kq = {}
            if st.known_query and mism:
                qs = [st.known_query(line) for (_, line, _, _) in mism[:5000]]
                qs = [q for q in qs if q]
                if qs:
                    ans = rvlib.run_sharded(rvm, [q[1] for q in qs], work, st.name + ".kf")
                    for (fid, ql), an in zip(qs, ans):
                        if an == "B:1":
                            kq[ql.split("\t", 1)[1]] = fid
            jq = {}
            if st.judge_query and mism:
                qs = [(line, st.judge_query(line, a)) for (_, line, a, _) in mism[:3000]]
                qs = [(l, q) for l, q in qs if q]
                if qs:
                    ans = rvlib.run_sharded(rvm, [q for _, q in qs], work, st.name + ".jq")
                    for (l, _), an in zip(qs, ans):
                        jq[l] = (an == "B:0")
            for (i, line, a, b) in mism[:5000]:
                kid = st.known(line, a, b) if st.known else None
                if not kid and kq:
                    kid = kq.get(line.split("\t", 1)[1])
                if kid and kid not in listed_kf:
                    kid = None      # only a finding listed in known_findings.json for this property is set aside
                if kid:
                    known_hit.setdefault(kid, (st.name, line, a, b))
                    continue
                failing = None
                if a == "HANG":
                    failing = True
                elif st.role in ("spec", "check", "pycheck"):
                    failing = True
                elif st.judge:
                    failing = st.judge(line, a)
                if not failing and line in jq:
                    failing = jq[line]
                rec = {"stream": st.name, "role": st.role, "impl_in": line, "impl_out": a, "model_out": b,
                       "fails_property": bool(failing)}
                if failing:
                    violations.append(rec)
                else:
                    mirror_mismatch.append(rec)
        # mirror mismatches with no failing input among them
        if mirror_mismatch and not violations:
            broken.append({"kind": "correspondence", "detail": mirror_mismatch[:5]})
        elif mirror_mismatch:
            notes.append("%d mirror disagreements besides the failing inputs" % len(mirror_mismatch))
    cov.update({"evaluations": evaluations, "distinct_nontrivial": distinct_nt,
                "rule": P.get("rule", ""), "samples": samples[:12], "streams": stream_stats,
                "traces_validated_against_impl": evaluations, "mismatches": mismatches_total})
    if rvh and ref_cov[1]:
        cov["reference_fs"] = {"calls_in_compared_histories": ref_cov[1], "covered_by_reference": ref_cov[0], "disagreements_with_mirror": ref_cov[2],
                               "note": "the reference tree filesystem (Memfs/Spec.v, RefineHistory.v spec_step) run beside the mirror on its own tree; a call it does not "
                                       "cover (copy onto existing entries, with links or follow; unsorted or following traversals; a chmod leaving a node at value 0; chown / chmod with follow) re-reads the tree from the mirror's state"}

    # ---- 3. report
    kf = load_known_findings()
    for f in kf.get("findings", []):
        if f["property"] == pid:
            hit = known_hit.get(f["id"])
            if hit or f.get("always_report"):
                print("KNOWN-FINDING: property=%s %s %s" % (pid, f["id"], f["what"]))
            else:
                notes.append("known finding %s no longer reproduces" % f["id"])
    rc = 0
    vcount = 0
    if violations:
        # shrink: report the shortest failing input first
        violations.sort(key=lambda r: len(r["impl_in"]))
        path = os.path.join(replay_dir, "%s-%s-%d.json" % (pid, tier, seed))
        rvlib.write_json(path, {"property": pid, "tier": tier, "seed": seed, "kind": "failing-input",
                                "failing": violations[:20], "broken": broken[:5],
                                "how_to_replay": "./rv replay " + path})
        print("VIOLATION property=%s replay=%s" % (pid, path))
        vcount = len(violations)
        rc = 1
    elif broken:
        path = os.path.join(replay_dir, "%s-%s-%d.json" % (pid, tier, seed))
        rvlib.write_json(path, {"property": pid, "tier": tier, "seed": seed, "kind": "no-failing-input-found",
                                "no_longer_checks": broken,
                                "note": "a proof obligation, the audit or the correspondence no longer checks; "
                                        "the search over the explored inputs found no input on which the property fails"})
        print("VIOLATION property=%s replay=%s no-failing-input-found" % (pid, path))
        vcount = 1
        rc = 1
    ev["violations"] = vcount
    ev["wall_s"] = round(time.time() - t0, 2)
    if notes:
        cov["notes"] = notes
    rvlib.write_json(os.path.join(VERIF, "evidence", pid + ".json"), ev)
    print("%s %s: theorems %d/%d, %d cases (%d distinct non-trivial), %d mismatches, %.1fs -> %s" % (
        pid, tier, discharged, len(thms), evaluations, distinct_nt, mismatches_total, ev["wall_s"],
        "OK" if rc == 0 else "VIOLATION"))
    return rc


def run_replay(path):
    r = json.load(open(path))
    pid = r["property"]
    rvm = rvlib.build_model_driver()
    rvh, _ = rvlib.build_harness()
    work = os.path.join(BUILD, "work", "replay")
    os.makedirs(work, exist_ok=True)
    if r.get("kind") != "failing-input":
        print(json.dumps(r, indent=1)[:4000])
        return 1
    bad = 0
    for f in r["failing"]:
        io = rvlib.run_sharded(rvh, [f["impl_in"]], work, "replay.impl")
        print("input: %s\n  implementation now: %s\n  recorded impl: %s\n  model/spec: %s" % (
            f["impl_in"], io[0], f["impl_out"], f["model_out"]))
        if io[0] != f["model_out"]:
            bad += 1
    print("%d of %d recorded inputs still fail" % (bad, len(r["failing"])))
    return 1 if bad else 0

#!/usr/bin/env python3
# mkdesign.py — refreshes the three generated tables of DESIGN.md Part I (known findings, repairs, seeds) from
# known_findings.json and seeded/*/meta.json. The tables sit between <!-- X --> and <!-- /X --> markers.
import json, os, re, glob
V = os.path.dirname(os.path.dirname(os.path.abspath(__file__)))


def esc(s):
    return s.replace("|", "\\|").replace("\n", " ")


def main():
    k = json.load(open(os.path.join(V, "known_findings.json")))
    kf = ["| id | property | what fails | why recorded rather than repaired |", "|----|----|----|----|"]
    for f in k["findings"]:
        kf.append("| %s | %s | %s | %s |" % (f["id"], f["property"], esc(f["what"]), esc(f["disposition"])))
    fx = ["| property | commit | what failed |", "|----|----|----|"]
    for f in k["fixed"]:
        m = re.match(r"fixed: property=(\S+) (\S+) (.*)", f["line"], re.S)
        pid = m.group(1) + ((" (+" + ",".join(f["also"]) + ")") if f.get("also") else "")
        fx.append("| %s | `%s` | %s |" % (pid, m.group(2), esc(m.group(3))))
    sd = ["| seed | what it breaks | caught by |", "|----|----|----|"]
    for d in sorted(glob.glob(os.path.join(V, "seeded", "*", ""))):
        m = json.load(open(os.path.join(d, "meta.json")))
        kinds = []
        for pid, r in m.get("our_checks", {}).items():
            for l in r.get("lines", []):
                if l.startswith("VIOLATION"):
                    kinds.append(pid + (": proof / correspondence only" if "no-failing-input-found" in l else ": failing input"))
        if not kinds and m.get("caught"):
            kinds = [pid + ": caught on re-run after the checks were strengthened" for pid, r in m.get("our_checks", {}).items() if r.get("exit") == 1]
        sd.append("| %s | %s | %s |" % (os.path.basename(d[:-1]), esc(m.get("breaks", ""))[:260], "; ".join(kinds) or "MISSED"))
    p = os.path.join(V, "DESIGN.md")
    s = open(p).read()
    for tag, rows in (("KF-TABLE", kf), ("FIX-TABLE", fx), ("SEED-TABLE", sd)):
        a, b = "<!-- %s -->" % tag, "<!-- /%s -->" % tag
        i, j = s.index(a) + len(a), s.index(b)
        s = s[:i] + "\n" + "\n".join(rows) + "\n" + s[j:]
    open(p, "w").write(s)
    print("findings %d, fixes %d, seeds %d" % (len(k["findings"]), len(k["fixed"]), len(sd) - 2))


if __name__ == "__main__":
    main()

# rvlib.py — build steps, stream execution, diffing, evidence for the rivia verification runner.
import fcntl, hashlib, json, os, re, shutil, subprocess, sys, time

VERIF = os.path.dirname(os.path.dirname(os.path.abspath(__file__)))
REPO = os.environ.get("RIVIA_REPO", "/repo")
BUILD = os.path.join(VERIF, "_build")
COQ = os.path.join(VERIF, "coq")
NCPU = os.cpu_count() or 4
GUARD = "rivia_verif"
RUSTFLAGS = "--cfg %s --check-cfg cfg(%s) -A warnings" % (GUARD, GUARD)

FORBIDDEN = re.compile(
    r"\b(Admitted|admit|Axiom|Axioms|Parameter|Parameters|Conjecture|Conjectures|Abort All)\b|Unset Guard|bypass_check|type-in-type|impredicative-set|Admit Obligations|Unset Positivity|Unset Universe")


class CheckError(Exception):
    pass


def log(*a):
    print(*a, file=sys.stderr, flush=True)


def sh(cmd, cwd=None, timeout=1800, env=None, check=True, quiet=True):
    e = dict(os.environ)
    e.update({"CARGO_NET_OFFLINE": "true"})
    if env:
        e.update(env)
    t0 = time.time()
    p = subprocess.run(cmd, cwd=cwd, shell=isinstance(cmd, str), env=e, stdout=subprocess.PIPE,
                       stderr=subprocess.STDOUT, timeout=timeout, text=True, errors="replace")
    dt = time.time() - t0
    if p.returncode != 0 and check:
        raise CheckError("command failed (%s) after %.1fs:\n%s" % (cmd, dt, p.stdout[-4000:]))
    return p.returncode, p.stdout, dt


class Lock:
    def __init__(self, name):
        os.makedirs(BUILD, exist_ok=True)
        self.path = os.path.join(BUILD, name + ".lock")

    def __enter__(self):
        self.f = open(self.path, "w")
        fcntl.flock(self.f, fcntl.LOCK_EX)
        return self

    def __exit__(self, *a):
        fcntl.flock(self.f, fcntl.LOCK_UN)
        self.f.close()


# ------------------------------------------------------------------------------------------------
# Coq build and audit
def coq_files():
    out = []
    for root, _, files in os.walk(COQ):
        for f in files:
            if f.endswith(".v"):
                out.append(os.path.join(root, f))
    return sorted(out)


def gen_translated():
    """Regenerate the translated Coq files from /repo's current source."""
    import translators
    return translators.run_all(REPO, COQ)


def coq_deps(vfile, seen=None):
    """transitive `From RV Require ...` dependencies of a .v file, as paths relative to coq/"""
    seen = set() if seen is None else seen
    txt = strip_coq_comments(open(vfile, encoding="utf-8").read())
    for m in re.finditer(r"From\s+RV\s+Require\s+(?:Import\s+|Export\s+)?(.*?)\.(?=\s|$)", txt, re.S):
        for mod in m.group(1).split():
            rel = mod.replace(".", "/") + ".v"
            if rel not in seen and os.path.exists(os.path.join(COQ, rel)):
                seen.add(rel)
                coq_deps(os.path.join(COQ, rel), seen)
    return seen


def coq_prepare():
    """-> {generated file: message} for translators that failed on the current source"""
    with Lock("coq"):
        failed = gen_translated()
        mk = os.path.join(COQ, "Makefile")
        cp = os.path.join(COQ, "_CoqProject")
        if not os.path.exists(mk) or os.path.getmtime(mk) < os.path.getmtime(cp):
            sh(["coq_makefile", "-f", "_CoqProject", "-o", "Makefile"], cwd=COQ)
        return failed


def coq_make(targets, timeout=1500):
    """Build the given .vo targets (and what they depend on). Returns (ok, output, seconds)."""
    with Lock("coq"):
        cmd = ["timeout", str(timeout), "make", "-j%d" % NCPU] + targets
        rc, out, dt = sh(cmd, cwd=COQ, timeout=timeout + 30, check=False)
        return rc == 0, out, dt


def coq_audit_grep():
    bad = []
    for f in coq_files():
        txt = open(f, encoding="utf-8").read()
        # strip comments (non-nested handling is enough: we never write forbidden words in code)
        code = strip_coq_comments(txt)
        for m in FORBIDDEN.finditer(code):
            line = code.count("\n", 0, m.start()) + 1
            bad.append("%s:%d: %s" % (os.path.relpath(f, VERIF), line, m.group(0)))
        # Variable/Hypothesis outside a Section
        depth = 0
        for i, ln in enumerate(code.split("\n"), 1):
            s = ln.strip()
            if re.match(r"Section\s+\w+", s):
                depth += 1
            elif re.match(r"End\s+\w+\s*\.", s) and depth > 0:
                depth -= 1
            elif re.match(r"(Variable|Variables|Hypothesis|Hypotheses|Context)\b", s) and depth == 0:
                bad.append("%s:%d: %s outside Section" % (os.path.relpath(f, VERIF), i, s.split()[0]))
    return bad


def strip_coq_comments(txt):
    out = []
    depth = 0
    i = 0
    n = len(txt)
    instr = False
    while i < n:
        if depth == 0 and txt[i] == '"':
            instr = not instr
            out.append(txt[i]); i += 1; continue
        if not instr and txt.startswith("(*", i):
            depth += 1; i += 2; continue
        if not instr and depth > 0 and txt.startswith("*)", i):
            depth -= 1; i += 2; continue
        if depth == 0:
            out.append(txt[i])
        elif txt[i] == "\n":
            out.append("\n")
        i += 1
    return "".join(out)


def theorems_in(prop_file):
    """Names of the theorems stated in Properties/<id>.v"""
    code = strip_coq_comments(open(prop_file, encoding="utf-8").read())
    return re.findall(r"^\s*Theorem\s+(\w+)", code, flags=re.M)


def check_properties_file_shape(prop_file):
    """Properties files contain only Theorem ... Proof. exact ... Qed. + Print Assumptions + imports."""
    code = strip_coq_comments(open(prop_file, encoding="utf-8").read())
    # remove theorem statements+proofs
    rest = re.sub(r"Theorem\s+\w+\s*:.*?Proof\.\s*exact\s+[^.]*?\.\s*Qed\.", "", code, flags=re.S)
    rest = re.sub(r"Print Assumptions\s+\w+\s*\.", "", rest)
    rest = re.sub(r"From\s+[\w.]+\s+Require\s+(Import|Export)\s+.*?\.\s", " ", rest + " ", flags=re.S)
    rest = re.sub(r"Require\s+(Import|Export)\s+.*?\.\s", " ", rest, flags=re.S)
    rest = re.sub(r"(Import|Export)\s+\w+\s*\.", "", rest)
    rest = re.sub(r"(Local\s+)?Open Scope\s+\w+\s*\.", "", rest)
    rest = re.sub(r"Check\s+\w+\s*\.", "", rest)
    if rest.strip():
        return "unexpected content in %s: %r" % (os.path.basename(prop_file), rest.strip()[:200])
    return None


ALLOWED_AXIOMS = set()   # property theorems are expected to be closed under the global context


def coq_print_assumptions(pid, timeout=600):
    """Compile Audit_<id>.v which Requires Properties/<id>.v and prints assumptions of each theorem.
    Returns dict theorem -> list of axioms ([] = closed)."""
    pf = os.path.join(COQ, "Properties", pid + ".v")
    names = theorems_in(pf)
    adir = os.path.join(BUILD, "audit")
    os.makedirs(adir, exist_ok=True)
    af = os.path.join(adir, "Audit_%s.v" % pid)
    with open(af, "w") as f:
        f.write("From RV Require Import Properties.%s.\n" % pid)
        for n in names:
            f.write('Goal True. idtac "@@THM %s". Abort.\nPrint Assumptions %s.\n' % (n, n))
    with Lock("coq"):
        rc, out, dt = sh(["timeout", str(timeout), "coqc", "-Q", COQ, "RV", af], cwd=adir, check=False)
    if rc != 0:
        raise CheckError("audit coqc failed:\n" + out[-3000:])
    res = {}
    cur = None
    for ln in out.split("\n"):
        m = re.match(r"@@THM (\w+)", ln.strip())
        if m:
            cur = m.group(1); res[cur] = None; continue
        if cur is None:
            continue
        if "Closed under the global context" in ln:
            res[cur] = []
        elif ln.startswith("Axioms:"):
            res[cur] = []
        elif res.get(cur) is not None and re.match(r"^(\S+)\s*:", ln):
            res[cur].append(re.match(r"^(\S+)\s*:", ln).group(1))
    return res, dt


# ------------------------------------------------------------------------------------------------
# extraction + OCaml driver
def file_hash(paths):
    h = hashlib.sha256()
    for p in sorted(paths):
        h.update(p.encode())
        with open(p, "rb") as f:
            h.update(f.read())
    return h.hexdigest()


def build_model_driver():
    """Extract Api.v to OCaml and build rvm. Returns path of rvm."""
    with Lock("ocaml"):
        ok, out, dt = coq_make(["Api.vo"])
        if not ok:
            raise CheckError("model (Api.vo) does not build:\n" + out[-3000:])
        ex = os.path.join(BUILD, "extract")
        oc = os.path.join(BUILD, "ocaml")
        os.makedirs(ex, exist_ok=True)
        os.makedirs(oc, exist_ok=True)
        srcs = [os.path.join(COQ, "Api.vo"), os.path.join(COQ, "Extract.v")] + \
            [os.path.join(VERIF, "ocaml", f) for f in sorted(os.listdir(os.path.join(VERIF, "ocaml"))) if f.endswith(".ml")]
        hsh = file_hash(srcs)
        stamp = os.path.join(oc, "stamp")
        rvm = os.path.join(oc, "rvm")
        if os.path.exists(stamp) and os.path.exists(rvm) and open(stamp).read() == hsh:
            return rvm
        with Lock("coq"):
            sh(["timeout", "600", "coqc", "-Q", COQ, "RV", os.path.join(COQ, "Extract.v")], cwd=ex)
            for f in ("Extract.vo", "Extract.glob", ".Extract.aux", "Extract.vok", "Extract.vos"):
                p = os.path.join(COQ, f)
                if os.path.exists(p):
                    os.remove(p)
        for f in ("model.ml", "model.mli"):
            shutil.copy(os.path.join(ex, f), oc)
        for f in os.listdir(os.path.join(VERIF, "ocaml")):
            if f.endswith(".ml"):
                shutil.copy(os.path.join(VERIF, "ocaml", f), oc)
        if os.path.exists(rvm):
            os.remove(rvm)
        rc, out, _ = sh("ocamlfind ocamlopt -O3 -w -a -package unix -linkpkg model.mli model.ml conv.ml str_find.ml extops.ml memdrv.ml lin.ml extra.ml driver.ml -o rvm 2>&1",
                        cwd=oc, check=False)
        if rc != 0 or not os.path.exists(rvm):
            raise CheckError("OCaml driver does not build:\n" + out[-3000:])
        open(stamp, "w").write(hsh)
        return rvm


def build_harness():
    """cargo build of the harness against the current /repo tree with hooks on."""
    with Lock("cargo"):
        hd = os.path.join(VERIF, "harness")
        env = {"RUSTFLAGS": RUSTFLAGS, "CARGO_TARGET_DIR": os.path.join(BUILD, "harness-target")}
        rc, out, dt = sh(["cargo", "build", "--offline", "--release"], cwd=hd, env=env, check=False, timeout=1500)
        if rc != 0:
            raise CheckError("harness does not build against /repo:\n" + out[-4000:])
        return os.path.join(BUILD, "harness-target", "release", "rvh"), dt


# ------------------------------------------------------------------------------------------------
# streams
def hx(s):
    if isinstance(s, str):
        s = s.encode("utf-8")
    return s.hex()


def unhx(h):
    return bytes.fromhex(h)


def refcov(workdir, tag):
    """what the model driver wrote beside its shard outputs: calls the reference filesystem covered, all calls, disagreements"""
    import glob
    c = t = b = 0
    for fn in glob.glob(os.path.join(workdir, "%s.*.out.refcov" % tag)):
        try:
            x = open(fn).read().split()
            c, t, b = c + int(x[0]), t + int(x[1]), b + int(x[2])
        except Exception:
            pass
    return c, t, b


def run_sharded(binary, script_lines, workdir, tag, nshards=NCPU, timeout=1500, env=None, extra_args=(), hang_is_outcome=False):
    """Run `binary <shard> <out>` over shards of the script in parallel; returns list of output lines."""
    os.makedirs(workdir, exist_ok=True)
    n = len(script_lines)
    nshards = max(1, min(nshards, (n + 199) // 200))
    size = (n + nshards - 1) // nshards
    procs = []
    for i in range(nshards):
        part = script_lines[i * size:(i + 1) * size]
        inp = os.path.join(workdir, "%s.%d.in" % (tag, i))
        outp = os.path.join(workdir, "%s.%d.out" % (tag, i))
        with open(inp, "w") as f:
            f.write("\n".join(part) + ("\n" if part else ""))
        e = dict(os.environ)
        if env:
            for k, v in env.items():
                if v is None:
                    e.pop(k, None)
                else:
                    e[k] = v
        if os.path.exists(outp + ".refcov"):
            os.remove(outp + ".refcov")
        p = subprocess.Popen([binary, inp, outp] + list(extra_args), stdout=subprocess.DEVNULL, stderr=subprocess.PIPE, env=e)
        procs.append((p, outp, len(part), inp))
    # wait for the shards; a shard of the implementation that is still running long after all the others have finished is a hang of the code
    # under test at its next line (reported as such, with the lines after it marked not run), not a failure of the machinery
    t0 = time.time()
    done_at = {}
    errs = {}
    hung = set()
    while len(done_at) + len(hung) < len(procs):
        for i, (p, outp, cnt, inp) in enumerate(procs):
            if i in done_at or i in hung:
                continue
            if p.poll() is not None:
                done_at[i] = time.time() - t0
                try:
                    errs[i] = p.stderr.read() if p.stderr else b""
                except Exception:
                    errs[i] = b""
        running = [i for i in range(len(procs)) if i not in done_at and i not in hung]
        if not running:
            break
        el = time.time() - t0
        if el > timeout:
            if not hang_is_outcome:
                for i in running:
                    procs[i][0].kill()
                raise CheckError("%s timed out on %s" % (binary, procs[running[0]][3]))
            for i in running:
                procs[i][0].kill(); hung.add(i)
            break
        if hang_is_outcome and done_at and len(done_at) >= max(1, len(procs) // 2):
            longest = max(done_at.values())
            if el > max(120.0, 8.0 * longest + 60.0):
                for i in running:
                    procs[i][0].kill(); hung.add(i)
                break
        time.sleep(0.05)
    outs = []
    for i, (p, outp, cnt, inp) in enumerate(procs):
        lines = open(outp, encoding="utf-8", errors="replace").read().split("\n") if os.path.exists(outp) else []
        if lines and lines[-1] == "":
            lines.pop()
        if i in hung:
            lines = lines[:cnt]
            if len(lines) < cnt:
                lines = lines + ["HANG"] + ["NOTRUN-AFTER-HANG"] * (cnt - len(lines) - 1)
        elif p.returncode != 0 or len(lines) != cnt:
            # a crash (abort) of the whole batch: report the line where it stopped
            err = errs.get(i, b"")
            lines = lines + ["CRASH rc=%s %s" % (p.returncode, (err or b"")[-200:].decode(errors="replace").replace("\n", " "))] * (cnt - len(lines))
        outs.extend(lines)
    return outs


def write_json(path, obj):
    os.makedirs(os.path.dirname(path), exist_ok=True)
    tmp = path + ".tmp"
    with open(tmp, "w") as f:
        json.dump(obj, f, indent=1, sort_keys=False)
        f.write("\n")
    os.replace(tmp, path)


def run_groups(binary, groups, workdir, tag, timeout=600):
    """groups: list of (env dict or None, lines). One process per group (its own environment), run on a
    thread pool. Returns list of output-line lists, in order."""
    from concurrent.futures import ThreadPoolExecutor
    os.makedirs(workdir, exist_ok=True)

    def one(i_g):
        i, (env, lines) = i_g
        inp = os.path.join(workdir, "%s.g%d.in" % (tag, i))
        outp = os.path.join(workdir, "%s.g%d.out" % (tag, i))
        with open(inp, "w") as f:
            f.write("\n".join(lines) + ("\n" if lines else ""))
        e = dict(os.environ)
        if env:
            for k, v in env.items():
                if v is None:
                    e.pop(k, None)
                else:
                    e[k] = v
        p = subprocess.run([binary, inp, outp], stdout=subprocess.DEVNULL, stderr=subprocess.PIPE, env=e, timeout=timeout)
        out = open(outp, encoding="utf-8", errors="replace").read().split("\n") if os.path.exists(outp) else []
        if out and out[-1] == "":
            out.pop()
        if p.returncode != 0 or len(out) != len(lines):
            out = out + ["CRASH rc=%s" % p.returncode] * (len(lines) - len(out))
        return out
    with ThreadPoolExecutor(max_workers=NCPU) as ex:
        return list(ex.map(one, enumerate(groups)))

# c_wrap.py — streams for C13 (the Vfs / VfsEntry wrappers are transparent) and the Stdfs history generator.
import os
from props import Stream
from rvlib import hx, BUILD
from c_mem import op, envspec, MEM_ENV, QUERIES, bfs_histories

PROPS = {}


def sandbox_env(tag):
    env = dict(MEM_ENV)
    env["RVH_SANDBOX"] = os.path.join(BUILD, "sb", tag)
    return env


SAFE_SPECIAL = ["/", ".", "..", "~", "~/x", "$V", "//a//b/", "a/../b", "/a/./b/../c", "./a", "b/"]


def std_histories(rng, n, length, mode, names=("a", "b", "é"), special=0.08, with_links=True):
    """histories that stay inside a sandbox: depth <= 3, at most one '..' beyond the cwd"""
    def rpath():
        if rng.random() < special:
            return rng.choice(SAFE_SPECIAL)
        d = rng.randint(1, 3)
        p = "/".join(rng.choice(names) for _ in range(d))
        return ("/" if rng.random() < 0.8 else "") + p
    hs = []
    for _ in range(n):
        ops = []
        for _ in range(rng.randint(1, length)):
            k = rng.random()
            if k < 0.14:
                ops.append(op("mkdir_p", rpath()))
            elif k < 0.26:
                ops.append(op("mkfile", rpath()))
            elif k < 0.34:
                ops.append(op("write_all", rpath(), rng.choice([b"", b"x", "é\nb\r\n".encode(), b"\xff\xfe", b"line1\nline2"])))
            elif k < 0.39:
                ops.append(op("append_all", rpath(), rng.choice([b"", b"y", b"\n"])))
            elif k < 0.47 and with_links:
                ops.append(op("symlink", rpath(), rng.choice([rpath(), "../" + rng.choice(names), rng.choice(names)])))
            elif k < 0.54:
                ops.append(op("move_p", rpath(), rpath()))
            elif k < 0.60:
                ops.append(op("copy", rpath(), rpath()))
            elif k < 0.66:
                ops.append(op("remove", rpath()))
            elif k < 0.70:
                ops.append(op("remove_all", rpath()))
            elif k < 0.75:
                ops.append(op("set_cwd", rpath()))
            elif k < 0.79:
                ops.append(op(rng.choice(["write_lines", "append_lines"]), rpath(), rng.choice([[], ["a"], ["a", "", "b"], ["é"]])))
            elif k < 0.83:
                ops.append(op(rng.choice(["chmod"]), rpath(), rng.choice([0o700, 0o644, 0o555, 0o777, 0o600])))
            elif k < 0.86:
                ops.append(op(rng.choice(["mkdir_m", "mkfile_m"]), rpath(), rng.choice([0o700, 0o644, 0o555])))
            elif k < 0.90:
                ops.append("entries:%s:%s" % (hx(rpath()), rng.choice(["sort", "sort,df", "sort,files", "sort,dirs,min=1", "sort,cf", "sort,max=1", "sort,follow=1"])))
            elif k < 0.93:
                ops.append(op(rng.choice(["paths", "dirs", "files", "all_paths", "all_dirs", "all_files"]), rpath()))
            else:
                ops.append(op(rng.choice([q for q in QUERIES if q != "owner"]), rpath()))
        hs.append("\t".join(["hist", mode, envspec(MEM_ENV)] + ops))
    return hs


TREE = [op("mkdir_p", "/a/b"), op("write_all", "/a/f", b"hi"), op("mkfile_m", "/a/x", 0o755), op("symlink", "/l", "/a"), op("symlink", "/a/lf", "f"),
        op("symlink", "/dang", "/nope"), op("symlink", "/a/b/up", "../.."), op("chmod", "/a/f", 0o400), op("mkdir_p", "/é")]
STEPS = ["f1", "f0", "u", "c"]


def entry_lines(backend):
    seqs = [[]]
    for n in (1, 2, 3):
        seqs += [s + [x] for s in seqs if len(s) == n - 1 for x in STEPS]
    srcs = [hx(p) for p in ["/", "/a", "/a/f", "/a/x", "/l", "/a/lf", "/dang", "/a/b/up", "/é", "/nope", "a"]]
    srcs += ["entries:%s:%d" % (hx(r), f) for r in ["/", "/a", "/l"] for f in (0, 1)]
    out = []
    for src in srcs:
        for s in seqs:
            out.append("\t".join(["entrydv", backend, envspec(MEM_ENV), ";".join(TREE), src, ",".join(s)]))
    return out


def hash_order_canon(line, out):
    """two runs of the same history on two instances may differ where HashSet iteration order shows: unsorted
    traversal results (compared as multisets), the state left by a traversal-based call that failed half-way, and
    the state after a copy that follows links (two sources can map to one destination)"""
    import c_mem
    out = c_mem.walk_canon(c_mem.hist_canon(out))
    ops = line.split("\t")[3:]
    fs = out.split("\t")
    res_idx = [k for k, f in enumerate(fs) if not f.startswith("#")]
    for i, o in enumerate(ops):
        if i >= len(res_idx):
            break
        name = o.split(":")[0]
        if name in c_mem.TRAVERSING and fs[res_idx[i]].startswith("E:"):
            return "\t".join(fs[:res_idx[i]] + ["E:*failed-traversal"])
        if name == "copy_b" and "follow=1" in o:
            return "\t".join(fs[:res_idx[i] + 1] + ["#not-compared-after-follow-copy"])
    return out


def eq(line, out):
    if out.startswith("EQ\t") or out == "EQ":
        return True
    if out.startswith("DIFF\t") and "\t||\t" in out:
        a, b = out[5:].split("\t||\t", 1)
        return hash_order_canon(line, a) == hash_order_canon(line, b)
    return False


def c13_streams(tier, rng, ctx):
    import c_mem
    depth = 3 if tier == "quick" else 4
    hs, info = bfs_histories(ctx, tier, depth, 300 if tier == "quick" else 3000, mode="m", tag="c13")
    if tier == "quick" and len(hs) > 30000:
        hs = rng.sample(hs, 30000)
    hs = [h.replace("hist\tm\t", "hist\tdv\t", 1) for h in hs]
    rnd = [h.replace("hist\tm\t", "hist\tdv\t", 1) for h in c_mem.random_histories(rng, 2000 if tier == "quick" else 20000, 10, tier)]
    sd = std_histories(rng, 1500 if tier == "quick" else 15000, 10, "sdv")
    # every method with link arguments (a link to a directory, to a file, dangling, a path through a link), after set_cwd through a link too
    op = c_mem.op
    pre = [op("mkdir_p", "/d"), op("mkfile", "/f"), op("write_all", "/d/x", b"x"), op("symlink", "/ld", "/d"), op("symlink", "/lf", "/f"), op("symlink", "/dang", "/nope")]
    lp = ["/ld", "/lf", "/dang", "/ld/x", "ld", "/d/../ld"]
    one = ["set_cwd", "mkfile", "mkdir_p", "remove", "remove_all", "read_all", "read_lines", "readlink", "readlink_abs", "exists", "is_dir", "is_file", "is_symlink",
           "is_symlink_dir", "is_symlink_file", "is_exec", "is_readonly", "mode", "owner", "abs", "paths", "dirs", "files", "all_paths", "all_dirs", "all_files"]
    fixed = []
    for name in one:
        for a in lp:
            fixed.append("\t".join(["hist", "dv", c_mem.envspec(MEM_ENV)] + pre + [op(name, a), op("cwd"), op(name, "x")]))
    for a in lp:
        fixed.append("\t".join(["hist", "dv", c_mem.envspec(MEM_ENV)] + pre + [op("write_all", a, b"w"), op("append_all", a, b"a"), op("mkdir_m", a, 0o700), op("chmod", a, 0o600),
                                                                             op("chown", a, 7, 8), op("mkfile_m", a, 0o640), "entries:%s:sort,follow=1" % c_mem.hx(a)]))
        for b in lp + ["/new"]:
            for name in ["move_p", "copy", "symlink"]:
                fixed.append("\t".join(["hist", "dv", c_mem.envspec(MEM_ENV)] + pre + [op(name, a, b), op("cwd")]))
    env = dict(MEM_ENV)
    senv = sandbox_env("c13")
    return [
        Stream("vfs-memfs-transcript", "pycheck", fixed + hs + rnd, impl_env=env, pycheck=eq, nontrivial=lambda l, o: "\tok" in o or "\tp" in o,
               rule="every history of the model-guided BFS (%s, depth %d, full call alphabet incl. traversals, copy, chmod, chown) and random histories, and every method with link arguments "
                    "(link to a directory / file, dangling, through a link) on a fixed tree, run on a Memfs value directly and through Vfs::Memfs: per-call results and the complete final state must be identical" % (info, depth)),
        Stream("vfs-stdfs-transcript", "pycheck", sd, impl_env=senv, pycheck=eq, nontrivial=lambda l, o: "\tok" in o or "\tp" in o,
               rule="random sandbox-confined histories run on Stdfs directly and through Vfs::Stdfs: per-call results and the tree read back by an independent observer must be identical"),
        Stream("entry-memfs", "pycheck", entry_lines("mem"), impl_env=env, pycheck=eq, exhaustive=True,
               rule="entries from vfs.entry(p) and from traversals (followed and not) of a tree with files, dirs, links to both, dangling and upward links x every sequence of "
                    "follow(true) / follow(false) / upcast / clone up to length 3: all sixteen Entry accessors after each step, on the MemfsEntry itself and through VfsEntry"),
        Stream("entry-stdfs", "pycheck", entry_lines("std"), impl_env=senv, pycheck=eq, exhaustive=True,
               rule="the same for StdfsEntry in a sandbox"),
    ]


PROPS["C13"] = {
    "streams": c13_streams,
    "rule": "Memfs: every BFS history of the bounded namespace and random histories, direct vs wrapped, results and full state; Stdfs: random sandbox histories, direct vs wrapped, "
            "results and observed tree; entries: all accessor transcripts over follow / upcast / clone sequences up to length 3; distinct = distinct scripts",
    "trusted": ["tools/translators.py gen_routes (balanced-bracket parser of the wrapper impl blocks; fails closed)", "harness/src/wrap.rs (calls the wrapped backend value by matching on the enum)"],
    "assumptions": ["Rust enum dispatch: a match arm `Vfs::Memfs(x) => x.m(args)` evaluates exactly the call x.m(args) (Wrap/Transparent.v wrap_sem)"],
}


# ---------------------------------------------------------------------------------------------
# C02: Stdfs and Memfs are interchangeable (same calls, same results, same observed tree)
import re as _re


def backend_canon(t):
    """what the property compares: success or failure (not the error kind), returned values, the observed tree"""
    import c_mem
    fs = c_mem.walk_canon(c_mem.hist_canon(t)).split("\t")
    out = []
    for f in fs:
        if f.startswith("#cwd=") and ";T{" in f:
            # the working directory is process state, not part of the observed tree (names, kinds, bytes, link targets,
            # permission bits): once the last call has removed or moved it the two backends name it differently.
            # cwd() results are compared as returned values wherever a history calls it.
            f = "#T{" + f.split(";T{", 1)[1]
        if f.startswith("E:"):
            f = "E"
        elif f.startswith("I"):
            star = f.startswith("I*")
            items = ["E" if x.startswith("E:") else x for x in f[2 if star else 1:].split(",")]
            f = ("I*" if star else "I") + ",".join(sorted(items) if star else items)
        out.append(f)
    return "\t".join(out)


def x_split(out):
    parts = out.split("\t||\t")
    if len(parts) < 3:
        parts = out.split("||")
    m, s = parts[0].strip("\t"), parts[1].strip("\t")
    cut = parts[2].strip("\t") if len(parts) > 2 else ""
    return m, s, cut


def x_eq(line, out):
    if "\t||\t" not in out and "||" not in out:
        return False
    m, s, cut = x_split(out)
    return backend_canon(hash_order_canon(line, m)) == backend_canon(hash_order_canon(line, s))


def c02_alphabet(tier):
    import c_mem
    muts, qs = c_mem.alphabet(tier)
    m2, q2 = c_mem.walk_alphabet(tier)
    bad_m = {op("remove_all", "/")}
    muts = [x for x in muts + m2 if x not in bad_m and not x.startswith(("chown", "chown_b"))]
    qs = [x for x in qs + q2 if not x.startswith("owner:")]
    # the assert_vfs_* macros on both backends (C20 "on either backend"), traversals with option combinations (C08
    # "identically on both backends"), symbolic chmod (C11)
    for p in ["/a", "/b", "/a/b", "b"]:
        for mname in ["exists", "no_exists", "is_dir", "no_dir", "is_file", "no_file", "is_symlink", "no_symlink", "mkdir_p", "mkfile", "remove", "remove_all"]:
            qs.append("macro:%s:%s" % (mname, hx(p)))
        for d in ["x", ""]:
            qs.append("macro:read_all:%s:%s" % (hx(p), hx(d)))
            qs.append("macro:write_all:%s:%s" % (hx(p), hx(d)))
        for t in ["/a", "b"]:
            qs.append("macro:readlink:%s:%s" % (hx(p), hx(t)))
            qs.append("macro:readlink_abs:%s:%s" % (hx(p), hx(t)))
            if ("/" + p.lstrip("/")) != ("/" + t.lstrip("/")):
                # (a link onto itself leaves the domain inside the macro, whose checks are further calls)
                qs.append("macro:symlink:%s:%s" % (hx(p), hx(t)))
        for md in [0o755, 0o700, 0o1755]:
            qs.append("macro:mkdir_m:%s::%d" % (hx(p), md))
        for o in ["sort,min=1,cf", "sort,df,max=1", "sort,ff,cf,min=1", "sort,files,cf", "sort,dirs,min=1,max=2", "min=1", "cf", "sort,follow=1,min=1,cf"]:
            qs.append("entries:%s:%s" % (hx(p), o))
        for sym in ["f:a+x", "d:go-rwx,f:go-rw", "a:u=rw", "a:a-rwx"]:
            for o in ["", "follow=1", "norecurse"]:
                qs.append("chmod_b:%s:%s:%s" % (hx(p), o, hx(sym)))
    return muts, qs


def c_mem_envspec():
    return envspec(MEM_ENV)


def c02_streams(tier, rng, ctx):
    muts, qs = c02_alphabet(tier)
    depth = 2 if tier == "quick" else 3
    hs, info = bfs_histories(ctx, tier, depth, 250 if tier == "quick" else 2500, muts=muts, finals=qs, mode="x", tag="c02")
    if tier == "quick" and len(hs) > 12000:
        hs = rng.sample(hs, 12000)
    rnd = std_histories(rng, 3000 if tier == "quick" else 40000, 10, "x")
    rnd_nolinks = std_histories(rng, 1500 if tier == "quick" else 20000, 14, "x", with_links=False, special=0.15)
    senv = sandbox_env("c02")
    # directories that contain links (relative targets inside the directory, absolute targets outside it) moved or copied as a whole, then
    # every link read back and used
    lk = []
    base = [op("mkdir_p", "/a/sub"), op("write_all", "/a/file", b"F"), op("mkdir_p", "/o"), op("write_all", "/o/g", b"G")]
    links = [[op("symlink", "/a/sub/link", "../file")], [op("symlink", "/a/l", "file")], [op("symlink", "/a/sub/up", "..")], [op("symlink", "/a/abs", "/o/g")],
             [op("symlink", "/a/l", "sub")], [op("symlink", "/a/sub/link", "../file"), op("symlink", "/a/l2", "sub/link")]]
    acts = [[op("move_p", "/a", "/b")], [op("move_p", "/a", "/o")], [op("copy", "/a", "/b")], [op("copy", "/a", "/o")], [op("move_p", "/a/sub", "/s2")],
            [op("move_p", "/a", "/b"), op("move_p", "/b", "/c")]]
    roots = ["/a", "/b", "/o/a", "/s2", "/c", "/a/sub", "/b/sub", "/o/a/sub", "/c/sub"]
    names = ["link", "l", "up", "abs", "l2"]
    for ls in links:
        for ac in acts:
            probes = []
            for r in roots:
                for n in names:
                    q = r + "/" + n
                    probes += [op("readlink", q), op("readlink_abs", q), op("is_symlink_dir", q), op("is_symlink_file", q)]
            lk.append("\t".join(["hist", "x", c_mem_envspec()] + base + ls + ac + probes + [op("all_paths", "/")]))

    def nontrivial(l, o):
        return "\tok" in o or "\tp" in o
    return [
        Stream("backends-moved-links", "pycheck", lk, impl_env=senv, pycheck=x_eq, nontrivial=nontrivial, exhaustive=True,
               rule="directories containing links (relative targets inside them, absolute targets outside) moved or copied as a whole, to a new name and into an existing "
                    "directory, then readlink / readlink_abs / is_symlink_dir / is_symlink_file of every link at its new place: both backends side by side"),
        Stream("backends-bfs", "pycheck", hs, impl_env=senv, pycheck=x_eq, nontrivial=nontrivial, exhaustive=True,
               rule="every history of the model-guided BFS (%s, depth %d) over the C02 alphabet (create, write, append, read, list, traverse, query, chmod, copy, move, remove, symlink, "
                    "set_cwd; absolute / relative / unclean / ~ / $VAR spellings), run on Memfs and on Stdfs in a sandbox side by side; the history is cut before the first call whose "
                    "pre-state or arguments are outside the property's domain (evaluated on the Memfs state); success / failure, returned values and the observed tree must agree" % (info, depth)),
        Stream("backends-random", "pycheck", rnd, impl_env=senv, pycheck=x_eq, nontrivial=nontrivial,
               rule="random histories (<= 10 calls, three names incl. multi-byte, depth <= 3, links) side by side"),
        Stream("backends-random-nolinks", "pycheck", rnd_nolinks, impl_env=senv, pycheck=x_eq, nontrivial=nontrivial,
               rule="longer random histories without links (always inside the domain), more special spellings"),
    ]


PROPS["C02"] = {
    "streams": c02_streams,
    "rule": "Memfs and Stdfs side by side in one process per shard on the same histories (BFS over a bounded namespace + random), compared call by call on success / failure and returned values "
            "and, at the end, on the tree an independent std::fs observer reads back (names, kinds, bytes, link targets, permission bits) against the same view of the Memfs snapshot",
    "trusted": ["harness/src/stdhist.rs: sandbox re-rooting of absolute arguments and results, the std::fs observer, the domain predicate evaluated on the Memfs snapshot hook"],
    "assumptions": ["the checks run as root (no permission enforcement on the real filesystem, as in the brief's sandbox)", "owner queries and chown are not compared (Memfs starts every entry at uid/gid 1000)",
                    "error kinds are not compared (the property speaks of success or failure)"],
}


# ---------------------------------------------------------------------------------------------
# C04: Memfs operations are atomic and deadlock-free under concurrent use
def conc_line(setup, progs, iters, yield_n):
    return "\t".join(["conc", envspec(MEM_ENV), str(iters), str(yield_n), ";".join(setup)] + [";".join(p) for p in progs])


def conc_post(line, out):
    f = line.split("\t")
    return "\t".join(["lin", f[1], f[4], out] + f[5:])


def c04_programs(tier, rng):
    """thread programs over a shared small namespace: every single-step operation of the statement races with
    operations on the same and on related paths"""
    A = op("append_all", "/f", b"a")
    B = op("append_all", "/f", b"b")
    C = op("append_all", "/f", b"c")
    fixed = [
        ([], [[A, A], [B, B], [C, C]]),
        ([], [[A, B], [op("read_all", "/f"), op("exists", "/f"), op("read_all", "/f")], [C]]),
        ([], [[op("write_all", "/f", b"xx"), op("write_all", "/f", b"y")], [op("read_all", "/f"), op("read_all", "/f")], [op("append_all", "/f", b"z")]]),
        ([op("mkdir_p", "/d")], [[op("mkfile", "/d/a"), op("mkfile", "/d/b")], [op("paths", "/d"), op("all_files", "/d"), op("files", "/d")], [op("remove_all", "/d"), op("mkfile", "/d")]]),
        ([op("mkdir_p", "/d/e"), op("mkfile", "/d/e/f")], [[op("move_p", "/d", "/g")], [op("all_paths", "/d"), op("all_paths", "/g"), op("is_dir", "/d")], [op("copy", "/d", "/h"), op("all_paths", "/h")]]),
        ([op("mkfile", "/t")], [[op("symlink", "/l", "/t"), op("readlink", "/l")], [op("remove", "/t"), op("mkdir_p", "/t")], [op("is_symlink_file", "/l"), op("is_symlink_dir", "/l"), op("exists", "/l")]]),
        ([op("mkdir_p", "/a/b")], [[op("set_cwd", "/a/b"), op("mkfile", "x"), op("cwd")], [op("remove_all", "/a"), op("exists", "/a/b/x")], [op("abs", "y"), op("mkdir_p", "y")]]),
        ([], [[op("mkdir_m", "/m", 0o700), op("mode", "/m")], [op("mkdir_p", "/m"), op("mode", "/m")], [op("remove", "/m"), op("is_dir", "/m")]]),
        ([], [[op("write_lines", "/f", ["a", "b"]), op("read_lines", "/f")], [op("append_line", "/f", "c"), op("read_lines", "/f")], [op("append_lines", "/f", ["d", "e"])]]),
        ([op("mkdir_p", "/d")], [[op("mkfile", "/d/x"), op("dirs", "/")], [op("move_p", "/d", "/e"), op("files", "/e")], [op("remove", "/e/x"), op("remove", "/e"), op("remove", "/d")]]),
    ]
    # random programs
    paths = ["/f", "/d", "/d/f", "/d/e", "/g"]

    def rop():
        k = rng.random()
        p = rng.choice(paths)
        if k < 0.12:
            return op("mkdir_p", p)
        if k < 0.22:
            return op("mkfile", p)
        if k < 0.32:
            return op("append_all", p, rng.choice([b"a", b"b", b"c"]))
        if k < 0.40:
            return op("write_all", p, rng.choice([b"x", b"yy"]))
        if k < 0.48:
            return op("remove", p)
        if k < 0.54:
            return op("remove_all", p)
        if k < 0.62:
            return op("move_p", p, rng.choice(paths))
        if k < 0.68:
            return op("copy", p, rng.choice(paths))
        if k < 0.73:
            return op("symlink", p, rng.choice(paths))
        if k < 0.77:
            return op("set_cwd", p)
        if k < 0.84:
            return op(rng.choice(["paths", "dirs", "files", "all_paths", "all_dirs", "all_files"]), rng.choice(["/", "/d"]))
        if k < 0.92:
            return op(rng.choice(["read_all", "read_lines", "exists", "is_dir", "is_file", "is_symlink", "mode", "readlink"]), p)
        # (mkfile_m, chmod and chown are create-then-traverse compositions and not among the statement's single-step operations)
        return op("mkdir_m", p, rng.choice([0o700, 0o644]))
    rnd = []
    for _ in range(60 if tier == "quick" else 600):
        nt = rng.choice([2, 3, 3, 4])
        setup = [rop() for _ in range(rng.randint(0, 3))]
        rnd.append((setup, [[rop() for _ in range(rng.randint(1, 3))] for _ in range(nt)]))
    return fixed, rnd


def c04_streams(tier, rng, ctx):
    fixed, rnd = c04_programs(tier, rng)
    it_fixed = 400 if tier == "quick" else 4000
    it_rnd = 120 if tier == "quick" else 600
    lines = [conc_line(s, p, it_fixed, y) for s, p in fixed for y in (0, 3, 12)]
    lines += [conc_line(s, p, it_rnd, y) for s, p in rnd for y in (2, 8)]
    env = dict(MEM_ENV)

    def appends_once(line, out):
        # every concurrent append to one file is present exactly once in the final content
        f = line.split("\t")
        progs = [x.split(";") for x in f[5:]]
        allops = [o for p in progs for o in p if o] + [o for o in f[4].split(";") if o]
        if not allops or any(not o.startswith("append_all:%s:" % hx("/f")) for o in allops):
            return True
        want = sorted(bytes.fromhex(o.split(":")[2]) for o in allops)
        for outcome in out.split("@@"):
            if "#" not in outcome:
                return False
            snap = outcome.split("#", 1)[1]
            d = [it for it in snap.split("D{", 1)[1].split("}", 1)[0].split(";") if it.startswith(hx("/f") + ":")]
            data = bytes.fromhex(d[0].split(":")[1]) if d else b""
            if sorted(bytes([c]) for c in data) != want:
                return False
        return True
    return [
        Stream("linearizable", "check", lines, impl_env=env, post=conc_post,
               nontrivial=lambda l, o: "@@" in o,
               rule="thread programs (10 hand-written races over every single-step operation of the statement + random 2-4 thread programs) run %d / %d times each on one shared Memfs with "
                    "yield points before every lock acquisition (cfg(rivia_verif) hook; yield ranges 0, 2..12); every distinct outcome (per-call results, invocation / response order, final state "
                    "snapshot) is checked by the extracted model's linearizability search (program order + real-time precedence); DEADLOCK = an iteration not finishing in 20 s; non-trivial = more "
                    "than one distinct outcome observed" % (it_fixed, it_rnd)),
        Stream("appends-once", "pycheck", [l for l in lines[:3]], impl_env=env, pycheck=appends_once,
               rule="three threads x two append_all on one file: the final content holds every appended byte exactly once in every observed outcome"),
    ]


PROPS["C04"] = {
    "streams": c04_streams,
    "rule": "observed concurrent histories of real threads on one shared Memfs, each checked for linearizability against the extracted sequential model; distinct = distinct thread programs x yield settings",
    "trusted": ["hook sys::verif::guard_point (a yield before the lock is requested; add-only)", "harness/src/conc.rs: one SeqCst counter stamps invocation and response of every call",
                "ocaml/lin.ml: Wing-Gong search over the extracted step function"],
    "assumptions": ["std::sync::RwLock provides mutual exclusion between a writer and everybody else, and a blocked acquisition eventually succeeds once the lock is free (fairness of the OS scheduler)",
                    "thread interleavings are sampled by the stress runs; the theorem Conc/Lin.v covers every schedule given the one-critical-section discipline that Gen/Locks.v is regenerated to witness"],
}

# c_core.py — streams for C19 (core extensions), C07 (file handles), C11 (chmod expressions).
from props import Stream
from gen import all_strings, random_string, line
from rvlib import hx

PROPS = {}

I_MIN, I_MAX = -(2 ** 63), 2 ** 63 - 1


def raw(fn, *args):
    return "\t".join([fn] + [str(a) for a in args])


def c19_streams(tier, rng, ctx):
    maxlen = 8 if tier == "quick" else 12
    rng_idx = list(range(-10, 11)) if tier == "quick" else list(range(-14, 15))
    corners = [I_MIN, I_MIN + 1, I_MAX, I_MAX - 1, -(2 ** 32), 2 ** 32]
    drops = [(n, k) for n in range(maxlen + 1) for k in rng_idx + corners]
    slices = [(n, l, r) for n in range(maxlen + 1) for l in rng_idx + corners for r in rng_idx + corners]
    # the theorem's hypothesis: left not below -len
    slices_dom = [(n, l, r) for (n, l, r) in slices if l >= -n]
    lens = list(range(0, maxlen + 1))
    sts = [
        Stream("it-drop", "mirror", [raw("it_drop", n, k) for n, k in drops], exhaustive=True,
               rule="lengths 0..%d x n in %d..%d + isize corners" % (maxlen, rng_idx[0], rng_idx[-1])),
        Stream("it-drop-spec", "spec", [raw("it_drop", n, k) for n, k in drops], [raw("it_drop_spec", n, k) for n, k in drops]),
        Stream("it-slice", "mirror", [raw("it_slice", n, l, r) for n, l, r in slices], exhaustive=True,
               rule="lengths 0..%d x all index pairs + isize corners (including left < -len, outside the statement)" % maxlen),
        Stream("it-slice-spec", "spec", [raw("it_slice", n, l, r) for n, l, r in slices_dom],
               [raw("it_slice_spec", n, l, r) for n, l, r in slices_dom],
               rule="slice vs the inclusive-range definition for left >= -len"),
    ]
    # the same laws on iterators whose size hint is not exact (filter, flat_map + filter) and on a chain: judged by plain list semantics
    def src(kind, n):
        if kind == "f":
            return [x for x in range(n) if x % 3 != 0]
        if kind == "m":
            return [x for x in range(n) if x % 2 == 0 and x % 4 != 0]
        return list(range(n)) + list(range(100, 100 + n))

    def py_slice(xs, l, r):
        n = len(xs)
        if l < 0:
            l += n
        if r < 0:
            r += n
        if l < 0 or r < 0 or l >= n or l > r:
            return []
        return xs[l:min(r, n - 1) + 1]

    def py_drop(xs, k):
        if k >= 0:
            return xs[k:]
        return xs[:max(0, len(xs) + k)]

    def adaptor_law(ln, out):
        f = ln.split("\t")
        kind, n = f[0][-1], int(f[1])
        xs = src(kind, n)
        want = py_slice(xs, int(f[2]), int(f[3])) if f[0].startswith("it_slice") else py_drop(xs, int(f[2]))
        return out == "L:" + ",".join(str(x) for x in want)
    small = [i for i in rng_idx if -9 <= i <= 9]
    al = []
    for n in range(0, 10):
        for kind in "fmc":
            ln_ = len(src(kind, n))
            al += [raw("it_slice_" + kind, n, l, r) for l in small for r in small if l >= -ln_]
            if kind != "m":
                al += [raw("it_drop_" + kind, n, k) for k in small]
    sts.append(Stream("it-adaptors", "pycheck", al, pycheck=adaptor_law, exhaustive=True,
                      rule="slice and drop on filtered, flat-mapped and chained iterators (size hints not exact), lengths 0..9 x small indices: plain list semantics"))
    fl = [raw(fn, n) for fn in ["it_first_f", "it_single_f", "it_last_f"] for n in range(0, 12)]

    def adaptor_law2(ln, out):
        f = ln.split("\t")
        xs = [x for x in range(int(f[1])) if x % 3 == 2]
        if f[0] == "it_first_f":
            return out == ("N:%d" % xs[0] if xs else "NONE")
        if f[0] == "it_single_f":
            return out == ("N:%d" % xs[0]) if len(xs) == 1 else out.startswith("E:")
        return out == ("N:%d" % xs[-1]) if xs else out.startswith("E:")
    sts.append(Stream("it-adaptors-ends", "pycheck", fl, pycheck=adaptor_law2, exhaustive=True, rule="first / single / last_result on filtered iterators"))
    for fn in ["it_first", "it_first_result", "it_last_result", "it_single", "it_some", "it_consume"]:
        sts.append(Stream(fn, "mirror", [raw(fn, n) for n in lens + [100, 1000]], exhaustive=True))
    alpha = ["a", "F", "f", "A", "L", "S", "E", "0", "é", "İ", "K", "ſ", "😀", "l", "s", "e", " "]
    strs = list(all_strings(["f", "F", "a", "0", "é", "K", "😀"], 4)) + \
        ["false", "FALSE", "False", "fAlSe", "0", "00", "false ", " false", "fa1se", "Kalse", "ſalse", "falſe", "FALSİ", "true", "1", ""] + \
        [random_string(rng, 8, alphabet=alpha, p_sep=0.0) for _ in range(5000)]
    sts.append(Stream("str-size", "mirror", [line("str_size", s) for s in strs]))
    sts.append(Stream("str-to-bool", "mirror", [line("str_to_bool", s) for s in strs]))
    short = list(all_strings(["a", "é", "b", "😀"], 3))
    pairs = [(x, y) for x in short for y in short] + [(random_string(rng, 10), random_string(rng, 3)) for _ in range(5000)]
    # the model side is the statement itself (theorem trim_suffix_once: exactly one occurrence removed, or nothing)
    sts.append(Stream("str-trim-suffix", "spec", [line("str_trim_suffix", x, y) for x, y in pairs]))
    sts.append(Stream("opt-has", "mirror", [raw("opt_has", o, x) for o in ["none", 0, 1, 2, 7] for x in [0, 1, 2, 7]]))
    tw = [(ord(c), s) for s in short + [random_string(rng, 12, alphabet=["a", "$", "}", "é", "b"], p_sep=0.0) for _ in range(3000)] for c in ["a", "$", "é"]]
    sts.append(Stream("take-while-p", "mirror", ["\t".join(["take_while_ne", str(c), hx(s)]) for c, s in tw]))
    sts.append(Stream("lowercase-scan", "spec", [raw("lowercase_scan")], [raw("true")],
                      rule="all 1 112 064 scalar values: to_lowercase can only decide the models' ASCII comparisons through ASCII letters"))
    # defer: every program of up to 5 statements over {defer, action, nested scope, early return, panic} with up to
    # two levels of nesting (exhaustive), plus random deeper ones
    def progs(depth, n):
        if n == 0:
            yield []
            return
        for rest in progs(depth, n - 1):
            for head in (["D"], ["L"], ["R"], ["P"]):
                yield head + rest
            if depth > 0:
                for m in range(0, 3):
                    for inner in progs(depth - 1, m):  # inner scopes of up to two statements
                        yield [["{"] + inner + ["}"]] + rest

    def render(p, c):
        out = []
        for t in p:
            if isinstance(t, list):
                out.append("{")
                out += render(t[1:-1], c)
                out.append("}")
            elif t in ("D", "L"):
                c[0] += 1
                out.append("%s%d" % (t, c[0]))
            else:
                out.append(t)
        return out
    dl = []
    for n in range(0, 4 if tier == "quick" else 5):
        for p in progs(1, n):
            dl.append(raw("defer", " ".join(render(p, [0]))))
    for p in progs(2, 1):
        dl.append(raw("defer", " ".join(render(p, [0]))))

    def rprog(depth):
        out = []
        for _ in range(rng.randint(0, 5)):
            k = rng.random()
            if k < 0.35:
                out.append("D")
            elif k < 0.6:
                out.append("L")
            elif k < 0.68:
                out.append("R")
            elif k < 0.76:
                out.append("P")
            elif depth > 0:
                out.append(["{"] + rprog(depth - 1) + ["}"])
        return out
    for _ in range(3000 if tier == "quick" else 30000):
        dl.append(raw("defer", " ".join(render(rprog(4), [0]))))
    sts.append(Stream("defer-programs", "spec", dl, exhaustive=True,
                      nontrivial=lambda l, o: "D" in l,
                      rule="every program of up to %d statements over {defer, action, nested scope of up to two statements, early return, panic}, all single statements with "
                           "two levels of nesting, and random programs nested up to four deep: the log of actions and deferred closures in execution order and the exit kind, "
                           "real defer(..) guards on the call stack vs the scope model" % (3 if tier == "quick" else 4)))
    return sts
PROPS["C19"] = {
    "streams": c19_streams,
    "rule": "exhaustive sequence lengths x index pairs plus isize corner values; strings over an alphabet with multi-byte and case-folding characters; "
            "distinct = distinct argument tuples",
    "trusted": ["list model of a double-ended iterator (nth / rev().nth consume from the ends)", "ASCII-only model of to_lowercase (validated by lowercase-scan)"],
    "assumptions": ["Iterator::nth / DoubleEndedIterator::rev / count behave as on lists", "sequence length below 2^63",
                    "defer: Rust's drop order is assumed (see DESIGN §7 C19); the defer clause is exercised, not proved"],
}


# ---------------------------------------------------------------------------------------------
U64_MAX = 2 ** 64 - 1
I64_MIN, I64_MAX = -(2 ** 63), 2 ** 63 - 1


def rand_rops(rng, dlen, n):
    ops = []
    for _ in range(n):
        k = rng.random()
        if k < 0.4:
            ops.append("r%d" % rng.choice([0, 1, 2, 3, 5, dlen, dlen + 1, 64]))
        else:
            w = rng.choice("SCE")
            if w == "S":
                o = rng.choice([0, 1, dlen - 1 if dlen else 0, dlen, dlen + 1, dlen + 7, 2 ** 32, I64_MAX, I64_MAX + 1, U64_MAX, rng.randint(0, dlen + 3)])
            else:
                o = rng.choice([0, 1, -1, -2, -dlen, -dlen - 1, dlen, dlen + 5, I64_MIN, I64_MAX, -(2 ** 40), rng.randint(-dlen - 3, dlen + 3)])
            ops.append("s%s%d" % (w, o))
    return ",".join(ops)


def c07_known(l, impl_out, model_out):
    # KF-C07-stdfs-far-seek: a real File cannot be positioned beyond the kernel's maximum file offset
    f = l.split("\t")
    if f[1] != "s":
        return None
    for t in f[3].split(","):
        if t.startswith("s") and abs(int(t[2:])) >= 2 ** 62:
            return "KF-C07-stdfs-far-seek"
    return None


def c07_streams(tier, rng, ctx):
    import itertools
    datas = [b"", b"a", b"hello", b"hello world", bytes(range(256)), "héllo 語".encode(), b"\xff\xfe\x00x"]
    lines = {"m": [], "c": [], "s": []}
    # exhaustive-small: all sequences of <= 3 ops over a compact op alphabet on a 5-byte file
    alpha = ["r0", "r2", "r9", "sS0", "sS3", "sS5", "sS9", "sC-2", "sC2", "sC-9", "sE0", "sE-2", "sE-6", "sE3",
             "sC%d" % I64_MIN, "sE%d" % I64_MIN, "sC%d" % I64_MAX, "sS%d" % U64_MAX]
    depth = 3 if tier == "quick" else 4
    seqs = []
    for d in range(1, depth + 1):
        if d <= 3:
            seqs += [",".join(t) for t in itertools.product(alpha, repeat=d)]
        else:
            seqs += [",".join(rng.choice(alpha) for _ in range(d)) for _ in range(40000)]
    for sq in seqs:
        for b in "mc":
            lines[b].append("\t".join(["hread", b, b"hello".hex(), sq]))
    nrand = 4000 if tier == "quick" else 40000
    for _ in range(nrand):
        d = rng.choice(datas)
        sq = rand_rops(rng, len(d), rng.randint(1, 12))
        for b in "mcs":
            lines[b].append("\t".join(["hread", b, d.hex(), sq]))
    ns = 300 if tier == "quick" else 3000
    for sq in rng.sample(seqs, ns):
        lines["s"].append("\t".join(["hread", "s", b"hello".hex(), sq]))

    def as_cursor(ls):
        return [l.replace("hread\t", "hread_cursor\t", 1) for l in ls]
    sts = [
        Stream("handle-mirror", "mirror", lines["m"], exhaustive=True,
               rule="Memfs read handle vs mirror: every sequence of <= %d ops over an 18-op alphabet (in-range and out-of-range offsets, i64/u64 extremes) + random" % min(depth, 3)),
        Stream("handle-cursor-spec", "spec", lines["m"], as_cursor(lines["m"]),
               rule="Memfs read handle vs the Cursor specification"),
        Stream("std-cursor-vs-spec", "mirror", lines["c"], as_cursor(lines["c"]),
               rule="a real std::io::Cursor vs the Cursor specification (validates the spec itself)"),
        Stream("stdfs-handle-spec", "spec", lines["s"], as_cursor(lines["s"]), known=c07_known,
               rule="Stdfs read handle (a real File in a sandbox) vs the Cursor specification"),
    ]
    # write / append handles: chunkings, flush points, drop after any prefix
    chunks = [b"", b"a", b"bc", "é".encode(), b"\n", b"\xff"]
    wl = {"m": [], "s": []}
    toks = ["f"] + ["w" + c.hex() for c in chunks]
    wd = 4 if tier == "quick" else 5
    wseqs = []
    for d in range(0, wd + 1):
        if 7 ** d <= 3000:
            wseqs += [",".join(t) for t in itertools.product(toks, repeat=d)]
        else:
            wseqs += [",".join(rng.choice(toks) for _ in range(d)) for _ in range(3000)]
    for sq in wseqs:
        for mode in "wa":
            for old in [b"", b"old"]:
                wl["m"].append("\t".join(["hwrite", "m", mode, old.hex(), "0", sq]))
    for sq in rng.sample(wseqs, 300):
        for mode in "wa":
            wl["m"].append("\t".join(["hwrite", "m", mode, b"old".hex(), "1", sq]))
            wl["s"].append("\t".join(["hwrite", "s", mode, b"old".hex(), "0", sq]))
    # the model side is the statement itself (C07 theorems: the handle mirror's trace IS "written bytes" / "old ++ written" at
    # every flush and at drop), so a disagreement is a failing input
    sts.append(Stream("whandle-memfs", "spec", wl["m"], exhaustive=True,
                      rule="Memfs write/append handles: every sequence of <= %d write/flush tokens, dropped at the end of every prefix-closed sequence; content observed after each flush and after drop; plus handles whose file was removed" % wd))
    sts.append(Stream("whandle-stdfs", "spec", wl["s"], [l.replace("hwrite\ts", "hwrite\tm", 1) for l in wl["s"]],
                      rule="Stdfs write/append handles vs the same model"))
    return sts


PROPS["C07"] = {
    "streams": c07_streams,
    "rule": "exhaustive short op sequences over an alphabet with out-of-range offsets and i64/u64 extremes, random longer ones over several byte strings; "
            "write handles: all short chunk/flush sequences; distinct = distinct (data, op sequence)",
    "trusted": ["File/MemFile.v Cursor specification (validated against a real std::io::Cursor by stream std-cursor-vs-spec)",
                "Rust drop semantics: dropping the handle runs Drop::drop once (sync)"],
    "assumptions": ["file size below 2^63", "Vec<u8> as io::Write appends", "drop runs at scope end (assumed runtime rule)"],
}


# ---------------------------------------------------------------------------------------------
def subsets(letters):
    import itertools
    out = []
    for r in range(1, len(letters) + 1):
        for t in itertools.combinations(letters, r):
            out.append("".join(t))
    return out


def c11_clauses():
    return [t + ":" + w + o + p for t in "dfa" for w in subsets("ugo") for o in "-+=" for p in subsets("rwx")]


def c11_streams(tier, rng, ctx):
    singles = c11_clauses()
    kinds = ["f", "d", "lf", "ld"]
    modes_all = list(range(512))
    sts = []

    def ln(kind, mode, octal, sym):
        tb = {"f": 0o100000, "d": 0o40000, "lf": 0o120000, "ld": 0o120000}[kind]
        return "\t".join(["sym_mode", kind, str(tb | mode), str(octal), hx(sym)])
    l1 = [ln(k, m, 0, s) for s in singles for k in kinds[:3] for m in (modes_all if tier != "quick" else modes_all[::3])]
    sts.append(Stream("sym-single", "mirror", l1, judge=lambda l, o: True, exhaustive=True,
                      nontrivial=lambda l, o: o != "N:" + l.split("\t")[2],
                      rule="all 441 canonical single clauses x permission values x {file, dir, link}"))
    npairs = 150000 if tier == "quick" else 2000000
    pm = [0, 0o777, 0o644, 0o755, 0o400, 0o070, 0o007, 0o111, 0o222, 0o444, 0o600, 0o750, 0o123, 0o456, 0o321, 0o654]
    l2 = []
    for _ in range(npairs):
        a, b = rng.choice(singles), rng.choice(singles)
        l2.append(ln(rng.choice(kinds), rng.choice(pm), 0, a + "," + b))
    sts.append(Stream("sym-pairs", "mirror", l2, judge=lambda l, o: True,
                      nontrivial=lambda l, o: o != "N:" + l.split("\t")[2],
                      rule="random ordered pairs of canonical clauses x 16 permission values x kinds"))
    # spelling variants and longer expressions
    l3 = []
    for _ in range(20000 if tier == "quick" else 200000):
        n = rng.randint(1, 4)
        cls = []
        for _ in range(n):
            t = "".join(rng.choice("dfa") for _ in range(rng.randint(0, 2)))
            w = "".join(rng.choice("ugoa") for _ in range(rng.randint(1, 4)))
            p = "".join(rng.choice("rwx") for _ in range(rng.randint(1, 4)))
            cls.append(t + ":" + w + rng.choice("-+=") + p)
        l3.append(ln(rng.choice(kinds), rng.choice(modes_all), 0, ",".join(cls)))
    sts.append(Stream("sym-variants", "mirror", l3, judge=lambda l, o: True,
                      rule="1-4 clauses with repeated / multiple target, who and permission letters ('a' vs 'ugo', 'df:', ':')"))
    # octal priority and the empty expression
    l4 = [ln(k, m, o, s) for k in kinds for m in [0o644, 0o755] for o in [0, 0o600, 0o777, 0o1777, 1] for s in ["", "f:a+x", "zz", "d:g-w,f:o=r"]]
    sts.append(Stream("sym-octal", "mirror", l4, judge=lambda l, o: True, rule="octal priority / empty expression"))
    # malformed: every single-character deletion, insertion and substitution of well-formed expressions
    base = rng.sample(singles, 60 if tier == "quick" else 441) + ["d:a+x,f:a-w", "a:go-rwx", "f:a+r,f:a-wx"]
    alphabet = "dfa:ugo-+=rwx,z "
    mal = set()
    for s in base:
        for i in range(len(s)):
            mal.add(s[:i] + s[i + 1:])
            for c in alphabet:
                mal.add(s[:i] + c + s[i + 1:])
        for i in range(len(s) + 1):
            for c in alphabet:
                mal.add(s[:i] + c + s[i:])
    mal = sorted(mal)
    l5 = [ln(k, 0o644, 0, s) for s in mal for k in ["f", "d", "lf"]]
    sts.append(Stream("sym-malformed", "mirror", l5, judge=lambda l, o: o.startswith("N:"),
                      nontrivial=lambda l, o: o.startswith("E:"),
                      rule="every single-character deletion / insertion / substitution of well-formed expressions"))
    # non-ASCII look-alikes: every character of a well-formed expression replaced by a character whose code point ends in the same byte
    # (U+01xx, U+20xx, U+1F6xx), by a full-width form, and by an upper-case letter; never a grammar character, so always malformed
    base2 = rng.sample(singles, 40 if tier == "quick" else 441) + ["d:a+x,f:a-w", "f:u+r", "a:go-rwx", "f:a+r,f:a-wx"]
    look = set()
    for s in base2:
        for i, c in enumerate(s):
            for rep in [chr(0x100 + ord(c)), chr(0x2000 + ord(c)), chr(0x1F600 + ord(c)), chr(0xFF00 + ord(c) - 0x20), c.upper() if c.upper() != c else "\u00e9"]:
                look.add(s[:i] + rep + s[i + 1:])
    look = sorted(look)
    l7 = [ln(k, 0o644, 0, s) for s in look for k in ["f", "d", "lf"]]
    sts.append(Stream("sym-lookalikes", "mirror", l7, judge=lambda l, o: o.startswith("N:"), nontrivial=lambda l, o: o.startswith("E:"), exhaustive=True,
                      rule="well-formed expressions with one character replaced by a non-ASCII character whose code point ends in the same byte, a full-width form or an "
                           "upper-case letter: malformed, must be rejected"))
    l6 = ["\t".join(["revoking_mode", str(a), str(b)]) for a in range(0, 512, 5) for b in range(0, 512, 7)]
    sts.append(Stream("revoking-mode", "mirror", l6))
    return sts


PROPS["C11"] = {
    "streams": c11_streams,
    "rule": "all canonical single clauses x permission values x entry kinds (exhaustive), sampled ordered pairs, spelling variants with up to four clauses, "
            "and all single-character edits of well-formed expressions; through the cfg(rivia_verif) re-export of the crate-private sys::mode; distinct = distinct (kind, mode, octal, expression)",
    "trusted": ["hook sys::verif::{sym_mode, memfs_entry} (re-exports, add-only)"],
    "assumptions": ["u32 bit operations as N bit operations (values below 2^32)"],
}

PROPS = {}

# c_core.py — streams for C19 (core extensions), C07 (file handles), C11 (chmod expressions).
from props import Stream
from gen import all_strings, random_string, line
from rvlib import hx

PROPS = {}

I_MIN, I_MAX = -(2 ** 63), 2 ** 63 - 1


def raw(fn, *args):
    return "\t".join([fn] + [str(a) for a in args])


def c19_streams(tier, rng, ctx):
    maxlen = 8 if tier == "quick" else 12
    rng_idx = list(range(-10, 11)) if tier == "quick" else list(range(-14, 15))
    corners = [I_MIN, I_MIN + 1, I_MAX, I_MAX - 1, -(2 ** 32), 2 ** 32]
    drops = [(n, k) for n in range(maxlen + 1) for k in rng_idx + corners]
    slices = [(n, l, r) for n in range(maxlen + 1) for l in rng_idx + corners for r in rng_idx + corners]
    # the theorem's hypothesis: left not below -len
    slices_dom = [(n, l, r) for (n, l, r) in slices if l >= -n]
    lens = list(range(0, maxlen + 1))
    sts = [
        Stream("it-drop", "mirror", [raw("it_drop", n, k) for n, k in drops], exhaustive=True,
               rule="lengths 0..%d x n in %d..%d + isize corners" % (maxlen, rng_idx[0], rng_idx[-1])),
        Stream("it-drop-spec", "spec", [raw("it_drop", n, k) for n, k in drops], [raw("it_drop_spec", n, k) for n, k in drops]),
        Stream("it-slice", "mirror", [raw("it_slice", n, l, r) for n, l, r in slices], exhaustive=True,
               rule="lengths 0..%d x all index pairs + isize corners (including left < -len, outside the statement)" % maxlen),
        Stream("it-slice-spec", "spec", [raw("it_slice", n, l, r) for n, l, r in slices_dom],
               [raw("it_slice_spec", n, l, r) for n, l, r in slices_dom],
               rule="slice vs the inclusive-range definition for left >= -len"),
    ]
    for fn in ["it_first", "it_first_result", "it_last_result", "it_single", "it_some", "it_consume"]:
        sts.append(Stream(fn, "mirror", [raw(fn, n) for n in lens + [100, 1000]], exhaustive=True))
    alpha = ["a", "F", "f", "A", "L", "S", "E", "0", "é", "İ", "K", "ſ", "😀", "l", "s", "e", " "]
    strs = list(all_strings(["f", "F", "a", "0", "é", "K", "😀"], 4)) + \
        ["false", "FALSE", "False", "fAlSe", "0", "00", "false ", " false", "fa1se", "Kalse", "ſalse", "falſe", "FALSİ", "true", "1", ""] + \
        [random_string(rng, 8, alphabet=alpha, p_sep=0.0) for _ in range(5000)]
    sts.append(Stream("str-size", "mirror", [line("str_size", s) for s in strs]))
    sts.append(Stream("str-to-bool", "mirror", [line("str_to_bool", s) for s in strs]))
    short = list(all_strings(["a", "é", "b", "😀"], 3))
    pairs = [(x, y) for x in short for y in short] + [(random_string(rng, 10), random_string(rng, 3)) for _ in range(5000)]
    sts.append(Stream("str-trim-suffix", "mirror", [line("str_trim_suffix", x, y) for x, y in pairs]))
    sts.append(Stream("opt-has", "mirror", [raw("opt_has", o, x) for o in ["none", 0, 1, 2, 7] for x in [0, 1, 2, 7]]))
    tw = [(ord(c), s) for s in short + [random_string(rng, 12, alphabet=["a", "$", "}", "é", "b"], p_sep=0.0) for _ in range(3000)] for c in ["a", "$", "é"]]
    sts.append(Stream("take-while-p", "mirror", ["\t".join(["take_while_ne", str(c), hx(s)]) for c, s in tw]))
    sts.append(Stream("lowercase-scan", "spec", [raw("lowercase_scan")], [raw("true")],
                      rule="all 1 112 064 scalar values: to_lowercase can only decide the models' ASCII comparisons through ASCII letters"))
    return sts


PROPS["C19"] = {
    "streams": c19_streams,
    "rule": "exhaustive sequence lengths x index pairs plus isize corner values; strings over an alphabet with multi-byte and case-folding characters; "
            "distinct = distinct argument tuples",
    "trusted": ["list model of a double-ended iterator (nth / rev().nth consume from the ends)", "ASCII-only model of to_lowercase (validated by lowercase-scan)"],
    "assumptions": ["Iterator::nth / DoubleEndedIterator::rev / count behave as on lists", "sequence length below 2^63",
                    "defer: Rust's drop order is assumed (see DESIGN §7 C19); the defer clause is exercised, not proved"],
}

# frames.py — executable statements of the tree-level properties, evaluated on the implementation's
# own pre/post state snapshots (history mode "m2").  Independent of the Coq mirror; used as judges.
import re


def parse_state(snap):
    """'cwd=..;root=..;E{..};D{..};wf=1' -> dict(cwd, root, ents{path: {...}}, data{path: bytes})"""
    cwd = bytes.fromhex(re.search(r"cwd=([0-9a-f]*)", snap).group(1)).decode()
    es = snap.split("E{", 1)[1].split("}", 1)[0]
    ds = snap.split("D{", 1)[1].split("}", 1)[0]
    ents = {}
    for it in es.split(";"):
        if not it:
            continue
        k, p, alt, rel, dfl, mode, uid, gid, files = it.split(":")
        ents[bytes.fromhex(k).decode()] = {
            "path": bytes.fromhex(p).decode(), "alt": bytes.fromhex(alt).decode() if alt else None,
            "rel": bytes.fromhex(rel).decode(), "dir": dfl[0] == "1", "file": dfl[1] == "1", "link": dfl[2] == "1",
            "mode": int(mode), "uid": int(uid), "gid": int(gid),
            "files": None if files == "-" else sorted(bytes.fromhex(x).decode() for x in files[1:-1].split(",") if x)}
    data = {}
    for it in ds.split(";"):
        if not it:
            continue
        k, d = it.split(":")
        data[bytes.fromhex(k).decode()] = bytes.fromhex(d)
    return {"cwd": cwd, "ents": ents, "data": data}


def split_out(out):
    """-> (results list, pre state or None, post state or None)"""
    fs = out.split("\t")
    pre = post = None
    res = []
    for f in fs:
        if f.startswith("#pre"):
            pre = parse_state(f[4:]) if "D{" in f else None
        elif f.startswith("#"):
            post = parse_state(f[1:]) if f.startswith("#cwd") and "D{" in f else None
        else:
            res.append(f)
    return res, pre, post


def last_op(line):
    f = line.split("\t")[-1].split(":")
    args = []
    for a in f[1:]:
        try:
            args.append(bytes.fromhex(a).decode())
        except Exception:
            args.append(a)
    return f[0], args, f[1:]


def under(p, root):
    return p == root or p.startswith(root.rstrip("/") + "/")


def kind(e):
    return "link" if e["link"] else ("dir" if e["dir"] else "file")


def observable(st, p):
    """what an observer sees of one path: kind, bytes, link target, mode, owner"""
    e = st["ents"].get(p)
    if e is None:
        return None
    return (kind(e), st["data"].get(p), e["alt"], e["mode"], e["uid"], e["gid"])


SINGLE_TARGET = ("mkfile", "mkdir_p", "mkdir_m", "write_all", "append_all", "remove", "move_p", "symlink", "set_cwd")


def failed_call_frame(line, out):
    """C01 / C09: a single-target call that reports failure leaves the tree exactly as it was"""
    name, args, _ = last_op(line)
    res, pre, post = split_out(out)
    if name not in SINGLE_TARGET or pre is None or post is None or not res:
        return True
    if not res[-1].startswith("E:"):
        return True
    return pre == post


def content_laws(line, out):
    """C06: write replaces, append extends, other files untouched (paths are given clean and absolute)"""
    name, args, raw = last_op(line)
    res, pre, post = split_out(out)
    if pre is None or post is None or not res or res[-1] != "ok":
        return True
    if name in ("write_all", "append_all"):
        p = args[0]
        d = bytes.fromhex(raw[1])
        if not p.startswith("/") or "//" in p or "/./" in p or "/../" in p or p.endswith("/.") or p.endswith("/..") or (p.endswith("/") and p != "/"):
            return True        # unclean spelling: the target is abs(p); covered by the mirror comparison
        want = d if name == "write_all" else pre["data"].get(p, b"") + d
        if post["data"].get(p) != want:
            return False
        for q in set(pre["data"]) | set(post["data"]):
            if q != p and pre["data"].get(q) != post["data"].get(q):
                return False
    if name in ("write_lines", "append_lines", "append_line"):
        # line helpers add exactly one newline per line; a write replaces the whole content, an append keeps the prefix
        p = args[0]
        if not p.startswith("/") or "//" in p or "/./" in p or "/../" in p or p.endswith("/.") or p.endswith("/..") or (p.endswith("/") and p != "/"):
            return True
        if name == "append_line":
            ls = [bytes.fromhex(raw[1])]
        else:
            ls = [bytes.fromhex(x) for x in raw[1].split(",")] if raw[1] != "" else []
        text = b"".join(l + b"\n" for l in ls)
        want = text if name == "write_lines" else pre["data"].get(p, b"") + text
        if post["data"].get(p) != want:
            return False
        for q in set(pre["data"]) | set(post["data"]):
            if q != p and pre["data"].get(q) != post["data"].get(q):
                return False
    return True


def lines_nothing_class(line):
    """KF-C06-nothing-to-write: a line helper called with no text to write (empty list, a lone empty line, append_line(""))"""
    name, args, raw = last_op(line)
    if name == "append_line":
        return raw[1] == ""
    if name in ("write_lines", "append_lines"):
        ls = [bytes.fromhex(x) for x in raw[1].split(",")] if raw[1] != "" else []
        return b"\n".join(ls) == b""
    return False


def link_consistent(path, e):
    """a link's resolved target (readlink_abs) is its stored target (readlink) taken from the link's own directory"""
    import posixpath
    rel = e["rel"]
    if rel.startswith("/"):
        want = posixpath.normpath(rel)
    else:
        want = posixpath.normpath(posixpath.dirname(path).rstrip("/") + "/" + rel)
    if want.startswith("//"):
        want = want[1:]
    return e["alt"] == want


def links_consistent(line, out):
    """every link of the final state: readlink_abs = clean(dir(link) / readlink)   (C10, after any history)"""
    res, pre, post = split_out(out)
    if post is None:
        return True
    name, args, raw = last_op(line)
    if name == "copy_b" and len(raw) > 2 and "follow=1" in raw[2]:
        return True      # a copy that follows a link to a link clones the inner link entry as it is; compared through the mirror only
    return all(link_consistent(p, e) for p, e in post["ents"].items() if e["link"])


def copy_laws(line, out):
    """C09: a successful copy leaves the source untouched and places under the destination an independent
    copy of every entry the source had, same kind / content / link target, mode rule; existing entries are
    kept; nothing outside the destination changes"""
    name, args, raw = last_op(line)
    res, pre, post = split_out(out)
    if name not in ("copy", "copy_b") or pre is None or post is None or not res or res[-1] != "ok":
        return True
    src, dst = args[0], args[1]
    opts = dict(kv.partition("=")[::2] for kv in (args[2].split(",") if len(args) > 2 and args[2] else []))
    clean = lambda p: p.startswith("/") and "//" not in p and "/./" not in p and "/../" not in p and not p.endswith("/.") and not p.endswith("/..") and (p == "/" or not p.endswith("/"))
    if "follow" in opts or not clean(src) or not clean(dst):
        return True            # follow / unclean spellings: compared through the mirror
    if src == dst:
        return pre == post
    pe = pre["ents"]
    if src not in pe:
        return False           # success although the source does not exist
    if src == "/":
        return True
    into = dst in pe and pe[dst]["dir"] and not pe[dst]["link"]
    dt = (dst.rstrip("/") + "/" + src.rsplit("/", 1)[1]) if into else dst
    if under(dt, src) or under(src, dt):
        return True            # destination inside the source (or around it): snapshot semantics, mirror only
    for p in pe:
        if under(p, src) and observable(pre, p) != observable(post, p):
            return False       # the source is untouched
    for p, e in pe.items():
        if not under(p, src):
            continue
        q = dt + p[len(src):]
        oe = post["ents"].get(q)
        if oe is None:
            return False       # an entry of the source has no image
        if q in pe:
            # an entry that already existed is kept (its kind, and its mode unless a chmod option selects it), but it
            # is still the image of the source entry: same kind, and a file carries the source's content
            if kind(oe) != kind(pe[q]) or kind(oe) != kind(e):
                return False
            if kind(e) == "file" and post["data"].get(q) != pre["data"].get(p):
                return False
            continue
        if kind(oe) != kind(e):
            return False
        if kind(e) == "file" and post["data"].get(q) != pre["data"].get(p):
            return False
        if kind(e) == "link" and oe["alt"] != e["alt"]:
            return False
        if kind(e) != "link":
            want = e["mode"]
            if "all" in opts:
                want = int(opts["all"]) | (0o40000 if e["dir"] else 0o100000)
            elif "cdirs" in opts and e["dir"]:
                want = int(opts["cdirs"]) | 0o40000
            elif "cfiles" in opts and e["file"]:
                want = int(opts["cfiles"]) | 0o100000
            if oe["mode"] != want:
                return False
    for p in set(pe) | set(post["ents"]):
        if under(p, dt):
            continue
        a, b = observable(pre, p), observable(post, p)
        if a != b and not (a is None and under(dt, p)):      # missing destination directories are created as needed
            return False
        if a is None and b is not None and under(dt, p):
            # a destination directory created on the way: a directory, with the mode a chmod option gives directories, else the mode of the
            # source directory (for a file source: of the directory the file is in)
            ne = post["ents"][p]
            if not ne["dir"] or ne["link"]:
                return False
            if "all" in opts:
                want = int(opts["all"]) | 0o40000
            elif "cdirs" in opts:
                want = int(opts["cdirs"]) | 0o40000
            else:
                se = pe[src]
                if se["dir"] and not se["link"]:
                    want = se["mode"]
                else:
                    par = src.rsplit("/", 1)[0] or "/"
                    want = pe[par]["mode"] if par in pe else None
            if want is not None and ne["mode"] != want:
                return False
    return True


def move_laws(line, out):
    """C09: a successful move_p makes the source disappear and the destination equal to the former source
    subtree; a failed move_p changes nothing"""
    name, args, raw = last_op(line)
    res, pre, post = split_out(out)
    if name != "move_p" or pre is None or post is None or not res:
        return True
    src, dst = args[0], args[1]
    if res[-1].startswith("E:"):
        return pre == post
    if res[-1] != "ok" or not src.startswith("/") or not dst.startswith("/"):
        return True
    pe = pre["ents"]
    if src not in pe:
        return False
    into = dst in pe and pe[dst]["dir"] and not pe[dst]["link"]
    base = src.rsplit("/", 1)[1] if src != "/" else ""
    dt = (dst.rstrip("/") + "/" + base) if into else dst
    if dt == src:
        return pre == post
    for p, e in pe.items():
        if under(p, src):
            q = dt + p[len(src):]
            if p in post["ents"] and not under(p, dt):
                return False                      # the source is gone
            a, b = observable(pre, p), observable(post, q)
            if b is None or a[0] != b[0] or a[1] != b[1] or a[3:] != b[3:]:
                return False
            # a moved link is the same link: the target it stores (relative to itself, what readlink returns and an
            # observer of the real filesystem sees) is unchanged; what that resolves to from the new place may differ
            if pre["ents"][p]["rel"] != post["ents"][q]["rel"]:
                return False
            # ... and what it resolves to is that stored target taken from the link's new directory
            if post["ents"][q]["link"] and not link_consistent(q, post["ents"][q]):
                return False
    for p in set(pe) | set(post["ents"]):
        if under(p, src) or under(p, dt):
            continue
        if observable(pre, p) != observable(post, p):
            return False
    return True

# c_std.py — the real-filesystem side of properties whose own streams run on Memfs: C05 (every method reads its path through abs),
# C09 (copy), C10 (links), C20 (macros) on Stdfs in a sandbox, side by side with Memfs where C02's domain allows, judged by the
# statement's clauses on Stdfs's own answers where it does not (dangling links).
import posixpath
from props import Stream
from rvlib import hx
import rvlib
from c_mem import op, envspec, MEM_ENV
import c_mem, c_path, c_wrap

PROPS = {}


def _line(mode, ops):
    return "\t".join(["hist", mode, envspec(MEM_ENV)] + ops)


def _res(out):
    return [x for x in out.split("\t") if not x.startswith("#")]


def _obs(out):
    for x in out.split("\t"):
        if x.startswith("#"):
            return x
    return ""


def x_eq_strict(line, out):
    """both backends side by side, field by field (success or failure, returned values, the observed tree): for histories whose outcome does not depend on a
    traversal order, so nothing is exempted after a copy that follows links"""
    if "||" not in out:
        return False
    m, s, cut = c_wrap.x_split(out)

    def norm(t):
        fs = []
        for f in t.split("\t"):
            if f.startswith("E:"):
                f = "E"
            if f.startswith("#cwd=") and ";T{" in f:
                f = "#T{" + f.split(";T{", 1)[1]
            fs.append(f)
        return fs
    return norm(m) == norm(s)


# ---- C05: any spelling, every method, both backends --------------------------------------------------------------------------
SPELL_PRE = [op("mkdir_p", "/d/v"), op("write_all", "/d/file", b"F\n"), op("write_all", "/d/v/x", b"X"), op("mkdir_p", "/d/dir"), op("mkdir_p", "/home/u")]
SPELLINGS = ["/d/missing/../file", "/d/file/../dir", "/d/file/", "/d/$V/x", "/d/${V}/x", "/d/dir/../file", "/d//file", "/d/./file", "/d/dir/..", "/d/file/.",
             "d/file", "/d/nope/../../d/file", "/d/file/../v/x", "~/../../d/file", "/d/v/x/", "/d/v/../v/x", "/d/missing/..", "/d/file/../missing",
             "/d/dir/", "/d/dir/.", "d/dir/../v", "/d/é/../file", "/d/file//"]
SPELL_CALLS = ["exists", "is_dir", "is_file", "is_symlink", "is_exec", "is_readonly", "mode", "read_all", "read_lines", "readlink", "abs", "paths", "dirs", "files",
               "all_paths", "mkfile", "mkdir_p", "remove", "remove_all", "set_cwd"]


def spelling_histories():
    hs = []
    for s in SPELLINGS:
        for c in SPELL_CALLS:
            hs.append(_line("x", SPELL_PRE + [op(c, s), op("cwd"), op("all_paths", "/")]))
        hs.append(_line("x", SPELL_PRE + [op("write_all", s, b"w"), op("read_all", s)]))
        hs.append(_line("x", SPELL_PRE + [op("append_all", s, b"+"), op("read_all", s)]))
        hs.append(_line("x", SPELL_PRE + [op("mkdir_m", s, 0o700), op("mode", s)]))
        hs.append(_line("x", SPELL_PRE + [op("chmod", s, 0o600), op("mode", s)]))
        for t in ["/n", "/d/dir"]:
            hs.append(_line("x", SPELL_PRE + [op("copy", s, t), op("all_paths", "/")]))
            hs.append(_line("x", SPELL_PRE + [op("move_p", s, t), op("all_paths", "/")]))
            hs.append(_line("x", SPELL_PRE + [op("copy", "/d/file", s), op("all_paths", "/")]))
        hs.append(_line("x", SPELL_PRE + [op("symlink", s, "/d/file"), op("readlink_abs", s)]))
    return hs


def spelling_stream(tag):
    return Stream(tag + "-spellings-both-backends", "pycheck", spelling_histories(), impl_env=c_wrap.sandbox_env(tag), pycheck=c_wrap.x_eq, exhaustive=True,
                  nontrivial=lambda l, o: "\tok" in o or "\tp" in o or "\tb1" in o,
                  rule="a fixed tree x every method taking a path x spellings the operating system would read differently from the lexical resolution ('missing/../file', "
                       "'file/../dir', a trailing separator after a file, $VAR and ${VAR} inside the path, '~/../..'; scheme prefixes cannot be re-rooted into the sandbox and are left to the Memfs streams): Memfs and Stdfs (sandbox) side by side")


# ---- C09: copy when the destination tree already holds a link where the source has a directory ---------------------------------
def copy_link_histories():
    hs = []
    base = [op("mkdir_p", "/src/sub"), op("write_all", "/src/sub/f", b"new"), op("mkdir_p", "/outside"), op("write_all", "/outside/f", b"precious")]
    cases = [[op("mkdir_p", "/dst"), op("symlink", "/dst/src", "/outside"), op("copy", "/src", "/dst")],
             [op("mkdir_p", "/dst/src"), op("symlink", "/dst/src/sub", "/outside"), op("copy", "/src", "/dst")],
             [op("mkdir_p", "/t"), op("symlink", "/t/sub", "/outside"), op("copy", "/src/sub", "/t")],
             [op("symlink", "/lnk", "/outside"), op("copy", "/src/sub", "/lnk")],
             [op("mkdir_p", "/dst"), op("symlink", "/dst/src", "/outside/f"), op("copy", "/src", "/dst")],
             [op("mkdir_p", "/dst/src/sub"), op("symlink", "/dst/src/sub/f", "/outside/f"), op("copy", "/src", "/dst")],
             [op("mkdir_p", "/dst/src/sub"), op("write_all", "/dst/src/sub/f", b"older and longer"), op("copy", "/src", "/dst")],
             [op("mkdir_p", "/dst/src/sub"), op("write_all", "/dst/src/sub/other", b"kept"), op("copy", "/src", "/dst")]]
    # a followed link copied onto its own target, or into the directory that holds the target under the link's name: nothing may be lost
    self_cases = [[op("symlink", "/src/sub/f", "/outside/f")], [op("symlink", "/lk", "/outside/f")], [op("symlink", "/outside/lk2", "f")]]
    for pre_l, (a, b) in [(0, ("/src/sub/f", "/outside/f")), (0, ("/src/sub/f", "/outside")), (1, ("/lk", "/outside/f")), (1, ("/lk", "/outside")), (2, ("/outside/lk2", "/outside/f")),
                          (2, ("/outside/lk2", "/outside"))]:
        pre0 = [op("mkdir_p", "/src/sub"), op("mkdir_p", "/outside"), op("write_all", "/outside/f", b"precious")]
        pre0 = [x for x in pre0 if not (pre_l == 0 and False)]
        for o in ["follow=1", "follow=1,all=384", ""]:
            hs.append(_line("x", pre0 + self_cases[pre_l] + ["copy_b:%s:%s:%s" % (hx(a), hx(b), o), op("read_all", "/outside/f"), op("is_symlink", a), op("all_paths", "/")]))
    probes = [op("read_all", "/outside/f"), op("read_all", "/src/sub/f"), op("is_symlink", "/dst/src"), op("is_symlink", "/dst/src/sub"), op("is_symlink", "/t/sub"),
              op("read_all", "/dst/src/sub/f"), op("read_all", "/dst/src/sub/other"), op("all_paths", "/")]
    for c in cases:
        hs.append(_line("x", base + c + probes))
        hs.append(_line("x", base + c[:-1] + ["copy_b:%s:%s:%s" % (c[-1].split(":")[1], c[-1].split(":")[2], "all=448")] + probes))
    return hs


def copy_link_stream(tag):
    return Stream(tag + "-copy-onto-links-both-backends", "pycheck", copy_link_histories(), impl_env=c_wrap.sandbox_env(tag), pycheck=x_eq_strict, exhaustive=True,
                  nontrivial=lambda l, o: True,
                  rule="copy of a directory when the destination tree already holds, where the source has a directory or a file, a link to a directory or file elsewhere, "
                       "an older file or other entries: nothing outside the destination may change; Memfs and Stdfs (sandbox) side by side")


# ---- C10: the link clauses on the real filesystem, dangling links included -------------------------------------------------------
def c10_std_histories(tier, rng):
    hs, hr = [], []
    for link, target, tk, spelling in c_mem.c10_cases(tier, rng):
        setup, qs, tsp = c_mem.c10_hist(link, target, tk, spelling)
        hs.append(_line("s", setup + qs))
        probes = [op("is_symlink", link), op("exists", link), op("exists", target), op("is_file", target), op("is_dir", target), op("is_symlink", target)]
        for act in [op("remove", link), op("remove_all", link)]:
            hr.append(_line("s", setup + [qs[0]] + probes + [act] + probes))
        hr.append(_line("s", setup + [qs[0]] + probes + ([op("remove", target)] if tk in ("file", "link", "linkdir") else []) + [op("remove", link)] + probes[:2]))
    return hs, hr


def c10_remove_law(line, out):
    """remove / remove_all on a link (its target existing, missing, or removed first) take the link away and leave the target as it was"""
    ops = line.split("\t")[3:]
    res = _res(out)
    try:
        i = next(k for k, o in enumerate(ops) if o.startswith("symlink:") and o.split(":")[1] != "" and ops[k + 1].startswith("is_symlink:"))
    except (StopIteration, IndexError):
        return True
    if not res[i].startswith("p"):
        return True
    j = next(k for k in range(i + 1, len(ops)) if ops[k].startswith(("remove:", "remove_all:")) and ops[k].split(":")[1] == ops[i].split(":")[1])
    if res[j] != "ok":
        return False
    before = res[i + 1:i + 7]
    after = res[j + 1:j + 7]
    if after[0] != "b0":
        return False            # the link is gone
    if len(after) >= 6 and before[2:6] != after[2:6]:
        return False            # the target is as it was
    return True


def c10_std_streams(tier, rng):
    hs, hr = c10_std_histories(tier, rng)
    senv = c_wrap.sandbox_env("c10")
    return [Stream("symlink-laws-stdfs", "pycheck", hs, impl_env=senv, pycheck=c_mem.c10_pycheck, known=c_mem.c10_known, exhaustive=(tier != "quick"),
                   rule="the same (link position, target position) pairs on the real filesystem backend (sandbox), targets absent included: the statement's clauses on Stdfs's own answers"),
            Stream("remove-link-stdfs", "pycheck", hr, impl_env=senv, pycheck=c10_remove_law, exhaustive=(tier != "quick"),
                   rule="remove / remove_all of the link on the real filesystem backend, its target existing, never created, or removed first (dangling): the link is gone, "
                        "the target is as it was")]


# ---- C20: the macros on the real filesystem, judged against Stdfs's own answers and the plain calls ---------------------------------
C20_PRE = [op("mkdir_p", "/a/b"), op("write_all", "/f", b"xy"), op("write_all", "/gone", b"g"), op("symlink", "/lf", "/f"), op("symlink", "/ld", "/a"),
           op("symlink", "/dangling", "/gone"), op("symlink", "/a/never", "/nowhere"), op("remove", "/gone"), op("write_all", "/a/b/c", b"c")]
C20_PATHS = ["/f", "/a", "/a/b", "/a/b/c", "/lf", "/ld", "/dangling", "/a/never", "/missing", "/a/missing"]
C20_CHECKS = {"exists": ("exists", "b1"), "no_exists": ("exists", "b0"), "is_dir": ("is_dir", "b1"), "no_dir": ("is_dir", "b0"), "is_file": ("is_file", "b1"),
              "no_file": ("is_file", "b0"), "is_symlink": ("is_symlink", "b1"), "no_symlink": ("is_symlink", "b0")}
C20_ACTS = {"remove_all": lambda p: [op("remove_all", p)], "mkdir_p": lambda p: [op("mkdir_p", p)], "mkfile": lambda p: [op("mkfile", p)]}


def c20_std_streams(tier, rng, ctx):
    senv = c_wrap.sandbox_env("c20")
    chk = []
    for p in C20_PATHS:
        for m, (q, want) in C20_CHECKS.items():
            chk.append(_line("s", C20_PRE + [op(q, p), "macro:%s:%s" % (m, hx(p))]))

    def check_law(line, out):
        ops = line.split("\t")[3:]
        res = _res(out)
        m = ops[-1].split(":")[1]
        q, want = C20_CHECKS[m]
        holds = res[-2] == want
        return (res[-1] == "pass") == holds and (holds or ("assert_vfs_%s!" % m) in res[-1])
    # acting macros: a pass leaves exactly the tree the plain call leaves (the operation was performed), for remove: the plain call when exists() says so
    act, plain = [], []
    for p in C20_PATHS:
        for m, f in C20_ACTS.items():
            act.append(_line("s", C20_PRE + ["macro:%s:%s" % (m, hx(p)), op("is_symlink", p), op("exists", p)]))
            plain.append(_line("s", C20_PRE + f(p) + [op("is_symlink", p), op("exists", p)]))
    expected = {}
    if ctx.get("rvh"):
        outs = rvlib.run_sharded(ctx["rvh"], plain, ctx["work"], "c20.plain", env=senv, hang_is_outcome=True)
        for a, pl, o in zip(act, plain, outs):
            expected[a] = o

    def act_law(line, out):
        res = _res(out)
        want = expected.get(line)
        if want is None:
            return True
        wres = _res(want)
        if res[-3] == "pass":
            # the plain call succeeded with the same tree and the same answers afterwards; remove_all leaves nothing, not even a link
            if _obs(out) != _obs(want) or res[-2:] != wres[-2:]:
                return False
            if ":remove_all:" in line.split("\t")[-3] and res[-2:] != ["b0", "b0"]:
                return False
            return True
        # a panic: the plain call failed or its postcondition does not hold on the plain call's result either
        return "assert_vfs_" in res[-3]
    return [Stream("checking-macros-stdfs", "pycheck", chk, impl_env=senv, pycheck=check_law, exhaustive=True,
                   rule="every checking macro on the real filesystem backend (sandbox) over files, directories, links to both, dangling links and missing paths: it passes "
                        "exactly when the query it stands for says so, and names itself otherwise"),
            Stream("acting-macros-stdfs", "pycheck", act, impl_env=senv, pycheck=act_law, exhaustive=True,
                   rule="remove_all / mkdir_p / mkfile macros on the same states: a pass leaves exactly the tree and answers the plain call leaves (the operation was performed; "
                        "after remove_all nothing is left at the path, not even a link)")]


# ---- C06 / C07: a Stdfs handle interleaved with other writers of the same file ---------------------------------------------------
def hmix_oracle(line, out):
    """the real filesystem's own rules: an append handle writes at the end of the file as it is then, a write handle truncates at open and
    writes at its own offset (a gap reads as zero bytes), append_all adds at the end, write_all replaces; content observed after each flush / drop"""
    f = line.split("\t")
    mode, old, toks = f[1], bytes.fromhex(f[2]), [t for t in f[3].split(",") if t]
    data = bytearray(old)
    pos = 0
    if mode == "w":
        data = bytearray()
    seen = []
    alive = True
    for t in toks:
        k, arg = t[0], bytes.fromhex(t[1:]) if len(t) > 1 else b""
        if k == "w" and alive:
            if mode == "a":
                data += arg
            else:
                if pos > len(data):
                    data += b"\0" * (pos - len(data))
                data[pos:pos + len(arg)] = arg
                pos += len(arg)
        elif k == "b" or k == "A":
            data += arg
        elif k == "W":
            data = bytearray(arg)
        elif k in ("f", "g"):
            seen.append("c" + bytes(data).hex())
        elif k == "d":
            alive = False
            seen.append("c" + bytes(data).hex())
    seen.append("c" + bytes(data).hex())
    return out == ";".join(seen)


def hmix_lines(tier):
    import itertools
    hs = []
    steps = [["w" + b"ta".hex(), "f"], ["w" + "é!".encode().hex(), "f"], ["A" + b"MID".hex()], ["W" + b"x".hex()], ["W" + b"a longer replacement".hex()],
             ["b" + b"22".hex(), "g"], ["d"]]
    n = 3 if tier == "quick" else 4
    for mode in ["a", "w"]:
        for old in [b"head\n", b""]:
            for seq in itertools.product(range(len(steps)), repeat=n):
                toks = [t for i in seq for t in steps[i]]
                hs.append("\t".join(["hmix", mode, old.hex(), ",".join(toks)]))
    return hs


def hmix_stream(tag, tier):
    return Stream(tag + "-stdfs-handles-interleaved", "pycheck", hmix_lines(tier), impl_env=c_wrap.sandbox_env(tag), pycheck=hmix_oracle, exhaustive=True,
                  rule="a Stdfs append / write handle interleaved with append_all, write_all and a second append handle on the same file, every sequence of %d steps; the content "
                       "after each flush and drop against the byte-vector model (an append always lands at the end of the file as it is then)" % (3 if tier == "quick" else 4))


# ---- C02 / C08: listing and traversal order on names around the separator, both backends -----------------------------------------
def order_stream(tag):
    hs = []
    for k in ["paths", "dirs", "files", "all_paths", "all_dirs", "all_files"]:
        for r in ["/", "/a", "/t", "/t/data"]:
            hs.append(_line("x", c_mem.ORDER_TREE + [op(k, r)]))
    for wo in ["sort", "sort,cf", "sort,df", "sort,ff,min=1", "sort,dirs", "sort,files,cf", "sort,max=1", "sort,min=1,max=2"]:
        for r in ["/", "/t"]:
            hs.append(_line("x", c_mem.ORDER_TREE + ["entries:%s:%s" % (hx(r), wo)]))
    return Stream(tag + "-order-both-backends", "pycheck", hs, impl_env=c_wrap.sandbox_env(tag), pycheck=c_wrap.x_eq, exhaustive=True, nontrivial=lambda l, o: True,
                  rule="a directory next to siblings named like it plus a character that sorts below the separator (space, '-', '.', '+'): every listing helper and sorted "
                       "traversal on Memfs and Stdfs (sandbox) side by side - names are ordered per directory, not as whole path strings")


# ---- C02 / C04 / C09: a copier built, the working directory changed, then the copier run: paths are read when it runs, on both backends ------
def deferred_copy_stream(tag):
    hs = []
    pre = [op("mkdir_p", "/a"), op("mkdir_p", "/b"), op("write_all", "/a/f", b"from-a"), op("write_all", "/b/f", b"from-b"), op("set_cwd", "/a")]
    for src, dst in [("f", "g"), ("./f", "../g"), ("f", "/abs-g"), ("/a/f", "g"), ("../a/f", "g")]:
        for o in ["cwd=%s" % hx("../b"), "cwd=%s" % hx("../b") + ",all=384", "cwd=%s" % hx(".")]:
            hs.append(_line("x", pre + ["copy_b:%s:%s:%s" % (hx(src), hx(dst), o), op("read_all", "/a/g"), op("read_all", "/b/g"), op("read_all", "/g"), op("read_all", "/abs-g"),
                                        op("cwd"), op("all_paths", "/")]))
    return Stream(tag + "-copier-after-cwd-change-both-backends", "pycheck", hs, impl_env=c_wrap.sandbox_env(tag), pycheck=x_eq_strict, exhaustive=True, nontrivial=lambda l, o: True,
                  rule="copy_b with relative paths, the working directory changed before exec(): both backends read the paths when the copier runs")


# ---- C05: the working directory gone, absolute arguments still resolve (Stdfs on its own answers) ------------------------------------------------
def cwd_gone_stream(tag):
    pre = [op("mkdir_p", "/d/e"), op("mkdir_p", "/keep"), op("write_all", "/keep/f", b"k"), op("set_cwd", "/d/e"), op("remove_all", "/d")]
    calls = [(op("abs", "/keep/./x/.."), "p" + "/keep".encode().hex()), (op("abs", "/keep//f/"), "p" + "/keep/f".encode().hex()), (op("exists", "/keep"), "b1"),
             (op("is_dir", "/keep"), "b1"), (op("is_file", "/keep/f"), "b1"), (op("read_all", "/keep/f"), "d" + b"k".hex()), (op("mkdir_p", "/keep/n"), "p" + "/keep/n".encode().hex()),
             (op("write_all", "/keep/w", b"w"), "ok"), (op("set_cwd", "/keep"), "p" + "/keep".encode().hex())]
    hs = [_line("s", pre + [c]) for c, _ in calls]
    want = {h: w for h, (_, w) in zip(hs, calls)}
    return Stream(tag + "-cwd-gone-stdfs", "pycheck", hs, impl_env=c_wrap.sandbox_env(tag), pycheck=lambda l, o: _res(o)[-1] == want[l], exhaustive=True,
                  rule="the process working directory removed, then calls with absolute arguments on the real filesystem backend: abs does no IO and the calls answer as usual")


# ---- C11: chmod over a tree that holds links next to files and directories of the same mode, both backends ----------------------------------------
def chmod_links_stream(tag):
    hs = []
    pre = [op("mkdir_p", "/outside"), op("write_all", "/outside/target", b"t"), op("mkdir_p", "/outside/tdir"), op("mkdir_p", "/t/c_dir"), op("symlink", "/t/a_link", "../outside/target"),
           op("write_all", "/t/b_file", b"b"), op("symlink", "/t/a_dlink", "../outside/tdir"), op("write_all", "/t/c_dir/f", b"f"), op("write_all", "/t/z_file", b"z")]
    probes = [op("mode", p) for p in ["/t", "/t/b_file", "/t/z_file", "/t/c_dir", "/t/c_dir/f", "/outside/target", "/outside/tdir"]]
    for sym in ["f:u+x", "f:a+x,d:go-w", "a:go-rwx", "d:a+w", "f:u=rw", "a:a-x"]:
        for o in ["", "norecurse", "follow=1"]:
            hs.append(_line("x", pre + ["chmod_b:%s:%s:%s" % (hx("/t"), o, hx(sym))] + probes))
    for o in ["all=448", "dirs=448,files=384", "files=292", "dirs=493,follow=1"]:
        hs.append(_line("x", pre + ["chmod_b:%s:%s:" % (hx("/t"), o)] + probes))
    return Stream(tag + "-chmod-links-both-backends", "pycheck", hs, impl_env=c_wrap.sandbox_env(tag), pycheck=x_eq_strict, exhaustive=True, nontrivial=lambda l, o: True,
                  rule="symbolic and octal chmod over a tree holding links to files and directories next to files and directories of the same mode: every mode read back, "
                       "Memfs and Stdfs (sandbox) side by side")


# ---- C11: chown's target is fixed when the builder is made (as chmod_b's is), on both backends; owners read back on each backend's own terms --------
def deferred_chown_stream(tag):
    pre = [op("mkdir_p", "/a"), op("mkdir_p", "/b"), op("write_all", "/a/f", b"1"), op("write_all", "/b/f", b"2"), op("set_cwd", "/a")]
    hs = []
    for mode in ["s", "m"]:
        for path in ["f", "./f", "../a/f"]:
            for o in ["uid=5,gid=7,cwd=%s" % hx("../b"), "uid=5,cwd=%s" % hx("../b") + ",norecurse", "uid=5,gid=7,cwd=%s" % hx(".")]:
                hs.append(_line(mode, pre + ["chown_b:%s:%s" % (hx(path), o), op("uid", "/a/f"), op("uid", "/b/f")]))

    def law(line, out):
        r = _res(out)
        if r[-3] != "ok":
            return False
        # the entry named when the builder was made (under /a) is the one that changed; its namesake under the new working directory is untouched
        return r[-2] == "n5" and r[-1] != "n5"
    return Stream(tag + "-chown-after-cwd-change", "pycheck", hs, impl_env=c_wrap.sandbox_env(tag), pycheck=law, exhaustive=True, nontrivial=lambda l, o: True,
                  rule="chown_b with a relative path, the working directory changed before exec(), on Stdfs (sandbox, as root) and on Memfs: the entry named when the builder "
                       "was made changes, its namesake under the new working directory does not")


# ---- C10 / C20: links made behind the crate's back, with target texts the crate would not write itself ----------------------------------------------
def rawlink_stream(tag):
    texts = ["notes.txt~", "a~b", "$UNSET_VAR_X/y", "~", "plain", "../d/plain", "dir", "nowhere", "x/~/y", "${"]
    pre = [op("mkdir_p", "/d/dir"), op("write_all", "/d/plain", b"p"), op("write_all", "/d/notes.txt~", b"n")]
    hs = []
    for t in texts:
        hs.append(_line("s", pre + ["rawlink:%s:%s" % (hx("/d/l"), hx(t)), op("is_symlink", "/d/l"), "macro:is_symlink:%s" % hx("/d/l"), "macro:no_symlink:%s" % hx("/d/l"),
                                    op("is_file", "/d/l"), op("is_dir", "/d/l"), op("remove", "/d/l"), op("is_symlink", "/d/l")]))

    def law(line, out):
        r = _res(out)
        if r[3] != "ok":
            return True
        # a link is a link whatever its target text says; the checking macros follow; link exclusion; remove takes the link away
        return r[4] == "b1" and r[5] == "pass" and r[6].startswith("panic:assert_vfs_no_symlink!") and r[7] == "b0" and r[8] == "b0" and r[9] == "ok" and r[10] == "b0"
    return Stream(tag + "-raw-links-stdfs", "pycheck", hs, impl_env=c_wrap.sandbox_env(tag), pycheck=law, exhaustive=True, nontrivial=lambda l, o: True,
                  rule="links created directly on the real filesystem with target texts the crate would not write ('~' inside a name, an unset variable, '${'): is_symlink, the "
                       "is_symlink / no_symlink macros, link exclusion and remove on Stdfs")


# ---- C08 / C09: arguments that reach their directory through a link (Stdfs on its own answers) ----------------------------------------------
def via_link_listing_stream(tag):
    """a relative link two levels up, listed through the physical path and through a directory link of another depth: the kind of an entry is a
    fact of the filesystem, not of the spelling of the path that reached it"""
    hs = []
    r1, r2 = "/d/ln/b", "/d/x/a/b"
    shapes = [[op("mkdir_p", "/d/x/t"), op("write_all", "/d/t", b"f")], [op("write_all", "/d/x/t", b"f"), op("mkdir_p", "/d/t")],
              [op("mkdir_p", "/d/t")], [op("write_all", "/d/t", b"f")], [op("mkdir_p", "/d/x/t")], [op("mkdir_p", "/d/x/t"), op("mkdir_p", "/d/t")]]
    for sh in shapes:
        for tgt in ["../../t", "../../../x/t", "../t"]:
            pre = [op("mkdir_p", "/d/x/a/b")] + sh + ["rawlink:%s:%s" % (hx("/d/x/a/b/lk"), hx(tgt)), "rawlink:%s:%s" % (hx("/d/ln"), hx("x/a"))]
            q = []
            for r in (r1, r2):
                q += [op("dirs", r), op("files", r), op("is_symlink_dir", r + "/lk"), op("is_symlink_file", r + "/lk"), "entries:%s:sort,dirs" % hx(r),
                      "entries:%s:sort,files" % hx(r), op("all_dirs", r), op("all_files", r)]
            hs.append(_line("s", pre + q))

    def law(line, out):
        r = _res(out)
        n = len(r)
        a, b = r[n - 16:n - 8], r[n - 8:]
        a = [x.replace(hx(r1), hx(r2)) for x in a]
        return a == b
    return Stream(tag + "-listing-through-a-directory-link-stdfs", "pycheck", hs, impl_env=c_wrap.sandbox_env(tag), pycheck=law, exhaustive=True, nontrivial=lambda l, o: True,
                  rule="a relative link climbing two levels, listed through the physical directory and through a directory link of another depth: dirs / files / filtered "
                       "entries / is_symlink_dir / is_symlink_file give the same kinds either way (Stdfs)")


def via_link_copy_stream(tag):
    hs = []
    pre = [op("mkdir_p", "/d/src/sub"), op("write_all", "/d/src/f", b"f"), op("write_all", "/d/src/sub/g", b"g"), "rawlink:%s:%s" % (hx("/d/lnk"), hx("src/sub")),
           "rawlink:%s:%s" % (hx("/d/top"), hx("src"))]
    want = ["/d/src/f", "/d/src/sub", "/d/src/sub/g", "/d/src/sub/out", "/d/src/sub/out/f", "/d/src/sub/out/sub", "/d/src/sub/out/sub/g"]
    for dst in ["/d/lnk/out", "/d/src/sub/out", "/d/top/sub/out"]:
        hs.append(_line("s", pre + [op("copy", "/d/src", dst), op("all_paths", "/d/src")]))

    def law(line, out):
        r = _res(out)
        return r[-2] == "ok" and r[-1] == "L" + ",".join(hx(x) for x in want)
    return Stream(tag + "-copy-into-the-source-through-a-link-stdfs", "pycheck", hs, impl_env=c_wrap.sandbox_env(tag), pycheck=law, exhaustive=True, nontrivial=lambda l, o: True,
                  rule="a directory copied to a destination that lies inside it on disk but is named through a link: exactly the entries the source had when the call "
                       "started arrive under the destination (Stdfs)")


def _extend(mod, pid, extra, note):
    P = dict(mod.PROPS[pid])
    base = P["streams"]
    P["streams"] = lambda tier, rng, ctx: base(tier, rng, ctx) + extra(tier, rng, ctx)
    P["assumptions"] = [a for a in P.get("assumptions", []) if not a.startswith("Stdfs side: see C02")] + [note]
    P["trusted"] = P.get("trusted", []) + ["harness/src/stdhist.rs (sandbox re-rooting, std::fs observer)"]
    PROPS[pid] = P


_extend(c_path, "C05", lambda tier, rng, ctx: [spelling_stream("c05"), cwd_gone_stream("c05g")], "Stdfs side: the spelling stream runs every method on both backends; the theorems are about the Memfs mirror")
_extend(c_mem, "C09", lambda tier, rng, ctx: [copy_link_stream("c09"), deferred_copy_stream("c09d"), via_link_copy_stream("c09v")], "Stdfs side: C02, plus the copy-onto-links and copy-into-the-source-through-a-link streams here")
_extend(c_mem, "C10", lambda tier, rng, ctx: c10_std_streams(tier, rng), "Stdfs side: the link clauses and removal of links are judged on Stdfs's own answers (dangling links are outside C02's domain)")
_extend(c_mem, "C20", lambda tier, rng, ctx: c20_std_streams(tier, rng, ctx) + [rawlink_stream("c20r")], "Stdfs side: C02 runs every macro on both backends inside its domain; here the macros are judged on Stdfs's own answers, dangling links included")
_extend(c_mem, "C06", lambda tier, rng, ctx: [hmix_stream("c06h", tier)], "Stdfs side: content laws on both backends, and handles interleaved with other writers judged by the byte-vector model")
_extend(c_mem, "C07", lambda tier, rng, ctx: [hmix_stream("c07h", tier)], "Stdfs handles interleaved with other writers are judged by the byte-vector model (c_std.py)")
_extend(c_mem, "C08", lambda tier, rng, ctx: [order_stream("c08o"), via_link_listing_stream("c08v")], "Stdfs side: C02, plus the order stream and the listing-through-a-directory-link stream here")
_extend(c_mem, "C11", lambda tier, rng, ctx: [chmod_links_stream("c11l"), deferred_chown_stream("c11d")], "Stdfs side: chmod over trees with links on both backends side by side")
_extend(c_wrap, "C02", lambda tier, rng, ctx: [spelling_stream("c02s"), copy_link_stream("c02c"), order_stream("c02o"), deferred_copy_stream("c02d"), chmod_links_stream("c02l")], "the spelling and copy-onto-links streams are shared with C05 / C09")

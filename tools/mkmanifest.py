#!/usr/bin/env python3
# mkmanifest.py — writes MANIFEST.json from the table below (kept in one place so it stays valid).
import json, os
V = os.path.dirname(os.path.dirname(os.path.abspath(__file__)))

CLAIMED = {
    "C14": dict(
        text="Coq theorems over the mirror of sys::clean (all strings, no length bound): the mirror never panics and "
             "equals the canonical rendering of the path's lexical denotation; normal form, uniqueness, idempotence, "
             "absoluteness and non-emptiness follow. The mirror, the spec and a transliteration of Go's path.Clean are "
             "tied to the real sys::clean by exhaustive differential runs on every check.",
        note="Trusted: Coq kernel; Base/PathLex.v model of std::path (validated by its own stream); extraction "
             "(ExtrOcamlBasic), OCaml driver, Rust harness, Python differ. 'exactly Go's path.Clean' is carried by the "
             "executable transliteration go_clean compared on every input (theorem go_clean_agrees not yet proved: partial).",
        technique="Coq proof (loop invariant, denotational normal form) + exhaustive correspondence",
        ref="§7 C14"),
    "C16": dict(
        text="Coq theorems over the mirror of sys::relative for all clean absolute paths (any depth, any names): the result is "
             "'..'* followed by normal components, its '..' count is the number of base components below the common prefix, it is "
             "relative, clean(join(base, result)) = path, and path == base returns path. Mirror, spec and the property's own "
             "checker are run against the real code on every ordered pair of a bounded namespace plus random deep pairs.",
        note="Trusted: Coq kernel; Base/PathLex.v model of std::path; extraction, OCaml driver, Rust harness, Python differ.",
        technique="Coq proof (induction over the common prefix) + exhaustive correspondence",
        ref="§7 C16"),
    "C15": dict(
        text="Coq theorems over the mirrors of the lexical helpers, for all strings: trim_prefix/trim_suffix inverse and identity laws, "
             "ext/trim_ext split (outside the recorded class KF-C15-ext, with a refutation witness inside it), name = base minus "
             "extension, mash components / containment / rendering, has* = string containment, concat, parse_paths; the splitting laws on "
             "arbitrary strings (repeated separators, '.' segments, trailing separators): trim_last / dir drop exactly the last component, "
             "trim_first exactly the first, base / last / first name that component, dir fails exactly on the empty path and the root; "
             "trim_protocol in closed form (removes the text up to the first '//' exactly when it is one of the four schemes "
             "case-insensitively, otherwise returns the path unchanged). Every helper is compared with its mirror, and every law of the "
             "statement is evaluated on the real code, exhaustively on short multi-byte strings and randomly beyond.",
        note="Trusted: Coq kernel; Base/PathLex.v + Base/Str.v models of std::path / str (validated by the std_* streams); "
             "to_lowercase enters only through ASCII letters; extraction, driver, harness, differ.",
        technique="Coq proof (list/segment lemmas) + exhaustive correspondence + law evaluation on the implementation",
        ref="§7 C15"),
    "C19": dict(
        text="Coq theorems, for every finite sequence and all indices in isize: drop and slice (mirrors with the `as usize` wraps written "
             "out) equal their plain list definitions (slice under the statement's hypothesis left >= -len), empty/out-of-range slices are "
             "empty, first/first_result/last_result/single/some/consume equal list semantics including error kinds, size = length, "
             "to_bool is false exactly for \"\", \"0\" and casings of \"false\", trim_suffix removes one occurrence or nothing, "
             "Option::has is equality, take_while_p yields the longest satisfying prefix and leaves the failing item. Tied by exhaustive "
             "runs over lengths x index pairs x isize corners and multi-byte strings. The defer clause is proved over a model of Rust's "
             "scope semantics for locals (Core/Defer.v: every registered closure runs exactly once on every exit path - normal end, early "
             "return, panic -, LIFO within a scope, enclosing defers run when an inner scope is left early) and tied by running every small "
             "program of nested scopes with real defer(..) guards on the call stack. Partial: that locals are dropped in reverse order, also "
             "when unwinding, is Rust's semantics and an assumption of the model.",
        note="Trusted: Coq kernel; list model of double-ended iterators; ASCII model of to_lowercase validated over all scalars by "
             "stream lowercase-scan; extraction, driver, harness, differ.",
        technique="Coq proof (list arithmetic with lia) + exhaustive correspondence",
        ref="§7 C19"),
    "C07": dict(
        text="Coq theorems: for every byte string and every sequence of read(n)/seek(Start|Current|End, off) with offsets anywhere in "
             "u64/i64, the mirror of MemfsFile never panics and produces exactly the results and positions of the std::io::Cursor "
             "specification; reads at/after the end return 0 bytes; a seek before the start is InvalidInput and leaves the position; for "
             "every chunking of writes with flushes anywhere, a write handle persists exactly the written bytes and an append handle "
             "old ++ written, at each flush and at drop; a handle whose file was removed creates nothing. Tied by exhaustive short op "
             "sequences against Memfs, a real std::io::Cursor (validating the spec) and Stdfs files.",
        note="Trusted: Coq kernel; Cursor spec validated against real std::io::Cursor; Rust drop semantics (Drop::drop runs once at "
             "scope end) assumed; KF-C07-stdfs-far-seek recorded (kernel limit on file offsets); extraction, driver, harness, differ.",
        technique="Coq proof (simulation with std::io::Cursor; invariant over write/flush histories) + exhaustive correspondence",
        ref="§7 C07"),
    "C17": dict(
        text="Coq theorems for every environment (any function name -> optional value) and every string: text without '~' and '$' is "
             "returned unchanged; '~' and '~/rest' become $HOME and rest mashed onto $HOME; more than one '~', a '~' elsewhere, an "
             "empty variable name and an unset variable fail with the documented kind; inside a component every well-formed "
             "sequence of literals, $NAME and ${NAME} is replaced by exactly the values (parser-correctness theorem over token lists of "
             "any length); the scanning loop terminates within the fuel supplied. Tied by running the real expand in one process per "
             "environment over all short templates.",
        note="Trusted: Coq kernel; environment as a finite map; std::path model; take_while_p/next_if_eq as list operations; "
             "components combine with PathBuf::push (absolute value replaces the prefix) as the crate's own test pins; extraction, "
             "driver, harness, differ.",
        technique="Coq proof (tokeniser correctness by induction over token lists) + per-environment correspondence",
        ref="§7 C17"),
    "C05": dict(
        text="Coq theorems for every string, every clean absolute cwd (any depth) and every environment: abs equals its closed form "
             "clean(join(cwd, trim_protocol(expand s))) — hence absolute and in normal form (C14) — fails only for an empty path, a "
             "failed expansion or '..' climbing above the root, and is idempotent from every cwd for results without '~'/'$'. The "
             "loop peeling '.'/'..' is verified against the string-level std::path model (parent, trim_first, mash on canonical "
             "paths). One mirror is tied to both Memfs::abs and Stdfs::abs (real process cwd in a sandbox). Last clause (Memfs/Spelling.v): "
             "for every call of the Memfs alphabet and every state a history reaches, replacing each path argument by the string abs returns for it "
             "changes neither the result nor the state (spelling_independent_reachable; the working directory and every remembered link target "
             "consist of proper names in every reachable state, Memfs/CwdInv.v); an abs result that still contains '~' or '$' would be expanded "
             "again and is left as it is. The symlink target is read relative to the link's directory and is not such an argument.",
        note="Trusted: Coq kernel; std::path/str models; environment as a finite map; extraction, driver, harness, differ.",
        technique="Coq proof (loop invariant over canonical component lists, denotation of cwd/q) + exhaustive correspondence on both backends",
        ref="§7 C05"),
    "C18": dict(
        text="Coq theorems for every environment: config/cache/data/state_dir return the XDG_*_HOME value when set and the XDG default "
             "under $HOME otherwise (error when neither is available), runtime_dir falls back to /tmp, sys_config_dirs / sys_data_dirs / "
             "path_dirs return the listed non-empty segments in order or the defaults when unset or empty, vfs.config_dir returns the "
             "first directory in the order XDG_CONFIG_HOME then XDG_CONFIG_DIRS containing the name (None iff none does, for every "
             "filesystem predicate), getrids returns the SUDO pair only for uid 0 with both values parsing as u32. The mirror takes its "
             "variable names and defaults from Gen/Consts.v, regenerated from src/sys/user.rs on every run; the theorems spell the XDG "
             "literals out themselves, so a changed literal breaks a proof. Tied by one harness process per environment configuration, on "
             "Memfs and a Stdfs sandbox.",
        note="Trusted: Coq kernel; tools/translators.py (regex translator, fails closed); environment as a finite map; u32::from_str "
             "modelled as optional '+' and decimal digits; extraction, driver, harness, differ.",
        technique="Coq proof over a model whose constants are translated from the source + per-process correspondence",
        ref="§7 C18"),

    "C11": dict(
        text="Coq theorems over the mirror of sys::mode for every entry kind, every mode and every clause list: a well-formed expression "
             "yields exactly the fold of the documented clause semantics ([dfa]:[ugoa][-+=][rwx], comma-repeatable), a non-zero octal takes priority, "
             "a symlink entry is never changed, bits 9 and above (file type) are kept by every clause, each permission bit of a clause that applies is "
             "the documented function of target/who/op/perm, and a malformed first clause (bad target, empty who, missing permissions) is an error. "
             "Tied at expression level by exhaustive streams through the cfg(rivia_verif) re-export of sys::mode, and at tree level by running every "
             "chmod / chmod_b / chown / chown_b call of an alphabet (octal incl. 0 and special bits, symbolic incl. results of 000, malformed, follow x "
             "recursion x dirs / files selectors) in every reachable tree of a bounded namespace: full pre/post state vs the mirror of _chmod / _chown, and "
             "an independent Python statement of 'exactly the targeted entries get exactly the requested value, nothing else changes, error => no change'; "
             "is_exec / is_readonly vs mode() over all 512 rwx values. Tree-level theorems over the mirror (Memfs/ChmodFacts.v): chown sets the "
             "requested ids on exactly the entries its traversal yields and changes nothing else; chmod, whatever it returns, changes nothing but "
             "mode fields and only of entries its traversal names; without follow, chown succeeds in every well-formed state and sets the ids "
             "of exactly the argument (recursive: everything at or below it), nothing else (from C08's exactness theorem); chmod without follow, "
             "recursive or not, is exact as well (Memfs/ChmodExact.v): when the grammar yields a non-zero value for every entry, every non-link "
             "entry at or below the argument carries exactly the grammar's value for its kind afterwards and nothing else changes. Partial: "
             "chmod / chown WITH follow at tree level (which entries the traversal yields through links) is decided by the enumeration and the "
             "judge; the Stdfs side runs under C02.",
        note="Trusted: Coq kernel; hooks sys::verif::{sym_mode, memfs_entry, memfs_snapshot}; tools/walkspec.py + c_mem.py sym_spec as the independent "
             "statement; KF-C11-octal-zero recorded; extraction, driver, harness, differ.",
        technique="Coq proof (state machine = clause fold) + exhaustive expression correspondence + model-guided BFS judged on pre/post snapshots",
        ref="§7 C11"),
    "C03": dict(
        text="Coq theorems over the mirror of the Memfs state (entries index, data index, per-directory name sets, cwd, root): the well-formedness "
             "invariant WF (every non-root path has a parent that is a real directory and lists it; every listed name exists; exactly the regular "
             "non-link files have data; every entry is stored under its own path; a files set exactly on directory-kinded entries; root = '/') holds "
             "initially and is preserved by EVERY call, succeeding or failing, for all states and arguments - including move_p, whose relocation loop "
             "passes through ill-formed states and is proved through a display invariant (Memfs/WfMove.v), and copy / chmod / chown / mkfile_m - hence "
             "after every history of any length (wf_step, wf_all_histories); recursive reachability from the root follows (wf_reachable). A boolean "
             "checker wf_b is proved sound for WF and is evaluated by the extracted model on the implementation's own state snapshot after every history "
             "of a model-guided BFS over a bounded namespace and of random longer histories, which ties the theorem's subject to the real indexes.",
        note="Trusted: Coq kernel; hook sys::verif::memfs_snapshot (read-only dump of the guarded state); HashSet/HashMap as finite sets/maps; "
             "extraction, driver, harness, differ.",
        technique="Coq proof (invariant by induction over operation histories, sound boolean checker) + snapshot judging on the implementation",
        ref="§7 C03"),
    "C08": dict(
        text="Coq theorems over the mirror of the Entries iterator (explicit stack machine with fuel: iterator stack, deferred stack, descriptor "
             "counter, one next() per item). Memfs/WalkSpec.v states what a traversal denotes as a plain recursion over the snapshot and proves the "
             "machine returns exactly the recursion's event sequence for every snapshot, option record, pre_op and start, links followed or not, "
             "whenever the recursion is defined and the fuel covers its steps; Memfs/WalkTerm.v proves both always hold when links are not followed "
             "(termination within fuel). Memfs/WalkExact.v reads the property off the recursion for every well-formed state without follow: no "
             "errors and exactly the entries the depth window and filter select, all of them, each once; parents before contents (after with "
             "contents_first); siblings in name order grouped by kind with dirs_first / files_first; paths/dirs/files/all_* return exactly the "
             "entries strictly below an existing directory (one level for the shallow ones) of the asked kind, each once, never the argument; "
             "Memfs/WalkLex.v: a sorted traversal with none of follow / dirs_first / files_first / contents_first yields its paths in strictly increasing "
             "lexicographic order, which determines the whole sequence from the set. Also: "
             "no panic, nothing a filter rejects is yielded, independence of the descriptor cap. The mirror is compared with the real iterator on "
             "random trees (links, cycles, dangling) x the cross-product of options; the driver compares machine and recursion on every explored "
             "call; every observed sequence is also judged by tools/walkspec.py. Memfs/WalkFollow.v proves the denotation is always defined, "
             "links followed or not (a followed link to an open directory is LinkLooping, every other followed link adds a new open path, a "
             "plain child is one level deeper: no endless descent). Partial: with links followed, that the mirror's fuel (a model artefact) "
             "covers the recursion's steps is exercised and judged, not proved; 'identically on both backends' runs under C02; on Stdfs a directory "
             "listed through its physical path and through a directory link of another depth must show the same kinds (tools/c_std.py).",
        note="Trusted: Coq kernel; sibling order of unsorted traversals and of name ties is HashSet order and compared as a multiset; "
             "tools/walkspec.py as a second, independent judge; extraction, driver, harness, differ.",
        technique="Coq proof (machine = recursive denotation; exactness, order and termination without follow) + correspondence + independent judge",
        ref="§7 C08"),
    "C06": dict(
        text="Coq theorems over the Memfs mirror for every state, path and data: a successful write_all makes read_all return exactly the data "
             "(whole content replaced), append_all makes it old ++ data (prefix unchanged), read_all returns the stored bytes, "
             "read_lines(write_lines(ls)) = ls for non-empty terminator-free lines with exactly one newline per line (over the UTF-8 / lines model), "
             "and writing one path leaves every other path's content unchanged; for ANY sequence of write_all / write_lines / append_all / "
             "append_line / append_lines on one regular file every call succeeds and the content is what the byte-vector model holds, which "
             "read_all returns (Memfs/ContentHistory.v); a copied file does not alias its source (Memfs/NoAlias.v). Tied by byte strings (empty, multi-byte, invalid UTF-8, CRLF, 2 KiB) x every "
             "reachable tree x all write/append/line helpers and reads, handle-based write/append histories, and interleavings over three files with "
             "copies and moves (no aliasing), all compared with the mirror and judged by content laws on the implementation's snapshots. Handle "
             "semantics themselves are C07's theorems.",
        note="Trusted: Coq kernel; Base/Utf8.v model of str::from_utf8 / lines() validated by its own streams; extraction, driver, harness, differ.",
        technique="Coq proof (map lemmas over the data index) + exhaustive correspondence + laws on snapshots",
        ref="§7 C06"),
    "C09": dict(
        text="move_p is proved completely over the mirror (Memfs/WfMove.v, axiom-free): for every well-formed state and every source and "
             "destination, the validation phase detects every documented failure before the first mutation and a failed move_p returns the "
             "state unchanged; a successful move_p makes the source disappear with everything below it, makes the destination the former "
             "source subtree entry for entry (same relative paths, kinds, modes, owners, child lists, byte contents; a link keeps the target "
             "it stores), leaves every other entry and every other file's content untouched apart from the two parents' name lists, keeps cwd "
             "and root, and the result is well formed (the relocation loop is handled by a display invariant). copy is mirrored and compared "
             "with the real code on every reachable tree of a bounded namespace x every ordered pair of paths x Copier options, its clauses "
             "(source untouched, independent copy at the same relative paths with kind / content / target / mode, existing entries kept, nothing "
             "outside the destination changes, links consistent) evaluated on the implementation's pre/post snapshots. Proved for copy: no panic, well-formedness preservation, and that it only "
             "ever adds (Memfs/CopyFacts.v): whatever it returns, every entry that existed - the source included - is kept under the same path "
             "with the same kind, link target, owner and (without a chmod option) mode, directories list at least what they listed, no file "
             "loses its content, cwd and root stay; copy of a regular file to a fresh path is exact (Memfs/CopyFile.v); copy of a directory tree "
             "without links to a fresh path in an existing directory, not following links, is proved on the reference tree (Memfs/CopyDir.v): "
             "every entry at j below the source has a copy at j below the destination with the source's kind, bytes and (requested or own) "
             "mode, nothing else appears below the destination, everything outside it is as before (it needs the keys below the source to be "
             "proper path names, proved an invariant of every call in Memfs/Names.v, so it holds in every reachable state); with dst an "
             "existing directory the same holds for dst/<name of the source> (Memfs/CopyInto.v). Partial: sources containing links and "
             "copies that follow links are judged on the bounded enumeration, not proved; Stdfs copies onto links, with a changed working "
             "directory, and into the source through a link are judged on Stdfs's own answers (tools/c_std.py).",
        note="Trusted: Coq kernel; tools/frames.py as the executable statement of the clauses; after a copy that follows links the state is "
             "compared up to HashSet order; extraction, driver, harness, differ.",
        technique="Coq proof (validation completeness and frame) + model-guided BFS judged on pre/post snapshots",
        ref="§7 C09"),
    "C12": dict(
        text="Coq theorems: every call of the Memfs mirror, for every state and every argument, returns a value or an error and never the Panic "
             "outcome (step_no_panic), and the pure helpers are total (C14/C15/C19 theorems). Tied by adversarial arguments (empty, ~, $, //, 50-deep "
             "'..' chains, 2-/3-/4-byte characters at slicing offsets, 300-character names, 60-deep paths) into every Memfs method under catch_unwind, "
             "each followed by a probe call showing the instance is still usable and its lock not poisoned. 'Bounded time' is carried by "
             "explicit fuel in the mirror: move_p and remove_all are proved to finish within 2 * entries + 2 iterations from every well-formed "
             "state (move_op_terminates, remove_all_op_terminates), a traversal that does not follow links within three machine steps per entry, "
             "and hence EVERY call of the alphabet that does not ask to follow links within its fuel (step_terminates: listings, entries, copy, "
             "chmod, chown, mkfile_m included); expand's scanner within the length of its input; the state after any call is proved well formed "
             "again (usable-after). Partial: for entries / copy / chmod / chown WITH follow the fuel bound is exercised (an OutOfFuel outcome "
             "would be a mismatch; wall-clock limit in the harness), not a theorem.",
        note="Trusted: Coq kernel; the mirror's Panic outcome marks every unwrap / index / slice of the modelled functions (hand-written, tied by "
             "the correspondence); extraction, driver, harness, differ.",
        technique="Coq proof (no Panic outcome by case analysis over every operation) + adversarial correspondence under catch_unwind",
        ref="§7 C12"),
    "C01": dict(
        text="Memfs/Spec.v is a plain reference tree filesystem written from the trait documentation (one flat map from absolute paths to "
             "nodes, a working directory; no child lists, no separate data index). Coq theorems (Memfs/Refine.v, axiom-free): from every state "
             "reachable by ANY history of calls - reachable states are well formed (C03) and kind-sound (Memfs/Kinds.v), both proved for every "
             "call including the move / copy / traversal loops - the mirror of Memfs refines the reference for mkfile, mkdir_p / mkdir_m, "
             "write_all, append_all, reads, remove, remove_all (off the root), symlink, set_cwd and the queries: the call returns exactly the reference call's value or error kind and leaves exactly "
             "the reference call's tree; a single-target call that reports failure (mkfile, mkdir_p / mkdir_m, write_all, append_all, remove, "
             "symlink, set_cwd, move_p) leaves the three indexes exactly as they were (failed_call_unchanged); chown without follow refines the "
             "reference chown (Memfs/RefineChown.v); and for whole histories (Memfs/RefineHistory.v): a reference filesystem working on the flat tree "
             "alone (resolving its own arguments against the tree's cwd) such that from every well-formed kind-sound state - the fresh "
             "filesystem in particular - ANY history of mkfile, mkdir_p / mkdir_m, write_all / write_lines, append_all / append_line / append_lines, read_all / read_lines, "
             "remove, remove_all (off the root), symlink, readlink / readlink_abs, move_p (Memfs/RefineMove.v), set_cwd, cwd, root, abs, chown without follow, chmod without follow, octal or symbolic "
             "(Memfs/RefineChmod.v, RefineChmodSym.v), mkfile_m, the listing helpers paths / dirs / files / all_paths / all_dirs / all_files (Memfs/RefineList.v: the qualifying paths "
             "below the directory in increasing lexicographic order, stated without a traversal), copy of a link-free source to a fresh destination or of a "
             "directory into an existing one (Memfs/RefineCopy.v), entries() sorted by name without follow / dirs_first / files_first / contents_first "
             "(Memfs/RefineEntries.v) and the queries "
             "(exists, is_dir, is_file, is_symlink, is_symlink_dir, is_exec, is_readonly, mode, owner, uid, gid) gives call by call exactly the "
             "reference's value or error kind and ends in exactly the reference's tree (history_refines). move_p is specified exactly and proved in Memfs/WfMove.v (C09). "
             "The mirror is tied to the real Memfs by a model-guided BFS of every reachable state of a bounded namespace x the full call "
             "alphabet and by random histories: every call's value / error kind and the complete resulting state; 'a failed single-target call "
             "leaves the tree as it was' is also evaluated on the implementation's pre/post snapshots. Partial: copy, chmod and "
             "chown are compared state-for-state and judged on snapshots, and proved safe (no panic, well formed, kind-sound), but their "
             "reference-level specification is not yet a theorem.",
        note="Trusted: Coq kernel; hook memfs_snapshot; extraction, driver, harness, differ.",
        technique="Executable Coq model + theorems over it + model-guided BFS correspondence on full state",
        ref="§7 C01"),
    "C20": dict(
        text="Coq theorems over mirrors of the assert_vfs_* macros for every state, environment and argument: each checking macro passes iff its "
             "predicate holds (exists / no_exists, is_dir / no_dir, is_file / no_file, is_symlink / no_symlink, read_all, readlink, readlink_abs), "
             "never changes the state, and names itself when it panics; each acting macro that passes establishes its postcondition (mkdir_p, "
             "mkdir_m incl. the permission bits, mkfile, write_all, symlink, remove, remove_all). "
             "Tied by expanding the real macros under catch_unwind in every reachable state of a bounded namespace x every path x matching and "
             "non-matching expected values, comparing pass / panic and the macro named in the message. On Stdfs (sandbox): every macro runs under C02 inside its domain, "
             "and every checking macro is judged against the query it stands for and the acting macros against the plain call on states with dangling links "
             "(tools/c_std.py; found and repaired: is_symlink! / no_symlink! on a dangling link). Partial: the theorems are about the Memfs mirror; the "
             "message's path is checked by the harness, not modelled.",
        note="Trusted: Coq kernel; macro mirrors hand-written from src/testing.rs (tied by the correspondence); extraction, driver, harness, differ.",
        technique="Coq proof (iff per macro) + exhaustive correspondence under catch_unwind",
        ref="§7 C20"),
    "C10": dict(
        text="Coq theorems over the Memfs mirror (Memfs/LinkFacts.v): symlink(link, target) stores under the link path a link entry whose absolute "
             "target is the resolved target (relative spellings taken from the link's directory), whose relative form is relative(target, dir(link)) "
             "and whose kind is the target's kind at creation, and right afterwards readlink_abs / readlink / is_symlink / is_file / is_dir / "
             "is_symlink_dir / is_symlink_file answer accordingly; follow(true) swaps path and alt exactly once, is_dir / is_file exclude links in "
             "every state, readlink on a non-link fails; in every well-formed state remove, chown without follow and chmod without follow on a link "
             "change the link (chmod: nothing) and leave every other entry, the target included, untouched; with C16's relative_navigates for the "
             "stored relative target. Tied by (link position, target position) pairs in trees up to depth 4, "
             "absolute and relative spelling, target absent / file / dir / link; the statement's clauses (readlink_abs = abs(target), "
             "clean(dir(link)/readlink) = readlink_abs, readlink relative, link exclusion, is_symlink_dir / is_symlink_file) evaluated on the "
             "implementation's results; remove / chmod / chown without follow judged on pre/post snapshots to leave the target untouched; the same pairs with the "
             "link then moved; and on Stdfs (sandbox) the same clauses and the removal of links judged on Stdfs's own answers, dangling links included "
             "(found and repaired: no entry for a dangling link on Stdfs). KF-C10-self-dir recorded.",
        note="Trusted: Coq kernel; posixpath.normpath as the lexical clean of absolute paths in the judge; extraction, driver, harness, differ.",
        technique="Coq proof (entry lemmas, C16 navigation) + exhaustive correspondence + clause evaluation on the implementation",
        ref="§7 C10"),

    "C13": dict(
        text="The routing tables of `impl VirtualFileSystem for Vfs`, `impl Entry for VfsEntry` and `impl VirtualFileSystem for Stdfs` are regenerated from "
             "the current source on every run (Wrap/Routes.v). Coq theorems: every trait method is dispatched in both arms by the identity route (same "
             "callee, same arguments in the same order, only `.upcast()` allowed as a suffix where the trait says so), default methods are not overridden, "
             "and for ANY backend semantics, state, argument list and history an identity-routed call returns exactly what the direct call returns and has "
             "exactly its effect (wrapper_transparent, history_transparent). A wrapper body the translator cannot read as a plain dispatch is a broken "
             "obligation. Tied by running every BFS history of the bounded namespace and random histories on a Memfs value directly and through Vfs::Memfs, "
             "random sandbox histories on Stdfs directly and through Vfs::Stdfs (results + full state / observed tree), and all sixteen Entry accessors over "
             "every follow / upcast / clone sequence up to length 3 on MemfsEntry / StdfsEntry directly and through VfsEntry.",
        note="Trusted: Coq kernel; tools/translators.py gen_routes (fails closed); Rust's enum dispatch semantics (a match arm evaluates the call it "
             "contains); harness/src/wrap.rs; HashSet-order effects canonicalised (DESIGN.md Corrections).",
        technique="Translator-generated routing tables + Coq proof (parametric transparency) + direct-vs-wrapped transcripts",
        ref="§7 C13"),

    "C02": dict(
        text="Coq theorem (Memfs/Posix.v): over the same tree, component-wise POSIX resolution (which follows every link it meets before "
             "the last component, with fuel against cycles) coincides with Memfs' lexical lookup exactly when no proper ancestor of the "
             "argument is a link: the property's domain restriction is what makes agreement possible at all, and one intermediate link "
             "refutes it outside. The agreement of the two implementations themselves cannot be a theorem about this code base (the real "
             "filesystem is the kernel); it is decided by running Memfs and Stdfs side by side in one process on the same histories (every "
             "BFS history of a bounded namespace over the full call alphabet incl. traversals, copy, chmod, move, links, ~ / $VAR / unclean "
             "spellings, plus random histories), cutting a history before the first call whose pre-state or arguments leave the domain "
             "(evaluated on the Memfs state through the snapshot hook), and comparing success / failure, returned values and the tree an "
             "independent std::fs observer reads back. 27 divergences found this way were repaired in /repo (known_findings.json).",
        note="Trusted: Coq kernel; harness/src/stdhist.rs (sandbox re-rooting, observer, domain predicate); checks run as root, so the real "
             "filesystem enforces no permissions; owner queries, chown and error kinds are not compared; the working directory is compared "
             "through cwd() results, not as part of the tree; HashSet / readdir order canonicalised.",
        technique="Coq proof (lexical = POSIX resolution inside the domain) + side-by-side differential with domain tracking",
        ref="§7 C02"),
    "C04": dict(
        text="Coq theorems (Conc/Lin.v, axiom-free, for ANY sequential step function): threads whose calls each run one critical section "
             "under one lock, under EVERY schedule: the calls in critical-section order replayed sequentially give exactly the observed "
             "results and final state; that order respects each thread's program order and real-time precedence (responded before invoked "
             "=> linearized first); a configuration with work left always has a thread that can move (no deadlock); instantiated with the "
             "Memfs mirror's step, whose critical sections never panic (no poisoned lock); once every thread has finished every call of every "
             "program is in that order exactly once (lin_complete, lin_once); for programs that append to one existing regular file the final "
             "content under any schedule is the old content followed by every appended chunk in critical-section order, each exactly once "
             "(Conc/Appends.v). The discipline the model assumes is checked on "
             "Gen/Locks.v, regenerated from src/sys/fs/memfs/vfs.rs on every run: every single-step operation of the statement opens exactly "
             "one critical section on any syntactic path (handle flushes and loops counted) and no method asks for the lock while holding "
             "a guard. Tied dynamically by real threads on one shared Memfs with yield points before every lock acquisition: every distinct "
             "observed outcome (results, invocation/response order, final state) is checked for linearizability against the extracted model.",
        note="Trusted: Coq kernel; tools/translators.py gen_locks (syntactic: occurrences of read_guard / write_guard / flush and calls on self, "
             "a let-bound guard is live to the end of its block); std::sync::RwLock gives mutual exclusion and eventually grants a free lock; "
             "hook sys::verif::guard_point; harness/src/conc.rs; ocaml/lin.ml. mkfile_m, chmod and chown are compositions and not among the "
             "statement's single steps. Thread schedules are sampled by the stress runs; the theorem covers all of them given the discipline.",
        technique="Coq proof (linearizability and progress of a coarse-grained lock object, invariant over schedules) + translator-checked lock discipline + linearizability checking of real thread histories",
        ref="§7 C04"),
}

NOT_APPLICABLE = {}

PENDING_REASON = "not yet claimed: the model, theorems and tie for this property are still being built (see DESIGN.md §11); no check is registered until its findings are dispositioned"


def main():
    props = [json.loads(l) for l in open(os.path.join(V, "properties.jsonl"))]
    checks = []
    na = []
    for p in props:
        pid = p["id"]
        if pid in CLAIMED:
            c = CLAIMED[pid]
            checks.append({
                "property_id": pid,
                "quick_cmd": "./rv check %s --tier quick" % pid,
                "thorough_cmd": "./rv check %s --tier thorough" % pid,
                "evidence_file": "/verif/evidence/%s.json" % pid,
                "replay_cmd_template": "./rv replay {path}",
                "engine": "coq+correspondence",
                "level_claimed": {"category": "proof", "text": c["text"], "design_ref": c["ref"]},
                "level_note": c["note"],
                "technique": c["technique"],
            })
        else:
            na.append({"property_id": pid, "reason": NOT_APPLICABLE.get(pid, PENDING_REASON)})
    m = {
        "version": 1,
        "setup_cmd": "./rv setup",
        "hooks": {
            "guard": "rivia_verif",
            "enable": "RUSTFLAGS=\"--cfg rivia_verif\" (set by ./rv when it builds harness/ against /repo)",
            "baseline_off_cmd": "cd /repo && cargo test --workspace --no-fail-fast --offline",
            "source_commits": HOOK_COMMITS,
            "add_only": True,
        },
        "engines": [
            {"name": "coq+correspondence", "path": "/verif/rv",
             "serves_properties": sorted(CLAIMED),
             "kind_free_text": "Coq 8.16.1 development under coq/ (theorems in coq/Properties), extracted model "
                               "(ocaml/), Rust harness (harness/) and a Python differ; see DESIGN.md §2"},
        ],
        "checks": checks,
        "not_applicable": na,
        "notes": "All checks: ./rv check <id> --tier quick|thorough; evidence in evidence/<id>.json; known findings in known_findings.json.",
    }
    with open(os.path.join(V, "MANIFEST.json"), "w") as f:
        json.dump(m, f, indent=1)
        f.write("\n")


HOOK_COMMITS = ["2ee7af3", "0db74ba", "2a87002"]

if __name__ == "__main__":
    main()

#!/usr/bin/env python3
# mkmanifest.py — writes MANIFEST.json from the table below (kept in one place so it stays valid).
import json, os
V = os.path.dirname(os.path.dirname(os.path.abspath(__file__)))

CLAIMED = {
    "C14": dict(
        text="Coq theorems over the mirror of sys::clean (all strings, no length bound): the mirror never panics and "
             "equals the canonical rendering of the path's lexical denotation; normal form, uniqueness, idempotence, "
             "absoluteness and non-emptiness follow. The mirror, the spec and a transliteration of Go's path.Clean are "
             "tied to the real sys::clean by exhaustive differential runs on every check.",
        note="Trusted: Coq kernel; Base/PathLex.v model of std::path (validated by its own stream); extraction "
             "(ExtrOcamlBasic), OCaml driver, Rust harness, Python differ. 'exactly Go's path.Clean' is carried by the "
             "executable transliteration go_clean compared on every input (theorem go_clean_agrees not yet proved: partial).",
        technique="Coq proof (loop invariant, denotational normal form) + exhaustive correspondence",
        ref="§7 C14"),
    "C16": dict(
        text="Coq theorems over the mirror of sys::relative for all clean absolute paths (any depth, any names): the result is "
             "'..'* followed by normal components, its '..' count is the number of base components below the common prefix, it is "
             "relative, clean(join(base, result)) = path, and path == base returns path. Mirror, spec and the property's own "
             "checker are run against the real code on every ordered pair of a bounded namespace plus random deep pairs.",
        note="Trusted: Coq kernel; Base/PathLex.v model of std::path; extraction, OCaml driver, Rust harness, Python differ.",
        technique="Coq proof (induction over the common prefix) + exhaustive correspondence",
        ref="§7 C16"),
    "C15": dict(
        text="Coq theorems over the mirrors of the lexical helpers, for all strings: trim_prefix/trim_suffix inverse and identity laws, "
             "ext/trim_ext split (outside the recorded class KF-C15-ext, with a refutation witness inside it), name = base minus "
             "extension, mash components / containment / rendering, has* = string containment, concat, parse_paths. Every helper is "
             "compared with its mirror, and every law of the statement is evaluated on the real code, exhaustively on short "
             "multi-byte strings and randomly beyond. Partial: the splitting laws of dir/base, first/trim_first, last/trim_last and the "
             "closed form of trim_protocol are so far carried by the exhaustive law streams, not yet by theorems.",
        note="Trusted: Coq kernel; Base/PathLex.v + Base/Str.v models of std::path / str (validated by the std_* streams); "
             "to_lowercase enters only through ASCII letters; extraction, driver, harness, differ.",
        technique="Coq proof (list/segment lemmas) + exhaustive correspondence + law evaluation on the implementation",
        ref="§7 C15"),
    "C19": dict(
        text="Coq theorems, for every finite sequence and all indices in isize: drop and slice (mirrors with the `as usize` wraps written "
             "out) equal their plain list definitions (slice under the statement's hypothesis left >= -len), empty/out-of-range slices are "
             "empty, first/first_result/last_result/single/some/consume equal list semantics including error kinds, size = length, "
             "to_bool is false exactly for \"\", \"0\" and casings of \"false\", trim_suffix removes one occurrence or nothing, "
             "Option::has is equality, take_while_p yields the longest satisfying prefix and leaves the failing item. Tied by exhaustive "
             "runs over lengths x index pairs x isize corners and multi-byte strings. Partial: the defer clause (exactly once, LIFO, on "
             "every exit path) rests on Rust's drop order, which no Gallina model can exhibit; it is not yet exercised here.",
        note="Trusted: Coq kernel; list model of double-ended iterators; ASCII model of to_lowercase validated over all scalars by "
             "stream lowercase-scan; extraction, driver, harness, differ.",
        technique="Coq proof (list arithmetic with lia) + exhaustive correspondence",
        ref="§7 C19"),
    "C07": dict(
        text="Coq theorems: for every byte string and every sequence of read(n)/seek(Start|Current|End, off) with offsets anywhere in "
             "u64/i64, the mirror of MemfsFile never panics and produces exactly the results and positions of the std::io::Cursor "
             "specification; reads at/after the end return 0 bytes; a seek before the start is InvalidInput and leaves the position; for "
             "every chunking of writes with flushes anywhere, a write handle persists exactly the written bytes and an append handle "
             "old ++ written, at each flush and at drop; a handle whose file was removed creates nothing. Tied by exhaustive short op "
             "sequences against Memfs, a real std::io::Cursor (validating the spec) and Stdfs files.",
        note="Trusted: Coq kernel; Cursor spec validated against real std::io::Cursor; Rust drop semantics (Drop::drop runs once at "
             "scope end) assumed; KF-C07-stdfs-far-seek recorded (kernel limit on file offsets); extraction, driver, harness, differ.",
        technique="Coq proof (simulation with std::io::Cursor; invariant over write/flush histories) + exhaustive correspondence",
        ref="§7 C07"),
    "C17": dict(
        text="Coq theorems for every environment (any function name -> optional value) and every string: text without '~' and '$' is "
             "returned unchanged; '~' and '~/rest' become $HOME and rest mashed onto $HOME; more than one '~', a '~' elsewhere, an "
             "empty variable name and an unset variable fail with the documented kind; inside a component every well-formed "
             "sequence of literals, $NAME and ${NAME} is replaced by exactly the values (parser-correctness theorem over token lists of "
             "any length); the scanning loop terminates within the fuel supplied. Tied by running the real expand in one process per "
             "environment over all short templates.",
        note="Trusted: Coq kernel; environment as a finite map; std::path model; take_while_p/next_if_eq as list operations; "
             "components combine with PathBuf::push (absolute value replaces the prefix) as the crate's own test pins; extraction, "
             "driver, harness, differ.",
        technique="Coq proof (tokeniser correctness by induction over token lists) + per-environment correspondence",
        ref="§7 C17"),
    "C05": dict(
        text="Coq theorems for every string, every clean absolute cwd (any depth) and every environment: abs equals its closed form "
             "clean(join(cwd, trim_protocol(expand s))) — hence absolute and in normal form (C14) — fails only for an empty path, a "
             "failed expansion or '..' climbing above the root, and is idempotent from every cwd for results without '~'/'$'. The "
             "loop peeling '.'/'..' is verified against the string-level std::path model (parent, trim_first, mash on canonical "
             "paths). One mirror is tied to both Memfs::abs and Stdfs::abs (real process cwd in a sandbox). Partial: 'every other VFS "
             "method resolves its arguments through abs' is structural in the Memfs mirror and exercised by the C01 respelling streams, "
             "not a separate theorem here.",
        note="Trusted: Coq kernel; std::path/str models; environment as a finite map; extraction, driver, harness, differ.",
        technique="Coq proof (loop invariant over canonical component lists, denotation of cwd/q) + exhaustive correspondence on both backends",
        ref="§7 C05"),
    "C18": dict(
        text="Coq theorems for every environment: config/cache/data/state_dir return the XDG_*_HOME value when set and the XDG default "
             "under $HOME otherwise (error when neither is available), runtime_dir falls back to /tmp, sys_config_dirs / sys_data_dirs / "
             "path_dirs return the listed non-empty segments in order or the defaults when unset or empty, vfs.config_dir returns the "
             "first directory in the order XDG_CONFIG_HOME then XDG_CONFIG_DIRS containing the name (None iff none does, for every "
             "filesystem predicate), getrids returns the SUDO pair only for uid 0 with both values parsing as u32. The mirror takes its "
             "variable names and defaults from Gen/Consts.v, regenerated from src/sys/user.rs on every run; the theorems spell the XDG "
             "literals out themselves, so a changed literal breaks a proof. Tied by one harness process per environment configuration, on "
             "Memfs and a Stdfs sandbox.",
        note="Trusted: Coq kernel; tools/translators.py (regex translator, fails closed); environment as a finite map; u32::from_str "
             "modelled as optional '+' and decimal digits; extraction, driver, harness, differ.",
        technique="Coq proof over a model whose constants are translated from the source + per-process correspondence",
        ref="§7 C18"),
}

NOT_APPLICABLE = {}

PENDING_REASON = "not yet claimed: the model, theorems and tie for this property are still being built (see DESIGN.md §11); no check is registered until its findings are dispositioned"


def main():
    props = [json.loads(l) for l in open(os.path.join(V, "properties.jsonl"))]
    checks = []
    na = []
    for p in props:
        pid = p["id"]
        if pid in CLAIMED:
            c = CLAIMED[pid]
            checks.append({
                "property_id": pid,
                "quick_cmd": "./rv check %s --tier quick" % pid,
                "thorough_cmd": "./rv check %s --tier thorough" % pid,
                "evidence_file": "/verif/evidence/%s.json" % pid,
                "replay_cmd_template": "./rv replay {path}",
                "engine": "coq+correspondence",
                "level_claimed": {"category": "proof", "text": c["text"], "design_ref": c["ref"]},
                "level_note": c["note"],
                "technique": c["technique"],
            })
        else:
            na.append({"property_id": pid, "reason": NOT_APPLICABLE.get(pid, PENDING_REASON)})
    m = {
        "version": 1,
        "setup_cmd": "./rv setup",
        "hooks": {
            "guard": "rivia_verif",
            "enable": "RUSTFLAGS=\"--cfg rivia_verif\" (set by ./rv when it builds harness/ against /repo)",
            "baseline_off_cmd": "cd /repo && cargo test --workspace --no-fail-fast --offline",
            "source_commits": HOOK_COMMITS,
            "add_only": True,
        },
        "engines": [
            {"name": "coq+correspondence", "path": "/verif/rv",
             "serves_properties": sorted(CLAIMED),
             "kind_free_text": "Coq 8.16.1 development under coq/ (theorems in coq/Properties), extracted model "
                               "(ocaml/), Rust harness (harness/) and a Python differ; see DESIGN.md §2"},
        ],
        "checks": checks,
        "not_applicable": na,
        "notes": "All checks: ./rv check <id> --tier quick|thorough; evidence in evidence/<id>.json; known findings in known_findings.json.",
    }
    with open(os.path.join(V, "MANIFEST.json"), "w") as f:
        json.dump(m, f, indent=1)
        f.write("\n")


HOOK_COMMITS = []

if __name__ == "__main__":
    main()

# walkspec.py — an executable specification of traversal (C08), independent of the Coq mirror:
# a plain recursive definition of what entries(root).<options> denotes, and a checker for an observed
# item sequence.  Trees are taken from a state snapshot (the harness / driver format).

def parse_snapshot(snap):
    """-> dict path -> {dir,file,link,alt,files:set or None}"""
    es = snap.split("E{", 1)[1].split("}", 1)[0]
    tree = {}
    for it in es.split(";"):
        if not it:
            continue
        k, p, alt, rel, dfl, mode, uid, gid, files = it.split(":")
        key = bytes.fromhex(k).decode()
        tree[key] = {
            "dir": dfl[0] == "1", "file": dfl[1] == "1", "link": dfl[2] == "1",
            "alt": bytes.fromhex(alt).decode() if alt else None,
            "files": None if files == "-" else set(bytes.fromhex(x).decode() for x in files[1:-1].split(",") if x),
        }
    return tree


def parse_opts(s):
    o = {"follow": False, "min": 0, "max": None, "sort": False, "df": False, "ff": False, "cf": False, "dirs": False, "files": False}
    for kv in s.split(","):
        if not kv:
            continue
        k, _, v = kv.partition("=")
        if k == "follow":
            o["follow"] = v != "0"
        elif k == "min":
            o["min"] = int(v) if o["max"] is None else min(int(v), o["max"])
        elif k == "max":
            o["max"] = max(int(v), o["min"])
        elif k in ("sort",):
            o["sort"] = True
        elif k in ("df", "ff"):
            o[k] = True
            o["sort"] = True
        elif k == "cf":
            o["cf"] = True
        elif k == "dirs":
            o["dirs"], o["files"] = True, False
        elif k == "files":
            o["dirs"], o["files"] = False, True
    return o


def join(p, n):
    return ("/" + n) if p == "/" else p + "/" + n


def name(p):
    return None if p == "/" else p.rsplit("/", 1)[1]


def selected(tree, root, o):
    """the multiset of items the options denote, as a list of ('ok', path) / ('err', kind), together with
    for each ok item its depth and its traversal-parent path (for the order checks)"""
    out = []

    def visit(path, depth, stack, parent):
        e = tree.get(path)
        if e is None:
            return
        kind = dict(e)
        here = path
        if o["follow"] and e["link"] and e["alt"] is not None:
            here = e["alt"]             # a followed link is reported under its target's path
        enter = e["dir"] and ((not e["link"]) or o["follow"])
        if enter and e["link"] and here in stack:
            out.append(("err", "E:LinkLooping", depth, parent, here))
            return
        passes = e["file"] if o["files"] else (e["dir"] if o["dirs"] else True)
        if depth >= o["min"] and passes:
            out.append(("ok", here, depth, parent, e["dir"]))
        if enter and (o["max"] is None or depth < o["max"]):
            t = tree.get(here)
            if t is None:
                out.append(("err", "E:DoesNotExist", depth, parent, here))
                return
            for n in sorted(t["files"] or []):
                visit(join(here, n), depth + 1, stack + [here], here)
    visit(root, 0, [], None)
    return out


def followed_name(tree, path):
    e = tree.get(path)
    if e is not None and e["link"] and e["alt"] is not None:
        return name(e["alt"])
    return name(path)


def has_name_tie(tree):
    for p, e in tree.items():
        if not e["files"]:
            continue
        ns = [followed_name(tree, join(p, n)) for n in e["files"]]
        if len(set(ns)) != len(ns):
            return True
    return False


def sequence(tree, root, o):
    """the exact item sequence of a name-sorted traversal (links followed or not), as a list of ('ok', path) / ('err', kind)"""
    out = []

    def key(p, n):
        c = tree.get(join(p, n))
        fn = followed_name(tree, join(p, n)) if o["follow"] else n
        g = 0
        if c is not None and o["df"]:
            g = 0 if c["dir"] else 1
        elif c is not None and o["ff"]:
            g = 1 if c["dir"] else 0
        return (g, (b"" if fn is None else b"\x01" + fn.encode()))

    def visit(path, depth, stack):
        e = tree.get(path)
        if e is None:
            return
        here = path
        if o["follow"] and e["link"] and e["alt"] is not None:
            here = e["alt"]
        enter = e["dir"] and ((not e["link"]) or o["follow"])
        if enter and e["link"] and here in stack:
            out.append(("err", "E:LinkLooping"))
            return
        passes = e["file"] if o["files"] else (e["dir"] if o["dirs"] else True)
        sel = depth >= o["min"] and passes
        late = sel and e["dir"] and o["cf"]
        descend = enter and (o["max"] is None or depth < o["max"])
        if descend and tree.get(here) is None:
            out.append(("err", "E:DoesNotExist"))
            return
        if sel and not late:
            out.append(("ok", here))
        if descend:
            t = tree.get(here)
            for n in sorted(t["files"] or [], key=lambda n: key(here, n)):
                visit(join(here, n), depth + 1, stack + [here])
        if late:
            out.append(("ok", here))
    visit(root, 0, [])
    return out


def check(tree, root, optstr, observed):
    """observed: list of hex paths / 'E:Kind'.  Returns None when fine, else a reason."""
    o = parse_opts(optstr)
    if "RUNAWAY" in observed:
        return "does not terminate"
    obs = []
    for x in observed:
        obs.append(("err", x) if x.startswith("E:") else ("ok", bytes.fromhex(x).decode()))
    spec = selected(tree, root, o)
    # an error ends a `for entry in entries { entry? }` consumer but not the iterator; compare everything
    want = sorted((k, v) for k, v, *_ in spec)
    got = sorted(obs)
    if want != got:
        return "yields %s, the options denote %s" % (got[:12], want[:12])
    if o["follow"]:
        # with links followed the order is checked only when it is determined: a name sort is installed and no directory has two children
        # that carry the same name once links are followed (a followed link is named by its target; ties are left in HashSet order)
        if o["sort"] and not has_name_tie(tree):
            exp = sequence(tree, root, o)
            if exp != obs:
                return "order with links followed: yields %s, the options denote %s" % (obs[:12], exp[:12])
        return None
    pos = {}
    for i, (k, v) in enumerate(obs):
        if k == "ok":
            pos.setdefault(v, i)
    info = {v: (d, par, isdir) for k, v, d, par, isdir in spec if k == "ok"}
    for v, (d, par, isdir) in info.items():
        # parents before their contents (after them with contents_first)
        a = par
        while a is not None:
            if a in pos and a in info:
                if not o["cf"] and not (pos[a] < pos[v]):
                    return "%s yielded before its ancestor %s" % (v, a)
                if o["cf"] and info[a][2] and not (pos[a] > pos[v]):
                    return "contents_first: directory %s yielded before its content %s" % (a, v)
            a = info[a][1] if a in info else (a.rsplit("/", 1)[0] or "/") if a != "/" else None
            if a == root and root not in info and root not in pos:
                break
    if o["sort"]:
        # siblings (same parent) that are both yielded, and are not directories deferred by contents_first,
        # appear in name order, grouped by kind with dirs_first / files_first
        groups = {}
        for v, (d, par, isdir) in info.items():
            # with contents_first a directory is yielded after its contents, but still at its own place among its siblings
            groups.setdefault(par, []).append(v)
        for par, vs in groups.items():
            vs.sort(key=lambda v: pos[v])
            keys = []
            for v in vs:
                isdir = info[v][2]
                g = 0
                if o["df"]:
                    g = 0 if isdir else 1
                elif o["ff"]:
                    g = 1 if isdir else 0
                keys.append((g, (name(v) or "").encode()))
            if keys != sorted(keys):
                return "siblings under %s out of order: %s" % (par, vs)
    return None

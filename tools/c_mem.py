# c_mem.py — streams for the Memfs state-machine properties (C01, C03, C06, C09, C10, C12, C20, C13).
import os, subprocess, itertools
from props import Stream
from gen import random_string
from rvlib import hx, CheckError

PROPS = {}

MEM_ENV = {"HOME": "/home/u", "V": "v", "W": None}


def envspec(env):
    return ";".join("%s=%s" % (k, hx(v)) for k, v in sorted(env.items()) if v is not None) or "-"


def op(name, *args):
    out = [name]
    for a in args:
        if isinstance(a, int):
            out.append(str(a))
        elif isinstance(a, (list, tuple)):
            out.append(",".join(hx(x) for x in a))
        else:
            out.append(hx(a))
    return ":".join(out)


QUERIES = ["exists", "is_dir", "is_file", "is_symlink", "is_symlink_dir", "is_symlink_file", "is_exec", "is_readonly",
           "mode", "owner", "read_all", "read_lines", "readlink", "readlink_abs", "abs"]


def alphabet(tier):
    """the bounded universe: names {a, b} (+ a multi-byte one), depth <= 2"""
    P = ["/a", "/b", "/a/b", "/a/a", "/ab"] + (["/é"] if tier != "quick" else [])
    muts = []
    for p in P:
        muts += [op("mkfile", p), op("mkdir_p", p), op("remove", p), op("remove_all", p)]
    muts += [op("mkdir_m", "/a", 0o700), op("mkdir_m", "/b/a", 0o555)]
    muts += [op("write_all", "/a", b"x"), op("write_all", "/a/b", "é\n".encode()), op("write_all", "/b", b""),
             op("append_all", "/a", b"yz"), op("append_all", "/a/b", b"\xff"), op("write_lines", "/b", ["l1", "l2"]),
             op("append_line", "/b", "t"), op("append_lines", "/a", ["u", ""])]
    muts += [op("symlink", "/b", "/a"), op("symlink", "/a/b", "../b"), op("symlink", "/a/a", "/a"), op("symlink", "/b", "/nope"),
             op("symlink", "/a", "b"), op("symlink", "/a/b", "/ab"), op("symlink", "/a/a", "../ab")]
    muts += [op("move_p", "/a", "/b"), op("move_p", "/b", "/a"), op("move_p", "/a", "/a/b"), op("move_p", "/a/b", "/b"),
             op("move_p", "/a", "/c/d"), op("move_p", "/b", "/a/a"), op("move_p", "/a", "/a"), op("move_p", "/a", "/ab"), op("move_p", "/ab", "/a"), op("copy", "/a", "/ab")]
    muts += [op("set_cwd", "/a"), op("set_cwd", "/"), op("set_cwd", "/a/b"), op("remove_all", "/"), op("mkfile", "b"), op("mkdir_p", "../b/./a"),
             op("remove", ".."), op("mkfile", "/"), op("write_all", "/", b"r"), op("mkdir_p", ""), op("mkfile", "~/x"), op("mkdir_p", "$V")]
    qs = []
    for q in QUERIES:
        for p in ["/a", "/b", "/a/b", "/", "b", "a/../b"]:
            qs.append(op(q, p))
    qs += [op("cwd"), op("root")]
    return muts, qs


def walk_alphabet(tier):
    """additional calls: listings, traversals with option combinations, copy / chmod / chown"""
    muts, qs = [], []
    for k in ["paths", "dirs", "files", "all_paths", "all_dirs", "all_files"]:
        for p in ["/", "/a", "/b"]:
            qs.append(op(k, p))
    for o in ["sort", "sort,follow=1", "sort,cf", "sort,df,min=1", "sort,ff,max=1", "sort,dirs", "sort,files,cf", "sort,follow=1,cf,dirs", "sort,maxdesc=0,follow=1"]:
        for p in ["/", "/a"]:
            qs.append("entries:%s:%s" % (hx(p), o))
    muts += [op("copy", "/a", "/b"), op("copy", "/b", "/a"), op("copy", "/a", "/a/b"), op("copy", "/a/b", "/c/d"), op("copy", "/a", "/"),
             "copy_b:%s:%s:follow=1" % (hx("/a"), hx("/b")), "copy_b:%s:%s:all=448" % (hx("/a"), hx("/c")),
             "copy_b:%s:%s:cdirs=448,follow=1" % (hx("/b"), hx("/c")), "copy_b:%s:%s:cfiles=256" % (hx("/a"), hx("/b/a"))]
    muts += [op("chmod", "/a", 0o700), op("chmod", "/", 0o555), op("chmod", "/b", 0),
             "chmod_b:%s:follow=1,all=384:" % hx("/b"), "chmod_b:%s:norecurse,dirs=448:" % hx("/a"),
             "chmod_b:%s::%s" % (hx("/"), hx("f:a+x,d:go-rwx")), "chmod_b:%s::%s" % (hx("/a"), hx("a:a=")), "chmod_b:%s:follow=1:%s" % (hx("/"), hx("a:u=rw"))]
    muts += [op("chown", "/a", 5, 7), "chown_b:%s:uid=9,follow=1" % hx("/b"), "chown_b:%s:gid=3,norecurse" % hx("/"), op("mkfile_m", "/a/a", 0o600), op("mkfile_m", "/b", 0o755)]
    return muts, qs


def bfs_histories(ctx, tier, depth, maxstates, muts=None, finals=None, mode="m", tag="bfs"):
    if muts is None:
        muts, qs = alphabet(tier)
        m2, q2 = walk_alphabet(tier)
        muts, finals = muts + m2, qs + q2
    work = ctx["work"]
    af = os.path.join(work, tag + ".alphabet.txt")
    with open(af, "w") as f:
        f.write("\n".join(muts + ["!" + x for x in finals]) + "\n")
    out = os.path.join(work, tag + ".hist")
    env = dict(os.environ)
    env["RVM_BFS_MODE"] = mode
    p = subprocess.run([ctx["rvm"], "--bfs", af, str(depth), str(maxstates), out, envspec(MEM_ENV)],
                       stdout=subprocess.PIPE, stderr=subprocess.PIPE, text=True, timeout=1200, env=env)
    if p.returncode != 0:
        raise CheckError("model BFS failed: " + p.stderr[-2000:])
    lines = open(out).read().split("\n")
    if lines and lines[-1] == "":
        lines.pop()
    return lines, p.stderr.strip()


def random_histories(rng, n, length, tier):
    names = ["a", "b", "c", "é", "d.e"]

    def rpath():
        k = rng.random()
        if k < 0.08:
            return rng.choice(["", "/", ".", "..", "~", "$V", "//a//b/", "a/../../b", "file:///a", "/a/./b/../c"])
        d = rng.randint(1, 3)
        p = "/".join(rng.choice(names) for _ in range(d))
        return ("/" if rng.random() < 0.8 else "") + p
    hs = []
    for _ in range(n):
        ops = []
        for _ in range(rng.randint(1, length)):
            k = rng.random()
            if k < 0.14:
                ops.append(op("mkdir_p", rpath()))
            elif k < 0.26:
                ops.append(op("mkfile", rpath()))
            elif k < 0.36:
                ops.append(op("write_all", rpath(), rng.choice([b"", b"x", "é\nb\r\n".encode(), b"\xff\xfe", b"line1\nline2"])))
            elif k < 0.42:
                ops.append(op("append_all", rpath(), rng.choice([b"", b"y", b"\n"])))
            elif k < 0.50:
                ops.append(op("symlink", rpath(), rng.choice([rpath(), "../" + rng.choice(names), rng.choice(names)])))
            elif k < 0.60:
                ops.append(op("move_p", rpath(), rpath()))
            elif k < 0.68:
                ops.append(op("remove", rpath()))
            elif k < 0.74:
                ops.append(op("remove_all", rpath()))
            elif k < 0.80:
                ops.append(op("set_cwd", rpath()))
            elif k < 0.83:
                ops.append(op(rng.choice(["write_lines", "append_lines"]), rpath(), rng.choice([[], ["a"], ["a", "", "b"], ["é"]])))
            elif k < 0.86:
                ops.append(op("chown", rpath(), rng.choice([5, 1000]), rng.choice([7, 1000])))
            elif k < 0.89:
                ops.append(op("chmod", rpath(), rng.choice([0o700, 0o644, 0o555, 0o750])))
            elif k < 0.92:
                ops.append(op("copy", rpath(), rpath()))
            elif k < 0.94:
                ops.append(rng.choice([op("mkdir_m", rpath(), rng.choice([0o700, 0o755])), op("mkfile_m", rpath(), rng.choice([0o600, 0o644]))]))
            else:
                ops.append(op(rng.choice(QUERIES), rpath()))
            # the same call again later in the history (a call that short-cuts on what it did before shows here)
            if len(ops) > 1 and rng.random() < 0.12:
                ops.append(rng.choice(ops[:-1]))
        hs.append("\t".join(["hist", "m", envspec(MEM_ENV)] + ops))
    return hs


def hist_canon(out):
    """traversal results: a followed link sorts under its target's name, which may tie with a sibling;
    ties are broken by HashSet order, so an item list with duplicate names is compared as a multiset"""
    if "\tI" not in out and not out.startswith("I"):
        return out
    fs = out.split("\t")
    for i, f in enumerate(fs):
        if f.startswith("I") and not f.startswith("Io"):
            items = f[1:].split(",")
            names = [x.rsplit("2f", 1)[-1] for x in items]
            if len(set(names)) != len(names):
                fs[i] = "I*" + ",".join(sorted(items))
    return "\t".join(fs)


TRAVERSING = ("copy", "copy_b", "chmod", "chmod_b", "chown", "chown_b", "mkfile_m")


def failed_traversal_canon(line, out):
    """a traversal-based mutation that fails half-way leaves a state (and reports the error) that depends on
    HashSet iteration order: which entries were processed before the failing one.  The property constrains
    successful copies only, so for such a failing call only the fact that it failed is compared."""
    ops = line.split("\t")[3:]
    fs = out.split("\t")
    res_idx = [k for k, f in enumerate(fs) if not f.startswith("#")]
    for i, o in enumerate(ops):
        if i < len(res_idx) and o.split(":")[0] in TRAVERSING and fs[res_idx[i]].startswith("E:"):
            return "\t".join(fs[:res_idx[i]] + ["E:*failed-traversal", "#state-after-failed-traversal-not-compared"])
        # copy with follow(true) through links: two sources (a followed link and a sibling of the same name) can
        # map to one destination, and which of them creates it first depends on HashSet order
        if i < len(res_idx) and o.startswith("copy_b:") and "follow=1" in o and i == len(ops) - 1:
            pre = [f for f in fs if f.startswith("#pre")]
            src = o.split(":")[1]
            if pre and any(it.split(":")[0].startswith(src) and it.split(":")[4][2] == "1"
                           for it in pre[0].split("E{", 1)[1].split("}", 1)[0].split(";") if it):
                return "\t".join(fs[:res_idx[i] + 1] + ["#state-after-follow-copy-through-links-not-compared"])
    return out


def mem_streams(tier, rng, ctx, focus=None):
    depth = 2 if tier == "quick" else 3
    maxstates = 400 if tier == "quick" else 6000
    hs, info = bfs_histories(ctx, tier, depth, maxstates)
    rh = random_histories(rng, 3000 if tier == "quick" else 30000, 12, tier)
    env = dict(MEM_ENV)
    sts = [
        Stream("mem-bfs", "mirror", hs, impl_env=env, exhaustive=True, judge=None, canon=hist_canon, canon_line=failed_traversal_canon,
               nontrivial=lambda l, o: "\tE:" not in o,
               rule="model-guided BFS (%s, depth %d): every reachable state of the bounded namespace x every call of the alphabet; "
                    "per-call results and the complete final state (all three indexes, cwd, root) compared" % (info, depth)),
        Stream("mem-random", "mirror", rh, impl_env=env, canon=hist_canon, canon_line=failed_traversal_canon,
               nontrivial=lambda l, o: "\tE:" not in o,
               rule="random histories (<= 12 calls) over 5 names incl. multi-byte, unclean / relative / special spellings"),
    ]
    return sts


def repeat_histories():
    """a traversal-based call, a change inside the tree it covered, and the same call again (an implementation that remembers or
    short-cuts on the state of the ARGUMENT alone gets the second call wrong), then every owner / mode / content is read back"""
    hs = []
    tree = [op("mkdir_p", "/d/s"), op("mkfile", "/d/f"), op("write_all", "/d/s/x", b"x")]
    calls = [op("chown", "/d", 5, 7), op("chown", "/", 5, 7), "chown_b:%s:gid=7" % hx("/d"), "chown_b:%s:norecurse,uid=5" % hx("/d"),
             op("chmod", "/d", 0o750), op("chmod", "/", 0o700), "chmod_b:%s:files=384:" % hx("/d"), "chmod_b:%s::%s" % (hx("/d"), hx("a:go-rwx")),
             "chmod_b:%s:dirs=448:" % hx("/d"), op("copy", "/d", "/e"), "copy_b:%s:%s:all=448" % (hx("/d"), hx("/e")), op("remove_all", "/d/s"),
             op("all_paths", "/d"), "entries:%s:sort" % hx("/d")]
    changes = [[op("mkfile", "/d/g")], [op("mkdir_p", "/d/s/t")], [op("mkfile", "/d/s/h")], [op("symlink", "/d/l", "/d/f")], [op("write_all", "/d/f", b"new")],
               [op("mkdir_p", "/d/n/m"), op("mkfile", "/d/n/m/k")], [op("remove", "/d/f")], [op("move_p", "/d/s", "/d/r")], [op("chown", "/d/f", 1, 2)],
               [op("chmod", "/d/s", 0o711)]]
    probes = []
    for q in ["/d", "/d/f", "/d/g", "/d/s", "/d/s/x", "/d/s/t", "/d/s/h", "/d/l", "/d/n/m/k", "/d/r", "/e", "/e/f", "/e/g", "/e/s/x", "/e/d/f", "/"]:
        probes += [op("owner", q), op("mode", q)]
    probes += [op("all_paths", "/")]
    for c in calls:
        for ch in changes:
            hs.append("\t".join(["hist", "m", envspec(MEM_ENV)] + tree + [c] + ch + [c] + probes))
            hs.append("\t".join(["hist", "m", envspec(MEM_ENV)] + tree + [c, c] + ch + [c] + probes))
    return hs


def cwd_histories():
    """the working directory removed, moved away or replaced by something else, then calls that depend on it"""
    hs = []
    setups = [[op("mkdir_p", "/d/s"), op("mkfile", "/d/f"), op("set_cwd", "/d")],
              [op("mkdir_p", "/d/s"), op("mkdir_p", "/o"), op("symlink", "/l", "/d"), op("set_cwd", "/l")],
              [op("mkdir_p", "/d/s"), op("set_cwd", "/d/s")]]
    breaks = [[op("remove_all", "/d")], [op("move_p", "/d", "/e")], [op("remove_all", "/d"), op("mkfile", "/d")], [op("remove_all", "/d"), op("mkdir_p", "/o"), op("symlink", "/d", "/o")],
              [op("remove_all", "/d"), op("mkdir_p", "/d")], [op("remove", "/d/s")], [op("remove", "/d/f")], [op("remove_all", "/d/s"), op("mkfile", "/d/s")], []]
    afters = [[op("set_cwd", ".")], [op("set_cwd", "/d")], [op("set_cwd", "..")], [op("set_cwd", "s")], [op("mkfile", "x")], [op("mkdir_p", "y/z")], [op("write_all", "w", b"1")],
              [op("remove", ".")], [op("symlink", "k", "f")], [op("set_cwd", "/d"), op("set_cwd", ".")], [op("set_cwd", "/"), op("set_cwd", "d")]]
    probes = [op("cwd"), op("exists", "."), op("is_dir", "."), op("abs", "x"), op("exists", "x"), op("exists", "/d/x"), op("exists", "/o/x"), op("exists", "/e/x"), op("all_paths", "/")]
    for su in setups:
        for br in breaks:
            for af in afters:
                hs.append("\t".join(["hist", "m", envspec(MEM_ENV)] + su + br + af + probes))
    return hs


def append_handle_histories():
    """an append (or write) handle that has flushed once, the file changing underneath it, and the handle flushing again"""
    hs = []
    first = [["hwrite:0:%s" % b"AA".hex(), "hflush:0"], ["hflush:0"], ["hwrite:0:%s" % b"AA".hex()]]
    under = [[op("write_all", "/f", b"x")], [op("write_all", "/f", b"a much longer replacement")], [op("append_all", "/f", b"+")], [op("write_all", "/f", b"")],
             ["open_a:%s" % hx("/f"), "hwrite:1:%s" % b"123".hex(), "hflush:1"], ["open_a:%s" % hx("/f"), "hwrite:1:%s" % b"a longer chunk".hex(), "hdrop:1"],
             ["open_w:%s" % hx("/f"), "hwrite:1:%s" % b"W".hex(), "hflush:1"], [op("remove", "/f"), op("write_all", "/f", b"new")], []]
    second = [["hwrite:0:%s" % b"BB".hex(), "hflush:0"], ["hwrite:0:%s" % b"BB".hex(), "hflush:0", "hwrite:0:%s" % b"CC".hex(), "hdrop:0"], ["hflush:0", "hflush:0"], ["hdrop:0"]]
    for opener in ["open_a:%s" % hx("/f"), "open_w:%s" % hx("/f")]:
        for init in [b"hello", b""]:
            for f1 in first:
                for un in under:
                    for f2 in second:
                        hs.append("\t".join(["hist", "h", envspec(MEM_ENV), op("write_all", "/f", init), opener] + f1 + un + f2 + [op("read_all", "/f")]))
    return hs


def copied_handle_histories():
    """a file that was moved (directly or inside a moved directory) and then copied: handles opened on the copy, on the moved file and on a
    re-created source, written, flushed, dropped; every file read back"""
    hs = []
    pre = [op("mkdir_p", "/d"), op("write_all", "/d/f", b"orig")]
    moves = [[op("move_p", "/d/f", "/g")], [op("move_p", "/d", "/e"), op("move_p", "/e/f", "/g")], [op("move_p", "/d", "/e"), op("copy", "/e/f", "/g")], []]
    copies = [[op("copy", "/g", "/c")], [op("copy", "/g", "/c"), op("remove", "/g")], [op("copy", "/g", "/c"), op("write_all", "/g", b"changed")], [op("move_p", "/g", "/c")]]
    for mv in moves:
        src = "/g" if mv else "/d/f"
        for cp in copies:
            cp2 = [x.replace(hx("/g"), hx(src)) for x in cp]
            for opener in ["open_a:%s" % hx("/c"), "open_w:%s" % hx("/c"), "open_a:%s" % hx(src)]:
                for body in [["hwrite:0:%s" % b"+X".hex(), "hflush:0"], ["hwrite:0:%s" % b"+X".hex(), "hdrop:0"], ["hwrite:0:%s" % b"+X".hex(), "hflush:0", "hwrite:0:%s" % b"+Y".hex(), "hdrop:0"]]:
                    hs.append("\t".join(["hist", "h", envspec(MEM_ENV)] + pre + mv + cp2 + [opener] + body +
                                        [op("read_all", "/c"), op("read_all", src), op("read_all", "/d/f"), op("read_all", "/e/f")]))
    return hs


def replace_histories():
    """move_p / copy of every kind of source onto every kind of existing destination, named directly or through its directory, then the destination read,
    removed and read again: nothing of the replaced entry may linger (data, child lists, stored paths)"""
    hs = []
    srcs = {"file": [op("write_all", "/s/n", b"SRC")], "empty": [op("mkfile", "/s/n")], "dir": [op("mkdir_p", "/s/n/k"), op("write_all", "/s/n/f", b"in")],
            "link-file": [op("write_all", "/tf", b"T"), op("symlink", "/s/n", "/tf")], "link-dir": [op("mkdir_p", "/td/x"), op("symlink", "/s/n", "/td")],
            "dangling": [op("symlink", "/s/n", "/nowhere")]}
    dsts = {"missing": [], "file": [op("write_all", "/d/n", b"OLD DATA")], "empty-file": [op("mkfile", "/d/n")], "empty-dir": [op("mkdir_p", "/d/n")],
            "dir": [op("mkdir_p", "/d/n/sub"), op("write_all", "/d/n/f", b"old in")], "link": [op("write_all", "/of", b"O"), op("symlink", "/d/n", "/of")],
            "link-dir": [op("mkdir_p", "/od"), op("symlink", "/d/n", "/od")]}
    probes = [op("read_all", "/d/n"), op("is_symlink", "/d/n"), op("all_paths", "/"), op("remove", "/d/n"), op("read_all", "/d/n"), op("exists", "/d/n"),
              op("read_all", "/s/n"), op("read_all", "/of"), op("read_all", "/tf")]
    for sk, sops in srcs.items():
        for dk, dops in dsts.items():
            for call in ["move_p", "copy"]:
                for dst in ["/d", "/d/n"]:
                    hs.append("\t".join(["hist", "m", envspec(MEM_ENV), op("mkdir_p", "/s"), op("mkdir_p", "/d")] + sops + dops + [op(call, "/s/n", dst)] + probes))
    return hs


def stale_handle_histories(tier):
    """a write / append handle that outlives its file: the path is removed (or moved away) and possibly re-created as something
    else before the handle is flushed or dropped"""
    hs = []
    opens = ["open_w:%s" % hx("/f"), "open_a:%s" % hx("/f")]
    pre_writes = [[], ["hwrite:0:%s" % b"AB".hex()], ["hwrite:0:%s" % b"AB".hex(), "hflush:0"]]
    displace = [[op("remove", "/f")], [op("remove_all", "/f")], [op("move_p", "/f", "/g")], []]
    recreate = [[], [op("mkdir_p", "/f")], [op("mkdir_p", "/f/sub")], [op("symlink", "/f", "/t")], [op("symlink", "/f", "/d")], [op("mkfile", "/f")],
                [op("write_all", "/f", b"new")], [op("mkdir_p", "/f"), op("remove", "/f")]]
    late = [[], ["hwrite:0:%s" % b"CD".hex()]]
    ends = [["hflush:0"], ["hdrop:0"], ["hflush:0", "hdrop:0"]]
    probes = [op("read_all", "/f"), op("is_dir", "/f"), op("is_file", "/f"), op("exists", "/f"), op("read_all", "/g"), op("remove", "/f"), op("read_all", "/f")]
    for o in opens:
        for pw in pre_writes:
            for dsp in displace:
                for rc in recreate:
                    for lt in late:
                        for en in ends:
                            if not dsp and rc and rc[0] != op("write_all", "/f", b"new"):
                                continue     # re-creating over an existing file is the ordinary (already covered) case
                            hs.append("\t".join(["hist", "h", envspec(MEM_ENV), op("mkdir_p", "/d"), op("mkfile", "/t"), o] + pw + dsp + rc + lt + en + probes))
    return hs


def wf_judge_query(line, impl_out):
    # the extracted WF checker on the implementation's own final state
    if "POISONED" in impl_out or "PANIC" in impl_out or "\t#" not in impl_out:
        return None
    return "wfcheck\t" + impl_out.split("\t#", 1)[1]


def c03_streams(tier, rng, ctx):
    sts = mem_streams(tier, rng, ctx)
    sts.append(Stream("stale-handles", "mirror", stale_handle_histories(tier), impl_env=dict(MEM_ENV), exhaustive=True,
                      rule="a write / append handle that outlives its file (removed, moved away, re-created as a directory, link or new file) and is then "
                           "written, flushed or dropped: results and complete state vs the mirror, WF checker on the implementation's state"))
    sts.append(Stream("replace-by-move-or-copy", "mirror", replace_histories(), impl_env=dict(MEM_ENV), exhaustive=True, canon=hist_canon, canon_line=failed_traversal_canon,
                      rule="move_p / copy of a file, empty file, directory, link to a file, link to a directory or dangling link onto a missing path, a file, an empty file, an empty "
                           "or non-empty directory or a link, named directly or through its directory; then the destination read, removed and read again: results and state vs the "
                           "mirror, WF checker on the implementation's state"))
    for st in sts:
        st.judge_query = wf_judge_query
        st.judge = lambda l, o: ("PANIC" in o or "POISONED" in o or "CRASH" in o)
    # path arguments that are not UTF-8 (a path is a byte string): whatever each call answers, the tree stays well formed and nothing panics.
    # The mirror reads paths as text, so these histories are judged by the extracted WF checker on the implementation's own state alone.
    odd = [b"/caf\xe9", b"/d/\xff\xfe", b"\xe9", b"/d/ok/\xc3", b"/\xf0\x9f/x"]
    hs = []
    pre = [op("mkdir_p", "/d/ok"), op("write_all", "/file", b"data"), op("symlink", "/lnk", "/file")]
    for o in odd:
        calls = [[op("mkfile", o)], [op("write_all", o, b"x")], [op("append_all", o, b"x")], [op("mkdir_p", o)], [op("mkdir_m", o, 0o700)], [op("mkfile_m", o, 0o600)],
                 [op("symlink", o, "/file")], [op("symlink", "/l2", o)], [op("move_p", "/file", o)], [op("move_p", "/d", o)], [op("move_p", o, "/n")], [op("copy", "/file", o)],
                 [op("copy", "/d", o)], [op("copy", o, "/n")], [op("remove", o)], [op("remove_all", o)], [op("set_cwd", o)], [op("chmod", o, 0o600)], [op("chown", o, 1, 2)],
                 [op("exists", o), op("is_dir", o), op("read_all", o), op("readlink", o), op("all_paths", o), op("abs", o)]]
        for c in calls:
            hs.append("\t".join(["hist", "m", envspec(MEM_ENV)] + pre + c + [op("all_paths", "/"), op("read_all", "/file"), op("remove_all", "/d")]))
            hs.append("\t".join(["hist", "m", envspec(MEM_ENV)] + pre + [op("set_cwd", "/d")] + c + c + [op("all_paths", "/")]))

    def wf_post(line, out):
        q = wf_judge_query(line, out)
        return q if q else "is_absolute\t"
    sts.append(Stream("non-utf8-arguments", "check", hs, impl_env=dict(MEM_ENV), post=wf_post, exhaustive=True,
                      rule="every mutating call with a path argument that is not valid UTF-8 (as its own name, as the target or the source), once and twice: no panic, and the "
                           "extracted WF checker accepts the implementation's state afterwards"))
    return sts


PROPS["C03"] = {
    "streams": c03_streams,
    "rule": "model-guided breadth-first enumeration of every reachable state of a bounded namespace x every call of the alphabet (valid, invalid, relative, "
            "unclean, special spellings) plus random longer histories; after every history the complete state (entries index, data index, per-directory "
            "name sets, cwd, root) of the real Memfs is compared with the mirror's and the extracted WF checker is evaluated on it; "
            "non-trivial = the history contains no failing call; distinct = distinct histories",
    "trusted": ["hook sys::verif::memfs_snapshot (read-only state dump under one read guard)", "std HashMap/HashSet as finite maps/sets"],
    "assumptions": ["HashMap / HashSet behave as finite maps / sets", "single-threaded histories (schedules: see C04)"],
}


# ---------------------------------------------------------------------------------------------
import walkspec

WALK_OPTS = []
for follow in ["", "follow=1"]:
    for depth in ["", "min=1", "max=1", "min=1,max=2", "max=0", "min=2"]:
        for order in ["", "sort", "df", "ff"]:
            for cf in ["", "cf"]:
                for flt in ["", "dirs", "files"]:
                    for cap in ["", "maxdesc=0", "maxdesc=1"]:
                        WALK_OPTS.append(",".join(x for x in [follow, depth, order, cf, flt, cap] if x))


ORDER_TREE = [op("mkdir_p", "/a/sub"), op("mkfile", "/a/main"), op("mkfile", "/a/sub/leaf"), op("mkdir_p", "/a 2"), op("mkdir_p", "/a-old"), op("mkfile", "/a-old/x"),
              op("mkfile", "/a.bak"), op("mkfile", "/az"), op("mkdir_p", "/a+/k"), op("mkdir_p", "/t/data"), op("mkfile", "/t/data/z"), op("mkfile", "/t/data.txt"),
              op("mkdir_p", "/t/data-1/q")]


def random_tree_ops(rng, nmax):
    # (a.b, a-b, "a b", a+: characters that sort below the separator, so a sort of whole path strings differs from a sort of names per directory)
    names = ["a", "b", "c", "é", "a1", "B", "a.b", "a-b", "a b", "a+"]
    dirs = ["/"]
    ops = []
    for _ in range(rng.randint(1, nmax)):
        parent = rng.choice(dirs)
        n = rng.choice(names)
        p = ("/" + n) if parent == "/" else parent + "/" + n
        k = rng.random()
        if k < 0.4:
            ops.append(op("mkdir_p", p))
            dirs.append(p)
        elif k < 0.75:
            ops.append(op("mkfile", p))
        else:
            t = rng.choice(dirs + ["/nope", "/a", "/a/b"])
            ops.append(op("symlink", p, t))
    return ops


def c08_pycheck(line, out):
    f = line.split("\t")
    last = f[-1].split(":")
    if last[0] != "entries":
        return True
    fs = out.split("\t")
    if len(fs) < 2 or not fs[-1].startswith("#"):
        return False
    res = fs[-2]
    if not res.startswith("I"):
        return res.startswith("E:")          # entries() itself failed (missing root): nothing to check
    tree = walkspec.parse_snapshot(fs[-1])
    root = bytes.fromhex(last[1]).decode()
    # entries() resolves its argument first; the generated roots are clean absolute paths
    items = [x for x in res[1:].split(",") if x]
    return walkspec.check(tree, root, last[2] if len(last) > 2 else "", items) is None


def walk_canon(out):
    """unsorted traversals: sibling order is HashSet order, compare the item multiset (the order
    relations are checked on the implementation's own output by stream walk-valid)"""
    fs = out.split("\t")
    for i, f in enumerate(fs):
        if f.startswith("I") and len(f) > 1 and f[1] != "o":
            fs[i] = "I*" + ",".join(sorted(f[1:].split(",")))
    return "\t".join(fs)


def walk_canon_ties(out):
    """sorted traversals that follow links: a followed link is named by its target and can tie with a sibling of that name, and the sort leaves
    ties in HashSet order. When some directory of the tree has two children that would carry the same name once links are followed, the item
    list is compared as a multiset; otherwise the order is compared exactly"""
    fs = out.split("\t")
    if not fs or not fs[-1].startswith("#"):
        return walk_canon(out)
    try:
        tree = walkspec.parse_snapshot(fs[-1])
    except Exception:
        return walk_canon(out)
    tie = False
    for p, e in tree.items():
        if not e["files"]:
            continue
        names = []
        for n in e["files"]:
            c = tree.get(walkspec.join(p, n))
            if c is not None and c["link"] and c["alt"] is not None:
                names.append(walkspec.name(c["alt"]))
            else:
                names.append(n)
        if len(set(names)) != len(names):
            tie = True
            break
    return walk_canon(out) if tie else out


def c08_streams(tier, rng, ctx):
    ntrees = 120 if tier == "quick" else 1500
    env = dict(MEM_ENV)
    hs_sorted, hs_unsorted, hs_all = [], [], []
    opts_n = len(WALK_OPTS)
    for t in range(ntrees):
        ops = random_tree_ops(rng, 7)
        roots = ["/"] + [bytes.fromhex(o.split(":")[1]).decode() for o in ops if o.startswith("mkdir_p")][:1]
        sel = WALK_OPTS if tier != "quick" else rng.sample(WALK_OPTS, 60)
        for wo in sel:
            for r in roots:
                l = "\t".join(["hist", "m", envspec(MEM_ENV)] + ops + ["entries:%s:%s" % (hx(r), wo)])
                hs_all.append(l)
                if "sort" in wo or "df" in wo or "ff" in wo:
                    hs_sorted.append(l)
                else:
                    hs_unsorted.append(l)
    # a traversal root whose path is a string prefix of a sibling's path (/a and /a1, /t/data and /t/data2), with links from
    # inside the root to that sibling: "inside the root" is a matter of components, not of string prefixes
    pre_trees = [
        [op("mkdir_p", "/a"), op("mkdir_p", "/a1/d"), op("mkfile", "/a1/f"), op("mkfile", "/a/x"), op("symlink", "/a/l", "/a1"), op("symlink", "/a/m", "../a1/f")],
        [op("mkdir_p", "/t/data"), op("mkdir_p", "/t/data2"), op("mkfile", "/t/data2/f"), op("symlink", "/t/data/link", "/t/data2"), op("mkfile", "/t/data/z")],
        [op("mkdir_p", "/a/b"), op("mkdir_p", "/ab/c"), op("symlink", "/a/b/l", "../../ab"), op("symlink", "/ab/c/back", "/a")],
        # a directory next to siblings named like it plus a character below the separator
        ORDER_TREE,
    ]
    for ops in pre_trees:
        for wo in WALK_OPTS:
            for r in ["/a", "/t/data", "/", "/a/b"]:
                l = "\t".join(["hist", "m", envspec(MEM_ENV)] + ops + ["entries:%s:%s" % (hx(r), wo)])
                hs_all.append(l)
                (hs_sorted if ("sort" in wo or "df" in wo or "ff" in wo) else hs_unsorted).append(l)
    lst = []
    for ops in pre_trees:
        for k in ["paths", "dirs", "files", "all_paths", "all_dirs", "all_files"]:
            for r in ["/", "/a", "/t/data", "/a/b"]:
                lst.append("\t".join(["hist", "m", envspec(MEM_ENV)] + ops + [op(k, r)]))
    for t in range(ntrees):
        ops = random_tree_ops(rng, 7)
        for k in ["paths", "dirs", "files", "all_paths", "all_dirs", "all_files"]:
            for r in ["/", "/a", "/a/b", "/nope", "a"]:
                lst.append("\t".join(["hist", "m", envspec(MEM_ENV)] + ops + [op(k, r)]))
    return [
        Stream("walk-sorted", "mirror", hs_sorted, impl_env=env, canon=hist_canon, judge=lambda l, o: not c08_pycheck(l, o),
               # a followed link is named by its target, so it can tie with a sibling of that name and the sort leaves ties in HashSet order
               canon_line=lambda l, o: walk_canon_ties(o) if "follow=1" in l.split("\t")[-1] else o,
               nontrivial=lambda l, o: o.count(",") >= 2,
               rule="random trees (<= 7 entries, multi-byte names, links incl. cycles and dangling) x option records with a name sort: exact sequence vs the mirror"),
        Stream("walk-unsorted", "mirror", hs_unsorted, impl_env=env, canon=walk_canon, judge=lambda l, o: not c08_pycheck(l, o),
               rule="the same without a sort: the yielded multiset vs the mirror"),
        Stream("walk-valid", "pycheck", hs_all, impl_env=env, pycheck=c08_pycheck,
               rule="every observed sequence judged by the independent recursive specification: exact multiset the options denote, each once, "
                    "parents before contents (after with contents_first), siblings in name order / grouped by kind, LinkLooping instead of descent, termination"),
        Stream("listings", "mirror", lst, impl_env=env, canon=hist_canon, pycheck=None, judge=lambda l, o: True,
               rule="paths/dirs/files/all_* on random trees vs the mirror"),
        Stream("listings-valid", "pycheck", lst, impl_env=env, pycheck=listing_pycheck,
               rule="listing results are absolute, distinct, name-sorted, exclude the argument and agree with the tree (kind of every returned path)"),
    ]


def listing_pycheck(line, out):
    f = line.split("\t")
    last = f[-1].split(":")
    fs = out.split("\t")
    if len(fs) < 2 or not fs[-1].startswith("#"):
        return False
    res = fs[-2]
    if not res.startswith("L"):
        return res.startswith("E:")
    tree = walkspec.parse_snapshot(fs[-1])
    items = [bytes.fromhex(x).decode() for x in res[1:].split(",") if x]
    if len(set(items)) != len(items):
        return False
    if any(not p.startswith("/") for p in items):
        return False
    k = last[0]
    for p in items:
        e = tree.get(p)
        if e is None:
            return False
        if k in ("dirs", "all_dirs") and not e["dir"]:
            return False
        if k in ("files", "all_files") and not e["file"]:
            return False
    # name order within one directory level
    if k in ("paths", "dirs", "files"):
        names = [p.rsplit("/", 1)[1].encode() for p in items]
        if names != sorted(names):
            return False
    return True


PROPS["C08"] = {
    "streams": c08_streams,
    "rule": "random trees of up to 7 entries (multi-byte names, links including cycles and dangling ones) x the cross-product of option settings "
            "(follow, depth windows, sort / dirs_first / files_first, contents_first, dirs / files filter, descriptor caps 0 / 1 / default); "
            "sequences compared with the mirror and judged by an independent recursive specification; distinct = distinct (tree, options, root)",
    "trusted": ["tools/walkspec.py (the independent recursive specification used as the judge)", "hook sys::verif::set_max_descriptors"],
    "assumptions": ["HashSet iteration order is arbitrary: unsorted sibling order is compared as a multiset", "Stdfs side: see C02"],
}


# ---------------------------------------------------------------------------------------------
import frames

SETUP = [op("mkdir_p", "/a"), op("mkdir_p", "/b"), op("mkdir_p", "/a/b"), op("mkdir_p", "/a/a"), op("mkfile", "/a"), op("mkfile", "/b"),
         op("write_all", "/a/b", b"xy"), op("write_all", "/b/a", "é\n".encode()), op("write_all", "/a/a", b""),
         op("symlink", "/b", "/a"), op("symlink", "/a/a", "/b"), op("symlink", "/a/b", "../b"), op("symlink", "/b/a", "/nope"),
         # a link to a sibling whose name string-extends its own directory's name (/a ... /ab)
         op("symlink", "/a/b", "../ab"), op("symlink", "/a/a", "/ab"), op("symlink", "/a", "ab"),
         op("mkdir_m", "/a", 0o700), op("set_cwd", "/a"), op("mkdir_p", "/ab")]
PATHS2 = ["/a", "/b", "/a/b", "/a/a", "/b/a", "/c", "/c/d", "/", "/ab"]


def frame_streams(tier, rng, ctx, finals, checks, tag, depth_q=3, depth_t=4, maxs_q=500, maxs_t=5000, extra_random=None, knowns=None):
    depth = depth_q if tier == "quick" else depth_t
    maxstates = maxs_q if tier == "quick" else maxs_t
    hs, info = bfs_histories(ctx, tier, depth, maxstates, muts=SETUP, finals=finals, mode="m2", tag=tag)
    # keep the histories that end with one of the final calls
    fset = set(finals)
    hs = [h for h in hs if h.split("\t")[-1] in fset]
    if extra_random:
        hs = hs + extra_random
    env = dict(MEM_ENV)
    sts = [Stream(tag + "-mirror", "mirror", hs, impl_env=env, exhaustive=True, canon=hist_canon, canon_line=failed_traversal_canon,
                  judge=lambda l, o: ("PANIC" in o or "POISONED" in o or "CRASH" in o or not all(c(l, o) for _, c in checks)),
                  nontrivial=lambda l, o: "\tok\t#" in o or "\tp" in o,
                  rule="model-guided BFS over setup calls (%s, depth %d), then every final call of the property's alphabet in every reached state; "
                       "results and full pre/post state vs the mirror" % (info, depth))]
    for cname, c in checks:
        sts.append(Stream(tag + "-" + cname, "pycheck", hs, impl_env=env, pycheck=c, known=(knowns or {}).get(cname),
                          rule="the statement's clause '%s' evaluated on the implementation's own pre/post state snapshots" % cname))
    return sts


def c09_streams(tier, rng, ctx):
    finals = []
    for a in PATHS2:
        for b in PATHS2:
            finals.append(op("move_p", a, b))
            finals.append(op("copy", a, b))
    for a, b in [("/a", "/b"), ("/a", "/c"), ("/b", "/a/b"), ("/a/b", "/c/d"), ("/a", "/b/a")]:
        for o in ["all=448", "cdirs=448", "cfiles=256", "follow=1", "follow=1,all=493"]:
            finals.append("copy_b:%s:%s:%s" % (hx(a), hx(b), o))
    finals += [op("move_p", "a", "../b"), op("copy", "./b", "/c//d/"), op("move_p", "/é", "/a"), op("copy", "/a", "/é")]
    return frame_streams(tier, rng, ctx, finals, [("failed-call-frame", frames.failed_call_frame), ("copy-laws", frames.copy_laws), ("move-laws", frames.move_laws),
                                                       ("links-consistent", frames.links_consistent)], "c09")


PROPS["C09"] = {
    "streams": c09_streams,
    "rule": "every tree of the bounded namespace reachable by the setup calls x every ordered pair of paths (existing or not, nested either way, files, directories, "
            "links) for copy and move_p, plus Copier option combinations; pre/post snapshots compared with the mirror and judged by the statement's clauses; "
            "distinct = distinct histories",
    "trusted": ["tools/frames.py (the statement's clauses as executable checks on state snapshots)", "hook sys::verif::memfs_snapshot"],
    "assumptions": ["copy with follow(true), destinations nested in the source and unclean spellings are compared through the mirror only"],
}


def py_buf_lines(data):
    """BufRead::lines over the bytes, as std documents it: split at LF, the LF and a CR directly before it removed; None for invalid UTF-8"""
    try:
        data.decode("utf-8")
    except UnicodeDecodeError:
        return None
    parts = data.split(b"\n")
    last = parts.pop()
    out = [p[:-1] if p.endswith(b"\r") else p for p in parts]
    if last != b"":
        out.append(last)
    return out


def read_lines_law(line, out):
    """read_lines / read_all right after write_all(d): exactly the byte-vector model's lines / bytes"""
    ops = line.split("\t")[3:]
    res = [x for x in out.split("\t") if not x.startswith("#")]
    if len(res) < 3 or not ops[0].startswith("write_all:"):
        return True
    d = bytes.fromhex(ops[0].split(":")[2]) if len(ops[0].split(":")) > 2 else b""
    want = py_buf_lines(d)
    if want is None:
        return res[1].startswith("E:") and res[2].startswith("E:")
    return res[1] == "l" + ",".join(x.hex() for x in want) and res[2] == "d" + d.hex()


def read_lines_histories(tier, mode="m", maxlen=None):
    import c_path
    alpha = [b"a", b"\r", b"\n", "é".encode(), b"\xff"]
    n = maxlen or (4 if tier == "quick" else 6)
    hs = []

    def rec(prefix, k):
        hs.append("\t".join(["hist", mode, envspec(MEM_ENV), op("write_all", "/f", prefix), op("read_lines", "/f"), op("read_all", "/f")]))
        if k < n:
            for a in alpha:
                rec(prefix + a, k + 1)
    rec(b"", 0)
    return hs


def c06_streams(tier, rng, ctx):
    datas = [b"", b"x", "héllo\n".encode(), b"\xff\xfe", b"a\r\nb\n", b"l1\nl2", bytes(range(256)) * 8]
    finals = []
    for p in ["/a", "/b", "/a/b", "/c", "/b/a"]:
        for d in datas:
            finals.append(op("write_all", p, d))
            finals.append(op("append_all", p, d))
        finals += [op("read_all", p), op("read_lines", p), op("write_lines", p, ["l1", "é", "x y"]), op("write_lines", p, []), op("write_lines", p, [""]),
                   op("append_lines", p, ["u", "v"]), op("append_line", p, "w"), op("append_line", p, ""),
                   # lists mixing empty and non-empty lines, a lone empty line, carriage returns
                   op("append_lines", p, ["a", "", "b"]), op("append_lines", p, ["", "x"]), op("append_lines", p, ["x", ""]), op("append_lines", p, [""]),
                   op("append_lines", p, []), op("write_lines", p, ["a", "", "b"]), op("write_lines", p, ["", ""]), op("write_lines", p, ["a\r", "b"]),
                   op("append_line", p, "c\r")]
    finals += [op("copy", "/a/b", "/c"), op("move_p", "/a/b", "/c"), op("copy", "/b/a", "/a/b")]
    sts = frame_streams(tier, rng, ctx, finals, [("content-laws", frames.content_laws)], "c06", depth_q=2, maxs_q=300,
                        knowns={"content-laws": lambda l, io, mo: "KF-C06-nothing-to-write" if frames.lines_nothing_class(l) else None})
    # interleavings of writes / appends / copies / moves over three files, then reads of all three
    fs3 = ["/f1", "/f2", "/d/f3"]
    acts = []
    for f in fs3:
        acts += [op("write_all", f, b"W" + f.encode()), op("append_all", f, b"+a"), op("append_line", f, "ln"), op("write_lines", f, ["x", "y"])]
    acts += [op("copy", "/f1", "/f2"), op("copy", "/f2", "/d/f3"), op("move_p", "/f1", "/d/f3"), op("move_p", "/d/f3", "/f1"), op("remove", "/f2")]
    n = 3 if tier == "quick" else 4
    il = []
    reads = [op("read_all", f) for f in fs3] + [op("read_lines", f) for f in fs3]
    for t in itertools.product(acts, repeat=n):
        if tier == "quick" and rng.random() < 0.5:
            continue
        il.append("\t".join(["hist", "m", envspec(MEM_ENV), op("mkdir_p", "/d")] + list(t) + reads))
    # explicit handles interleaved with other calls on the same file: flushes and drops at every point
    hacts = ["open_w:%s" % hx("/f"), "open_a:%s" % hx("/f"), "hwrite:0:%s" % b"A".hex(), "hwrite:1:%s" % b"B".hex(), "hflush:0", "hflush:1", "hdrop:0", "hdrop:1",
             op("write_all", "/f", b"first\n"), op("append_all", "/f", b"+"), op("remove", "/f"), op("read_all", "/f")]
    hn = 5 if tier == "quick" else 6
    hl = []
    for t in itertools.product(hacts, repeat=hn):
        # at least one open, and handle ops only after their open
        opens = [x for x in t if x.startswith("open_")]
        if not opens or not t[0].startswith("open_") and not t[1].startswith("open_"):
            continue
        if rng.random() < (0.97 if tier == "quick" else 0.9):
            continue
        hl.append("\t".join(["hist", "h", envspec(MEM_ENV)] + list(t) + [op("read_all", "/f")]))
    seq = ["open_a:%s" % hx("/f"), op("write_all", "/f", b"first\n"), "hwrite:0:%s" % b"second\n".hex(), "hflush:0", op("read_all", "/f")]
    hl.append("\t".join(["hist", "h", envspec(MEM_ENV)] + seq))
    hl.append("\t".join(["hist", "h", envspec(MEM_ENV), "open_a:%s" % hx("/f"), op("append_all", "/f", b"x"), "hdrop:0", op("read_all", "/f")]))
    sts.append(Stream("c06-handles", "mirror", hl, impl_env=dict(MEM_ENV), judge=lambda l, o: True,
                      rule="write / append handles opened, written, flushed and dropped at every point, interleaved with write_all / append_all / remove on the same file"))
    sts.append(Stream("c06-handles-under-change", "mirror", append_handle_histories(), impl_env=dict(MEM_ENV), judge=lambda l, o: True, exhaustive=True,
                      rule="an append / write handle that has flushed once, the file changing underneath it (write_all, append_all, another handle, re-creation), and the handle "
                           "writing, flushing and dropping again: the content read back"))
    sts.append(Stream("c06-handles-on-copies", "mirror", copied_handle_histories(), impl_env=dict(MEM_ENV), judge=lambda l, o: True, exhaustive=True,
                      rule="a file moved (directly or inside a moved directory), then copied; an append / write handle on the copy or on the moved file written, flushed, "
                           "dropped; every file read back: the copy does not alias its source"))
    sts.append(Stream("c06-stale-handles", "mirror", stale_handle_histories(tier), impl_env=dict(MEM_ENV), judge=lambda l, o: True, exhaustive=True,
                      rule="a write / append handle that outlives its file (removed, moved away, re-created as a directory, link or new file): what read_all returns afterwards"))
    # the same content laws on the real filesystem: files of different lengths overwritten, appended, copied over each other and moved, on both backends side by side
    import c_wrap
    xs = []
    contents = [b"", b"x", b"longer content\n", "é\nsecond\n".encode()]
    for a in contents:
        for b in contents:
            base = [op("mkdir_p", "/d"), op("write_all", "/f1", a), op("write_all", "/d/f2", b)]
            for act in [[op("copy", "/f1", "/d/f2")], [op("copy", "/d/f2", "/f1")], [op("write_all", "/f1", b"w")], [op("write_all", "/d/f2", b"")],
                        [op("append_all", "/f1", b"+")], [op("write_lines", "/f1", ["1", "2"])], [op("append_line", "/d/f2", "t")], [op("move_p", "/f1", "/d/f2")],
                        [op("copy", "/f1", "/d/f2"), op("write_all", "/f1", b"changed")], [op("copy", "/f1", "/n"), op("append_all", "/n", b"!")],
                        [op("write_lines", "/d/f2", ["only"]), op("copy", "/d/f2", "/f1")], [op("copy", "/f1", "/d")]]:
                xs.append("\t".join(["hist", "x", envspec(MEM_ENV)] + base + act +
                                    [op("read_all", "/f1"), op("read_all", "/d/f2"), op("read_all", "/n"), op("read_all", "/d/f1"), op("read_lines", "/f1"), op("read_lines", "/d/f2")]))
    sts.append(Stream("c06-both-backends", "pycheck", xs, impl_env=c_wrap.sandbox_env("c06"), pycheck=c_wrap.x_eq, exhaustive=True,
                      rule="files of different lengths overwritten, appended, copied over each other and moved, then read back: Memfs and Stdfs (sandbox) side by side, same results and same tree"))
    sts.append(Stream("c06-read-lines", "mirror", read_lines_histories(tier), impl_env=dict(MEM_ENV), judge=lambda l, o: not read_lines_law(l, o), exhaustive=True,
                      rule="every byte string up to length %d over {a, CR, LF, a two-byte character, an invalid byte} written, then read_lines and read_all; judged by "
                           "BufRead::lines as std documents it" % (4 if tier == "quick" else 6)))
    sts.append(Stream("c06-read-lines-law", "pycheck", read_lines_histories(tier), impl_env=dict(MEM_ENV), pycheck=read_lines_law, exhaustive=True,
                      rule="read_lines(write_all(d)) is d split at LF with a CR directly before the LF removed, an error for invalid UTF-8; read_all gives d back"))
    sts.append(Stream("c06-read-lines-both-backends", "pycheck", read_lines_histories(tier, "x", 3 if tier == "quick" else 4), impl_env=c_wrap.sandbox_env("c06"),
                      pycheck=c_wrap.x_eq, exhaustive=True, rule="the same strings up to a smaller length on Memfs and Stdfs (sandbox) side by side"))
    sts.append(Stream("c06-interleavings", "mirror", il, impl_env=dict(MEM_ENV), judge=lambda l, o: True,
                      rule="all sequences of %d write/append/line/copy/move/remove calls over three files, then read_all and read_lines of each" % n))
    return sts


PROPS["C06"] = {
    "streams": c06_streams,
    "rule": "byte strings (empty, multi-byte, invalid UTF-8, CRLF, no final newline, 2 KiB) x every reachable tree of the bounded namespace x write/append/line helpers and reads; "
            "all short interleavings of writes/appends/copies/moves over three files followed by reads; distinct = distinct histories",
    "trusted": ["tools/frames.py content_laws", "Base/Utf8.v (UTF-8 validity and BufRead::lines as modelled)"],
    "assumptions": ["std String::from_utf8 / BufRead::lines behave as Base/Utf8.v (exercised with invalid sequences and CR/LF combinations)"],
}


def c12_streams(tier, rng, ctx):
    """adversarial arguments into every method: empty, '~', '$', '//', long '..' chains, multi-byte, very long names"""
    adv = ["", "/", "//", ".", "..", "~", "~/", "~x", "$", "${", "$V", "${V}", "$NOPE", "a//b", "../../../..", "/" + "../" * 50, "é", "/é/語/😀", "ab//€€",
           "/ab/cƒ//x", "a//b/😀/c", "file://", "FILE:///é", "http://x//y", "x" * 300, "/" + "/".join(["d"] * 60), "a\tb", "a:b", "/a/./b/../c/", "~/~",
           # multi-byte characters right after the characters the expander slices at
           "~é", "~日/x", "~😀", "~/é", "é~", "$é", "${é}", "$Vé", "${V}é", "~€/$V", "file:é", "é" * 100,
           # characters whose lower- or upper-case form has another UTF-8 length, before and after the characters helpers search for
           "\u0130//", "\u0130//é", "\u212a\u212a//", "\u212a//x", "\u023a//x", "\u1e9e//", "FILE\u0130://x", "\u0130file://x", "http://\u0130//", "\u0130.\u0130", "x.\u212a",
           "\u0130/\u0130", "~\u0130", "$\u0130", "\u00df//", "\ufb01le://x"]
    calls1 = ["abs", "exists", "is_dir", "is_file", "is_symlink", "is_exec", "is_readonly", "mode", "owner", "uid", "gid", "set_cwd", "mkfile", "mkdir_p",
              "read_all", "read_lines", "remove", "remove_all", "readlink", "readlink_abs", "paths", "dirs", "files", "all_paths", "all_dirs", "all_files"]
    hs = []
    pre = [op("mkdir_p", "/é/a"), op("write_all", "/é/a/f", "x".encode()), op("symlink", "/l", "/é")]
    for a in adv:
        for c in calls1:
            hs.append("\t".join(["hist", "m", envspec(MEM_ENV)] + pre + [op(c, a), op("exists", "/")]))
        for b in rng.sample(adv, 6):
            for c2 in ["move_p", "copy", "symlink"]:
                hs.append("\t".join(["hist", "m", envspec(MEM_ENV)] + pre + [op(c2, a, b), op("exists", "/")]))
        hs.append("\t".join(["hist", "m", envspec(MEM_ENV)] + pre + [op("write_all", a, b"d"), op("append_all", a, b"e"), op("mkdir_m", a, 0o700), op("chmod", a, 0o600),
                                                                   op("chown", a, 1, 2), op("mkfile_m", a, 0o644), "entries:%s:sort,follow=1" % hx(a), op("exists", "/")]))
    # move_p / copy on multi-byte paths (formerly a panic under the write guard) and into own subtree (formerly a hang)
    for a, b in [("/é/a", "/b"), ("/é", "/é/a/z"), ("/é/a", "/é/a"), ("/é", "/x/y"), ("/l", "/é/a"), ("/é/a/f", "/é")]:
        for c2 in ["move_p", "copy"]:
            hs.append("\t".join(["hist", "m", envspec(MEM_ENV)] + pre + [op(c2, a, b), op("exists", "/"), op("all_paths", "/")]))
    # deep trees (beyond the iterator's default cap of 50 open descriptors), leaf directory empty or not, every traversal-based call
    for depth in ([51, 64] if tier == "quick" else [49, 50, 51, 52, 64, 100]):
        for leaf in ["empty", "file"]:
            deep = "/" + "/".join(["d"] * depth)
            mk = [op("mkdir_p", deep)] + ([op("mkfile", deep + "/f")] if leaf == "file" else [])
            for call in ["entries:%s:" % hx("/"), "entries:%s:sort" % hx("/"), "entries:%s:cf" % hx("/"), "entries:%s:dirs,cf" % hx("/d/d"),
                         op("chown", "/", 5, 6), op("chmod", "/d", 0o700), op("copy", "/d", "/e"), op("all_paths", "/"), op("all_dirs", "/d"),
                         op("all_files", "/"), op("remove_all", "/d/d"), op("move_p", "/d", "/m")]:
                hs.append("\t".join(["hist", "m", envspec(MEM_ENV)] + mk + [call, op("exists", "/"), op("is_dir", deep)]))
    # link cycles of every shape x every call that follows links or walks a tree: each must come back, and the instance must answer afterwards
    cyc_states = {
        "mutual": [op("mkdir_p", "/x"), op("mkdir_p", "/y"), op("symlink", "/x/l1", "/y"), op("symlink", "/y/l2", "/x")],
        "ancestor": [op("mkdir_p", "/x/a"), op("symlink", "/x/a/l", "/x")],
        "self-dir": [op("mkdir_p", "/x"), op("symlink", "/x/l", "/x")],
        "three": [op("mkdir_p", "/x"), op("mkdir_p", "/y"), op("mkdir_p", "/z"), op("symlink", "/x/l1", "/y"), op("symlink", "/y/l2", "/z"), op("symlink", "/z/l3", "/x")],
        "sibling-back": [op("mkdir_p", "/p/x"), op("mkdir_p", "/p/y"), op("symlink", "/p/x/l", "/p/y"), op("symlink", "/p/y/up", "/p")],
        "root-link": [op("mkdir_p", "/x"), op("mkdir_p", "/y"), op("symlink", "/x/l1", "/y"), op("symlink", "/y/l2", "/x"), op("symlink", "/r", "/x")],
        "file-between": [op("mkdir_p", "/x"), op("mkdir_p", "/y"), op("write_all", "/y/f", b"f"), op("symlink", "/x/l1", "/y"), op("symlink", "/y/l2", "/x"), op("write_all", "/x/g", b"g")],
    }
    for nm, st in cyc_states.items():
        for root in ["/x", "/", "/r", "/x/l1", "/p"]:
            for call in ["entries:%s:follow=1" % hx(root), "entries:%s:sort,follow=1" % hx(root), "entries:%s:follow=1,cf" % hx(root), "entries:%s:sort,follow=1,df,dirs" % hx(root),
                         "entries:%s:follow=1,max=3" % hx(root), "chown_b:%s:uid=9,follow=1" % hx(root), "chown_b:%s:gid=3,follow=1,norecurse" % hx(root),
                         "chmod_b:%s:follow=1,all=448:" % hx(root), "chmod_b:%s:follow=1:%s" % (hx(root), hx("a:a+r")), "copy_b:%s:%s:follow=1" % (hx(root), hx("/copy")),
                         op("copy", root, "/copy"), op("all_paths", root), op("remove_all", root), op("move_p", root, "/moved")]:
                if nm == "file-between" and not (call.startswith("entries:") and "sort" in call):
                    continue          # two children in one directory: only a sorted traversal has a determined order
                hs.append("\t".join(["hist", "m", envspec(MEM_ENV)] + st + [call, op("exists", "/"), op("is_dir", "/x")]))
    # the path helpers are calls too: every unary helper on all short strings over separators, dots, 1-, 2- and 3-byte characters, and the
    # adversarial arguments; every binary helper on pairs of them
    import c_path
    hstr = list(c_path.all_strings(["/", ".", "a", "é", "€"], 5 if tier == "quick" else 6)) + adv
    hl = []
    for fn in ["base", "first", "dir", "ext", "name", "trim_ext", "trim_first", "trim_last", "is_empty", "parse_paths", "trim_protocol"]:
        hl += [c_path.line(fn, x) for x in hstr]
    hshort = list(c_path.all_strings(["/", ".", "a", "é"], 3)) + adv[:20]
    for fn in ["trim_prefix", "trim_suffix", "has", "has_prefix", "has_suffix", "mash", "concat"]:
        hl += [c_path.line(fn, x, y) for x in hshort for y in hshort]
    rh = random_histories(rng, 2000 if tier == "quick" else 20000, 10, tier)
    bad = lambda l, o: ("PANIC" in o or "POISONED" in o or "CRASH" in o or "HANG" in o)
    # extreme numeric arguments: depth bounds next to usize::MAX, modes and ids at u32::MAX (implementation only: the
    # mirror counts depths in unary)
    big = [str(2**64 - 1), str(2**64 - 2), str(2**63), str(2**40), str(2**32), "0", "1"]
    xs = []
    pre2 = [op("mkdir_p", "/a/b/c"), op("write_all", "/a/f", b"x"), op("symlink", "/a/l", "/a/b")]
    for v in big:
        for o in ["max=%s" % v, "min=%s" % v, "min=%s,max=3" % v, "min=2,max=%s" % v, "sort,max=%s,cf" % v, "follow=1,max=%s" % v]:
            xs.append("\t".join(["hist", "m", envspec(MEM_ENV)] + pre2 + ["entries:%s:%s" % (hx("/a"), o), op("exists", "/")]))
    for v in [2**32 - 1, 2**31, 0o7777, 0o10000, 0o177777, 0]:
        for call in [op("chmod", "/a", v), op("mkdir_m", "/a/n", v), op("mkfile_m", "/a/g", v), op("chown", "/a", v, v), "chmod_b:%s:all=%d:" % (hx("/a"), v),
                     "chmod_b:%s:dirs=%d,files=%d,follow=1:" % (hx("/a"), v, v), "chown_b:%s:uid=%d,gid=%d" % (hx("/a"), v, v), "copy_b:%s:%s:all=%d" % (hx("/a"), hx("/z"), v)]:
            xs.append("\t".join(["hist", "m", envspec(MEM_ENV)] + pre2 + [call, op("mode", "/a"), op("owner", "/a"), op("is_exec", "/a"), op("is_readonly", "/a"), op("exists", "/")]))
    return [
        Stream("c12-extreme-numbers", "pycheck", xs, impl_env=dict(MEM_ENV), pycheck=lambda l, o: not bad(l, o) and "\tb1\t#" in o, exhaustive=True,
               rule="depth bounds next to usize::MAX, modes and ids up to u32::MAX, into every call that takes a number: no panic, "
                    "no hang, and the instance answers afterwards"),
        Stream("c12-adversarial", "mirror", hs, impl_env=dict(MEM_ENV), canon=hist_canon, canon_line=failed_traversal_canon, judge=bad,
               nontrivial=lambda l, o: True,
               rule="adversarial argument strings into every Memfs method (each under catch_unwind, followed by a probe call that a poisoned lock would fail)"),
        Stream("c12-helpers", "pycheck", hl, pycheck=lambda l, o: not bad(l, o), exhaustive=True,
               rule="every path helper on all strings up to length 5 over '/', '.', 'a', a 2-byte and a 3-byte character and on the adversarial arguments (binary helpers on pairs): no PANIC"),
        Stream("c12-handles-no-panic", "pycheck", append_handle_histories() + stale_handle_histories(tier) + copied_handle_histories(), impl_env=dict(MEM_ENV),
               pycheck=lambda l, o: not bad(l, o), exhaustive=True,
               rule="write / append handles kept open while the file changes underneath them, is removed, moved, copied or re-created, then written, flushed and dropped: "
                    "no panic, no poisoned lock"),
        Stream("c12-no-panic", "pycheck", hs + rh, impl_env=dict(MEM_ENV), pycheck=lambda l, o: not bad(l, o),
               rule="no PANIC / POISONED / CRASH / HANG marker in any transcript"),
    ]


PROPS["C12"] = {
    "streams": c12_streams,
    "rule": "adversarial argument strings (empty, ~, $, //, 50-deep '..' chains, 2-/3-/4-byte characters at slicing offsets, 300-character names, 60-deep paths, protocol prefixes) "
            "into every Memfs method, each call under catch_unwind followed by a probe call; plus random histories; the pure helpers are exercised by C14/C15/C19 exhaustively; "
            "distinct = distinct histories",
    "trusted": ["catch_unwind observes every panic of the called code", "a hang kills the batch process and is reported as CRASH (no watchdog thread yet)"],
    "assumptions": ["bounded time = the mirrors' fuel bounds (proved for expand's scanner; exercised for the worklist loops)"],
}


def c01_streams(tier, rng, ctx):
    sts = mem_streams(tier, rng, ctx)
    for st in sts:
        # for C01 the mirror stands for the reference filesystem: a disagreement is a failing history
        st.judge = lambda l, o: True
    # failed single-target calls leave the tree exactly as it was: judged on pre/post snapshots
    finals = []
    for p in PATHS2 + ["a", "../b", "", "~", "/a/b/c/d"]:
        finals += [op("mkfile", p), op("mkdir_p", p), op("mkdir_m", p, 0o700), op("write_all", p, b"w"), op("append_all", p, b"a"), op("remove", p), op("set_cwd", p)]
        for q in ["/a", "/b", "/c/d", "../x"]:
            finals += [op("move_p", p, q), op("symlink", p, q)]
    sts += frame_streams(tier, rng, ctx, finals, [("failed-call-frame", frames.failed_call_frame)], "c01f", depth_q=2, maxs_q=250)
    sts.append(Stream("cwd-gone", "mirror", cwd_histories(), impl_env=dict(MEM_ENV), exhaustive=True, canon=hist_canon, canon_line=failed_traversal_canon,
                      judge=lambda l, o: True,
                      rule="the working directory (entered directly or through a link) removed, moved away or replaced by a file, a link or a new directory, then "
                           "set_cwd / relative creations / cwd() / abs(): every result and the complete state compared"))
    sts.append(Stream("repeat-after-change", "mirror", repeat_histories(), impl_env=dict(MEM_ENV), exhaustive=True, canon=hist_canon, canon_line=failed_traversal_canon,
                      judge=lambda l, o: True,
                      rule="a traversal-based call (chown, chmod, copy, remove_all, listings), a change inside the tree it covered, the same call again, then every "
                           "owner / mode read back and the complete state compared"))
    return sts


PROPS["C01"] = {
    "streams": c01_streams,
    "rule": "model-guided breadth-first enumeration of the reachable states of a bounded namespace x the full call alphabet (create, write, append, read, list, query, chmod, chown, "
            "copy, move, remove, symlink, set_cwd; absolute, relative and unclean spellings) plus random histories; every call's value / error kind and the complete resulting state "
            "compared with the mirror; failed single-target calls judged on pre/post snapshots; distinct = distinct histories",
    "trusted": ["hook sys::verif::memfs_snapshot", "tools/frames.py failed_call_frame"],
    "assumptions": ["the mirror (Memfs/Ops.v, WalkOps.v) stands for the reference tree filesystem: see the level note (refinement to an independent tree specification is not yet proved)"],
}


def c20_streams(tier, rng, ctx):
    finals = []
    paths = ["/a", "/b", "/a/b", "/a/a", "/b/a", "/c", "/", "", "b", "../b", "/ab"]
    for p in paths:
        for mname in ["exists", "no_exists", "is_dir", "no_dir", "is_file", "no_file", "is_symlink", "no_symlink", "mkdir_p", "mkfile", "remove", "remove_all"]:
            finals.append("macro:%s:%s" % (mname, hx(p)))
        for d in ["xy", "", "é\n", "other"]:
            finals.append("macro:read_all:%s:%s" % (hx(p), hx(d)))
            finals.append("macro:write_all:%s:%s" % (hx(p), hx(d)))
        # expected targets: right ones, wrong ones, and other spellings of right ones (a trailing or doubled separator, './'): the macros compare text
        for t in ["/a", "/b", "../b", "b", "/nope", "/a/b", "b/", "../b/", "..//b", ".././b", "./b", "/a/", "/a//b", "/b/.", "a", "a/", "../a", "../a/"]:
            finals.append("macro:readlink:%s:%s" % (hx(p), hx(t)))
            finals.append("macro:readlink_abs:%s:%s" % (hx(p), hx(t)))
            finals.append("macro:symlink:%s:%s" % (hx(p), hx(t)))
        # requested modes that differ from an existing directory's mode in the rwx bits, only in the setuid / setgid /
        # sticky bits, only in the file-type bits, or not at all
        for md in [0o755, 0o700, 0o40755, 0, 0o1755, 0o4755, 0o2700, 0o7777, 0o1700]:
            finals.append("macro:mkdir_m:%s::%d" % (hx(p), md))
    depth = 2 if tier == "quick" else 3
    hs, info = bfs_histories(ctx, tier, depth, 300 if tier == "quick" else 4000, muts=SETUP, finals=finals, mode="m", tag="c20")
    fset = set(finals)
    hs = [h for h in hs if h.split("\t")[-1] in fset]
    # states the setup alphabet does not reach: files whose bytes are not valid UTF-8 (read_all fails on them), an empty file, links to those
    pre = [op("mkdir_p", "/a"), op("write_all", "/a/bad", b"pr\xe2\x82"), op("write_all", "/f", b"\xff\xfe"), op("write_all", "/e", b""),
           op("symlink", "/l", "/f"), op("symlink", "/le", "/e"), op("symlink", "/ld", "/a")]
    for p in ["/a/bad", "/f", "/e", "/l", "/le", "/ld", "/a"]:
        for mname in ["exists", "no_exists", "is_dir", "no_dir", "is_file", "no_file", "is_symlink", "no_symlink", "mkdir_p", "mkfile", "remove", "remove_all"]:
            hs.append("\t".join(["hist", "m", envspec(MEM_ENV)] + pre + ["macro:%s:%s" % (mname, hx(p))]))
        for d in [b"xy", b"", b"pr", "pr\u20ac".encode()]:        # the macros take their expected data as text: valid UTF-8 only
            hs.append("\t".join(["hist", "m", envspec(MEM_ENV)] + pre + ["macro:read_all:%s:%s" % (hx(p), d.hex())]))
            hs.append("\t".join(["hist", "m", envspec(MEM_ENV)] + pre + ["macro:write_all:%s:%s" % (hx(p), d.hex())]))
        for t in ["/f", "/e", "/a", "f"]:
            hs.append("\t".join(["hist", "m", envspec(MEM_ENV)] + pre + ["macro:readlink:%s:%s" % (hx(p), hx(t))]))
            hs.append("\t".join(["hist", "m", envspec(MEM_ENV)] + pre + ["macro:readlink_abs:%s:%s" % (hx(p), hx(t))]))
            hs.append("\t".join(["hist", "m", envspec(MEM_ENV)] + pre + ["macro:symlink:%s:%s" % (hx(p), hx(t))]))
    return [Stream("macros-memfs", "mirror", hs, impl_env=dict(MEM_ENV), exhaustive=True, judge=lambda l, o: True,
                   nontrivial=lambda l, o: "\tpass\t" in o,
                   rule="every state of the bounded namespace (%s) x every path x every assert_vfs_* macro, invoked under catch_unwind on the real Memfs; "
                        "pass / panic, the macro named in the message and the resulting state vs the mirror of the macro bodies" % info)]


PROPS["C20"] = {
    "streams": c20_streams,
    "rule": "every reachable state of the bounded namespace x every path x every assert_vfs_* macro (with matching and non-matching expected values); "
            "non-trivial = the macro passes; distinct = distinct (history, macro invocation)",
    "trusted": ["catch_unwind + panic payload for the macro message", "hook sys::verif::memfs_snapshot"],
    "assumptions": ["Stdfs side: every macro is in C02's alphabet and runs there on both backends", "the path named in a panic message is not compared, only the macro name"],
}


# ---------------------------------------------------------------------------------------------
import posixpath


def c10_cases(tier, rng):
    names = ["a", "b", "é"]
    dirs = ["/"] + ["/" + x for x in names] + ["/%s/%s" % (x, y) for x in names[:2] for y in names[:2]] + ["/a/b/a", "/a/b/a/b"]
    # directories whose names extend one another (a, ab, a.b): "inside the link's directory" is a matter of components, not of string prefixes
    dirs += ["/ab", "/a.b", "/a/ab"]
    cases = []
    for ld in dirs:
        for td in dirs:
            for tk in ["absent", "file", "dir", "link", "linkdir"]:
                link = (ld.rstrip("/") + "/l")
                target = (td.rstrip("/") + "/t") if tk != "dir" or td == "/" else td
                if tk == "dir" and td == "/":
                    target = "/t"
                if target == link:
                    continue
                for spelling in ["abs", "rel", "relx"]:
                    cases.append((link, target, tk, spelling))
    if tier == "quick":
        ext = {"/a", "/ab", "/a.b", "/a/ab"}
        forced = [c for c in cases if posixpath.dirname(c[0]) in ext and (posixpath.dirname(c[1]) in ext or c[1] in ext)]
        cases = forced + rng.sample(cases, min(len(cases), 700))
    return cases


def c10_hist(link, target, tk, spelling):
    ld = posixpath.dirname(link)
    setup = [op("mkdir_p", ld)]
    if tk == "file":
        setup += [op("mkdir_p", posixpath.dirname(target)), op("write_all", target, b"T")]
    elif tk == "dir":
        setup += [op("mkdir_p", target)]
    elif tk == "link":
        setup += [op("mkdir_p", posixpath.dirname(target)), op("mkfile", "/zz"), op("symlink", target, "/zz")]
    elif tk == "linkdir":
        setup += [op("mkdir_p", posixpath.dirname(target)), op("mkdir_p", "/zd"), op("symlink", target, "/zd")]
    # "relx": a relative spelling that passes through a name that does not exist ("nosuch/../file"): read lexically, not by the operating system
    tsp = target if spelling == "abs" else posixpath.relpath(target, ld) if spelling == "rel" else "nosuch/../" + posixpath.relpath(target, ld)
    qs = [op("symlink", link, tsp), op("readlink_abs", link), op("readlink", link), op("is_symlink", link), op("is_file", link), op("is_dir", link),
          op("is_symlink_dir", link), op("is_symlink_file", link), op("readlink", target), op("readlink_abs", ld)]
    return setup, qs, tsp


def c10_pycheck(line, out):
    f = line.split("\t")
    ops = f[3:]
    res = [x for x in out.split("\t") if not x.startswith("#")]
    try:
        i = next(k for k, o in enumerate(ops) if o.startswith("symlink:") and k >= len(ops) - 10)
    except StopIteration:
        return True
    sy = ops[i].split(":")
    link, tsp = bytes.fromhex(sy[1]).decode(), bytes.fromhex(sy[2]).decode()
    r = res[i:]
    if not r[0].startswith("p"):
        return True           # the symlink call itself failed: nothing recorded
    ld = posixpath.dirname(link)
    want_abs = posixpath.normpath(tsp if tsp.startswith("/") else ld.rstrip("/") + "/" + tsp)
    if r[1] != "p" + want_abs.encode().hex():
        return False          # readlink_abs(link) == abs(target)
    if not r[2].startswith("p"):
        return False
    rel = bytes.fromhex(r[2][1:]).decode()
    if posixpath.normpath(ld.rstrip("/") + "/" + rel) != want_abs and not (rel.startswith("/") and posixpath.normpath(rel) == want_abs):
        return False          # cleaning dir(link)/readlink(link) gives readlink_abs(link)
    if rel.startswith("/"):
        return False          # readlink is a relative path
    if (r[3], r[4], r[5]) != ("b1", "b0", "b0"):
        return False          # link exclusion
    # is_symlink_dir / is_symlink_file reflect the kind the target has at creation
    pre_ops = ops[:i]
    if op("mkdir_p", want_abs) in pre_ops and (r[6], r[7]) != ("b1", "b0"):
        return False
    if any(o.startswith("write_all:%s:" % hx(want_abs)) for o in pre_ops) and (r[6], r[7]) != ("b0", "b1"):
        return False
    # ... also when the target is itself a link: to a directory -> a directory link, to a file -> a file link
    if op("symlink", want_abs, "/zd") in pre_ops and (r[6], r[7]) != ("b1", "b0"):
        return False
    if op("symlink", want_abs, "/zz") in pre_ops and (r[6], r[7]) != ("b0", "b1"):
        return False
    return True


def c10_known(line, impl_out, model_out):
    # KF-C10-self-dir: a link whose target is its own directory stores the absolute target as its relative path
    ops = line.split("\t")[3:]
    for o in ops:
        if o.startswith("symlink:"):
            sy = o.split(":")
            link, tsp = bytes.fromhex(sy[1]).decode(), bytes.fromhex(sy[2]).decode()
            ld = posixpath.dirname(link)
            if link.endswith("/l") and posixpath.normpath(tsp if tsp.startswith("/") else ld.rstrip("/") + "/" + tsp) == ld:
                return "KF-C10-self-dir"
    return None


def c10_moved_law(line, out):
    """after the link (or a directory above it) has been moved: it is still a link and nothing else, readlink stays relative, and cleaning
    dir(link)/readlink(link) still gives readlink_abs(link), a clean absolute path"""
    ops = line.split("\t")[3:]
    res = [x for x in out.split("\t") if not x.startswith("#")]
    try:
        i = next(k for k, o in enumerate(ops) if o.startswith("move_p:"))
    except StopIteration:
        return True
    if res[i] != "ok" or not res[i - 1].startswith("p"):
        return True           # the symlink or the move failed: nothing to say
    link = bytes.fromhex(ops[i + 1].split(":")[1]).decode()
    r = res[i + 1:]
    if not (r[0].startswith("p") and r[1].startswith("p")):
        return False
    ra, rel = bytes.fromhex(r[0][1:]).decode(), bytes.fromhex(r[1][1:]).decode()
    if posixpath.normpath(posixpath.dirname(link).rstrip("/") + "/" + rel) != ra and not (rel.startswith("/") and posixpath.normpath(rel) == ra):
        return False
    if (r[2], r[3], r[4]) != ("b1", "b0", "b0"):
        return False
    return True


def c10_moved_histories(tier, rng):
    hs = []
    for link, target, tk, spelling in c10_cases(tier, rng):
        setup, qs, tsp = c10_hist(link, target, tk, spelling)
        ld = posixpath.dirname(link)
        moves = [(link, "/mv/x/l2", "/mv/x/l2"), (link, ld.rstrip("/") + "/l3", ld.rstrip("/") + "/l3")]
        if ld != "/":
            top = "/" + ld.split("/")[1]
            moves.append((top, "/mv/x/" + top[1:], "/mv/x" + link))
            if ld != top:
                moves.append((ld, "/mv/d", "/mv/d/l"))
        for src, dst, nl in moves:
            hs.append("\t".join(["hist", "m", envspec(MEM_ENV)] + setup + [op("mkdir_p", "/mv/x"), qs[0], op("move_p", src, dst), op("readlink_abs", nl), op("readlink", nl),
                                                                          op("is_symlink", nl), op("is_file", nl), op("is_dir", nl), op("is_symlink_dir", nl),
                                                                          op("is_symlink_file", nl), op("exists", link)]))
    if tier == "quick":
        hs = rng.sample(hs, min(len(hs), 1500))
    return hs


def c10_streams(tier, rng, ctx):
    hs, hs2 = [], []
    for link, target, tk, spelling in c10_cases(tier, rng):
        setup, qs, tsp = c10_hist(link, target, tk, spelling)
        hs.append("\t".join(["hist", "m", envspec(MEM_ENV)] + setup + qs))
        # remove / chmod / chown on the link never touch the target
        for act in [op("remove", link), op("chmod", link, 0o600), op("chown", link, 7, 8), "chmod_b:%s::%s" % (hx(link), hx("a:a-w"))]:
            hs2.append("\t".join(["hist", "m2", envspec(MEM_ENV)] + setup + [qs[0], act]))
    env = dict(MEM_ENV)

    def target_untouched(line, out):
        name, args, _ = frames.last_op(line)
        res, pre, post = frames.split_out(out)
        if pre is None or post is None:
            return True
        link = args[0]
        for p in pre["ents"]:
            if p != link and frames.observable(pre, p) != frames.observable(post, p):
                return False
        return True
    return [
        Stream("symlink-mirror", "mirror", hs, impl_env=env, judge=lambda l, o: not c10_pycheck(l, o), exhaustive=(tier != "quick"),
               rule="(link position, target position) pairs in trees up to depth 4, absolute and relative spelling, target absent / file / dir / link; symlink then the queries"),
        Stream("symlink-laws", "pycheck", hs, impl_env=env, pycheck=c10_pycheck, known=c10_known,
               rule="readlink_abs = abs(target); clean(dir(link)/readlink) = readlink_abs; readlink relative; is_symlink and not is_file / is_dir"),
        Stream("moved-link-mirror", "mirror", c10_moved_histories(tier, rng), impl_env=env, judge=lambda l, o: not c10_moved_law(l, o), exhaustive=(tier != "quick"),
               rule="the same pairs, the link then moved (renamed in place, moved to another directory, or carried along by a move of its parent or top directory), and the "
                    "queries asked at its new place"),
        Stream("moved-link-laws", "pycheck", c10_moved_histories(tier, rng), impl_env=env, pycheck=c10_moved_law, exhaustive=(tier != "quick"),
               rule="a moved link is still a link and nothing else, and cleaning dir(link)/readlink(link) at its new place gives readlink_abs(link)"),
        Stream("nofollow-mirror", "mirror", hs2, impl_env=env, judge=lambda l, o: not target_untouched(l, o), canon_line=failed_traversal_canon),
        Stream("nofollow-frame", "pycheck", hs2, impl_env=env, pycheck=target_untouched,
               rule="remove / chmod / chown without follow on the link leave every other entry (the target included) exactly as it was"),
    ]


PROPS["C10"] = {
    "streams": c10_streams,
    "rule": "pairs (link position, target position) in trees up to depth 4, both spellings of the target, all kinds of target; the statement's clauses evaluated on the "
            "implementation's results and pre/post snapshots; distinct = distinct histories",
    "trusted": ["tools/c_mem.py c10_pycheck (posixpath.normpath as the lexical clean of absolute paths)"],
    "assumptions": ["Stdfs side: see C02"],
}


# ---------------------------------------------------------------------------------------------
# C11 at tree level: chmod / chown change exactly the targeted entries to exactly the requested value
import walkspec
import c_core

WHO = {"u": 0o700, "g": 0o070, "o": 0o007, "a": 0o777}
PERM = {"r": 0o444, "w": 0o222, "x": 0o111}
import re as _re
_CLAUSE = _re.compile(r"^([dfa]):([ugoa]+)([-+=])([rwx]+)$")


def sym_spec(kind, mode, sym):
    """the documented grammar [dfa]:[ugoa][-+=][rwx], comma-repeatable, written from the Chmod documentation.
    -> new mode, or None when the expression is not in the documented canonical form"""
    for cl in sym.split(","):
        m = _CLAUSE.match(cl)
        if not m:
            return None
        t, who, o, perms = m.groups()
        g = 0
        for c in who:
            g |= WHO[c]
        p = 0
        for c in perms:
            p |= PERM[c]
        if t == "a" or (t == "d" and kind == "dir") or (t == "f" and kind == "file"):
            if o == "-":
                mode &= ~(g & p)
            elif o == "+":
                mode |= g & p
            else:
                mode = (mode & ~g) | (g & p)
    return mode


def _abs_of(cwd, p):
    return posixpath.normpath(p if p.startswith("/") else cwd.rstrip("/") + "/" + p)


def _kvs(s):
    return dict((x.split("=") + ["1"])[:2] for x in s.split(",") if x and x != "-")


def c11_parse(line):
    name, args, rawargs = frames.last_op(line)
    if name == "chmod":
        m = int(rawargs[1])
        return dict(kind="chmod", path=args[0], dirs=m, files=m, follow=False, rec=True, sym="")
    if name == "chmod_b":
        o = _kvs(rawargs[1])
        al = int(o["all"]) if "all" in o else None
        return dict(kind="chmod", path=args[0], dirs=int(o["dirs"]) if "dirs" in o else al, files=int(o["files"]) if "files" in o else al,
                    follow=o.get("follow", "0") != "0", rec="norecurse" not in o, sym=args[2] if len(args) > 2 else "")
    if name == "chown":
        return dict(kind="chown", path=args[0], uid=int(rawargs[1]), gid=int(rawargs[2]), follow=False, rec=True)
    if name == "chown_b":
        o = _kvs(rawargs[1])
        return dict(kind="chown", path=args[0], uid=int(o["uid"]) if "uid" in o else None, gid=int(o["gid"]) if "gid" in o else None,
                    follow=o.get("follow", "0") != "0", rec="norecurse" not in o)
    return None


def c11_verdict(line, out):
    """None when the statement's clauses hold on the implementation's pre/post snapshots, else (reason, class)"""
    c = c11_parse(line)
    res, pre, post = frames.split_out(out)
    if c is None or pre is None or post is None or not res:
        return None
    r = res[-1]
    root = _abs_of(pre["cwd"], c["path"]) if c["path"] and not c["path"].startswith(("~", "$")) else None
    same = pre["ents"] == post["ents"] and pre["data"] == post["data"] and pre["cwd"] == post["cwd"]
    if r != "ok":
        if (r.startswith("E:InvalidChmod") or root is None or root not in pre["ents"]) and not same:
            return ("a failed call changed the tree", None)
        return None
    if root is None or root not in pre["ents"]:
        return None
    spec = walkspec.selected(pre["ents"], root, {"follow": c["follow"], "min": 0, "max": None if c["rec"] else 0, "sort": False, "df": False, "ff": False,
                                                 "cf": False, "dirs": False, "files": False})
    if any(k == "err" for k, *_ in spec):
        return None
    targeted = set(v for k, v, *_ in spec)
    if set(pre["ents"]) != set(post["ents"]) or pre["data"] != post["data"] or pre["cwd"] != post["cwd"]:
        return ("names, contents or cwd changed", None)
    for p, e in pre["ents"].items():
        e2 = post["ents"][p]
        for fld in ("path", "alt", "rel", "dir", "file", "link", "files"):
            if e[fld] != e2[fld]:
                return ("%s of %s changed" % (fld, p), None)
        if c["kind"] == "chown":
            if e["mode"] != e2["mode"]:
                return ("chown changed the mode of %s" % p, None)
            want = (e["uid"], e["gid"])
            if p in targeted:
                want = (c["uid"] if c["uid"] is not None else e["uid"], c["gid"] if c["gid"] is not None else e["gid"])
            if (e2["uid"], e2["gid"]) != want:
                return ("owner of %s is %s, expected %s" % (p, (e2["uid"], e2["gid"]), want), None)
            continue
        if (e["uid"], e["gid"]) != (e2["uid"], e2["gid"]):
            return ("chmod changed the owner of %s" % p, None)
        if e2["mode"] & 0o170000 != e["mode"] & 0o170000:
            return ("file-type bits of %s changed" % p, None)
        want, cls = e["mode"], None
        if p in targeted and not e["link"]:
            k = "dir" if e["dir"] else "file"
            octal = c["dirs"] if k == "dir" else c["files"]
            if octal is not None and (octal != 0 or not c["sym"]):
                want = (e["mode"] & 0o170000) | octal
                if octal == 0:
                    cls = "KF-C11-octal-zero"
            elif c["sym"]:
                want = sym_spec(k, e["mode"], c["sym"])
                if want is None:
                    continue
        if e2["mode"] != want:
            return ("mode of %s is %o, expected %o" % (p, e2["mode"], want), cls)
    return None


def c11_tree_check(line, out):
    return c11_verdict(line, out) is None


def c11_tree_known(line, impl_out, model_out):
    v = c11_verdict(line, impl_out)
    return v[1] if v else None


C11_SETUP = [op("mkdir_p", "/a"), op("mkdir_p", "/a/b"), op("mkfile", "/a/a"), op("mkfile", "/b"), op("mkfile_m", "/a/b", 0o066), op("mkdir_m", "/b", 0o500),
             op("symlink", "/a/a", "/b"), op("symlink", "/b", "/a"), op("symlink", "/a/b", "../b"), op("symlink", "/b/a", "/nope"), op("chmod", "/a/a", 0o7),
             op("mkfile_m", "/b/a", 0o755), op("set_cwd", "/a")]
C11_SYMS = ["a:a-rwx", "f:a-rwx", "d:a-rwx", "f:a+x", "d:go-rwx", "a:u=rw", "a:go=r", "f:ug+w,d:o-x", "d:a+x,f:a-x", "f:u=rwx,f:g=rx,f:o=r", "a:a=r,a:a+w", "a:o+w,f:u-r",
            "f:a-rw", "d:u-wx,d:go=rx", "a:ugo=x"]
C11_BAD = ["", "x:a+r", "a:z+r", "a:a+", "a:a", "a", "f:a+x,q:a+r", "f:a+x,d:a+", "a:+r", "a:a?r", "f:a+q"]


def c11_tree_streams(tier, rng, ctx):
    paths = ["/", "/a", "/b", "/a/a", "/a/b", "/b/a", "b", ".", "/c"]
    finals = []
    for p in paths:
        for m in [0o777, 0o600, 0o755, 0, 0o4755, 0o1, 0o444]:
            finals.append(op("chmod", p, m))
        for o in ["", "follow=1", "norecurse", "follow=1,norecurse"]:
            for s in C11_SYMS:
                finals.append("chmod_b:%s:%s:%s" % (hx(p), o, hx(s)))
            for oc in ["all=511", "dirs=448", "files=384", "dirs=493,files=420", "all=0", "files=0", "dirs=0"]:
                finals.append("chmod_b:%s:%s:" % (hx(p), ",".join(x for x in [o, oc] if x)))
            finals.append("chmod_b:%s:%s:%s" % (hx(p), ",".join(x for x in [o, "dirs=457"] if x), hx("f:a+x")))
            for ow in ["uid=9", "gid=3", "uid=4,gid=5", ""]:
                finals.append("chown_b:%s:%s" % (hx(p), ",".join(x for x in [o, ow] if x)))
        for s in C11_BAD[1:]:
            finals.append("chmod_b:%s::%s" % (hx(p), hx(s)))
            finals.append("chmod_b:%s:follow=1:%s" % (hx(p), hx(s)))
        finals.append(op("chown", p, 5, 7))
    checks = [("exactly-targeted", c11_tree_check)]
    depth = 3 if tier == "quick" else 5
    maxstates = 150 if tier == "quick" else 3000
    hs, info = bfs_histories(ctx, tier, depth, maxstates, muts=C11_SETUP, finals=finals, mode="m2", tag="c11t")
    fset = set(finals)
    hs = [h for h in hs if h.split("\t")[-1] in fset]
    if tier == "quick" and len(hs) > 40000:
        hs = rng.sample(hs, 40000)
    env = dict(MEM_ENV)
    # is_exec / is_readonly agree with mode(), for every permission value (exhaustive over the 512 rwx combinations and the special bits)
    qs = []
    for kind_op in ("mkfile", "mkdir_p"):
        for m in list(range(0, 0o1000)) + [0o4755, 0o2755, 0o1777, 0o7777]:
            qs.append("\t".join(["hist", "m", envspec(MEM_ENV), op(kind_op, "/x"), op("chmod", "/x", m), op("mode", "/x"), op("is_exec", "/x"), op("is_readonly", "/x")]))
        for s in C11_SYMS:
            qs.append("\t".join(["hist", "m", envspec(MEM_ENV), op(kind_op, "/x"), "chmod_b:%s::%s" % (hx("/x"), hx(s)), op("mode", "/x"), op("is_exec", "/x"), op("is_readonly", "/x")]))

    def exec_agree(line, out):
        r = [x for x in out.split("\t") if not x.startswith("#")]
        if len(r) < 5 or not r[2].startswith("n"):
            return False
        m = int(r[2][1:])
        return r[3] == ("b1" if m & 0o111 else "b0") and r[4] == ("b1" if m & 0o222 == 0 else "b0")
    return [
        Stream("tree-mirror", "mirror", hs, impl_env=env, exhaustive=True, canon=hist_canon, canon_line=failed_traversal_canon,
               judge=lambda l, o: ("PANIC" in o or "POISONED" in o or "CRASH" in o or not c11_tree_check(l, o)),
               nontrivial=lambda l, o: "\tok\t#" in o,
               rule="model-guided BFS over setup calls (%s, depth %d: dirs, files with modes 066 / 007 / 755, a 0500 directory, links to files, dirs, dangling), then every chmod / chmod_b / chown / chown_b "
                    "call of the alphabet (octal incl. 0 and special bits, 15 symbolic expressions incl. results of 000, 10 malformed ones, follow x recursion, dirs / files selectors) in every "
                    "reached state; results and full pre/post state vs the mirror" % (info, depth)),
        Stream("tree-exactly-targeted", "pycheck", hs, impl_env=env, pycheck=c11_tree_check, known=c11_tree_known,
               rule="on the implementation's pre/post snapshots: the targeted set (independent traversal spec, follow / recursion) gets exactly the value of the documented grammar "
                    "(independent Python statement), type bits kept, links and untargeted entries untouched, nothing but modes (chmod) / owners (chown) changes, malformed expression => error and no change"),
        Stream("exec-readonly-agree", "pycheck", qs, impl_env=env, pycheck=exec_agree, exhaustive=True,
               rule="is_exec = mode() & 0o111 != 0 and is_readonly = mode() & 0o222 == 0 after chmod to each of the 512 rwx values and special bits, for a file and a directory"),
        Stream("repeat-after-change", "mirror", [h for h in repeat_histories() if "chown" in h.split("\t")[6] or "chmod" in h.split("\t")[6]], impl_env=env, exhaustive=True,
               canon=hist_canon, canon_line=failed_traversal_canon, judge=lambda l, o: True,
               rule="chown / chmod, a change inside the tree, the same call again: every owner / mode read back and the complete state vs the mirror"),
    ]


def c07_state_streams(tier, rng, ctx):
    return [
        Stream("handles-under-change", "mirror", append_handle_histories(), impl_env=dict(MEM_ENV), judge=lambda l, o: True, exhaustive=True,
               rule="an append / write handle that has flushed once, the file changing underneath it (write_all, append_all, another handle, re-creation), and the handle "
                    "writing, flushing and dropping again: what each flush makes visible and what the drop persists"),
        Stream("stale-handles", "mirror", stale_handle_histories(tier), impl_env=dict(MEM_ENV), judge=lambda l, o: True, exhaustive=True,
               rule="a write / append handle that outlives its file (removed, moved away, re-created as a directory, link or new file), then written, flushed or dropped"),
    ]


_c07_core = c_core.PROPS["C07"]["streams"]
PROPS["C07"] = dict(c_core.PROPS["C07"])
PROPS["C07"]["streams"] = lambda tier, rng, ctx: _c07_core(tier, rng, ctx) + c07_state_streams(tier, rng, ctx)

_c11_expr = c_core.PROPS["C11"]["streams"]
PROPS["C11"] = dict(c_core.PROPS["C11"])
PROPS["C11"]["streams"] = lambda tier, rng, ctx: _c11_expr(tier, rng, ctx) + c11_tree_streams(tier, rng, ctx)
PROPS["C11"]["rule"] = c_core.PROPS["C11"]["rule"] + "; tree level: every reachable tree of a bounded namespace x every chmod / chown call of the alphabet, judged on pre/post snapshots"

# c_mem.py — streams for the Memfs state-machine properties (C01, C03, C06, C09, C10, C12, C20, C13).
import os, subprocess, itertools
from props import Stream
from gen import random_string
from rvlib import hx, CheckError

PROPS = {}

MEM_ENV = {"HOME": "/home/u", "V": "v", "W": None}


def envspec(env):
    return ";".join("%s=%s" % (k, hx(v)) for k, v in sorted(env.items()) if v is not None) or "-"


def op(name, *args):
    out = [name]
    for a in args:
        if isinstance(a, int):
            out.append(str(a))
        elif isinstance(a, (list, tuple)):
            out.append(",".join(hx(x) for x in a))
        else:
            out.append(hx(a))
    return ":".join(out)


QUERIES = ["exists", "is_dir", "is_file", "is_symlink", "is_symlink_dir", "is_symlink_file", "is_exec", "is_readonly",
           "mode", "owner", "read_all", "read_lines", "readlink", "readlink_abs", "abs"]


def alphabet(tier):
    """the bounded universe: names {a, b} (+ a multi-byte one), depth <= 2"""
    P = ["/a", "/b", "/a/b", "/a/a"] + (["/é"] if tier != "quick" else [])
    muts = []
    for p in P:
        muts += [op("mkfile", p), op("mkdir_p", p), op("remove", p), op("remove_all", p)]
    muts += [op("mkdir_m", "/a", 0o700), op("mkdir_m", "/b/a", 0o555)]
    muts += [op("write_all", "/a", b"x"), op("write_all", "/a/b", "é\n".encode()), op("write_all", "/b", b""),
             op("append_all", "/a", b"yz"), op("append_all", "/a/b", b"\xff"), op("write_lines", "/b", ["l1", "l2"]),
             op("append_line", "/b", "t"), op("append_lines", "/a", ["u", ""])]
    muts += [op("symlink", "/b", "/a"), op("symlink", "/a/b", "../b"), op("symlink", "/a/a", "/a"), op("symlink", "/b", "/nope"),
             op("symlink", "/a", "b")]
    muts += [op("move_p", "/a", "/b"), op("move_p", "/b", "/a"), op("move_p", "/a", "/a/b"), op("move_p", "/a/b", "/b"),
             op("move_p", "/a", "/c/d"), op("move_p", "/b", "/a/a"), op("move_p", "/a", "/a")]
    muts += [op("set_cwd", "/a"), op("set_cwd", "/"), op("set_cwd", "/a/b"), op("remove_all", "/"), op("mkfile", "b"), op("mkdir_p", "../b/./a"),
             op("remove", ".."), op("mkfile", "/"), op("write_all", "/", b"r"), op("mkdir_p", ""), op("mkfile", "~/x"), op("mkdir_p", "$V")]
    qs = []
    for q in QUERIES:
        for p in ["/a", "/b", "/a/b", "/", "b", "a/../b"]:
            qs.append(op(q, p))
    qs += [op("cwd"), op("root")]
    return muts, qs


def walk_alphabet(tier):
    """additional calls: listings, traversals with option combinations, copy / chmod / chown"""
    muts, qs = [], []
    for k in ["paths", "dirs", "files", "all_paths", "all_dirs", "all_files"]:
        for p in ["/", "/a", "/b"]:
            qs.append(op(k, p))
    for o in ["sort", "sort,follow=1", "sort,cf", "sort,df,min=1", "sort,ff,max=1", "sort,dirs", "sort,files,cf", "sort,follow=1,cf,dirs", "sort,maxdesc=0,follow=1"]:
        for p in ["/", "/a"]:
            qs.append("entries:%s:%s" % (hx(p), o))
    muts += [op("copy", "/a", "/b"), op("copy", "/b", "/a"), op("copy", "/a", "/a/b"), op("copy", "/a/b", "/c/d"), op("copy", "/a", "/"),
             "copy_b:%s:%s:follow=1" % (hx("/a"), hx("/b")), "copy_b:%s:%s:all=448" % (hx("/a"), hx("/c")),
             "copy_b:%s:%s:cdirs=448,follow=1" % (hx("/b"), hx("/c")), "copy_b:%s:%s:cfiles=256" % (hx("/a"), hx("/b/a"))]
    muts += [op("chmod", "/a", 0o700), op("chmod", "/", 0o555), op("chmod", "/b", 0),
             "chmod_b:%s:follow=1,all=384:" % hx("/b"), "chmod_b:%s:norecurse,dirs=448:" % hx("/a"),
             "chmod_b:%s::%s" % (hx("/"), hx("f:a+x,d:go-rwx")), "chmod_b:%s::%s" % (hx("/a"), hx("a:a=")), "chmod_b:%s:follow=1:%s" % (hx("/"), hx("a:u=rw"))]
    muts += [op("chown", "/a", 5, 7), "chown_b:%s:uid=9,follow=1" % hx("/b"), "chown_b:%s:gid=3,norecurse" % hx("/"), op("mkfile_m", "/a/a", 0o600), op("mkfile_m", "/b", 0o755)]
    return muts, qs


def bfs_histories(ctx, tier, depth, maxstates):
    muts, qs = alphabet(tier)
    m2, q2 = walk_alphabet(tier)
    muts, qs = muts + m2, qs + q2
    work = ctx["work"]
    af = os.path.join(work, "alphabet.txt")
    with open(af, "w") as f:
        f.write("\n".join(muts + qs) + "\n")
    out = os.path.join(work, "bfs.hist")
    p = subprocess.run([ctx["rvm"], "--bfs", af, str(depth), str(maxstates), out, envspec(MEM_ENV)],
                       stdout=subprocess.PIPE, stderr=subprocess.PIPE, text=True, timeout=1200)
    if p.returncode != 0:
        raise CheckError("model BFS failed: " + p.stderr[-2000:])
    lines = open(out).read().split("\n")
    if lines and lines[-1] == "":
        lines.pop()
    return lines, p.stderr.strip()


def random_histories(rng, n, length, tier):
    names = ["a", "b", "c", "é", "d.e"]

    def rpath():
        k = rng.random()
        if k < 0.08:
            return rng.choice(["", "/", ".", "..", "~", "$V", "//a//b/", "a/../../b", "file:///a", "/a/./b/../c"])
        d = rng.randint(1, 3)
        p = "/".join(rng.choice(names) for _ in range(d))
        return ("/" if rng.random() < 0.8 else "") + p
    hs = []
    for _ in range(n):
        ops = []
        for _ in range(rng.randint(1, length)):
            k = rng.random()
            if k < 0.14:
                ops.append(op("mkdir_p", rpath()))
            elif k < 0.26:
                ops.append(op("mkfile", rpath()))
            elif k < 0.36:
                ops.append(op("write_all", rpath(), rng.choice([b"", b"x", "é\nb\r\n".encode(), b"\xff\xfe", b"line1\nline2"])))
            elif k < 0.42:
                ops.append(op("append_all", rpath(), rng.choice([b"", b"y", b"\n"])))
            elif k < 0.50:
                ops.append(op("symlink", rpath(), rng.choice([rpath(), "../" + rng.choice(names), rng.choice(names)])))
            elif k < 0.60:
                ops.append(op("move_p", rpath(), rpath()))
            elif k < 0.68:
                ops.append(op("remove", rpath()))
            elif k < 0.74:
                ops.append(op("remove_all", rpath()))
            elif k < 0.80:
                ops.append(op("set_cwd", rpath()))
            elif k < 0.84:
                ops.append(op(rng.choice(["write_lines", "append_lines"]), rpath(), rng.choice([[], ["a"], ["a", "", "b"], ["é"]])))
            else:
                ops.append(op(rng.choice(QUERIES), rpath()))
        hs.append("\t".join(["hist", "m", envspec(MEM_ENV)] + ops))
    return hs


def hist_canon(out):
    """traversal results: a followed link sorts under its target's name, which may tie with a sibling;
    ties are broken by HashSet order, so an item list with duplicate names is compared as a multiset"""
    if "\tI" not in out and not out.startswith("I"):
        return out
    fs = out.split("\t")
    for i, f in enumerate(fs):
        if f.startswith("I") and not f.startswith("Io"):
            items = f[1:].split(",")
            names = [x.rsplit("2f", 1)[-1] for x in items]
            if len(set(names)) != len(names):
                fs[i] = "I*" + ",".join(sorted(items))
    return "\t".join(fs)


def mem_streams(tier, rng, ctx, focus=None):
    depth = 2 if tier == "quick" else 3
    maxstates = 400 if tier == "quick" else 6000
    hs, info = bfs_histories(ctx, tier, depth, maxstates)
    rh = random_histories(rng, 3000 if tier == "quick" else 30000, 12, tier)
    env = dict(MEM_ENV)
    sts = [
        Stream("mem-bfs", "mirror", hs, impl_env=env, exhaustive=True, judge=None, canon=hist_canon,
               nontrivial=lambda l, o: "\tE:" not in o,
               rule="model-guided BFS (%s, depth %d): every reachable state of the bounded namespace x every call of the alphabet; "
                    "per-call results and the complete final state (all three indexes, cwd, root) compared" % (info, depth)),
        Stream("mem-random", "mirror", rh, impl_env=env, canon=hist_canon,
               nontrivial=lambda l, o: "\tE:" not in o,
               rule="random histories (<= 12 calls) over 5 names incl. multi-byte, unclean / relative / special spellings"),
    ]
    return sts


def wf_judge_query(line, impl_out):
    # the extracted WF checker on the implementation's own final state
    if "POISONED" in impl_out or "PANIC" in impl_out or "\t#" not in impl_out:
        return None
    return "wfcheck\t" + impl_out.split("\t#", 1)[1]


def c03_streams(tier, rng, ctx):
    sts = mem_streams(tier, rng, ctx)
    for st in sts:
        st.judge_query = wf_judge_query
        st.judge = lambda l, o: ("PANIC" in o or "POISONED" in o or "CRASH" in o)
    return sts


PROPS["C03"] = {
    "streams": c03_streams,
    "rule": "model-guided breadth-first enumeration of every reachable state of a bounded namespace x every call of the alphabet (valid, invalid, relative, "
            "unclean, special spellings) plus random longer histories; after every history the complete state (entries index, data index, per-directory "
            "name sets, cwd, root) of the real Memfs is compared with the mirror's and the extracted WF checker is evaluated on it; "
            "non-trivial = the history contains no failing call; distinct = distinct histories",
    "trusted": ["hook sys::verif::memfs_snapshot (read-only state dump under one read guard)", "std HashMap/HashSet as finite maps/sets"],
    "assumptions": ["HashMap / HashSet behave as finite maps / sets", "single-threaded histories (schedules: see C04)"],
}

# gen.py — input generators shared by the streams.
import itertools
from rvlib import hx


def all_strings(alphabet, maxlen, minlen=0):
    for n in range(minlen, maxlen + 1):
        for t in itertools.product(alphabet, repeat=n):
            yield "".join(t)


WIDE = ["/", ".", "a", "b", "~", "$", ":", "\\", " ", "-", "_", "é", "ß", "語", "€", "😀", "𝔘", "{", "}", "A", "Z"]


def random_string(rng, maxlen, alphabet=WIDE, p_sep=0.3):
    n = rng.randint(0, maxlen)
    out = []
    for _ in range(n):
        if rng.random() < p_sep:
            out.append(rng.choice(["/", ".", "..", "//", "/./", "/../"]))
        else:
            out.append(rng.choice(alphabet))
    return "".join(out)


def line(fn, *args):
    return "\t".join([fn] + [hx(a) for a in args])

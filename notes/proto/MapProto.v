From stdpp Require Import gmap list strings.
From Coq Require Import NArith.
Definition name := list N.
Definition path := list name.
Record entry := { e_dir : bool; e_files : gset name; e_mode : N }.
Record fs := { cwd : path; ents : gmap path entry; dat : gmap path (list N) }.
Definition init : fs := {| cwd := []; ents := {[ [] := {| e_dir := true; e_files := ∅; e_mode := 16877%N |} ]}; dat := ∅ |}.
Definition parent (p : path) : path := removelast p.
Definition base (p : path) : name := List.last p [].
Definition add_dir (s : fs) (p : path) : option fs :=
  match ents s !! parent p with
  | Some pe => if e_dir pe then
      match ents s !! p with
      | Some _ => Some s
      | None => Some {| cwd := cwd s;
                        ents := <[ parent p := {| e_dir := true; e_files := {[ base p ]} ∪ e_files pe; e_mode := e_mode pe |} ]>
                                (<[ p := {| e_dir := true; e_files := ∅; e_mode := 16877%N |} ]> (ents s));
                        dat := dat s |}
      end else None
  | None => None
  end.
Definition mk (s : fs) (ps : list path) : fs := fold_left (fun s p => default s (add_dir s p)) ps s.
Definition n (x : N) : name := [x; x; x].
Definition big : list path := 
  flat_map (fun a => [n a] :: flat_map (fun b => [[n a; n b]]) [1;2;3;4;5;6;7;8]%N) [10;11;12;13;14;15;16;17;18;19]%N.
Definition result := mk init big.
Time Eval vm_compute in (size (ents result), elements (e_files (default {| e_dir := false; e_files := ∅; e_mode := 0%N |} (ents result !! [n 12%N])))).
Lemma add_dir_parent s p s' : add_dir s p = Some s' -> is_Some (ents s' !! parent p).
Proof.
  unfold add_dir. destruct (ents s !! parent p) as [pe|] eqn:E; [|done].
  destruct (e_dir pe); [|done]. destruct (ents s !! p) eqn:E2; intros [= <-]; [by rewrite E|].
  simpl. rewrite lookup_insert. eauto.
Qed.
Require Import Coq.extraction.Extraction Coq.extraction.ExtrOcamlBasic.
Extraction Language OCaml.
Definition keys (s : fs) : list path := map fst (map_to_list (ents s)).
Extraction "mapproto.ml" init add_dir mk keys result.

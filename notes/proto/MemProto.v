From stdpp Require Import gmap.
From Coq Require Import NArith.

Definition name := list N.
(* reversed paths: head = base name, tail = parent, [] = root *)
Notation rpath := (list name).

Record entry := Entry {
  e_path : rpath; e_dir : bool; e_file : bool; e_link : bool; e_alt : rpath;
  e_mode : N; e_files : option (gset name) }.

Record mfs := Mfs { m_cwd : rpath; m_ents : gmap rpath entry; m_dat : gmap rpath (list N) }.

Inductive err := DoesNotExist (p : rpath) | IsNotDir (p : rpath) | IsNotFile (p : rpath)
               | IsNotSymlink (p : rpath) | ExistsAlready (p : rpath).
Inductive res (A : Type) := Ok (a : A) | Err (e : err).
Arguments Ok {A}. Arguments Err {A}.

Definition files_of (e : entry) : gset name := default ∅ (e_files e).
Definition with_child (pe : entry) (n : name) : entry :=
  Entry (e_path pe) (e_dir pe) (e_file pe) (e_link pe) (e_alt pe) (e_mode pe) (Some ({[n]} ∪ files_of pe)).

(* mirror of Memfs::_add (with the F14 repair: the parent must be a real directory) *)
Definition add (m : mfs) (e : entry) : mfs * res rpath :=
  let p := e_path e in
  match p with
  | [] => (m, Ok p)
  | n :: dir =>
    match m_ents m !! dir with
    | None => (m, Err (DoesNotExist dir))
    | Some pe =>
      if negb (e_dir pe) || e_link pe then (m, Err (IsNotDir dir)) else
      match m_ents m !! p with
      | Some x =>
          if e_file e && negb (e_file x) then (m, Err (IsNotFile p))
          else if e_link e && negb (e_link x) then (m, Err (IsNotSymlink p))
          else if e_dir e && negb (e_dir x) then (m, Err (IsNotDir p))
          else (m, Ok p)
      | None =>
          let dat' := if negb (e_link e) && e_file e then <[p := []]> (m_dat m) else m_dat m in
          let m' := Mfs (m_cwd m) (<[dir := with_child pe n]> (<[p := e]> (m_ents m))) dat' in
          if bool_decide (n ∈ files_of pe) then (m', Err (ExistsAlready p)) else (m', Ok p)
      end
    end
  end.

(* --- well-formedness (C03) --- *)
Definition real_dir (e : entry) := e_dir e = true ∧ e_link e = false.
Record WF (m : mfs) : Prop := {
  wf_root : ∃ r, m_ents m !! [] = Some r ∧ real_dir r;
  wf_key  : ∀ p e, m_ents m !! p = Some e → e_path e = p;
  wf_par  : ∀ n d e, m_ents m !! (n :: d) = Some e →
              ∃ pe, m_ents m !! d = Some pe ∧ real_dir pe ∧ n ∈ files_of pe;
  wf_chl  : ∀ p e n, m_ents m !! p = Some e → n ∈ files_of e → is_Some (m_ents m !! (n :: p));
  wf_dat  : ∀ p, is_Some (m_dat m !! p) ↔ ∃ e, m_ents m !! p = Some e ∧ e_file e = true ∧ e_link e = false;
  wf_fls  : ∀ p e, m_ents m !! p = Some e → (e_files e = None ↔ e_dir e = false);
  wf_lnk  : ∀ p e, m_ents m !! p = Some e → e_link e = true → files_of e = ∅;
}.

(* a freshly built entry as MemfsEntryOpts::build produces it *)
Definition fresh (e : entry) := e_files e = (if e_dir e then Some ∅ else None).

Lemma files_of_fresh e : fresh e → files_of e = ∅.
Proof. unfold fresh, files_of. intros ->. by destruct (e_dir e). Qed.

Lemma add_wf m e : WF m → fresh e → WF (add m e).1.
Proof.
  intros HW Hf. unfold add.
  destruct (e_path e) as [|n dir] eqn:Hp; [exact HW|].
  destruct (m_ents m !! dir) as [pe|] eqn:Hd; [|exact HW].
  destruct (negb (e_dir pe) || e_link pe) eqn:Hpd; [exact HW|].
  apply orb_false_iff in Hpd as [Hpd1 Hpd2]. apply negb_false_iff in Hpd1.
  destruct (m_ents m !! (n :: dir)) as [x|] eqn:Hx.
  { repeat case_match; exact HW. }
  assert (Hnin : n ∉ files_of pe).
  { intros Hin. destruct (wf_chl m HW dir pe n Hd Hin) as [? ?]. congruence. }
  rewrite bool_decide_eq_false_2 by done. cbn [fst].
  assert (Hne : dir ≠ n :: dir) by (intros H; apply (f_equal length) in H; simpl in H; lia).
  constructor; cbn [m_ents m_dat m_cwd].
  - (* root *)
    destruct (wf_root m HW) as (r & Hr & Hrd).
    destruct (decide (dir = [])) as [->|Hdn].
    + rewrite lookup_insert. eexists; split; [done|]. rewrite Hr in Hd. by simplify_eq.
    + rewrite lookup_insert_ne by done. rewrite lookup_insert_ne by done. eauto.
  - (* keys *)
    intros p e' Hl. destruct (decide (p = dir)) as [->|Hn1].
    + rewrite lookup_insert in Hl. simplify_eq. simpl. by eapply wf_key.
    + rewrite lookup_insert_ne in Hl by done. destruct (decide (p = n :: dir)) as [->|Hn2].
      * rewrite lookup_insert in Hl. by simplify_eq.
      * rewrite lookup_insert_ne in Hl by done. by eapply wf_key.
  - (* parents *)
    intros n' d e' Hl.
    assert (Hparent_dir : ∀ pe', m_ents m !! d = Some pe' → real_dir pe' → n' ∈ files_of pe' →
      ∃ pe'', <[dir:=with_child pe n]> (<[n :: dir:=e]> (m_ents m)) !! d = Some pe'' ∧ real_dir pe'' ∧ n' ∈ files_of pe'').
    { intros pe' Hpe' Hrd Hin. destruct (decide (d = dir)) as [->|Hdd].
      - rewrite lookup_insert. eexists; split; [done|]. simplify_eq. split; [done|]. unfold files_of at 1; simpl. set_solver.
      - rewrite lookup_insert_ne by done. destruct (decide (d = n :: dir)) as [->|Hdd2].
        + congruence.
        + rewrite lookup_insert_ne by done. eauto. }
    destruct (decide (n' :: d = dir)) as [<-|Hn1].
    + rewrite lookup_insert in Hl. simplify_eq.
      destruct (wf_par m HW _ _ _ Hd) as (pe' & H1 & H2 & H3). eauto.
    + rewrite lookup_insert_ne in Hl by done. destruct (decide (n' :: d = n :: dir)) as [Heq|Hn2].
      * simplify_eq. rewrite lookup_insert. eexists; split; [done|]. split; [done|]. unfold files_of at 1; simpl. set_solver.
      * rewrite lookup_insert_ne in Hl by done. destruct (wf_par m HW _ _ _ Hl) as (pe' & H1 & H2 & H3). eauto.
  - (* children *)
    intros p e' n' Hl Hin.
    assert (Hkeep : ∀ q, is_Some (m_ents m !! q) → is_Some (<[dir:=with_child pe n]> (<[n :: dir:=e]> (m_ents m)) !! q)).
    { intros q Hq. destruct (decide (q = dir)) as [->|?]; [rewrite lookup_insert; eauto|].
      rewrite lookup_insert_ne by done. destruct (decide (q = n :: dir)) as [->|?]; [rewrite lookup_insert; eauto|].
      by rewrite lookup_insert_ne. }
    destruct (decide (p = dir)) as [->|Hn1].
    + rewrite lookup_insert in Hl. simplify_eq. unfold files_of in Hin; simpl in Hin.
      apply elem_of_union in Hin as [Hin|Hin].
      * apply elem_of_singleton in Hin as ->. rewrite lookup_insert_ne by done. rewrite lookup_insert. eauto.
      * apply Hkeep. by eapply wf_chl.
    + rewrite lookup_insert_ne in Hl by done. destruct (decide (p = n :: dir)) as [->|Hn2].
      * rewrite lookup_insert in Hl. simplify_eq. rewrite files_of_fresh in Hin by done. set_solver.
      * rewrite lookup_insert_ne in Hl by done. apply Hkeep. by eapply wf_chl.
  - (* data *)
    intros p. 
    assert (Hdir_nofile : e_file pe = true → e_link pe = false → is_Some (m_dat m !! dir)) by (intros; apply (wf_dat m HW); eauto).
    destruct (decide (p = dir)) as [->|Hn1].
    + rewrite lookup_insert. 
      assert (Hd' : (if negb (e_link e) && e_file e then <[n :: dir:=[]]> (m_dat m) else m_dat m) !! dir = m_dat m !! dir).
      { case_match; [by rewrite lookup_insert_ne|done]. }
      rewrite Hd'. rewrite (wf_dat m HW dir). split.
      * intros (e0 & H0 & H1 & H2). simplify_eq. eexists; split; [done|]. done.
      * intros (e0 & H0 & H1 & H2). simplify_eq. eauto.
    + rewrite lookup_insert_ne by done. destruct (decide (p = n :: dir)) as [->|Hn2].
      * rewrite lookup_insert. destruct (e_link e) eqn:El, (e_file e) eqn:Ef; simpl.
        -- rewrite (wf_dat m HW). split; [intros (e0 & H0 & _); congruence | intros (e0 & H0 & H1 & H2); simplify_eq; congruence].
        -- rewrite (wf_dat m HW). split; [intros (e0 & H0 & _); congruence | intros (e0 & H0 & H1 & H2); simplify_eq; congruence].
        -- rewrite lookup_insert. split; eauto.
        -- rewrite (wf_dat m HW). split; [intros (e0 & H0 & _); congruence | intros (e0 & H0 & H1 & H2); simplify_eq; congruence].
      * rewrite lookup_insert_ne by done.
        assert (Hd' : (if negb (e_link e) && e_file e then <[n :: dir:=[]]> (m_dat m) else m_dat m) !! p = m_dat m !! p).
        { case_match; [by rewrite lookup_insert_ne|done]. }
        rewrite Hd'. apply (wf_dat m HW).
  - (* files field *)
    intros p e' Hl. destruct (decide (p = dir)) as [->|Hn1].
    + rewrite lookup_insert in Hl. simplify_eq. simpl. split; [done|congruence].
    + rewrite lookup_insert_ne in Hl by done. destruct (decide (p = n :: dir)) as [->|Hn2].
      * rewrite lookup_insert in Hl. simplify_eq. rewrite Hf. by destruct (e_dir e').
      * rewrite lookup_insert_ne in Hl by done. by eapply wf_fls.
  - (* links have no children *)
    intros p e' Hl Hlk. destruct (decide (p = dir)) as [->|Hn1].
    + rewrite lookup_insert in Hl. simplify_eq. simpl in Hlk. congruence.
    + rewrite lookup_insert_ne in Hl by done. destruct (decide (p = n :: dir)) as [->|Hn2].
      * rewrite lookup_insert in Hl. simplify_eq. by apply files_of_fresh.
      * rewrite lookup_insert_ne in Hl by done. by eapply wf_lnk.
Qed.
Print Assumptions add_wf.

open Cleanrun
let rec pos_of_int n = if n = 1 then XH else if n land 1 = 0 then XO (pos_of_int (n lsr 1)) else XI (pos_of_int (n lsr 1))
let n_of_int n = if n = 0 then N0 else Npos (pos_of_int n)
let rec int_of_pos = function XH -> 1 | XO p -> 2 * int_of_pos p | XI p -> 2 * int_of_pos p + 1
let int_of_n = function N0 -> 0 | Npos p -> int_of_pos p
let str_of_string s = List.init (String.length s) (fun i -> n_of_int (Char.code s.[i]))
let string_of_str l = String.concat "" (List.map (fun c -> String.make 1 (Char.chr (int_of_n c))) l)
let comp_s = function CRoot -> "R" | CCur -> "C" | CParent -> "P" | CNormal s -> "N(" ^ string_of_str s ^ ")"
let () =
  try while true do
    let line = input_line stdin in
    let s = str_of_string line in
    let cs = String.concat "," (List.map comp_s (components s)) in
    let c = match clean s with Done r -> string_of_str r | Panic -> "PANIC" in
    print_string line; print_char '\t'; print_string cs; print_char '\t'; print_string c; print_char '\n'
  done with End_of_file -> ()

From Coq Require Import List NArith Bool.
Import ListNotations.
Require Import PathLex.
Close Scope N_scope. Open Scope nat_scope.
Definition opt_is_parent (o : option comp) := match o with Some CParent => true | _ => false end.
Definition cpush (buf : list comp) (c : comp) : list comp := match c with CRoot => [CRoot] | _ => buf ++ [c] end.
Definition lastc (buf : list comp) : option comp := match rev buf with [] => None | c :: _ => Some c end.
Inductive outcome (A : Type) := Done (a : A) | Panic.
Arguments Done {A}. Arguments Panic {A}.
Fixpoint clean_loop (cs : list comp) (cnt : nat) (prev : option comp) (buf : list comp) : outcome (list comp) :=
  match cs with
  | [] => Done buf
  | c :: t =>
    match c with
    | CCur => if Nat.eqb cnt 0 then clean_loop t cnt prev buf
              else clean_loop t (S cnt) (Some c) (cpush buf c)
    | CParent =>
        if negb (Nat.eqb cnt 0) && negb (opt_is_parent prev) then
          match prev with
          | None => Panic
          | Some CRoot => clean_loop t cnt prev buf
          | Some (CNormal _) => clean_loop t (cnt - 1) (lastc (removelast buf)) (removelast buf)
          | Some _ => clean_loop t cnt prev buf
          end
        else clean_loop t (S cnt) (Some c) (cpush buf c)
    | _ => clean_loop t (S cnt) (Some c) (cpush buf c)
    end
  end.
Definition clean (s : str) : outcome str :=
  match clean_loop (components s) 0 None [] with
  | Done [] => Done [dot]
  | Done l => Done (render l)
  | Panic => Panic
  end.
Require Import Coq.extraction.Extraction Coq.extraction.ExtrOcamlBasic.
Extraction "cleanrun.ml" clean components render.

From Coq Require Import List NArith Bool Lia Arith PeanoNat.
Import ListNotations.
Require Import PathLex.
Close Scope N_scope.
Open Scope nat_scope.

(* comp equality *)
Definition is_parent (c : comp) := match c with CParent => true | _ => false end.
Definition opt_is_parent (o : option comp) := match o with Some CParent => true | _ => false end.

(* PathBuf as component vector: push CRoot resets (absolute push replaces) *)
Definition cpush (buf : list comp) (c : comp) : list comp :=
  match c with CRoot => [CRoot] | _ => buf ++ [c] end.
Definition lastc (buf : list comp) : option comp :=
  match rev buf with [] => None | c :: _ => Some c end.

Inductive outcome (A : Type) := Done (a : A) | Panic.
Arguments Done {A}. Arguments Panic {A}.

(* mirrors the Rust loop: state (cnt, prev, buf) *)
Fixpoint clean_loop (cs : list comp) (cnt : nat) (prev : option comp) (buf : list comp) : outcome (list comp) :=
  match cs with
  | [] => Done buf
  | c :: t =>
    match c with
    | CCur => if Nat.eqb cnt 0 then clean_loop t cnt prev buf
              else clean_loop t (S cnt) (Some c) (cpush buf c)
    | CParent =>
        if negb (Nat.eqb cnt 0) && negb (opt_is_parent prev) then
          match prev with
          | None => Panic                        (* prev.unwrap() *)
          | Some CRoot => clean_loop t cnt prev buf
          | Some (CNormal _) => clean_loop t (cnt - 1) (lastc (removelast buf)) (removelast buf)
          | Some _ => clean_loop t cnt prev buf
          end
        else clean_loop t (S cnt) (Some c) (cpush buf c)
    | _ => clean_loop t (S cnt) (Some c) (cpush buf c)
    end
  end.

Definition clean_c (cs : list comp) : outcome (list comp) :=
  match clean_loop cs 0 None [] with
  | Done [] => Done [CCur]
  | r => r
  end.

(* ---- denotational spec: where does the path lead, lexically ---- *)
Record den := { d_root : bool; d_ups : nat; d_names : list str }.   (* names innermost-last *)
Fixpoint den_go (cs : list comp) (r : bool) (ups : nat) (rnames : list str) : den :=
  match cs with
  | [] => {| d_root := r; d_ups := ups; d_names := rev rnames |}
  | CRoot :: t => den_go t true 0 []
  | CCur :: t => den_go t r ups rnames
  | CParent :: t => match rnames with
                    | _ :: rn => den_go t r ups rn
                    | [] => if r then den_go t r ups [] else den_go t r (S ups) []
                    end
  | CNormal n :: t => den_go t r ups (n :: rnames)
  end.
Definition denote cs := den_go cs false 0 [].
Definition canon (d : den) : list comp :=
  match (if d_root d then [CRoot] else []) ++ repeat CParent (d_ups d) ++ map CNormal (d_names d) with
  | [] => [CCur] | l => l end.

(* well-formed component sequences as produced by `components`: CRoot only first, CCur only first *)
Definition tail_ok (cs : list comp) := Forall (fun c => match c with CRoot | CCur => False | _ => True end) cs.

Definition body (r : bool) (ups : nat) (rn : list str) : list comp :=
  (if r then [CRoot] else []) ++ repeat CParent ups ++ map CNormal (rev rn).

Lemma lastc_app b c : lastc (b ++ [c]) = Some c.
Proof. unfold lastc. rewrite rev_app_distr. reflexivity. Qed.

Lemma removelast_snoc {A} (l : list A) x : removelast (l ++ [x]) = l.
Proof. apply removelast_last. Qed.

Lemma repeat_snoc {A} (x : A) n : repeat x n ++ [x] = x :: repeat x n.
Proof. induction n; simpl; [reflexivity| rewrite IHn; reflexivity]. Qed.

(* loop invariant: buf = body r ups rn, cnt = length buf, prev = lastc buf,
   and (r -> ups = 0), (ups>0 -> rn ... ) *)
Lemma loop_spec t : tail_ok t -> forall r ups rn,
  (r = true -> ups = 0) ->
  clean_loop t (length (body r ups rn)) (lastc (body r ups rn)) (body r ups rn)
  = Done (let d := den_go t r ups rn in body (d_root d) (d_ups d) (rev (d_names d))).
Proof.
  induction 1 as [|c t Hc Ht IH]; intros r ups rn Hr; cbn [clean_loop den_go].
  - simpl. rewrite rev_involutive. reflexivity.
  - destruct c as [| | |n]; try contradiction.
    + (* CParent *)
      destruct rn as [|n rn].
      * (* no names on the stack *)
        destruct r.
        -- (* rooted: body = [CRoot] (ups = 0) *)
           rewrite (Hr eq_refl). cbn. specialize (IH true 0 [] (fun _ => eq_refl)). cbn in IH. exact IH.
        -- destruct ups as [|ups].
           ++ cbn. specialize (IH false 1 [] (fun H => ltac:(discriminate))). cbn in IH. exact IH.
           ++ (* prev = CParent -> push *)
              assert (Hsn : forall k, body false (S k) [] = body false k [] ++ [CParent]).
              { intros k. unfold body. cbn [app rev map]. rewrite !app_nil_r. cbn [repeat]. symmetry. apply repeat_snoc. }
              rewrite (Hsn ups), lastc_app. cbn [opt_is_parent negb andb].
              rewrite app_length. cbn [length].
              replace (Nat.eqb (length (body false ups []) + 1) 0) with false by (symmetry; apply Nat.eqb_neq; lia).
              cbn [negb andb].
              specialize (IH false (S (S ups)) [] (fun H => ltac:(discriminate))).
              rewrite (Hsn (S ups)), (Hsn ups) in IH. rewrite lastc_app, !app_length in IH. cbn [length] in IH.
              unfold cpush. 
              replace (S (length (body false ups []) + 1)) with (length (body false ups []) + 1 + 1) by lia.
              rewrite lastc_app. exact IH.
      * (* a name on top: pop it *)
        assert (Hb : body r ups (n :: rn) = body r ups rn ++ [CNormal n]).
        { unfold body. cbn [rev]. rewrite map_app. cbn. rewrite !app_assoc. reflexivity. }
        rewrite Hb, lastc_app, removelast_snoc. cbn [opt_is_parent negb andb].
        replace (Nat.eqb (length (body r ups rn ++ [CNormal n])) 0) with false
          by (rewrite app_length; cbn; symmetry; apply Nat.eqb_neq; lia).
        cbn [negb andb]. rewrite app_length. cbn [length].
        replace (length (body r ups rn) + 1 - 1) with (length (body r ups rn)) by lia.
        apply IH; assumption.
    + (* CNormal *)
      assert (Hb : cpush (body r ups rn) (CNormal n) = body r ups (n :: rn)).
      { unfold body, cpush. cbn [rev]. rewrite map_app. cbn. rewrite !app_assoc. reflexivity. }
      rewrite Hb. specialize (IH r ups (n :: rn) Hr).
      rewrite <- IH. f_equal.
      * rewrite <- Hb. unfold cpush. rewrite app_length. cbn. lia.
      * rewrite <- Hb. unfold cpush. rewrite lastc_app. reflexivity.
Qed.

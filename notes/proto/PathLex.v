From Coq Require Import List NArith Bool Lia.
Import ListNotations.
Open Scope N_scope.

Definition char := N.
Definition str := list char.
Definition slash : char := 47.
Definition dot : char := 46.

Definition str_eqb (a b : str) : bool :=
  (fix go a b := match a, b with
   | [], [] => true
   | x :: a', y :: b' => N.eqb x y && go a' b'
   | _, _ => false end) a b.

Lemma str_eqb_eq a b : str_eqb a b = true <-> a = b.
Proof.
  revert b; induction a as [|x a IH]; destruct b as [|y b]; simpl; split; try congruence; try discriminate.
  - intros H. apply andb_true_iff in H as [H1 H2]. apply N.eqb_eq in H1. apply IH in H2. congruence.
  - intros H. injection H as -> ->. apply andb_true_iff; split; [apply N.eqb_refl | apply IH; reflexivity].
Qed.

Inductive comp := CRoot | CCur | CParent | CNormal (s : str).

(* split on '/' : acc is the reversed current segment *)
Fixpoint segs (s : str) (acc : str) : list str :=
  match s with
  | [] => [rev acc]
  | c :: t => if N.eqb c slash then rev acc :: segs t [] else segs t (c :: acc)
  end.
Definition split (s : str) := segs s [].

Definition is_rooted (s : str) : bool := match s with c :: _ => N.eqb c slash | [] => false end.

Definition seg_comp (first_unrooted : bool) (g : str) : list comp :=
  match g with
  | [] => []
  | [d] => if N.eqb d dot then (if first_unrooted then [CCur] else []) else [CNormal g]
  | [d1; d2] => if N.eqb d1 dot && N.eqb d2 dot then [CParent] else [CNormal g]
  | _ => [CNormal g]
  end.

Definition components (s : str) : list comp :=
  let r := is_rooted s in
  match split s with
  | [] => []
  | g :: gs => (if r then [CRoot] else []) ++ seg_comp (negb r) g ++ flat_map (seg_comp false) gs
  end.

Definition comp_str (c : comp) : str :=
  match c with CRoot => [slash] | CCur => [dot] | CParent => [dot; dot] | CNormal s => s end.

(* PathBuf::push on strings (unix) *)
Definition push (buf p : str) : str :=
  if is_rooted p then p
  else match buf with
       | [] => p
       | _ => if N.eqb (last buf 0) slash then buf ++ p else buf ++ [slash] ++ p
       end.

Definition render (cs : list comp) : str := fold_left (fun b c => push b (comp_str c)) cs [].

Eval vm_compute in components [47;47;97;47;46;47;46;46;47;98;47].
Eval vm_compute in components [46;47;97].
Eval vm_compute in render (components [47;47;97;47;46;47;46;46;47;98;47]).

(* --- round trip: names without slash, non-empty, not "." / ".." --- *)
Definition noslash (g : str) := Forall (fun c => c <> slash) g.
Definition is_name (g : str) := g <> [] /\ noslash g /\ g <> [dot] /\ g <> [dot;dot].

Lemma segs_app_noslash g t acc : noslash g ->
  segs (g ++ slash :: t) acc = rev (rev g ++ acc) :: segs t [].
Proof.
  revert acc; induction g as [|c g IH]; intros acc H; simpl.
  - reflexivity.
  - inversion H; subst. destruct (N.eqb_spec c slash); [contradiction|].
    rewrite IH by assumption. simpl. rewrite <- app_assoc. reflexivity.
Qed.

Lemma segs_noslash g acc : noslash g -> segs g acc = [rev (rev g ++ acc)].
Proof.
  revert acc; induction g as [|c g IH]; intros acc H; simpl; [reflexivity|].
  inversion H; subst. destruct (N.eqb_spec c slash); [contradiction|].
  rewrite IH by assumption. simpl. rewrite <- app_assoc. reflexivity.
Qed.

Lemma seg_comp_name b g : is_name g -> seg_comp b g = [CNormal g].
Proof.
  intros (Hne & _ & Hd & Hdd). destruct g as [|a [|a2 [|a3 g]]]; simpl; try congruence.
  - destruct (N.eqb_spec a dot); [subst; congruence | reflexivity].
  - destruct (N.eqb_spec a dot), (N.eqb_spec a2 dot); simpl; subst; congruence.
Qed.

(* rendering of a rooted list of names *)
Fixpoint join_names (ns : list str) : str :=
  match ns with [] => [] | [n] => n | n :: ns' => n ++ slash :: join_names ns' end.

Lemma split_join ns : Forall is_name ns -> ns <> [] -> split (join_names ns) = ns.
Proof.
  unfold split. induction ns as [|n ns IH]; intros HF Hne; [congruence|].
  inversion HF as [|? ? Hn HF']; subst. destruct ns as [|m ns].
  - simpl. destruct Hn as (_ & Hns & _). rewrite segs_noslash by assumption. rewrite app_nil_r, rev_involutive. reflexivity.
  - cbn [join_names]. destruct Hn as (_ & Hns & _). rewrite segs_app_noslash by assumption.
    rewrite app_nil_r, rev_involutive. f_equal. apply IH; [assumption|congruence].
Qed.

open Walkproto
let rec pos_of_int n = if n = 1 then XH else if n land 1 = 0 then XO (pos_of_int (n lsr 1)) else XI (pos_of_int (n lsr 1))
let n_of_int n = if n = 0 then N0 else Npos (pos_of_int n)
let rec int_of_pos = function XH -> 1 | XO p -> 2 * int_of_pos p | XI p -> 2 * int_of_pos p + 1
let int_of_n = function N0 -> 0 | Npos p -> int_of_pos p
let rec nat_of_int n = if n = 0 then O else S (nat_of_int (n-1))
let name_of_string s = List.init (String.length s) (fun i -> n_of_int (Char.code s.[i]))
let string_of_name l = String.concat "" (List.map (fun c -> String.make 1 (Char.chr (int_of_n c))) l)
let path_of_string s = List.map name_of_string (List.filter (fun x -> x <> "") (String.split_on_char '/' s))
let string_of_path p = "/" ^ String.concat "/" (List.map string_of_name p)
let () =
  try while true do
    let line = input_line stdin in
    match String.split_on_char '\t' line with
    | [id; opts; root; ents] ->
      let kv = List.map (fun s -> match String.split_on_char '=' s with [k;v] -> (k, int_of_string v) | _ -> failwith "kv") (String.split_on_char ',' opts) in
      let g k = List.assoc k kv in
      let b k = g k <> 0 in
      let o = { o_dirs = b "dirs"; o_files = b "files"; o_follow = b "follow"; o_min = nat_of_int (g "min");
                o_max = (if g "max" < 0 then None else Some (nat_of_int (g "max"))); o_maxdesc = nat_of_int 50;
                o_dirs_first = b "df"; o_files_first = b "ff"; o_contents_first = b "cf"; o_sort = true } in
      let raw = List.filter (fun x -> x <> "") (String.split_on_char ';' ents) in
      let parsed = List.map (fun s ->
        let k = s.[0] in let rest = String.sub s 1 (String.length s - 1) in
        match k with
        | 'L' -> (match String.split_on_char '>' rest with [l;t] -> (k, l, t) | _ -> failwith "L")
        | _ -> (k, rest, "")) raw in
      let parsed = ('D', "/", "") :: parsed in
      let kind_of p = try let (k,_,_) = List.find (fun (_,q,_) -> q = p) parsed in Some k with Not_found -> None in
      let parent p = let i = String.rindex p '/' in if i = 0 then "/" else String.sub p 0 i in
      let base p = let i = String.rindex p '/' in String.sub p (i+1) (String.length p - i - 1) in
      let wes = List.map (fun (k, p, t) ->
        let kids = List.filter_map (fun (_, q, _) -> if q <> "/" && parent q = p then Some (name_of_string (base q)) else None) parsed in
        match k with
        | 'D' -> { w_path = path_of_string p; w_alt = []; w_dir = true; w_file = false; w_link = false; w_fol = false; w_files = kids }
        | 'F' -> { w_path = path_of_string p; w_alt = []; w_dir = false; w_file = true; w_link = false; w_fol = false; w_files = [] }
        | _ -> let td = (kind_of t = Some 'D') in
               { w_path = path_of_string p; w_alt = path_of_string t; w_dir = td; w_file = not td; w_link = true; w_fol = false; w_files = [] }) parsed in
      let sn = mk_snap wes in
      let out = match walk sn o (path_of_string root) with
        | None -> "NOROOT"
        | Some items -> String.concat " " (List.map (function
            | IOk e -> "OK:" ^ string_of_path e.w_path
            | IErr (ELoop p) -> "LOOP:" ^ string_of_path p
            | IErr (ENoEnt p) -> "NOENT:" ^ string_of_path p) items) in
      print_string (id ^ "\t" ^ out ^ "\n")
    | _ -> ()
  done with End_of_file -> ()

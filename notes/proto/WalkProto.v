From stdpp Require Import gmap sorting.
From Coq Require Import NArith.

Notation name := (list N).
Notation path := (list name).      (* forward: root = [] *)

Record wentry := WE { w_path : path; w_alt : path; w_dir : bool; w_file : bool; w_link : bool;
                      w_fol : bool; w_files : list name }.
Notation snap := (gmap path wentry).

Inductive werr := ELoop (p : path) | ENoEnt (p : path).
Inductive item := IOk (e : wentry) | IErr (e : werr).

Record wopts := WO { o_dirs : bool; o_files : bool; o_follow : bool; o_min : nat; o_max : option nat;
                     o_maxdesc : nat; o_dirs_first : bool; o_files_first : bool;
                     o_contents_first : bool; o_sort : bool }.

Definition follow_e (e : wentry) : wentry :=
  if w_link e && negb (w_fol e) then WE (w_alt e) (w_path e) (w_dir e) (w_file e) (w_link e) true (w_files e) else e.

Definition file_name (p : path) : option name := last p.

(* lexicographic order on byte strings, None < Some *)
Fixpoint name_leb (a b : name) : bool :=
  match a, b with
  | [], _ => true
  | _ :: _, [] => false
  | x :: a', y :: b' => if (x <? y)%N then true else if (y <? x)%N then false else name_leb a' b'
  end.
Definition oname_leb (a b : option name) : bool :=
  match a, b with None, _ => true | Some _, None => false | Some x, Some y => name_leb x y end.
Definition ent_leb (a b : wentry) : bool := oname_leb (file_name (w_path a)) (file_name (w_path b)).

(* insertion sort: stable, like slice::sort_by *)
Fixpoint insert_sorted (x : wentry) (l : list wentry) : list wentry :=
  match l with
  | [] => [x]
  | y :: l' => if ent_leb y x then y :: insert_sorted x l' else x :: y :: l'
  end.
Definition sort_ents (l : list wentry) : list wentry := foldr (fun x acc => insert_sorted x acc) [] l.
(* note: foldr inserts from the right, each x placed AFTER equal keys already present to its right?  keep
   distinct keys in tests; stability is examined separately *)

Record frame := FR { f_path : path; f_cached : bool; f_items : list wentry }.

Record wstate := WS { s_started : bool; s_open : nat; s_iters : list frame; s_deferred : list wentry }.

Definition children (sn : snap) (follow : bool) (p : path) : option (list wentry) :=
  match sn !! p with
  | None => None
  | Some e =>
      let fix go (ns : list name) : list wentry :=
        match ns with
        | [] => []
        | n :: ns' => match sn !! (p ++ [n]) with
                      | Some c => (if follow then follow_e c else c) :: go ns'
                      | None => []          (* MemfsEntryIter::next returns None: iteration stops *)
                      end
        end in
      Some (go (w_files e))
  end.

Definition lt_max (n : nat) (m : option nat) : bool := match m with None => true | Some k => n <? k end.

Definition passes (o : wopts) (e : wentry) : bool :=
  if o_files o then w_file e else if o_dirs o then w_dir e else true.

(* EntriesIter::process *)
Definition process (sn : snap) (o : wopts) (st : wstate) (e : wentry) : wstate * option item :=
  let depth := length (s_iters st) in
  let enter := w_dir e && (negb (w_link e) || o_follow o) in
  let looping := enter && w_link e && existsb (fun f => bool_decide (f_path f = w_path e)) (s_iters st) in
  if looping then (st, Some (IErr (ELoop (w_path e)))) else
  let r :=
    if enter && lt_max depth (o_max o) then
      match children sn (o_follow o) (w_path e) with
      | None => inr (ENoEnt (w_path e))
      | Some cs =>
          if o_sort o || (o_maxdesc o <? s_open st + 1) then
            let items := if o_sort o then
                           (if o_dirs_first o then sort_ents (filter (fun c => w_dir c = true) cs) ++ sort_ents (filter (fun c => w_dir c = false) cs)
                            else if o_files_first o then sort_ents (filter (fun c => w_dir c = false) cs) ++ sort_ents (filter (fun c => w_dir c = true) cs)
                            else sort_ents cs)
                         else cs in
            inl (WS (s_started st) (s_open st) (FR (w_path e) true items :: s_iters st) (s_deferred st))
          else inl (WS (s_started st) (S (s_open st)) (FR (w_path e) false cs :: s_iters st) (s_deferred st))
      end
    else inl st in
  match r with
  | inr err => (st, Some (IErr err))
  | inl st1 =>
      if depth <? o_min o then (st1, None)
      else if w_dir e && o_contents_first o then
        (WS (s_started st1) (s_open st1) (s_iters st1) (e :: s_deferred st1), None)
      else if passes o e then (st1, Some (IOk e)) else (st1, None)
  end.

(* EntriesIter::next, the part after the `started` block; fuel-bounded *)
Fixpoint next_loop (fuel : nat) (sn : snap) (o : wopts) (st : wstate) : option (wstate * option item) :=
  match fuel with
  | 0 => None
  | S fuel' =>
    match s_iters st with
    | [] =>
        if o_contents_first o && (length (s_iters st) <? length (s_deferred st)) then
          match s_deferred st with
          | d :: ds => Some (WS (s_started st) (s_open st) (s_iters st) ds, Some (IOk d))
          | [] => Some (st, None)
          end
        else Some (st, None)
    | top :: rest =>
        if o_contents_first o && (length (s_iters st) <? length (s_deferred st)) then
          match s_deferred st with
          | d :: ds => Some (WS (s_started st) (s_open st) (s_iters st) ds, Some (IOk d))
          | [] => None (* unreachable *)
          end
        else
        match f_items top with
        | e :: es =>
            let st0 := WS (s_started st) (s_open st) (FR (f_path top) (f_cached top) es :: rest) (s_deferred st) in
            match process sn o st0 e with
            | (st1, Some it) => Some (st1, Some it)
            | (st1, None) => next_loop fuel' sn o st1
            end
        | [] =>
            let st0 := WS (s_started st) (if f_cached top then s_open st else pred (s_open st)) rest (s_deferred st) in
            next_loop fuel' sn o st0
        end
    end
  end.

Definition next (fuel : nat) (sn : snap) (o : wopts) (root : wentry) (st : wstate) : option (wstate * option item) :=
  if s_started st then next_loop fuel sn o st
  else
    let st0 := WS true (s_open st) (s_iters st) (s_deferred st) in
    match process sn o st0 (if o_follow o then follow_e root else root) with
    | (st1, Some it) => Some (st1, Some it)
    | (st1, None) => next_loop fuel sn o st1
    end.

Fixpoint collect (n : nat) (fuel : nat) (sn : snap) (o : wopts) (root : wentry) (st : wstate) : list item :=
  match n with
  | 0 => []
  | S n' => match next fuel sn o root st with
            | None => []
            | Some (_, None) => []
            | Some (st', Some it) => it :: collect n' fuel sn o root st'
            end
  end.

Definition walk (sn : snap) (o : wopts) (rootp : path) : option (list item) :=
  match sn !! rootp with
  | None => None
  | Some r => Some (collect 10000 10000 sn o r (WS false 0 [] []))
  end.

Definition mk_snap (es : list wentry) : snap := list_to_map (map (fun e => (w_path e, e)) es).

Require Import Coq.extraction.Extraction Coq.extraction.ExtrOcamlBasic.
Extraction "walkproto.ml" walk mk_snap.

// stdhist.rs — the same operation histories on the real-filesystem backend, confined to a sandbox
// directory: absolute path arguments are re-rooted under the sandbox, results have the sandbox prefix
// removed again, and the resulting tree is read back by an independent observer (plain std::fs).
//   hist s  <env> ops..   Stdfs directly            hist vs <env> ops..   through Vfs::Stdfs
//   hist mo <env> ops..   Memfs, observer snapshot  hist x  <env> ops..   Memfs and Stdfs side by side (C02 domain tracked)
use crate::{hex, unhex_s};
use rivia::prelude::*;
use std::os::unix::fs::PermissionsExt;
use std::path::{Path, PathBuf};

fn hs(s: &str) -> String {
    hex(s.as_bytes())
}

// a fresh sandbox root for this process: <RVH_SANDBOX>/p<pid>/r/r  (two spare levels below the base)
pub fn fresh_sandbox() -> PathBuf {
    let base = std::env::var("RVH_SANDBOX").expect("RVH_SANDBOX names the sandbox base directory");
    assert!(base.contains("/_build/"), "the sandbox lives under the build directory");
    let top = PathBuf::from(base).join(format!("p{}", std::process::id()));
    if top.exists() {
        // permissions may have been taken away by the previous history
        restore_perms(&top);
        std::fs::remove_dir_all(&top).expect("clean sandbox");
    }
    let root = top.join("r").join("r");
    std::fs::create_dir_all(&root).expect("create sandbox");
    std::fs::set_permissions(&root, std::fs::Permissions::from_mode(0o755)).unwrap();
    root
}

fn restore_perms(p: &Path) {
    if let Ok(md) = std::fs::symlink_metadata(p) {
        if md.is_dir() {
            let _ = std::fs::set_permissions(p, std::fs::Permissions::from_mode(0o755));
            if let Ok(rd) = std::fs::read_dir(p) {
                for e in rd.flatten() {
                    restore_perms(&e.path());
                }
            }
        }
    }
}

// which colon-separated fields of an op are path arguments
fn path_fields(f: &[&str]) -> Vec<usize> {
    match f[0] {
        "symlink" | "move_p" | "copy" | "copy_b" => vec![1, 2],
        "macro" => match f.get(1).copied().unwrap_or("") {
            // (an absolute expected value is a sandbox path on the real filesystem; relative ones are left alone)
            "readlink" | "readlink_abs" | "copyfile" | "symlink" => vec![2, 3],
            _ => vec![2],
        },
        _ => vec![1],
    }
}

fn reroot(sb: &Path, p: &str) -> String {
    if p == "/" {
        sb.to_str().unwrap().to_string()
    } else if p.starts_with('/') {
        format!("{}{}", sb.to_str().unwrap(), p)
    } else {
        p.to_string()
    }
}

pub fn to_sandbox(sb: &Path, op: &str) -> String {
    let f: Vec<&str> = op.split(':').collect();
    let pf = path_fields(&f);
    let mut out: Vec<String> = f.iter().map(|x| x.to_string()).collect();
    for i in pf {
        if i < f.len() {
            out[i] = hs(&reroot(sb, &unhex_s(f[i])));
        }
    }
    out.join(":")
}

fn strip(sb: &str, p: &str) -> String {
    if p == sb {
        "/".to_string()
    } else if p.starts_with(sb) && p[sb.len()..].starts_with('/') {
        p[sb.len()..].to_string()
    } else {
        p.to_string()
    }
}

fn strip_hex(sb: &str, h: &str) -> String {
    if h.starts_with("E:") || h.is_empty() {
        h.to_string()
    } else {
        hs(&strip(sb, &unhex_s(h)))
    }
}

pub fn from_sandbox(sb: &Path, r: &str) -> String {
    let sb = sb.to_str().unwrap();
    if let Some(h) = r.strip_prefix('p') {
        if h.chars().all(|c| c.is_ascii_hexdigit()) {
            return format!("p{}", strip_hex(sb, h));
        }
    }
    for k in ["L", "I"] {
        if let Some(rest) = r.strip_prefix(k) {
            if rest.split(',').all(|x| x.starts_with("E:") || x.chars().all(|c| c.is_ascii_hexdigit())) {
                return format!("{}{}", k, rest.split(',').map(|x| strip_hex(sb, x)).collect::<Vec<_>>().join(","));
            }
        }
    }
    r.to_string()
}

// the independent observer: names, kinds, byte contents, symlink targets, permission bits
pub fn observe(sb: &Path) -> String {
    fn walk(sb: &str, p: &Path, out: &mut Vec<String>) {
        let md = match std::fs::symlink_metadata(p) {
            Ok(m) => m,
            Err(_) => return,
        };
        let name = hs(&strip(sb, p.to_str().unwrap()));
        if md.file_type().is_symlink() {
            let t = std::fs::read_link(p).map(|t| strip(sb, t.to_str().unwrap())).unwrap_or_default();
            out.push(format!("{}:l:0:{}:", name, hs(&t)));
        } else if md.is_dir() {
            out.push(format!("{}:d:{}::", name, md.permissions().mode() & 0o7777));
            let mut kids: Vec<PathBuf> = match std::fs::read_dir(p) {
                Ok(rd) => rd.flatten().map(|e| e.path()).collect(),
                Err(_) => vec![],
            };
            kids.sort();
            for k in kids {
                walk(sb, &k, out);
            }
        } else {
            let d = std::fs::read(p).unwrap_or_default();
            out.push(format!("{}:f:{}::{}", name, md.permissions().mode() & 0o7777, hex(&d)));
        }
    }
    let mut out = vec![];
    walk(sb.to_str().unwrap(), sb, &mut out);
    out.sort();
    let cwd = std::env::current_dir().map(|c| strip(sb.to_str().unwrap(), c.to_str().unwrap())).unwrap_or_default();
    format!("cwd={};T{{{}}}", hs(&cwd), out.join(";"))
}

// the same view of a Memfs, from the state snapshot hook
pub fn observe_memfs(vfs: &Memfs) -> String {
    let s = sys::verif::memfs_snapshot(vfs);
    let data: std::collections::HashMap<&PathBuf, &Vec<u8>> = s.files.iter().map(|(k, d)| (k, d)).collect();
    let mut out: Vec<String> = s
        .entries
        .iter()
        .map(|e| {
            let name = hs(e.key.to_str().unwrap());
            if e.link {
                format!("{}:l:0:{}:", name, hs(e.rel.to_str().unwrap()))
            } else if e.dir {
                format!("{}:d:{}::", name, e.mode & 0o7777)
            } else {
                format!("{}:f:{}::{}", name, e.mode & 0o7777, data.get(&e.key).map(|d| hex(d)).unwrap_or_default())
            }
        })
        .collect();
    out.sort();
    format!("cwd={};T{{{}}}", hs(s.cwd.to_str().unwrap()), out.join(";"))
}

fn set_home(home: &str) {
    std::env::set_var("HOME", home);
}

pub struct StdRun {
    pub sb: PathBuf,
    direct: Stdfs,
    wrapped: Vfs,
    use_wrapped: bool,
    home0: String,
}

impl StdRun {
    pub fn new(use_wrapped: bool) -> Self {
        let sb = fresh_sandbox();
        std::env::set_current_dir(&sb).expect("enter sandbox");
        let home0 = std::env::var("HOME").unwrap_or_default();
        if home0.starts_with('/') {
            set_home(&format!("{}{}", sb.to_str().unwrap(), home0));
        }
        StdRun { sb, direct: Stdfs::new(), wrapped: Vfs::stdfs(), use_wrapped, home0 }
    }
    pub fn step(&self, op: &str) -> Result<String, ()> {
        // rawlink:<link>:<target text> - a link made behind the crate's back, with whatever target text (relative to the link's directory)
        if let Some(rest) = op.strip_prefix("rawlink:") {
            let f: Vec<&str> = rest.split(':').collect();
            let link = format!("{}{}", self.sb.to_str().unwrap(), crate::unhex_s(f[0]));
            let text = crate::unhex_s(f.get(1).copied().unwrap_or(""));
            return Ok(match std::os::unix::fs::symlink(&text, &link) {
                Ok(_) => "ok".into(),
                Err(_) => "E:raw".into(),
            });
        }
        let op2 = to_sandbox(&self.sb, op);
        let r = std::panic::catch_unwind(std::panic::AssertUnwindSafe(|| {
            if self.use_wrapped {
                crate::memhist::apply(&self.wrapped, &op2)
            } else {
                crate::memhist::apply(&self.direct, &op2)
            }
        }));
        match r {
            Ok(s) => Ok(from_sandbox(&self.sb, &s)),
            Err(_) => Err(()),
        }
    }
    pub fn observe(&self) -> String {
        observe(&self.sb)
    }
}

impl Drop for StdRun {
    fn drop(&mut self) {
        set_home(&self.home0);
        let _ = std::env::set_current_dir("/");
    }
}

pub fn run_std(mode: &str, ops: &[&str]) -> String {
    let run = StdRun::new(mode == "vs");
    let mut out = vec![];
    for op in ops {
        match run.step(op) {
            Ok(s) => out.push(s),
            Err(_) => {
                out.push("PANIC".into());
                break;
            },
        }
    }
    format!("{}\t#{}", out.join("\t"), run.observe())
}

pub fn run_memfs_observed(ops: &[&str]) -> String {
    let memfs = Memfs::new();
    let mut out = vec![];
    for op in ops {
        match std::panic::catch_unwind(std::panic::AssertUnwindSafe(|| crate::memhist::apply(&memfs, op))) {
            Ok(s) => out.push(s),
            Err(_) => {
                out.push("PANIC".into());
                break;
            },
        }
    }
    format!("{}\t#{}", out.join("\t"), observe_memfs(&memfs))
}

// C02's domain, evaluated on the Memfs state the call starts from:
// every symlink resolves to an existing non-link entry, and no argument passes through a symlink
fn state_in_domain(s: &sys::verif::MemfsSnapshot) -> bool {
    let kinds: std::collections::HashMap<&PathBuf, bool> = s.entries.iter().map(|e| (&e.key, e.link)).collect();
    // (a working directory that has been removed is not a state of the tree either: the process-level cwd of the
    // real filesystem then cannot be read at all)
    kinds.contains_key(&s.cwd) && s.entries.iter().filter(|e| e.link).all(|e| matches!(kinds.get(&e.alt), Some(false)))
}

// "confined to a sandbox directory": an argument that climbs above the root with '..' leaves the sandbox on the
// real filesystem (whose root is not the sandbox root), and the root itself cannot be removed or moved
fn stays_in_sandbox(memfs: &Memfs, op: &str) -> bool {
    let f: Vec<&str> = op.split(':').collect();
    let depth_of = |p: &std::path::Path| p.components().filter(|c| matches!(c, std::path::Component::Normal(_))).count() as i64;
    let cwd = memfs.cwd().unwrap_or_default();
    for i in path_fields(&f) {
        if i >= f.len() {
            continue;
        }
        let raw = unhex_s(f[i]);
        let expanded = match sys::expand(&raw) {
            Ok(x) => x,
            Err(_) => continue,
        };
        let mut depth = if expanded.is_absolute() {
            0
        } else if f[0] == "symlink" && i == 2 {
            match memfs.abs(unhex_s(f[1])) {
                Ok(l) => depth_of(&l) - 1,
                Err(_) => continue,
            }
        } else {
            depth_of(&cwd)
        };
        for c in expanded.components() {
            match c {
                std::path::Component::ParentDir => depth -= 1,
                std::path::Component::Normal(_) => depth += 1,
                _ => {},
            }
            if depth < 0 {
                return false;
            }
        }
        if depth == 0 && i == 1 && ["remove", "remove_all", "move_p", "copy", "copy_b"].contains(&f[0]) {
            return false;
        }
    }
    true
}

fn args_in_domain(memfs: &Memfs, s: &sys::verif::MemfsSnapshot, op: &str) -> bool {
    if !stays_in_sandbox(memfs, op) {
        return false;
    }
    let f: Vec<&str> = op.split(':').collect();
    let links: std::collections::HashSet<&PathBuf> = s.entries.iter().filter(|e| e.link).map(|e| &e.key).collect();
    for i in path_fields(&f) {
        if i >= f.len() {
            continue;
        }
        let raw = unhex_s(f[i]);
        // a relative symlink target is relative to the link's directory, not to the cwd
        let p = if f[0] == "symlink" && i == 2 && !raw.starts_with('/') {
            match memfs.abs(unhex_s(f[1])) {
                Ok(l) => match l.dir() {
                    Ok(d) => memfs.abs(d.mash(&raw)),
                    Err(e) => Err(e),
                },
                Err(e) => Err(e),
            }
        } else {
            memfs.abs(&raw)
        };
        if let Ok(abs) = p {
            let mut a = abs.parent();
            while let Some(x) = a {
                if links.contains(&x.to_path_buf()) {
                    return false;
                }
                a = x.parent();
            }
        }
    }
    true
}

// both backends side by side; the history is cut before the first call that starts outside the domain
pub fn run_x(ops: &[&str]) -> String {
    let memfs = Memfs::new();
    let run = StdRun::new(false);
    let (mut mo, mut so) = (vec![], vec![]);
    let mut cut = String::new();
    for (i, op) in ops.iter().enumerate() {
        let snap = sys::verif::memfs_snapshot(&memfs);
        if !state_in_domain(&snap) {
            cut = format!("cut{}:state", i);
            break;
        }
        // the argument check reads HOME: evaluate it with the Memfs view of the environment
        set_home(&run.home0);
        let ok = args_in_domain(&memfs, &snap, op);
        let m = std::panic::catch_unwind(std::panic::AssertUnwindSafe(|| if ok { Some(crate::memhist::apply(&memfs, op)) } else { None }));
        if run.home0.starts_with('/') {
            set_home(&format!("{}{}", run.sb.to_str().unwrap(), run.home0));
        }
        match m {
            Ok(None) => {
                cut = format!("cut{}:args", i);
                break;
            },
            Ok(Some(s)) => mo.push(s),
            Err(_) => {
                mo.push("PANIC".into());
                break;
            },
        }
        match run.step(op) {
            Ok(s) => so.push(s),
            Err(_) => {
                so.push("PANIC".into());
                break;
            },
        }
    }
    format!("{}\t#{}\t||\t{}\t#{}\t||\t{}", mo.join("\t"), observe_memfs(&memfs), so.join("\t"), run.observe(), cut)
}

// core.rs — core extensions (IteratorExt, StringExt, OptionExt, PeekableExt).
use crate::{hex, unhex_s};
use rivia::prelude::*;

fn nlist<I: Iterator<Item = u64>>(it: I) -> String {
    format!("L:{}", it.map(|x| x.to_string()).collect::<Vec<_>>().join(","))
}
fn res_num(r: RvResult<u64>) -> String {
    match r {
        Ok(x) => format!("N:{}", x),
        Err(e) => crate::pure::errkind(&e),
    }
}

pub fn dispatch(f: &[&str]) -> Option<String> {
    let a = |i: usize| -> String { unhex_s(f.get(i).copied().unwrap_or("")) };
    let n = |i: usize| -> u64 { f[i].parse::<u64>().unwrap() };
    let z = |i: usize| -> isize { f[i].parse::<isize>().unwrap() };
    Some(match f[0] {
        "defer" => defer_run(f[1]),
        "it_drop" => nlist((0..n(1)).drop(z(2))),
        "it_slice" => nlist((0..n(1)).slice(z(2), z(3))),
        // the same on iterators whose size hint is not exact (filter, flat_map) and on a chain
        "it_slice_f" => nlist((0..n(1)).filter(|x| x % 3 != 0).slice(z(2), z(3))),
        "it_slice_m" => nlist((0..n(1)).flat_map(|x| if x % 2 == 0 { vec![x] } else { vec![] }).collect::<Vec<_>>().into_iter().filter(|x| x % 4 != 0).slice(z(2), z(3))),
        "it_slice_c" => nlist((0..n(1)).chain(100..100 + n(1)).slice(z(2), z(3))),
        "it_drop_f" => nlist((0..n(1)).filter(|x| x % 3 != 0).drop(z(2))),
        "it_drop_c" => nlist((0..n(1)).chain(100..100 + n(1)).drop(z(2))),
        "it_first_f" => match (0..n(1)).filter(|x| x % 3 == 2).first() {
            Some(x) => format!("N:{}", x),
            None => "NONE".into(),
        },
        "it_single_f" => res_num((0..n(1)).filter(|x| x % 3 == 2).single()),
        "it_last_f" => res_num((0..n(1)).filter(|x| x % 3 == 2).last_result()),
        "it_first" => match (0..n(1)).first() {
            Some(x) => format!("N:{}", x),
            None => "NONE".into(),
        },
        "it_first_result" => res_num((0..n(1)).first_result()),
        "it_last_result" => res_num((0..n(1)).last_result()),
        "it_single" => res_num((0..n(1)).single()),
        "it_some" => format!("B:{}", if (0..n(1)).some() { 1 } else { 0 }),
        "it_consume" => nlist((0..n(1)).consume()),
        "str_size" => format!("N:{}", a(1).size().max(a(1).as_str().size())),
        "str_to_bool" => {
            let s = a(1);
            let (x, y) = (s.to_bool(), s.as_str().to_bool());
            if x != y {
                "MISMATCH-str-vs-String".into()
            } else {
                format!("B:{}", if x { 1 } else { 0 })
            }
        },
        "str_trim_suffix" => {
            let (s, t) = (a(1), a(2));
            let (x, y) = (StringExt::trim_suffix(&s, t.clone()), StringExt::trim_suffix(s.as_str(), t));
            if x != y {
                "MISMATCH-str-vs-String".into()
            } else {
                format!("S:{}", hex(x.as_bytes()))
            }
        },
        "opt_has" => {
            let o: Option<u64> = if f[1] == "none" { None } else { Some(f[1].parse().unwrap()) };
            format!("B:{}", if o.has(n(2)) { 1 } else { 0 })
        },
        "take_while_ne" => {
            let c = char::from_u32(f[1].parse::<u32>().unwrap()).unwrap();
            let s = a(2);
            let mut it = s.chars().peekable();
            let t: String = it.take_while_p(|&x| x != c).collect();
            let r: String = it.collect();
            format!("T:{}|{}", hex(t.as_bytes()), hex(r.as_bytes()))
        },
        "sym_mode" => {
            let (dir, link) = match f[1] {
                "f" => (false, None),
                "d" => (true, None),
                "lf" => (false, Some("/t")),
                _ => (true, Some("/t")),
            };
            let e = sys::verif::memfs_entry("/x/e", dir, link, f[2].parse().unwrap()).unwrap();
            match sys::verif::sym_mode(&e, f[3].parse().unwrap(), &a(4)) {
                Ok(m) => format!("N:{}", m),
                Err(e) => crate::pure::errkind(&e),
            }
        },
        "revoking_mode" => format!("B:{}", if sys::verif::revoking_mode(f[1].parse().unwrap(), f[2].parse().unwrap()) { 1 } else { 0 }),
        // every non-ASCII scalar lower-cases to something that cannot decide an all-ASCII comparison
        // used by the models (to_bool: "false", "0"; trim_protocol: the four schemes)
        "lowercase_scan" => {
            let mut bad = 0u32;
            let targets = "false0iltph:/s";
            for u in 0x80u32..=0x10FFFF {
                if let Some(c) = char::from_u32(u) {
                    let l: String = c.to_lowercase().collect();
                    if l.chars().all(|x| x.is_ascii()) && l.chars().any(|x| targets.contains(x)) {
                        bad += 1;
                    }
                }
            }
            for u in 0u32..0x80 {
                let c = char::from_u32(u).unwrap();
                let l: String = c.to_lowercase().collect();
                let want = if c.is_ascii_uppercase() { ((u as u8) + 32) as char } else { c };
                if l != want.to_string() {
                    bad += 1;
                }
            }
            format!("B:{}", if bad == 0 { 1 } else { 0 })
        },
        _ => return None,
    })
}


// ---- defer: programs of nested scopes run with real `defer(..)` guards held in stack frames ----
#[derive(Debug)]
enum Stmt {
    Defer(u32),
    Log(u32),
    Scope(Vec<Stmt>),
    Return,
    Panic,
}

fn parse_stmts(toks: &mut std::iter::Peekable<std::str::SplitWhitespace>) -> Vec<Stmt> {
    let mut out = vec![];
    while let Some(t) = toks.next() {
        match t {
            "}" => break,
            "{" => out.push(Stmt::Scope(parse_stmts(toks))),
            "R" => out.push(Stmt::Return),
            "P" => out.push(Stmt::Panic),
            _ => {
                let n: u32 = t[1..].parse().unwrap();
                out.push(if t.starts_with('D') { Stmt::Defer(n) } else { Stmt::Log(n) });
            },
        }
    }
    out
}

// the rest of a scope; a guard created here lives until this frame is left: normally, by `?`, or by unwinding
fn run_scope(stmts: &[Stmt], log: &std::cell::RefCell<Vec<u32>>) -> Result<(), ()> {
    match stmts.split_first() {
        None => Ok(()),
        Some((Stmt::Defer(id), rest)) => {
            let _guard = defer(|| log.borrow_mut().push(*id));
            run_scope(rest, log)
        },
        Some((Stmt::Log(id), rest)) => {
            log.borrow_mut().push(*id);
            run_scope(rest, log)
        },
        Some((Stmt::Scope(body), rest)) => {
            run_scope(body, log)?;
            run_scope(rest, log)
        },
        Some((Stmt::Return, _)) => Err(()),
        Some((Stmt::Panic, _)) => panic!("defer program panic"),
    }
}

fn defer_run(prog: &str) -> String {
    let stmts = parse_stmts(&mut prog.split_whitespace().peekable());
    let log = std::cell::RefCell::new(vec![]);
    let r = std::panic::catch_unwind(std::panic::AssertUnwindSafe(|| run_scope(&stmts, &log)));
    let e = match r {
        Ok(Ok(())) => "N",
        Ok(Err(())) => "R",
        Err(_) => "P",
    };
    format!("log={};exit={}", log.borrow().iter().map(|x| x.to_string()).collect::<Vec<_>>().join(","), e)
}

// rvh — runs the real rivia code on scripts; one result line per script line.
// Protocol: DESIGN.md Appendix C. Strings are hex of UTF-8 bytes.
mod conc;
mod core;
mod handles;
mod memext;
mod memhist;
mod laws;
mod pure;
mod stdhist;
mod wrap;
use std::io::{BufRead, BufWriter, Write};

pub fn hex(s: &[u8]) -> String {
    let mut o = String::with_capacity(s.len() * 2);
    for b in s {
        o.push_str(&format!("{:02x}", b));
    }
    o
}
pub fn unhex(s: &str) -> Vec<u8> {
    let b = s.as_bytes();
    (0..b.len() / 2).map(|i| u8::from_str_radix(&s[2 * i..2 * i + 2], 16).unwrap()).collect()
}
pub fn unhex_s(s: &str) -> String {
    String::from_utf8(unhex(s)).expect("script strings are UTF-8")
}

fn hist_dispatch(fields: &[&str]) -> Option<String> {
    if fields[0] == "conc" {
        return Some(conc::run(fields));
    }
    if fields[0] == "entrydv" {
        return Some(wrap::entrydv(fields));
    }
    if fields[0] != "hist" {
        return None;
    }
    let ops = &fields[3..];
    Some(match fields[1] {
        "s" | "vs" => stdhist::run_std(fields[1], ops),
        "mo" => stdhist::run_memfs_observed(ops),
        "x" => stdhist::run_x(ops),
        "dv" => wrap::same(memhist::run_hist("m", ops), memhist::run_hist("vm", ops)),
        "sdv" => wrap::same(stdhist::run_std("s", ops), stdhist::run_std("vs", ops)),
        m => memhist::run_hist(m, ops),
    })
}

fn main() {
    std::panic::set_hook(Box::new(|_| {}));
    let args: Vec<String> = std::env::args().collect();
    if args.len() < 2 {
        eprintln!("usage: rvh <script> [out]");
        std::process::exit(2);
    }
    let f = std::fs::File::open(&args[1]).expect("open script");
    let out: Box<dyn Write> = if args.len() > 2 {
        Box::new(std::fs::File::create(&args[2]).expect("create out"))
    } else {
        Box::new(std::io::stdout())
    };
    let mut out = BufWriter::new(out);
    for line in std::io::BufReader::new(f).lines() {
        let line = line.unwrap();
        if line.starts_with('#') || line.is_empty() {
            writeln!(out, "{}", line).unwrap();
            continue;
        }
        let fields: Vec<&str> = line.split('\t').collect();
        let res = std::panic::catch_unwind(|| pure::dispatch(&fields).or_else(|| laws::dispatch(&fields)).or_else(|| core::dispatch(&fields)).or_else(|| handles::dispatch(&fields)).or_else(|| hist_dispatch(&fields)));
        match res {
            Ok(Some(r)) => writeln!(out, "{}", r).unwrap(),
            Ok(None) => writeln!(out, "UNKNOWN {}", fields[0]).unwrap(),
            Err(_) => writeln!(out, "PANIC").unwrap(),
        }
        // one line at a time: when the code under test hangs, the output shows at which line
        out.flush().unwrap();
    }
    out.flush().unwrap();
}

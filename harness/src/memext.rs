// memext.rs — builder-based operations (copy_b / chmod_b / chown_b options, entries traversals)
use crate::{hex, unhex_s};
use rivia::prelude::*;

fn kv(s: &str) -> Vec<(String, String)> {
    if s.is_empty() || s == "-" {
        return vec![];
    }
    s.split(',')
        .map(|x| match x.find('=') {
            Some(i) => (x[..i].to_string(), x[i + 1..].to_string()),
            None => (x.to_string(), "1".to_string()),
        })
        .collect()
}
fn get<'a>(o: &'a [(String, String)], k: &str) -> Option<&'a str> {
    o.iter().find(|(a, _)| a == k).map(|(_, v)| v.as_str())
}
fn r_unit(r: RvResult<()>) -> String {
    match r {
        Ok(_) => "ok".into(),
        Err(e) => crate::pure::errkind(&e),
    }
}

// an assert_vfs_* macro under catch_unwind: "pass" or "panic:<macro named in the message>"
fn run_macro<V: VirtualFileSystem>(vfs: &V, f: &[&str]) -> String {
    let a = |i: usize| -> String { unhex_s(f.get(i).copied().unwrap_or("")) };
    let mode: u32 = f.get(4).and_then(|x| x.parse().ok()).unwrap_or(0);
    let (p, q) = (a(2), a(3));
    let r = std::panic::catch_unwind(std::panic::AssertUnwindSafe(|| match f[1] {
        "exists" => { assert_vfs_exists!(vfs, &p); },
        "no_exists" => { assert_vfs_no_exists!(vfs, &p); },
        "is_dir" => { assert_vfs_is_dir!(vfs, &p); },
        "no_dir" => { assert_vfs_no_dir!(vfs, &p); },
        "is_file" => { assert_vfs_is_file!(vfs, &p); },
        "no_file" => { assert_vfs_no_file!(vfs, &p); },
        "is_symlink" => { assert_vfs_is_symlink!(vfs, &p); },
        "no_symlink" => { assert_vfs_no_symlink!(vfs, &p); },
        "read_all" => { assert_vfs_read_all!(vfs, &p, q.clone()); },
        "readlink" => { assert_vfs_readlink!(vfs, &p, std::path::PathBuf::from(&q)); },
        "readlink_abs" => { assert_vfs_readlink_abs!(vfs, &p, &q); },
        "mkdir_p" => { assert_vfs_mkdir_p!(vfs, &p); },
        "mkdir_m" => { assert_vfs_mkdir_m!(vfs, &p, mode); },
        "mkfile" => { assert_vfs_mkfile!(vfs, &p); },
        "write_all" => { assert_vfs_write_all!(vfs, &p, q.as_bytes()); },
        "symlink" => { assert_vfs_symlink!(vfs, &p, &q); },
        "remove" => { assert_vfs_remove!(vfs, &p); },
        "remove_all" => { assert_vfs_remove_all!(vfs, &p); },
        _ => panic!("unknown macro"),
    }));
    match r {
        Ok(_) => "pass".to_string(),
        Err(e) => {
            let msg = if let Some(s) = e.downcast_ref::<String>() { s.clone() } else if let Some(s) = e.downcast_ref::<&str>() { s.to_string() } else { "?".to_string() };
            let msg = msg.trim_start();
            let name = msg.split(':').next().unwrap_or("?").to_string();
            format!("panic:{}", name)
        },
    }
}

pub fn apply<V: VirtualFileSystem>(vfs: &V, f: &[&str]) -> Option<String> {
    let a = |i: usize| -> String { unhex_s(f.get(i).copied().unwrap_or("")) };
    Some(match f[0] {
        "macro" => run_macro(vfs, f),
        "entries" => {
            let mut e = match vfs.entries(a(1)) {
                Ok(e) => e,
                Err(err) => return Some(crate::pure::errkind(&err)),
            };
            for (k, v) in kv(f.get(2).copied().unwrap_or("")) {
                e = match k.as_str() {
                    "follow" => e.follow(v != "0"),
                    "min" => e.min_depth(v.parse().unwrap()),
                    "max" => e.max_depth(v.parse().unwrap()),
                    "sort" => e.sort_by_name(),
                    "df" => e.dirs_first(),
                    "ff" => e.files_first(),
                    "cf" => e.contents_first(),
                    "dirs" => e.dirs(),
                    "files" => e.files(),
                    "maxdesc" => sys::verif::set_max_descriptors(e, v.parse().unwrap()),
                    _ => panic!("wopt"),
                };
            }
            let mut out = vec![];
            for (i, x) in e.into_iter().enumerate() {
                if i > 20000 {
                    out.push("RUNAWAY".to_string());
                    break;
                }
                match x {
                    Ok(en) => out.push(hex(en.path().to_str().unwrap().as_bytes())),
                    Err(err) => out.push(crate::pure::errkind(&err)),
                }
            }
            format!("I{}", out.join(","))
        },
        "copy_b" => {
            let o = kv(f.get(3).copied().unwrap_or(""));
            let mut c = match vfs.copy_b(a(1), a(2)) {
                Ok(c) => c,
                Err(e) => return Some(crate::pure::errkind(&e)),
            };
            if let Some(m) = get(&o, "all") {
                c = c.chmod_all(m.parse().unwrap());
            } else if let Some(m) = get(&o, "cdirs") {
                c = c.chmod_dirs(m.parse().unwrap());
            } else if let Some(m) = get(&o, "cfiles") {
                c = c.chmod_files(m.parse().unwrap());
            }
            if get(&o, "follow").map(|x| x != "0").unwrap_or(false) {
                c = c.follow(true);
            }
            // the working directory changing between building the copier and running it (a relative spelling, hex)
            if let Some(d) = get(&o, "cwd") {
                let _ = vfs.set_cwd(crate::unhex_s(&d));
            }
            r_unit(c.exec())
        },
        "chmod_b" => {
            let o = kv(f.get(2).copied().unwrap_or(""));
            let mut c = match vfs.chmod_b(a(1)) {
                Ok(c) => c,
                Err(e) => return Some(crate::pure::errkind(&e)),
            };
            if let Some(m) = get(&o, "all") {
                c = c.all(m.parse().unwrap());
            }
            if let Some(m) = get(&o, "dirs") {
                c = c.dirs(m.parse().unwrap());
            }
            if let Some(m) = get(&o, "files") {
                c = c.files(m.parse().unwrap());
            }
            if get(&o, "follow").map(|x| x != "0").unwrap_or(false) {
                c = c.follow();
            }
            if get(&o, "norecurse").is_some() {
                c = c.no_recurse();
            }
            let sym = a(3);
            if !sym.is_empty() {
                c = c.sym(&sym);
            }
            r_unit(c.exec())
        },
        "chown_b" => {
            let o = kv(f.get(2).copied().unwrap_or(""));
            let mut c = match vfs.chown_b(a(1)) {
                Ok(c) => c,
                Err(e) => return Some(crate::pure::errkind(&e)),
            };
            if let Some(u) = get(&o, "uid") {
                c = c.uid(u.parse().unwrap());
            }
            if let Some(g) = get(&o, "gid") {
                c = c.gid(g.parse().unwrap());
            }
            if get(&o, "follow").map(|x| x != "0").unwrap_or(false) {
                c = c.follow();
            }
            if get(&o, "norecurse").is_some() {
                c = c.recurse(false);
            }
            // the working directory changing between building the builder and running it (a relative spelling, hex)
            if let Some(d) = get(&o, "cwd") {
                let _ = vfs.set_cwd(crate::unhex_s(&d));
            }
            r_unit(c.exec())
        },
        _ => return None,
    })
}

// memext.rs — builder-based operations (copy_b / chmod_b / chown_b options, entries traversals)
use rivia::prelude::*;

pub fn apply<V: VirtualFileSystem>(_vfs: &V, _f: &[&str]) -> Option<String> {
    None
}

// laws.rs — the property statements themselves, evaluated on the real code (judges for the
// violation search; independent of the Coq mirrors).  Each returns "B:1" when the law holds.
use crate::unhex_s;
use rivia::prelude::*;
use std::path::{Component, Path, PathBuf};

fn b(x: bool) -> String {
    format!("B:{}", if x { 1 } else { 0 })
}
fn comps(p: &Path) -> Vec<String> {
    p.components().map(|c| c.as_os_str().to_str().unwrap().to_string()).collect()
}
fn s(p: &Path) -> String {
    p.to_str().unwrap().to_string()
}

pub fn dispatch(f: &[&str]) -> Option<String> {
    let a = |i: usize| -> String { unhex_s(f.get(i).copied().unwrap_or("")) };
    Some(match f[0] {
        "law_trim_prefix" => {
            let (x, p) = (a(1), a(2));
            b(s(&sys::trim_prefix(format!("{}{}", x, p), &x)) == p)
        },
        "law_trim_prefix_id" => {
            let (p, x) = (a(1), a(2));
            b(p.starts_with(&x) || s(&sys::trim_prefix(&p, &x)) == p)
        },
        "law_trim_suffix" => {
            let (p, x) = (a(1), a(2));
            b(s(&sys::trim_suffix(format!("{}{}", p, x), &x)) == p)
        },
        "law_trim_suffix_id" => {
            let (p, x) = (a(1), a(2));
            b(p.ends_with(&x) || s(&sys::trim_suffix(&p, &x)) == p)
        },
        "law_ext" => {
            let p = a(1);
            match sys::ext(&p) {
                Ok(e) => b(format!("{}.{}", s(&sys::trim_ext(&p).unwrap()), e) == p),
                Err(_) => b(s(&sys::trim_ext(&p).unwrap()) == p),
            }
        },
        "law_name" => {
            let p = a(1);
            match (sys::ext(&p), sys::base(&p), sys::name(&p)) {
                (Ok(e), Ok(bs), Ok(n)) => b(format!("{}.{}", n, e) == bs),
                (Err(_), Ok(bs), Ok(n)) => b(n == bs),
                (_, Err(_), Err(_)) => b(true),
                _ => b(false),
            }
        },
        "law_dir_base" => {
            let p = a(1);
            match (sys::dir(&p), sys::base(&p)) {
                (Ok(d), Ok(bs)) => {
                    let mut c = comps(&d);
                    c.push(bs);
                    b(c == comps(Path::new(&p)))
                },
                _ => b(true),
            }
        },
        "law_first" => {
            let p = a(1);
            match sys::first(&p) {
                Ok(x) => {
                    let mut c = vec![x];
                    c.extend(comps(&sys::trim_first(&p)));
                    b(c == comps(Path::new(&p)))
                },
                Err(_) => b(comps(Path::new(&p)).is_empty()),
            }
        },
        "law_last" => {
            let p = a(1);
            match sys::last(&p) {
                Ok(x) => {
                    let mut c = comps(&sys::trim_last(&p));
                    c.push(x);
                    b(c == comps(Path::new(&p)))
                },
                Err(_) => b(comps(Path::new(&p)).is_empty()),
            }
        },
        "law_has" => {
            let (p, v) = (a(1), a(2));
            b(sys::has(&p, &v) == p.contains(&v)
                && sys::has_prefix(&p, &v) == p.starts_with(&v)
                && sys::has_suffix(&p, &v) == p.ends_with(&v))
        },
        "law_mash" => {
            let (d, p) = (a(1), a(2));
            let m = sys::mash(&d, &p);
            let stripped = p.trim_start_matches('/');
            // components of d followed by those of p (leading separators removed); a "." that is
            // not the very first component of the result is not a component
            let mut want = comps(Path::new(&d));
            for c in Path::new(stripped).components() {
                if c == Component::CurDir && !want.is_empty() {
                    continue;
                }
                want.push(c.as_os_str().to_str().unwrap().to_string());
            }
            let ms = s(&m);
            let no_trailing = ms == "/" || !ms.ends_with('/');
            b(comps(&m) == want && m.starts_with(Path::new(&d)) && no_trailing && !ms.contains("//"))
        },
        "law_trim_protocol" => {
            let p = a(1);
            let lower = p.to_ascii_lowercase();
            let mut want = p.clone();
            for sch in ["file://", "ftp://", "http://", "https://"] {
                if lower.starts_with(sch) {
                    want = p[sch.len()..].to_string();
                    break;
                }
            }
            b(s(&sys::trim_protocol(&p)) == want)
        },
        "law_concat" => {
            let (p, v) = (a(1), a(2));
            b(sys::concat(&p, &v).map(|x| s(&x)).ok() == Some(format!("{}{}", p, v)))
        },
        "law_parse_paths" => {
            let v = a(1);
            let want: Vec<PathBuf> = v.split(':').filter(|x| !x.is_empty()).map(PathBuf::from).collect();
            b(sys::parse_paths(&v).ok() == Some(want))
        },
        _ => return None,
    })
}

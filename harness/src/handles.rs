// handles.rs — read/seek and write/append handles of both backends, and a real std::io::Cursor.
use crate::{hex, unhex};
use rivia::prelude::*;
use std::io::{Cursor, Read, Seek, SeekFrom, Write};
use std::path::PathBuf;

fn parse_seek(t: &str) -> SeekFrom {
    let v = &t[2..];
    match &t[1..2] {
        "S" => SeekFrom::Start(v.parse::<u64>().unwrap()),
        "C" => SeekFrom::Current(v.parse::<i64>().unwrap()),
        _ => SeekFrom::End(v.parse::<i64>().unwrap()),
    }
}

fn run_rs<R: Read + Seek + ?Sized>(h: &mut R, ops: &str) -> String {
    let mut out = vec![];
    for t in ops.split(',').filter(|x| !x.is_empty()) {
        if let Some(n) = t.strip_prefix('r') {
            let n: usize = n.parse().unwrap();
            let mut buf = vec![0u8; n];
            match h.read(&mut buf) {
                Ok(k) => out.push(format!("b{}", hex(&buf[..k]))),
                Err(e) => out.push(format!("err{:?}", e.kind())),
            }
        } else {
            match h.seek(parse_seek(t)) {
                Ok(p) => out.push(format!("p{}", p)),
                Err(e) if e.kind() == std::io::ErrorKind::InvalidInput => out.push("inv".to_string()),
                Err(e) => out.push(format!("err{:?}", e.kind())),
            }
        }
    }
    let pos = match h.stream_position() {
        Ok(p) => p.to_string(),
        Err(_) => "err".to_string(),
    };
    format!("{}|pos={}", out.join(";"), pos)
}

pub fn sandbox(tag: &str) -> PathBuf {
    let base = std::env::var("RVH_SANDBOX").unwrap_or_else(|_| "/verif/_build/sb".to_string());
    let d = PathBuf::from(base).join(format!("{}-{}", tag, std::process::id()));
    let _ = std::fs::remove_dir_all(&d);
    std::fs::create_dir_all(&d).unwrap();
    d
}

fn content(vfs: &Vfs, p: &PathBuf) -> String {
    match vfs.read(p) {
        Ok(mut r) => {
            let mut v = vec![];
            r.read_to_end(&mut v).unwrap();
            format!("c{}", hex(&v))
        },
        Err(_) => "none".to_string(),
    }
}

pub fn dispatch(f: &[&str]) -> Option<String> {
    Some(match f[0] {
        "hread" | "hread_cursor" => {
            let data = unhex(f[2]);
            let ops = f.get(3).copied().unwrap_or("");
            match f[1] {
                "c" => run_rs(&mut Cursor::new(data), ops),
                "m" => {
                    let vfs = Memfs::new();
                    vfs.write_all("/f", &data).unwrap();
                    let mut h = vfs.read("/f").unwrap();
                    run_rs(&mut *h, ops)
                },
                _ => {
                    let d = sandbox("hread");
                    let vfs = Stdfs::new();
                    let p = d.join("f");
                    vfs.write_all(&p, &data).unwrap();
                    let r = {
                        let mut h = vfs.read(&p).unwrap();
                        run_rs(&mut *h, ops)
                    };
                    let _ = std::fs::remove_dir_all(&d);
                    r
                },
            }
        },
        "hwrite" => {
            // hwrite <backend> <w|a> <old> <removed> <ops>
            let old = unhex(f[3]);
            let removed = f[4] == "1";
            let ops = f.get(5).copied().unwrap_or("");
            let (vfs, p, dir) = if f[1] == "m" {
                (Vfs::memfs(), PathBuf::from("/f"), None)
            } else {
                let d = sandbox("hwrite");
                (Vfs::stdfs(), d.join("f"), Some(d))
            };
            vfs.write_all(&p, &old).unwrap();
            let mut out = vec![];
            {
                let mut h = if f[2] == "a" { vfs.append(&p).unwrap() } else { vfs.write(&p).unwrap() };
                if removed {
                    vfs.remove(&p).unwrap();
                }
                for t in ops.split(',').filter(|x| !x.is_empty()) {
                    if t == "f" {
                        let _ = h.flush();
                        out.push(content(&vfs, &p));
                    } else {
                        h.write_all(&unhex(&t[1..])).unwrap();
                    }
                }
            }
            out.push(content(&vfs, &p));
            if let Some(d) = dir {
                let _ = std::fs::remove_dir_all(&d);
            }
            out.join(";")
        },
        "hmix" => {
            // hmix <w|a> <old> <tokens>: a Stdfs handle interleaved with other writers of the same file.
            // w<hex> handle write, f handle flush (content recorded), b<hex> write through a second append handle, g flush it,
            // A<hex> vfs.append_all, W<hex> vfs.write_all, d drop the first handle (content recorded)
            let old = unhex(f[2]);
            let toks = f.get(3).copied().unwrap_or("");
            let d = sandbox("hmix");
            let vfs = Vfs::stdfs();
            let p = d.join("f");
            vfs.write_all(&p, &old).unwrap();
            let mut out = vec![];
            {
                let mut h = Some(if f[1] == "a" { vfs.append(&p).unwrap() } else { vfs.write(&p).unwrap() });
                let mut h2 = vfs.append(&p).unwrap();
                for t in toks.split(',').filter(|x| !x.is_empty()) {
                    match &t[..1] {
                        "w" => {
                            if let Some(x) = h.as_mut() {
                                x.write_all(&unhex(&t[1..])).unwrap();
                            }
                        },
                        "f" => {
                            if let Some(x) = h.as_mut() {
                                let _ = x.flush();
                            }
                            out.push(content(&vfs, &p));
                        },
                        "b" => h2.write_all(&unhex(&t[1..])).unwrap(),
                        "g" => {
                            let _ = h2.flush();
                            out.push(content(&vfs, &p));
                        },
                        "A" => vfs.append_all(&p, &unhex(&t[1..])).unwrap(),
                        "W" => vfs.write_all(&p, &unhex(&t[1..])).unwrap(),
                        "d" => {
                            h = None;
                            out.push(content(&vfs, &p));
                        },
                        _ => {},
                    }
                }
            }
            out.push(content(&vfs, &p));
            let _ = std::fs::remove_dir_all(&d);
            out.join(";")
        },
        _ => return None,
    })
}

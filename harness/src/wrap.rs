// wrap.rs — C13: the same calls on a backend value and through the Vfs / VfsEntry wrappers
//   hist dv  <env> ops..   Memfs directly and through Vfs::Memfs      hist sdv <env> ops..   Stdfs and Vfs::Stdfs
//   entrydv <backend> <env> <setup ops ';'-joined> <hex path | entries:<hex root>:<follow>> <steps ','-joined>
use crate::hex;
use rivia::prelude::*;

fn hp(p: &std::path::Path) -> String {
    hex(p.to_str().unwrap().as_bytes())
}

pub fn same(a: String, b: String) -> String {
    if a == b {
        format!("EQ\t{}", a)
    } else {
        format!("DIFF\t{}\t||\t{}", a, b)
    }
}

// every accessor of the Entry trait
fn dump<E: Entry>(e: &E) -> String {
    format!(
        "{}|{}|{}|{}|{}|{}|{}|{}{}{}{}{}{}{}{}|{}",
        hp(e.path()),
        hp(&e.path_buf()),
        hp(e.alt()),
        hp(&e.alt_buf()),
        hp(e.rel()),
        hp(&e.rel_buf()),
        e.file_name().map(|x| hex(x.to_str().unwrap().as_bytes())).unwrap_or("-".into()),
        e.following() as u8,
        e.is_exec() as u8,
        e.is_dir() as u8,
        e.is_file() as u8,
        e.is_readonly() as u8,
        e.is_symlink() as u8,
        e.is_symlink_dir() as u8,
        e.is_symlink_file() as u8,
        e.mode()
    )
}

// the call on the wrapped backend value itself
fn step_direct(v: VfsEntry, s: &str) -> VfsEntry {
    match v {
        VfsEntry::Memfs(x) => match s {
            "f1" => x.follow(true),
            "f0" => x.follow(false),
            "c" => x.clone().upcast(),
            _ => x.upcast(),
        },
        VfsEntry::Stdfs(x) => match s {
            "f1" => x.follow(true),
            "f0" => x.follow(false),
            "c" => x.clone().upcast(),
            _ => x.upcast(),
        },
    }
}
fn dump_direct(v: &VfsEntry) -> String {
    match v {
        VfsEntry::Memfs(x) => dump(x),
        VfsEntry::Stdfs(x) => dump(x),
    }
}
// the call through the wrapper
fn step_wrapped(v: VfsEntry, s: &str) -> VfsEntry {
    match s {
        "f1" => v.follow(true),
        "f0" => v.follow(false),
        "c" => v.clone(),
        _ => v.upcast(),
    }
}

fn transcripts(direct: VfsEntry, wrapped: VfsEntry, steps: &[&str]) -> (String, String) {
    let (mut d, mut w) = (direct, wrapped);
    let (mut dt, mut wt) = (vec![dump_direct(&d)], vec![dump(&w)]);
    for s in steps {
        d = step_direct(d, s);
        w = step_wrapped(w, s);
        dt.push(dump_direct(&d));
        wt.push(dump(&w));
    }
    (dt.join(">"), wt.join(">"))
}

fn entries_of<V: VirtualFileSystem>(vfs: &V, src: &str, sb: Option<&std::path::Path>) -> Vec<VfsEntry> {
    let re = |p: String| match sb {
        Some(sb) => crate::unhex_s(&crate::stdhist::to_sandbox(sb, &format!("x:{}", hex(p.as_bytes()))).split(':').nth(1).unwrap().to_string()),
        None => p,
    };
    let f: Vec<&str> = src.split(':').collect();
    if f[0] == "entries" {
        match vfs.entries(re(crate::unhex_s(f[1]))) {
            Ok(e) => e.follow(f.get(2).map(|x| *x == "1").unwrap_or(false)).sort_by_name().into_iter().filter_map(|x| x.ok()).collect(),
            Err(_) => vec![],
        }
    } else {
        vfs.entry(re(crate::unhex_s(f[0]))).into_iter().collect()
    }
}

pub fn entrydv(fields: &[&str]) -> String {
    let backend = fields[1];
    let setup: Vec<&str> = fields[3].split(';').filter(|x| !x.is_empty()).collect();
    let steps: Vec<&str> = fields[5].split(',').filter(|x| !x.is_empty()).collect();
    let (mut dts, mut wts) = (vec![], vec![]);
    if backend == "mem" {
        let vfs = Memfs::new();
        for op in &setup {
            crate::memhist::apply(&vfs, op);
        }
        // two independent clones of the same entries: one driven directly, one through the wrapper
        let (a, b) = (entries_of(&vfs, fields[4], None), entries_of(&vfs, fields[4], None));
        for (d, w) in a.into_iter().zip(b.into_iter()) {
            let (dt, wt) = transcripts(d, w, &steps);
            dts.push(dt);
            wts.push(wt);
        }
    } else {
        let run = crate::stdhist::StdRun::new(false);
        for op in &setup {
            let _ = run.step(op);
        }
        let vfs = Stdfs::new();
        let (a, b) = (entries_of(&vfs, fields[4], Some(&run.sb)), entries_of(&vfs, fields[4], Some(&run.sb)));
        let sb = hex(run.sb.to_str().unwrap().as_bytes());
        for (d, w) in a.into_iter().zip(b.into_iter()) {
            let (dt, wt) = transcripts(d, w, &steps);
            dts.push(dt.replace(&sb, ""));
            wts.push(wt.replace(&sb, ""));
        }
    }
    same(dts.join("\t"), wts.join("\t"))
}

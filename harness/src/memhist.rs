// memhist.rs — run operation histories on the real Memfs (directly or through the Vfs wrapper),
// print per-op results (values / error kinds) and the final state snapshot (cfg(rivia_verif) hook).
use crate::{hex, unhex, unhex_s};
use rivia::prelude::*;
use std::io::Write;
use std::path::PathBuf;

fn hp(p: &std::path::Path) -> String {
    use std::os::unix::ffi::OsStrExt;
    hex(p.as_os_str().as_bytes())
}
fn ek(e: &RvError) -> String {
    crate::pure::errkind(e)
}
fn r_unit(r: RvResult<()>) -> String {
    match r {
        Ok(_) => "ok".into(),
        Err(e) => ek(&e),
    }
}
fn r_path(r: RvResult<PathBuf>) -> String {
    match r {
        Ok(p) => format!("p{}", hp(&p)),
        Err(e) => ek(&e),
    }
}
fn r_bool(b: bool) -> String {
    (if b { "b1" } else { "b0" }).into()
}
fn r_num(r: RvResult<u32>) -> String {
    match r {
        Ok(n) => format!("n{}", n),
        Err(e) => ek(&e),
    }
}
fn r_paths(r: RvResult<Vec<PathBuf>>) -> String {
    match r {
        Ok(v) => format!("L{}", v.iter().map(|p| hp(p)).collect::<Vec<_>>().join(",")),
        Err(e) => ek(&e),
    }
}

pub fn snapshot(vfs: &Memfs) -> String {
    let s = sys::verif::memfs_snapshot(vfs);
    let mut ents: Vec<String> = s
        .entries
        .iter()
        .map(|e| {
            let files = match &e.files {
                None => "-".to_string(),
                Some(v) => {
                    let mut h: Vec<String> = v.iter().map(|x| hex(x.as_bytes())).collect();
                    h.sort();
                    format!("[{}]", h.join(","))
                },
            };
            format!(
                "{}:{}:{}:{}:{}{}{}:{}:{}:{}:{}",
                hp(&e.key),
                hp(&e.path),
                hp(&e.alt),
                hp(&e.rel),
                e.dir as u8,
                e.file as u8,
                e.link as u8,
                e.mode,
                e.uid,
                e.gid,
                files
            )
        })
        .collect();
    ents.sort();
    let mut data: Vec<String> = s.files.iter().map(|(k, d)| format!("{}:{}", hp(k), hex(d))).collect();
    data.sort();
    // the model side appends the verdict of the extracted WF checker on the (identical) state
    format!("cwd={};root={};E{{{}}};D{{{}}};wf=1", hp(&s.cwd), hp(&s.root), ents.join(";"), data.join(";"))
}

fn lines_arg(h: &str) -> Vec<String> {
    if h.is_empty() {
        vec![]
    } else {
        h.split(',').map(|x| String::from_utf8(unhex(x)).unwrap()).collect()
    }
}

// one operation against any VirtualFileSystem value
pub fn apply<V: VirtualFileSystem>(vfs: &V, op: &str) -> String {
    let f: Vec<&str> = op.split(':').collect();
    // path arguments are byte strings: a path need not be UTF-8
    let a = |i: usize| -> PathBuf {
        use std::os::unix::ffi::OsStringExt;
        PathBuf::from(std::ffi::OsString::from_vec(unhex(f.get(i).copied().unwrap_or(""))))
    };
    match f[0] {
        "abs" => r_path(vfs.abs(a(1))),
        "exists" => r_bool(vfs.exists(a(1))),
        "is_dir" => r_bool(vfs.is_dir(a(1))),
        "is_file" => r_bool(vfs.is_file(a(1))),
        "is_symlink" => r_bool(vfs.is_symlink(a(1))),
        "is_symlink_dir" => r_bool(vfs.is_symlink_dir(a(1))),
        "is_symlink_file" => r_bool(vfs.is_symlink_file(a(1))),
        "is_exec" => r_bool(vfs.is_exec(a(1))),
        "is_readonly" => r_bool(vfs.is_readonly(a(1))),
        "mode" => r_num(vfs.mode(a(1))),
        "owner" => match vfs.owner(a(1)) {
            Ok((u, g)) => format!("q{},{}", u, g),
            Err(e) => ek(&e),
        },
        "uid" => r_num(vfs.uid(a(1))),
        "gid" => r_num(vfs.gid(a(1))),
        "cwd" => r_path(vfs.cwd()),
        "root" => format!("p{}", hp(&vfs.root())),
        "set_cwd" => r_path(vfs.set_cwd(a(1))),
        "mkfile" => r_path(vfs.mkfile(a(1))),
        "mkfile_m" => r_path(vfs.mkfile_m(a(1), f[2].parse().unwrap())),
        "mkdir_p" => r_path(vfs.mkdir_p(a(1))),
        "mkdir_m" => r_path(vfs.mkdir_m(a(1), f[2].parse().unwrap())),
        "write_all" => r_unit(vfs.write_all(a(1), unhex(f[2]))),
        "write_lines" => r_unit(vfs.write_lines(a(1), &lines_arg(f[2]))),
        "append_all" => r_unit(vfs.append_all(a(1), unhex(f[2]))),
        "append_line" => r_unit(vfs.append_line(a(1), String::from_utf8(unhex(f[2])).unwrap())),
        "append_lines" => r_unit(vfs.append_lines(a(1), &lines_arg(f[2]))),
        "read_all" => match vfs.read_all(a(1)) {
            Ok(s) => format!("d{}", hex(s.as_bytes())),
            Err(e) => ek(&e),
        },
        "read_lines" => match vfs.read_lines(a(1)) {
            Ok(v) => format!("l{}", v.iter().map(|x| hex(x.as_bytes())).collect::<Vec<_>>().join(",")),
            Err(e) => ek(&e),
        },
        "remove" => r_unit(vfs.remove(a(1))),
        "remove_all" => r_unit(vfs.remove_all(a(1))),
        "symlink" => r_path(vfs.symlink(a(1), a(2))),
        "readlink" => r_path(vfs.readlink(a(1))),
        "readlink_abs" => r_path(vfs.readlink_abs(a(1))),
        "move_p" => r_unit(vfs.move_p(a(1), a(2))),
        "copy" => r_unit(vfs.copy(a(1), a(2))),
        "paths" => r_paths(vfs.paths(a(1))),
        "dirs" => r_paths(vfs.dirs(a(1))),
        "files" => r_paths(vfs.files(a(1))),
        "all_paths" => r_paths(vfs.all_paths(a(1))),
        "all_dirs" => r_paths(vfs.all_dirs(a(1))),
        "all_files" => r_paths(vfs.all_files(a(1))),
        "chmod" => r_unit(vfs.chmod(a(1), f[2].parse().unwrap())),
        "chown" => r_unit(vfs.chown(a(1), f[2].parse().unwrap(), f[3].parse().unwrap())),
        _ => crate::memext::apply(vfs, &f).unwrap_or_else(|| format!("UNKNOWNOP {}", f[0])),
    }
}

// run every op under catch_unwind; after a panic probe the instance (a poisoned lock panics again)
pub fn run_hist(mode: &str, ops: &[&str]) -> String {
    let wrapped = Vfs::memfs();
    let memfs: &Memfs = match &wrapped {
        Vfs::Memfs(x) => x,
        _ => unreachable!(),
    };
    let mut out: Vec<String> = vec![];
    let mut handles: Vec<Option<Box<dyn Write>>> = vec![];
    let two = mode.ends_with('2');
    let mode = mode.trim_end_matches('2');
    for (i, op) in ops.iter().enumerate() {
        if two && i + 1 == ops.len() {
            // the state the last call starts from
            out.push(format!("#pre{}", snapshot(memfs)));
        }
        // explicit write / append handles (mode "h")
        let hf: Vec<&str> = op.split(':').collect();
        if mode == "h" && ["open_w", "open_a", "hwrite", "hflush", "hdrop"].contains(&hf[0]) {
            let r = std::panic::catch_unwind(std::panic::AssertUnwindSafe(|| match hf[0] {
                "open_w" | "open_a" => {
                    let p = unhex_s(hf[1]);
                    let h = if hf[0] == "open_w" { memfs.write(&p) } else { memfs.append(&p) };
                    match h {
                        Ok(h) => {
                            handles.push(Some(h));
                            format!("n{}", handles.len() - 1)
                        },
                        Err(e) => ek(&e),
                    }
                },
                "hwrite" => match handles.get_mut(hf[1].parse::<usize>().unwrap()) {
                    Some(Some(h)) => {
                        h.write_all(&unhex(hf[2])).unwrap();
                        "ok".to_string()
                    },
                    _ => "E:Other".to_string(),
                },
                "hflush" => match handles.get_mut(hf[1].parse::<usize>().unwrap()) {
                    Some(Some(h)) => match h.flush() {
                        Ok(_) => "ok".to_string(),
                        Err(e) if e.kind() == std::io::ErrorKind::NotFound => "E:DoesNotExist".to_string(),
                        Err(e) => format!("E:Io{:?}", e.kind()),
                    },
                    _ => "E:Other".to_string(),
                },
                _ => match handles.get_mut(hf[1].parse::<usize>().unwrap()) {
                    Some(x) if x.is_some() => {
                        *x = None; // drops the handle: a final write-back whose error is swallowed
                        "ok".to_string()
                    },
                    _ => "E:Other".to_string(),
                },
            }));
            match r {
                Ok(s) => out.push(s),
                Err(_) => {
                    out.push("PANIC".into());
                    return out.join("\t");
                },
            }
            continue;
        }
        let r = std::panic::catch_unwind(std::panic::AssertUnwindSafe(|| {
            if mode == "vm" {
                apply(&wrapped, op)
            } else {
                apply(memfs, op)
            }
        }));
        match r {
            Ok(s) => out.push(s),
            Err(_) => {
                out.push("PANIC".into());
                // probe: a poisoned lock makes every later call panic
                let probe = std::panic::catch_unwind(std::panic::AssertUnwindSafe(|| memfs.exists("/")));
                if probe.is_err() {
                    out.push("POISONED".into());
                }
                return out.join("\t");
            },
        }
    }
    let snap = std::panic::catch_unwind(std::panic::AssertUnwindSafe(|| snapshot(memfs)));
    match snap {
        Ok(s) => format!("{}\t#{}", out.join("\t"), s),
        Err(_) => format!("{}\tPOISONED", out.join("\t")),
    }
}

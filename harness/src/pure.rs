// Pure (stateless) functions of rivia: path helpers, core extensions.
use crate::{hex, unhex_s};
use rivia::prelude::*;
use std::path::{Component, Path, PathBuf};

pub fn s_path(p: &Path) -> String {
    format!("S:{}", hex(p.to_str().unwrap().as_bytes()))
}
pub fn s_str(p: &str) -> String {
    format!("S:{}", hex(p.as_bytes()))
}
pub fn comps(p: &Path) -> String {
    let v: Vec<String> = p
        .components()
        .map(|c| match c {
            Component::RootDir => "R".to_string(),
            Component::CurDir => "C".to_string(),
            Component::ParentDir => "P".to_string(),
            Component::Normal(x) => format!("N{}", hex(x.to_str().unwrap().as_bytes())),
            Component::Prefix(_) => "X".to_string(),
        })
        .collect();
    format!("C:{}", v.join(","))
}
fn b(x: bool) -> String {
    format!("B:{}", if x { 1 } else { 0 })
}
fn opt_path(o: Option<&Path>) -> String {
    match o {
        Some(p) => s_path(p),
        None => "NONE".to_string(),
    }
}
pub fn err_kind(e: &RvError) -> String {
    crate::pure::errkind(e)
}
pub fn errkind(e: &RvError) -> String {
    // map an error to a small enum of kinds (never message text)
    if let Some(pe) = e.downcast_ref::<PathError>() {
        let k = match pe {
            PathError::DirContainsFiles(_) => "DirContainsFiles",
            PathError::DirDoesNotMatchParent(_) => "DirDoesNotMatchParent",
            PathError::DoesNotExist(_) => "DoesNotExist",
            PathError::Empty => "Empty",
            PathError::ExistsAlready(_) => "ExistsAlready",
            PathError::ExtensionNotFound(_) => "ExtensionNotFound",
            PathError::FailedToString(_) => "FailedToString",
            PathError::FileNameNotFound(_) => "FileNameNotFound",
            PathError::InvalidExpansion(_) => "InvalidExpansion",
            PathError::IsNotDir(_) => "IsNotDir",
            PathError::IsNotExec(_) => "IsNotExec",
            PathError::IsNotFile(_) => "IsNotFile",
            PathError::IsNotFileOrSymlinkToFile(_) => "IsNotFileOrSymlinkToFile",
            PathError::IsNotSymlink(_) => "IsNotSymlink",
            PathError::LinkLooping(_) => "LinkLooping",
            PathError::MultipleHomeSymbols(_) => "MultipleHomeSymbols",
            PathError::ParentNotFound(_) => "ParentNotFound",
        };
        return format!("E:{}", k);
    }
    if let Some(ie) = e.downcast_ref::<IterError>() {
        return format!("E:Iter{:?}", ie).split('(').next().unwrap().to_string();
    }
    if let Some(ve) = e.downcast_ref::<VfsError>() {
        return format!("E:Vfs{:?}", ve).split('(').next().unwrap().to_string();
    }
    if let Some(io) = e.downcast_ref::<std::io::Error>() {
        return format!("E:Io{:?}", io.kind());
    }
    if let Some(ve) = e.downcast_ref::<std::env::VarError>() {
        return match ve {
            std::env::VarError::NotPresent => "E:VarNotPresent".to_string(),
            _ => "E:VarNotUnicode".to_string(),
        };
    }
    format!("E:Other")
}
fn res_path(r: RvResult<PathBuf>) -> String {
    match r {
        Ok(p) => s_path(&p),
        Err(e) => errkind(&e),
    }
}
fn res_paths(r: RvResult<Vec<PathBuf>>) -> String {
    match r {
        Ok(v) => format!("L:{}", v.iter().map(|p| hex(p.to_str().unwrap().as_bytes())).collect::<Vec<_>>().join(",")),
        Err(e) => errkind(&e),
    }
}
fn res_str(r: RvResult<String>) -> String {
    match r {
        Ok(p) => s_str(&p),
        Err(e) => errkind(&e),
    }
}

pub fn dispatch(f: &[&str]) -> Option<String> {
    let a = |i: usize| -> String { unhex_s(f.get(i).copied().unwrap_or("")) };
    Some(match f[0] {
        // ---- std::path model validation
        "components" => comps(Path::new(&a(1))),
        "std_push" => {
            let mut p = PathBuf::from(a(1));
            p.push(a(2));
            s_path(&p)
        },
        "std_parent" => opt_path(Path::new(&a(1)).parent()),
        "std_file_name" => match Path::new(&a(1)).file_name() {
            Some(x) => s_str(x.to_str().unwrap()),
            None => "NONE".into(),
        },
        "std_extension" => match Path::new(&a(1)).extension() {
            Some(x) => s_str(x.to_str().unwrap()),
            None => "NONE".into(),
        },
        "std_eq" => b(Path::new(&a(1)) == Path::new(&a(2))),
        "std_starts_with" => b(Path::new(&a(1)).starts_with(Path::new(&a(2)))),
        "std_collect" => s_path(&Path::new(&a(1)).components().collect::<PathBuf>()),
        // ---- sys::* path helpers
        "clean" => s_path(&sys::clean(a(1))),
        "clean2" => s_path(&sys::clean(sys::clean(a(1)))),
        "is_absolute" => b(Path::new(&a(1)).is_absolute()),
        "relative" => res_path(sys::relative(a(1), a(2))),
        "mash" => s_path(&sys::mash(a(1), a(2))),
        "trim_prefix" => s_path(&sys::trim_prefix(a(1), a(2))),
        "trim_suffix" => s_path(&sys::trim_suffix(a(1), a(2))),
        "trim_ext" => res_path(sys::trim_ext(a(1))),
        "ext" => res_str(sys::ext(a(1))),
        "name" => res_str(sys::name(a(1))),
        "base" => res_str(sys::base(a(1))),
        "dir" => res_path(sys::dir(a(1))),
        "first" => res_str(sys::first(a(1))),
        "last" => res_str(sys::last(a(1))),
        "trim_first" => s_path(&sys::trim_first(a(1))),
        "trim_last" => s_path(&sys::trim_last(a(1))),
        "has" => b(sys::has(a(1), a(2))),
        "has_prefix" => b(sys::has_prefix(a(1), a(2))),
        "has_suffix" => b(sys::has_suffix(a(1), a(2))),
        "trim_protocol" => s_path(&sys::trim_protocol(a(1))),
        "concat" => res_path(sys::concat(a(1), a(2))),
        "parse_paths" => match sys::parse_paths(a(1)) {
            Ok(v) => format!("L:{}", v.iter().map(|p| hex(p.to_str().unwrap().as_bytes())).collect::<Vec<_>>().join(",")),
            Err(e) => errkind(&e),
        },
        "is_empty" => b(sys::is_empty(a(1))),
        // the environment is the process environment (set by the runner, one process per environment)
        "expand" => res_path(sys::expand(a(2))),
        // the environment changing between two calls of one process: expand_seq <home1|-> <path1> <home2|-> <path2>
        "expand_seq" => {
            let old = std::env::var_os("HOME");
            let set = |h: &str| {
                if h == "-" {
                    std::env::remove_var("HOME")
                } else {
                    std::env::set_var("HOME", crate::unhex_s(h))
                }
            };
            set(f[1]);
            let r1 = res_path(sys::expand(a(2)));
            set(f[3]);
            let r2 = res_path(sys::expand(a(4)));
            match old {
                Some(x) => std::env::set_var("HOME", x),
                None => std::env::remove_var("HOME"),
            }
            format!("{};{}", r1, r2)
        },
        "abs_m" => {
            let vfs = Memfs::new();
            let cwd = a(2);
            vfs.mkdir_p(&cwd).unwrap();
            vfs.set_cwd(&cwd).unwrap();
            res_path(vfs.abs(a(3)))
        },
        "xdg" => match f[2] {
            "config_dir" => res_path(user::config_dir()),
            "cache_dir" => res_path(user::cache_dir()),
            "data_dir" => res_path(user::data_dir()),
            "state_dir" => res_path(user::state_dir()),
            "runtime_dir" => s_path(&user::runtime_dir()),
            "sys_config_dirs" => res_paths(user::sys_config_dirs()),
            "sys_data_dirs" => res_paths(user::sys_data_dirs()),
            "path_dirs" => res_paths(user::path_dirs()),
            _ => return None,
        },
        "getrids" => {
            let (u, g) = user::getrids(f[2].parse().unwrap(), f[3].parse().unwrap());
            format!("P:{},{}", u, g)
        },
        "vfs_config_dir_m" | "vfs_config_dir_s" => {
            let vfs = if f[0] == "vfs_config_dir_m" { Vfs::memfs() } else { Vfs::stdfs() };
            if f.len() > 4 {
                // sandbox root of this configuration: start from nothing
                let root = a(4);
                assert!(root.contains("/_build/sb/"));
                let _ = std::fs::remove_dir_all(&root);
            }
            for h in f.get(3).copied().unwrap_or("").split(',').filter(|x| !x.is_empty()) {
                let p = PathBuf::from(unhex_s(h));
                vfs.mkdir_p(p.parent().unwrap()).unwrap();
                vfs.mkfile(&p).unwrap();
            }
            match vfs.config_dir(a(2)) {
                Some(p) => s_path(&p),
                None => "NONE".into(),
            }
        },
        "abs_s" => {
            let cwd = a(2);
            std::fs::create_dir_all(&cwd).unwrap();
            std::env::set_current_dir(&cwd).unwrap();
            res_path(Stdfs::new().abs(a(3)))
        },
        _ => return None,
    })
}

// conc.rs — C04: several threads share one Memfs; every call is timestamped at invocation and response
// by one sequentially consistent counter, so that a checker can search for a sequential order that
// respects program order and real-time precedence.
//   conc <env> <iters> <yield> <setup ops ';'> <thread ops ';'> <thread ops ';'> ...
// Output: distinct outcomes, each  "t:i:inv:resp:result|..." + '#' + final snapshot, joined by '@@';
// "DEADLOCK" if an iteration does not finish within the time limit, "PANIC"/"POISONED" markers inline.
use rivia::prelude::*;
use std::sync::atomic::{AtomicU64, Ordering};
use std::sync::{Arc, Barrier};

pub fn run(fields: &[&str]) -> String {
    let iters: usize = fields[2].parse().unwrap();
    let yield_n: usize = fields[3].parse().unwrap();
    let setup: Vec<String> = fields[4].split(';').filter(|x| !x.is_empty()).map(|x| x.to_string()).collect();
    let progs: Vec<Vec<String>> =
        fields[5..].iter().map(|p| p.split(';').filter(|x| !x.is_empty()).map(|x| x.to_string()).collect()).collect();
    let mut seen = std::collections::BTreeSet::new();
    let mut outs = vec![];
    for it in 0..iters {
        let vfs = Arc::new(Memfs::new());
        sys::verif::GUARD_YIELD.store(0, Ordering::SeqCst);
        for op in &setup {
            crate::memhist::apply(&*vfs, op);
        }
        sys::verif::GUARD_YIELD.store(yield_n, Ordering::SeqCst);
        let clock = Arc::new(AtomicU64::new(0));
        let barrier = Arc::new(Barrier::new(progs.len()));
        let (tx, rx) = std::sync::mpsc::channel();
        let mut handles = vec![];
        for (t, prog) in progs.iter().enumerate() {
            let (vfs, clock, barrier, prog, tx) = (vfs.clone(), clock.clone(), barrier.clone(), prog.clone(), tx.clone());
            handles.push(std::thread::spawn(move || {
                let m: &Memfs = &vfs;
                sys::verif::guard_seed((it as u64 + 1) * 7919 + t as u64 * 104729);
                barrier.wait();
                let mut ev = vec![];
                for (i, op) in prog.iter().enumerate() {
                    let inv = clock.fetch_add(1, Ordering::SeqCst);
                    let r = std::panic::catch_unwind(std::panic::AssertUnwindSafe(|| crate::memhist::apply(m, op))).unwrap_or_else(|_| "PANIC".to_string());
                    let resp = clock.fetch_add(1, Ordering::SeqCst);
                    ev.push(format!("{}:{}:{}:{}:{}", t, i, inv, resp, r));
                }
                let _ = tx.send(ev);
            }));
        }
        drop(tx);
        let mut evs: Vec<String> = vec![];
        let mut done = 0;
        while done < progs.len() {
            match rx.recv_timeout(std::time::Duration::from_secs(20)) {
                Ok(ev) => {
                    evs.extend(ev);
                    done += 1;
                },
                Err(_) => return "DEADLOCK".to_string(),
            }
        }
        for h in handles {
            let _ = h.join();
        }
        sys::verif::GUARD_YIELD.store(0, Ordering::SeqCst);
        // renumber the timestamps densely in order (only their order matters)
        let mut stamps: Vec<u64> = evs.iter().flat_map(|e| { let f: Vec<&str> = e.splitn(5, ':').collect(); vec![f[2].parse::<u64>().unwrap(), f[3].parse::<u64>().unwrap()] }).collect();
        stamps.sort();
        let rank = |x: u64| stamps.binary_search(&x).unwrap();
        let mut evs: Vec<String> = evs.iter().map(|e| { let f: Vec<&str> = e.splitn(5, ':').collect(); format!("{}:{}:{}:{}:{}", f[0], f[1], rank(f[2].parse().unwrap()), rank(f[3].parse().unwrap()), f[4]) }).collect();
        evs.sort();
        let snap = std::panic::catch_unwind(std::panic::AssertUnwindSafe(|| crate::memhist::snapshot(&vfs))).unwrap_or_else(|_| "POISONED".to_string());
        let o = format!("{}#{}", evs.join("|"), snap);
        if seen.insert(o.clone()) {
            outs.push(o);
        }
    }
    outs.join("@@")
}

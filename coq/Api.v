(* Api.v — uniquely named entry points of the executable model: what the OCaml driver (extracted)
   and the in-Coq cross-check (cases.v, vm_compute) both call. *)
From Coq Require Import List NArith ZArith Bool.
Import ListNotations.
From RV Require Core.Defer.
From RV Require Import Base.Str Base.PathLex Path.Clean Path.CleanSpec Path.Relative Path.Helpers Path.HelpersFacts Core.Iter File.MemFile Path.Expand Path.Abs Xdg.Dirs Chmod.Sym.
From stdpp Require gmap.
From RV Require Import Memfs.State Memfs.Ops Memfs.Step Memfs.Wf Memfs.WfB Memfs.Handles Macros.Asserts.
From RV Require Memfs.Walk Memfs.WalkOps Memfs.WalkSpec Memfs.Spec Memfs.Refine Memfs.RefineHistory.

Definition api_components := components.
Definition api_push := push.
Definition api_render := render.
Definition api_parent := parent.
Definition api_file_name := file_name.
Definition api_extension := extension.
Definition api_path_eqb := path_eqb.
Definition api_path_starts_with := path_starts_with.
Definition api_is_absolute := is_absolute.
Definition api_clean := clean.
Definition api_go_clean := go_clean.
Definition api_clean_spec := clean_spec.
Definition api_normal_form_b := normal_form_b.

(* ---- C16 ---- *)
Definition api_relative := relative.
Definition names_of (s : list N) : list (list N) :=
  flat_map (fun c => match c with CNormal n => [n] | _ => [] end) (components s).
(* the spec's answer for clean absolute arguments *)
Definition api_relative_spec (p b : list N) : list N :=
  if path_eqb p b then p else render (relative_spec (names_of p) (names_of b)).
(* the property's own checker, applied to an implementation result r *)
Definition api_relative_check (p b r : list N) : bool :=
  if path_eqb p b then str_eqb (push b r) p
  else
    let cs := components r in
    let k := length (snd (strip_common (names_of p) (names_of b))) in
    negb (is_absolute r)
    && comps_eqb cs (repeat CParent k ++ filter (fun c => match c with CNormal _ => true | _ => false end) cs)
    && str_eqb (clean_spec (push b r)) p.

(* ---- C15 ---- *)
Definition api_base := base.
Definition api_first := first.
Definition api_dir := dir.
Definition api_ext := ext.
Definition api_trim_prefix := trim_prefix.
Definition api_trim_suffix := trim_suffix.
Definition api_trim_ext := trim_ext.
Definition api_name := Helpers.name.
Definition api_has := has.
Definition api_has_prefix := has_prefix.
Definition api_has_suffix := has_suffix.
Definition api_mash := mash.
Definition api_trim_first := trim_first.
Definition api_trim_last := trim_last.
Definition api_concat := concat.
Definition api_parse_paths := parse_paths.
Definition api_is_empty := is_empty.
Definition api_trim_protocol := trim_protocol.
Definition api_kf_ext_class := kf_ext_class.

(* ---- C19 ---- *)
Definition api_defer_run := Core.Defer.run.
Definition nseq (len : nat) : list N := map N.of_nat (seq 0 len).
Definition api_it_drop (len : nat) (n : Z) := Iter.drop n (nseq len).
Definition api_it_drop_spec (len : nat) (n : Z) := drop_spec n (nseq len).
Definition api_it_slice (len : nat) (l r : Z) := slice l r (nseq len).
Definition api_it_slice_spec (len : nat) (l r : Z) := slice_spec l r (nseq len).
Definition api_it_first (len : nat) := it_first (nseq len).
Definition api_it_first_result (len : nat) := it_first_result (nseq len).
Definition api_it_last_result (len : nat) := it_last_result (nseq len).
Definition api_it_single (len : nat) := it_single (nseq len).
Definition api_it_some (len : nat) := it_some (nseq len).
Definition api_it_consume (len : nat) := it_consume (nseq len).
Definition api_str_size (s : list N) := N.of_nat (str_size s).
Definition api_str_to_bool := str_to_bool.
Definition api_str_trim_suffix := str_trim_suffix.
Definition api_opt_has (o : option N) (x : N) := opt_has N.eqb o x.
Definition api_take_while_ne (c : N) (s : list N) := take_while_p (fun x => negb (N.eqb x c)) s.

(* ---- C07 ---- *)
Definition api_mf_run (data : list N) (ops : list rop) := mf_run {| mf_pos := 0%Z; mf_data := data |} ops.
Definition api_c_run (data : list N) (ops : list rop) := c_run {| c_pos := 0%Z; c_data := data |} ops.
(* transcript of a write/append handle: the stored content after every flush, then after drop *)
Fixpoint wh_trace (h : whandle) (store : option (list N)) (ops : list wop) : list (option (list N)) :=
  match ops with
  | [] => [snd (fst (wh_sync h store))]
  | o :: ops' =>
      let '(h', s', _) := wh_step h store o in
      match o with WFlush => s' :: wh_trace h' s' ops' | _ => wh_trace h' s' ops' end
  end.
Definition api_wh_trace (append : bool) (old : list N) (removed : bool) (ops : list wop) :=
  wh_trace (if append then open_append old else open_write) (if removed then None else Some old) ops.

(* ---- C17 / C05 ---- *)
Fixpoint env_lookup (e : list (list N * list N)) (k : list N) : option (list N) :=
  match e with
  | [] => None
  | (k', v) :: e' => if str_eqb k k' then Some v else env_lookup e' k
  end.
Definition api_expand (e : list (list N * list N)) (p : list N) := expand (env_lookup e) p.
Definition api_abs (e : list (list N * list N)) (cwd p : list N) := Abs.abs cwd (env_lookup e) p.

(* ---- C18 ---- *)
Definition api_xdg_home (which : N) (e : list (list N * list N)) : res (list N) :=
  let env := env_lookup e in
  match which with
  | 0 => config_dir env | 1 => cache_dir env | 2 => data_dir env | 3 => state_dir env
  | _ => Ok (runtime_dir env)
  end%N.
Definition api_xdg_dirs (which : N) (e : list (list N * list N)) : res (list (list N)) :=
  let env := env_lookup e in
  match which with
  | 0 => Ok (sys_config_dirs env) | 1 => Ok (sys_data_dirs env) | _ => path_dirs env
  end%N.
Definition api_getrids (e : list (list N * list N)) (uid gid : N) := getrids (env_lookup e) uid gid.
Definition mem_str (x : list N) (l : list (list N)) : bool := existsb (str_eqb x) l.
(* exists() of a filesystem whose only files are `files` (absolute clean paths), cwd "/" *)
Definition api_vfs_config_dir (e : list (list N * list N)) (name : list N) (files : list (list N)) : option (list N) :=
  let env := env_lookup e in
  vfs_config_dir env (fun p => match Abs.abs [slash] env p with inl a => mem_str a files | inr _ => false end) name.

(* ---- C11 (expression level) ---- *)
Definition api_sym_mode (dir file link : bool) (mode octal : N) (sym : list N) :=
  sym_mode {| k_dir := dir; k_file := file; k_link := link |} mode octal sym.
Definition api_revoking_mode := revoking_mode.

(* ---- Memfs mirror (C01, C03, C06, C09, C10, C12, C20) ---- *)
Definition api_mfs_init := mfs_init.
Definition api_mfs_step (e : list (list N * list N)) (m : mfs) (o : op) := step (env_lookup e) m o.
(* the traversal machine next to the recursion it is proved to follow (Memfs/WalkSpec.v), on the state and arguments of an
   entries call: the driver compares the two on every explored call, links followed or not *)
Definition api_walk_vs_spec (e : list (list N * list N)) (m : mfs) (s : list N) (wo : Walk.wopts)
  : option (outcome (list Walk.event) * option (list Walk.event)) :=
  match resolve (env_lookup e) m s with
  | inl p => match stdpp.base.lookup p (m_ents m) with
             | Some r => match Walk.walk (m_ents m) wo WalkOps.no_pre p with
                         | inl out => Some (out, WalkSpec.sw_walk 64 (m_ents m) wo WalkOps.no_pre r)
                         | inr _ => None
                         end
             | None => None
             end
  | inr _ => None
  end.
(* the reference tree filesystem (Memfs/Spec.v, Memfs/RefineHistory.v) run next to the mirror: the driver carries the reference's own tree
   through every call the reference covers, compares value and tree with the mirror's (history_refines says they agree), and re-reads the
   tree from the mirror's state only after a call the reference does not cover *)
Definition api_ref_init : Spec.tree := Refine.abs mfs_init.
Definition api_ref_step (e : list (list N * list N)) (t : Spec.tree) (o : op) := RefineHistory.spec_step (env_lookup e) t o.
Definition api_ref_of (m : mfs) : Spec.tree := Refine.abs m.
Definition api_tree_list (t : Spec.tree) := (Spec.t_cwd t, fin_maps.map_to_list (Spec.t_nodes t)).
Definition api_mfs_entries (m : mfs) := fin_maps.map_to_list (m_ents m).
Definition api_mfs_data (m : mfs) := fin_maps.map_to_list (m_data m).
Definition api_files_list (e : entry) : option (list (list N)) :=
  match e_files e with Some fs => Some (base.elements fs) | None => None end.
Definition api_render_rpath := render_rpath.
Definition api_wf_b := wf_b.

(* rebuild a state from a snapshot (lists of rendered paths are parsed by the driver into names) *)
Definition api_mfs_of_lists (cwd root : list (list N)) (ents : list (list (list N) * entry)) (data : list (list (list N) * list N)) : mfs :=
  mkMfs cwd root (fin_maps.list_to_map ents) (fin_maps.list_to_map data).
Definition api_mk_entry := mkEntry.
Definition api_set_of_list (l : list (list N)) : gmap.gset (list N) := base.list_to_set l.
Definition api_rpath_of_string (s : list N) : list (list N) := List.rev (Ops.names_of s).

(* ---- handles inside histories ---- *)
Definition api_h_init := h_init.
Definition api_hstep (e : list (list N * list N)) (st : hstate) (o : hop) := hstep (env_lookup e) st o.

(* ---- C20: the assert_vfs_* macros over the mirror ---- *)
Definition api_macro (e : list (list N * list N)) (m : mfs) (name : N) (a b : list N) (mode : N) : outcome (mfs * verdict) :=
  let env := env_lookup e in
  match name with
  | 0 => Done (a_exists env m a) | 1 => Done (a_no_exists env m a) | 2 => Done (a_is_dir env m a) | 3 => Done (a_no_dir env m a)
  | 4 => Done (a_is_file env m a) | 5 => Done (a_no_file env m a) | 6 => Done (a_is_symlink env m a) | 7 => Done (a_no_symlink env m a)
  | 8 => Done (a_read_all env m a b) | 9 => Done (a_readlink env m a b) | 10 => Done (a_readlink_abs env m a b)
  | 11 => Done (a_mkdir_p env m a) | 12 => Done (a_mkdir_m env m a mode) | 13 => Done (a_mkfile env m a)
  | 14 => Done (a_write_all env m a b) | 15 => Done (a_symlink env m a b) | 16 => Done (a_remove env m a)
  | _ => a_remove_all env m a
  end%N.

(* Api.v — uniquely named entry points of the executable model: what the OCaml driver (extracted)
   and the in-Coq cross-check (cases.v, vm_compute) both call. *)
From Coq Require Import List NArith Bool.
Import ListNotations.
From RV Require Import Base.Str Base.PathLex Path.Clean Path.CleanSpec Path.Relative Path.Helpers Path.HelpersFacts.

Definition api_components := components.
Definition api_push := push.
Definition api_render := render.
Definition api_parent := parent.
Definition api_file_name := file_name.
Definition api_extension := extension.
Definition api_path_eqb := path_eqb.
Definition api_path_starts_with := path_starts_with.
Definition api_is_absolute := is_absolute.
Definition api_clean := clean.
Definition api_go_clean := go_clean.
Definition api_clean_spec := clean_spec.
Definition api_normal_form_b := normal_form_b.

(* ---- C16 ---- *)
Definition api_relative := relative.
Definition names_of (s : list N) : list (list N) :=
  flat_map (fun c => match c with CNormal n => [n] | _ => [] end) (components s).
(* the spec's answer for clean absolute arguments *)
Definition api_relative_spec (p b : list N) : list N :=
  if path_eqb p b then p else render (relative_spec (names_of p) (names_of b)).
(* the property's own checker, applied to an implementation result r *)
Definition api_relative_check (p b r : list N) : bool :=
  if path_eqb p b then str_eqb (push b r) p
  else
    let cs := components r in
    let k := length (snd (strip_common (names_of p) (names_of b))) in
    negb (is_absolute r)
    && comps_eqb cs (repeat CParent k ++ filter (fun c => match c with CNormal _ => true | _ => false end) cs)
    && str_eqb (clean_spec (push b r)) p.

(* ---- C15 ---- *)
Definition api_base := base.
Definition api_first := first.
Definition api_dir := dir.
Definition api_ext := ext.
Definition api_trim_prefix := trim_prefix.
Definition api_trim_suffix := trim_suffix.
Definition api_trim_ext := trim_ext.
Definition api_name := name.
Definition api_has := has.
Definition api_has_prefix := has_prefix.
Definition api_has_suffix := has_suffix.
Definition api_mash := mash.
Definition api_trim_first := trim_first.
Definition api_trim_last := trim_last.
Definition api_concat := concat.
Definition api_parse_paths := parse_paths.
Definition api_is_empty := is_empty.
Definition api_trim_protocol := trim_protocol.
Definition api_kf_ext_class := kf_ext_class.

(* Api.v — uniquely named entry points of the executable model: what the OCaml driver (extracted)
   and the in-Coq cross-check (cases.v, vm_compute) both call. *)
From Coq Require Import List NArith Bool.
Import ListNotations.
From RV Require Import Base.Str Base.PathLex Path.Clean Path.CleanSpec.

Definition api_components := components.
Definition api_push := push.
Definition api_render := render.
Definition api_parent := parent.
Definition api_file_name := file_name.
Definition api_extension := extension.
Definition api_path_eqb := path_eqb.
Definition api_path_starts_with := path_starts_with.
Definition api_is_absolute := is_absolute.
Definition api_clean := clean.
Definition api_go_clean := go_clean.
Definition api_clean_spec := clean_spec.
Definition api_normal_form_b := normal_form_b.

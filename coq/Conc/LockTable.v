(* Conc/LockTable.v — the lock discipline Conc/Lin.v assumes, checked on the table regenerated from
   src/sys/fs/memfs/vfs.rs (Gen/Locks.v): every single-step operation of the statement opens exactly one
   critical section on any syntactic path, and no method asks for the lock while it holds a guard. *)
From Coq Require Import List String Bool Arith.
From RV Require Import Gen.Locks.
Import ListNotations.
Local Open Scope string_scope.

(* the operations the statement lists as single steps, with its "reads, queries and listing snapshots" spelled out *)
Definition single_step : list string :=
  [ "mkdir_p"; "mkdir_m"; "mkfile"; "remove"; "remove_all"; "move_p"; "copy"; "symlink"; "set_cwd"; "append_all"; "write_all";
    "append_line"; "append_lines"; "write_lines";
    "read"; "read_all"; "read_lines";
    "abs"; "cwd"; "root"; "entry"; "exists"; "is_dir"; "is_file"; "is_exec"; "is_readonly"; "is_symlink"; "is_symlink_dir"; "is_symlink_file";
    "mode"; "owner"; "uid"; "gid"; "readlink"; "readlink_abs";
    "paths"; "dirs"; "files"; "all_paths"; "all_dirs"; "all_files"; "entries" ].

Definition row_of (m : string) : option lockrow := find (fun r => String.eqb (l_method r) m) memfs_locks.

Definition one_section (m : string) : bool :=
  match row_of m with Some r => Nat.eqb (l_sections r) 1 && negb (l_nested r) | None => false end.

Definition discipline_ok : bool := forallb one_section single_step.

Definition never_nested : bool := forallb (fun r => negb (l_nested r)) memfs_locks.

Lemma single_step_discipline : discipline_ok = true.
Proof. vm_compute. reflexivity. Qed.

Lemma no_method_relocks : never_nested = true.
Proof. vm_compute. reflexivity. Qed.

Lemma one_section_spec m : discipline_ok = true -> In m single_step ->
  exists r, row_of m = Some r /\ l_sections r = 1 /\ l_nested r = false.
Proof.
  unfold discipline_ok. rewrite forallb_forall. intros H Hin. specialize (H m Hin). unfold one_section in H.
  destruct (row_of m) as [r|]; [|discriminate]. apply andb_true_iff in H as [H1 H2].
  exists r. split; [reflexivity|]. split; [apply Nat.eqb_eq; exact H1 | apply negb_true_iff; exact H2].
Qed.

(* Conc/MemfsConc.v — Conc/Lin.v instantiated with the Memfs mirror's step function. *)
From Coq Require Import List String NArith.
From RV Require Import Base.Str Path.Helpers Path.Expand Memfs.State Memfs.Step Memfs.ContentFacts Conc.Lin.
Import ListNotations.

(* the mirror's step as a total function: a panic or fuel exhaustion would be a result of its own *)
Definition mstep (env : envmap) (m : mfs) (o : op) : mfs * outcome result :=
  match step env m o with Done (m', r) => (m', Done r) | Panic => (m, Panic) | OutOfFuel => (m, OutOfFuel) end.

Lemma memfs_replay env (s0 : mfs) (progs : list (list op)) (sched : list nat) :
  let c := run _ _ _ (mstep env) (init _ _ _ s0 progs) sched in
  replay _ _ _ (mstep env) s0 (map (c_o _ _) (lin _ _ _ c)) = (st _ _ _ c, map (c_r _ _) (lin _ _ _ c)).
Proof. apply lin_replay. Qed.

Lemma memfs_real_time env (s0 : mfs) (progs : list (list op)) sched xa xb tr :
  let c := run _ _ _ (mstep env) (init _ _ _ s0 progs) sched in
  In xa (lin _ _ _ c) -> In xb (lin _ _ _ c) -> In (c_t _ _ xa, c_i _ _ xa, tr) (resplog _ _ _ c) -> tr < c_inv _ _ xb ->
  precedes (lin _ _ _ c) xa xb.
Proof. exact (lin_real_time _ _ _ (mstep env) progs s0 sched xa xb tr). Qed.

Lemma memfs_program_order env (s0 : mfs) (progs : list (list op)) sched x y :
  let c := run _ _ _ (mstep env) (init _ _ _ s0 progs) sched in
  precedes (lin _ _ _ c) x y -> c_t _ _ x = c_t _ _ y -> c_i _ _ x < c_i _ _ y.
Proof. exact (lin_program_order _ _ _ (mstep env) progs s0 sched x y). Qed.

Lemma memfs_calls_of_program env (s0 : mfs) (progs : list (list op)) sched x :
  let c := run _ _ _ (mstep env) (init _ _ _ s0 progs) sched in
  In x (lin _ _ _ c) -> nth_error (nth (c_t _ _ x) progs []) (c_i _ _ x) = Some (c_o _ _ x).
Proof. exact (lin_calls_of_program _ _ _ (mstep env) progs s0 sched x). Qed.

Lemma memfs_progress env (s0 : mfs) (progs : list (list op)) sched :
  let c := run _ _ _ (mstep env) (init _ _ _ s0 progs) sched in
  (exists t th, nth_error (thr _ _ _ c) t = Some th /\ unfinished _ _ th) -> exists t c', move _ _ _ (mstep env) c t = Some c'.
Proof. exact (progress _ _ _ (mstep env) progs s0 sched). Qed.

Lemma memfs_lin_complete env (s0 : mfs) (progs : list (list op)) sched :
  let c := run _ _ _ (mstep env) (init _ _ _ s0 progs) sched in
  (forall t th, nth_error (thr _ _ _ c) t = Some th -> todo _ _ th = [] /\ ph _ _ th = Idle _) ->
  forall t i o, nth_error (nth t progs []) i = Some o -> exists x, In x (lin _ _ _ c) /\ c_t _ _ x = t /\ c_i _ _ x = i /\ c_o _ _ x = o.
Proof. exact (lin_complete _ _ _ (mstep env) progs s0 sched). Qed.

Lemma memfs_lin_once env (s0 : mfs) (progs : list (list op)) sched x y :
  let c := run _ _ _ (mstep env) (init _ _ _ s0 progs) sched in
  In x (lin _ _ _ c) -> In y (lin _ _ _ c) -> c_t _ _ x = c_t _ _ y -> c_i _ _ x = c_i _ _ y -> x = y.
Proof. exact (lin_once _ _ _ (mstep env) progs s0 sched x y). Qed.

Lemma memfs_cs_no_panic env m o : snd (mstep env m o) <> Panic.
Proof. unfold mstep. pose proof (step_no_panic env m o). destruct (step env m o) as [[m' r]| |]; cbn; congruence. Qed.

(* non-vacuity: two threads, three calls, one concrete schedule *)
Example memfs_run_example :
  let progs := [[OMkdirP [47; 100]%N; OExists [47; 100]%N]; [OIsDir [47; 100]%N]] in
  let c := run _ _ _ (mstep (fun _ => None)) (init _ _ _ mfs_init progs) [0; 1; 0; 1; 0; 1; 0; 1; 0; 1; 0; 1; 0; 1; 0; 1; 0; 1; 0; 1; 0; 0; 1; 1] in
  List.length (lin _ _ _ c) = 3.
Proof. vm_compute. reflexivity. Qed.

(* Conc/Lin.v — C04: threads sharing one lock-protected object.
   Every call of a thread goes through four moves: it is invoked, it gets the lock, it runs its single critical
   section (the sequential step function, atomically) and releases the lock, and it responds.  A scheduler
   picks, move by move, which thread goes next; a thread waiting for a lock somebody else holds cannot move.
   A global clock stamps every move.  For EVERY schedule:
     - the calls, in the order of their critical sections, replayed sequentially from the initial state give
       exactly the results the threads saw and the final state                       (lin_replay)
     - that order keeps every thread's program order and runs the thread's own calls  (lin_program_order)
     - and real-time precedence: a call that responded before another one was invoked
       has its critical section first                                               (lin_real_time)
     - whenever some thread has work left, some thread can move                      (progress: no deadlock)
   The only assumption about the implementation is the discipline built into this model: one critical section
   per call and no request for the lock while holding it.  Gen/Locks.v, regenerated from the source on every
   run, is checked for exactly that (Conc/LockTable.v). *)
From Coq Require Import List Arith Lia Bool.
Import ListNotations.

Section Lin.
Variables (state op res : Type).
Variable step : state -> op -> state * res.

Inductive phase := Idle | Waiting | Holding | Executed (r : res).

Record thread := { todo : list op; ph : phase; donec : nat; tinv : nat }.

(* a call: thread, index in the thread's program, operation, result, time of invocation, time of critical section *)
Record call := { c_t : nat; c_i : nat; c_o : op; c_r : res; c_inv : nat; c_cs : nat }.

Record config := {
  st : state; lock : option nat; thr : list thread; now : nat;
  cslog : list call;                    (* newest first *)
  resplog : list (nat * nat * nat)      (* (thread, index, time of response) *)
}.

Definition set_thread (c : config) (t : nat) (th : thread) : list thread :=
  firstn t (thr c) ++ th :: skipn (S t) (thr c).

(* one move of thread t; None when it cannot move *)
Definition move (c : config) (t : nat) : option config :=
  match nth_error (thr c) t with
  | None => None
  | Some th =>
      match ph th, todo th with
      | Idle, _ :: _ =>
          Some {| st := st c; lock := lock c; now := S (now c); cslog := cslog c; resplog := resplog c;
                  thr := set_thread c t {| todo := todo th; ph := Waiting; donec := donec th; tinv := now c |} |}
      | Idle, [] => None
      | Waiting, _ =>
          match lock c with
          | None => Some {| st := st c; lock := Some t; now := S (now c); cslog := cslog c; resplog := resplog c;
                            thr := set_thread c t {| todo := todo th; ph := Holding; donec := donec th; tinv := tinv th |} |}
          | Some _ => None
          end
      | Holding, o :: _ =>
          let '(s', r) := step (st c) o in
          Some {| st := s'; lock := None; now := S (now c); resplog := resplog c;
                  cslog := {| c_t := t; c_i := donec th; c_o := o; c_r := r; c_inv := tinv th; c_cs := now c |} :: cslog c;
                  thr := set_thread c t {| todo := todo th; ph := Executed r; donec := donec th; tinv := tinv th |} |}
      | Holding, [] => None
      | Executed r, _ =>
          Some {| st := st c; lock := lock c; now := S (now c); cslog := cslog c;
                  resplog := (t, donec th, now c) :: resplog c;
                  thr := set_thread c t {| todo := tl (todo th); ph := Idle; donec := S (donec th); tinv := tinv th |} |}
      end
  end.

(* a schedule is a list of thread ids; moves that are not possible are skipped *)
Fixpoint run (c : config) (sched : list nat) : config :=
  match sched with
  | [] => c
  | t :: rest => run (match move c t with Some c' => c' | None => c end) rest
  end.

Definition init (s : state) (progs : list (list op)) : config :=
  {| st := s; lock := None; now := 0; cslog := []; resplog := [];
     thr := map (fun p => {| todo := p; ph := Idle; donec := 0; tinv := 0 |}) progs |}.

(* the linearization: calls in the order of their critical sections, oldest first *)
Definition lin (c : config) : list call := rev (cslog c).

Fixpoint replay (s : state) (os : list op) : state * list res :=
  match os with
  | [] => (s, [])
  | o :: rest => let '(s1, r) := step s o in let '(s2, rs) := replay s1 rest in (s2, r :: rs)
  end.

Lemma replay_app s os o :
  replay s (os ++ [o]) = let '(s1, rs) := replay s os in let '(s2, r) := step s1 o in (s2, rs ++ [r]).
Proof.
  revert s; induction os as [|x xs IH]; intros s; cbn [replay app].
  - destruct (step s o); reflexivity.
  - destruct (step s x) as [s1 r1]. rewrite IH. destruct (replay s1 xs) as [s2 rs]. destruct (step s2 o); reflexivity.
Qed.

(* ---- 1. sequential replay ---- *)
Definition replay_inv (s0 : state) (c : config) : Prop :=
  replay s0 (map c_o (lin c)) = (st c, map c_r (lin c)).

Lemma move_replay s0 c t c' : replay_inv s0 c -> move c t = Some c' -> replay_inv s0 c'.
Proof.
  unfold replay_inv, move, lin. intros Hinv Hm.
  destruct (nth_error (thr c) t) as [th|]; [|discriminate].
  destruct (ph th) eqn:Hp; destruct (todo th) as [|o os] eqn:Ht; try discriminate;
    try (destruct (lock c); [discriminate|]); try (injection Hm as <-; exact Hinv).
  destruct (step (st c) o) as [s' r] eqn:Hs. injection Hm as <-. cbn [cslog st rev].
  rewrite !map_app. cbn [map c_o c_r]. rewrite replay_app, Hinv, Hs. reflexivity.
Qed.

Theorem lin_replay s0 progs sched :
  let c := run (init s0 progs) sched in replay s0 (map c_o (lin c)) = (st c, map c_r (lin c)).
Proof.
  cbn zeta. assert (H : replay_inv s0 (init s0 progs)) by reflexivity.
  revert H. generalize (init s0 progs). induction sched as [|t rest IH]; intros c H; cbn [run]; [exact H|].
  apply IH. destruct (move c t) as [c'|] eqn:Hm; [eapply move_replay; eauto | exact H].
Qed.

(* ---- 2. the invariant behind the order properties ---- *)
Variable progs : list (list op).

Definition prog (t : nat) : list op := nth t progs [].

Record Inv (c : config) : Prop := {
  (* every recorded call was invoked before its critical section, which lies in the past *)
  i_times : forall x, In x (cslog c) -> c_inv x < c_cs x /\ c_cs x < now c;
  (* the log is in the order of the critical sections, and within a thread in the order of the program *)
  i_sorted : forall l1 x l2, cslog c = l1 ++ x :: l2 -> forall y, In y l2 -> c_cs y < c_cs x /\ (c_t y = c_t x -> c_i y < c_i x);
  (* responses lie in the past and belong to calls their thread has completed *)
  i_resp : forall t i tr, In (t, i, tr) (resplog c) -> tr < now c /\ exists th, nth_error (thr c) t = Some th /\ i < donec th;
  (* a response comes after the critical section of its call *)
  i_cs_resp : forall x tr, In x (cslog c) -> In (c_t x, c_i x, tr) (resplog c) -> c_cs x < tr;
  (* a recorded call is a call of its thread's program, completed or just executed *)
  i_call : forall x, In x (cslog c) -> exists th, nth_error (thr c) (c_t x) = Some th /\
             (c_i x < donec th \/ (c_i x = donec th /\ exists r, ph th = Executed r)) /\
             nth_error (prog (c_t x)) (c_i x) = Some (c_o x);
  (* thread bookkeeping *)
  i_thr : forall t th, nth_error (thr c) t = Some th ->
             todo th = skipn (donec th) (prog t) /\ (ph th <> Idle -> tinv th < now c) /\
             (ph th = Holding -> lock c = Some t) /\ (ph th <> Idle -> todo th <> []);
  (* the lock is held by a thread in its critical section, and only by it *)
  i_lock : forall t, lock c = Some t -> exists th, nth_error (thr c) t = Some th /\ ph th = Holding
}.

Lemma nth_error_firstn' {A} (l : list A) n u : u < n -> nth_error (firstn n l) u = nth_error l u.
Proof. revert l u; induction n as [|n IH]; intros [|a l] [|u] H; cbn; try reflexivity; try lia. apply IH. lia. Qed.

Lemma nth_error_skipn' {A} (l : list A) n k : nth_error (skipn n l) k = nth_error l (n + k).
Proof. revert l; induction n as [|n IH]; intros [|a l]; cbn; try reflexivity; [destruct k; reflexivity | apply IH]. Qed.

Lemma nth_error_set_thread c t th th' u :
  nth_error (thr c) t = Some th ->
  nth_error (set_thread c t th') u = if Nat.eqb u t then Some th' else nth_error (thr c) u.
Proof.
  intros Hn. unfold set_thread.
  assert (Hlt : t < length (thr c)) by (apply nth_error_Some; congruence).
  destruct (Nat.eqb_spec u t) as [->|Hne].
  - rewrite nth_error_app2 by (rewrite firstn_length; lia). rewrite firstn_length, Nat.min_l by lia. rewrite Nat.sub_diag. reflexivity.
  - destruct (Nat.lt_ge_cases u t) as [Hlt'|Hge].
    + rewrite nth_error_app1 by (rewrite firstn_length; lia). apply nth_error_firstn'. exact Hlt'.
    + rewrite nth_error_app2 by (rewrite firstn_length; lia). rewrite firstn_length, Nat.min_l by lia.
      destruct (u - t) as [|k] eqn:Hk; [lia|]. cbn [nth_error]. rewrite nth_error_skipn'. f_equal. lia.
Qed.

Lemma skipn_S_tl {A} n (l : list A) : skipn (S n) l = tl (skipn n l).
Proof.
  revert l; induction n as [|n IH]; intros l.
  - destruct l; reflexivity.
  - destruct l as [|a l]; [destruct n; reflexivity|]. change (skipn (S (S n)) (a :: l)) with (skipn (S n) l).
    change (skipn (S n) (a :: l)) with (skipn n l). apply IH.
Qed.

Lemma skipn_cons_nth {A} n (l : list A) o os : skipn n l = o :: os -> nth_error l n = Some o.
Proof. revert l; induction n as [|n IH]; intros [|a l] H; cbn in *; try discriminate; [congruence | apply IH; exact H]. Qed.

Ltac thr_cases Hn Hu u t := rewrite (nth_error_set_thread _ _ _ _ u Hn) in Hu; destruct (Nat.eqb_spec u t) as [->|?].

Lemma move_inv c t c' : Inv c -> move c t = Some c' -> Inv c'.
Proof.
  intros I Hm. unfold move in Hm.
  destruct (nth_error (thr c) t) as [th|] eqn:Hn; [|discriminate].
  destruct (i_thr c I t th Hn) as (Htodo & Htinv & Hhold & Hne).
  destruct (ph th) eqn:Hp; destruct (todo th) as [|o os] eqn:Ht; try discriminate.
  - (* invoke *)
    injection Hm as <-. constructor; cbn [cslog resplog now thr lock].
    + intros x Hx. destruct (i_times c I x Hx). lia.
    + apply (i_sorted c I).
    + intros u i tr Hin. destruct (i_resp c I u i tr Hin) as (H1 & th' & H2 & H3). split; [lia|].
      destruct (Nat.eq_dec u t) as [->|Hu]; [|exists th'; rewrite (nth_error_set_thread _ _ _ _ u Hn); destruct (Nat.eqb_spec u t); [lia | auto]].
      rewrite (nth_error_set_thread _ _ _ _ t Hn), Nat.eqb_refl. eexists; split; [reflexivity|]. cbn. congruence.
    + apply (i_cs_resp c I).
    + intros x Hx. destruct (i_call c I x Hx) as (th' & H1 & H2 & H3).
      rewrite (nth_error_set_thread _ _ _ _ (c_t x) Hn). destruct (Nat.eqb_spec (c_t x) t) as [He|He].
      * rewrite He in H1. assert (th' = th) as -> by congruence. eexists; split; [reflexivity|]. cbn. split; [|exact H3].
        destruct H2 as [H2|[_ [r H2]]]; [left; exact H2 | congruence].
      * eauto.
    + intros u th' Hu. thr_cases Hn Hu u t.
      * injection Hu as <-. cbn. repeat split; try congruence; try lia; try (intros _; rewrite Ht; discriminate).
      * destruct (i_thr c I u th' Hu) as (A & B & C & D). repeat split; auto. intros H. specialize (B H). lia.
    + intros u Hl. destruct (i_lock c I u Hl) as (th' & H1 & H2). destruct (Nat.eq_dec u t) as [->|Hu].
      * congruence.
      * exists th'. rewrite (nth_error_set_thread _ _ _ _ u Hn). destruct (Nat.eqb_spec u t); [lia | auto].
  - (* a waiting thread always has a call *) exfalso. apply Hne; [congruence | reflexivity].
  - (* acquire *)
    destruct (lock c) eqn:Hl; [discriminate|]. injection Hm as <-. constructor; cbn [cslog resplog now thr lock].
    + intros x Hx. destruct (i_times c I x Hx). lia.
    + apply (i_sorted c I).
    + intros u i tr Hin. destruct (i_resp c I u i tr Hin) as (H1 & th' & H2 & H3). split; [lia|].
      destruct (Nat.eq_dec u t) as [->|Hu]; [|exists th'; rewrite (nth_error_set_thread _ _ _ _ u Hn); destruct (Nat.eqb_spec u t); [lia | auto]].
      rewrite (nth_error_set_thread _ _ _ _ t Hn), Nat.eqb_refl. eexists; split; [reflexivity|]. cbn. congruence.
    + apply (i_cs_resp c I).
    + intros x Hx. destruct (i_call c I x Hx) as (th' & H1 & H2 & H3).
      rewrite (nth_error_set_thread _ _ _ _ (c_t x) Hn). destruct (Nat.eqb_spec (c_t x) t) as [He|He].
      * rewrite He in H1. assert (th' = th) as -> by congruence. eexists; split; [reflexivity|]. cbn. split; [|exact H3].
        destruct H2 as [H2|[_ [r H2]]]; [left; exact H2 | congruence].
      * eauto.
    + intros u th' Hu. thr_cases Hn Hu u t.
      * injection Hu as <-. cbn. assert (tinv th < now c) by (apply Htinv; congruence).
        repeat split; try congruence; try lia; try (intros _; rewrite Ht; discriminate).
      * destruct (i_thr c I u th' Hu) as (A & B & C & D). repeat split; auto.
        -- intros H. specialize (B H). lia.
        -- intros H. specialize (C H). congruence.
    + intros u Hl'. injection Hl' as <-. rewrite (nth_error_set_thread _ _ _ _ t Hn), Nat.eqb_refl. eexists; split; reflexivity.
  - (* critical section *)
    destruct (step (st c) o) as [s' r] eqn:Hs. injection Hm as <-.
    assert (Hti : tinv th < now c) by (apply Htinv; congruence).
    assert (Hold : forall y, In y (cslog c) -> c_cs y < now c /\ (c_t y = t -> c_i y < donec th)).
    { intros y Hy. split; [apply (i_times c I y Hy)|]. intros Hyt. destruct (i_call c I y Hy) as (th' & H1 & H2 & _).
      rewrite Hyt in H1. assert (th' = th) as -> by congruence. destruct H2 as [H2|[_ [r0 H2]]]; [exact H2 | congruence]. }
    constructor; cbn [cslog resplog now thr lock].
    + intros x [<-|Hx]; cbn; [lia|]. destruct (i_times c I x Hx). lia.
    + intros l1 x l2 Heq y Hy. destruct l1 as [|z l1]; cbn in Heq.
      * injection Heq as <- <-. cbn. apply Hold. exact Hy.
      * injection Heq as _ Heq. eapply (i_sorted c I); eauto.
    + intros u i tr Hin. destruct (i_resp c I u i tr Hin) as (H1 & th' & H2 & H3). split; [lia|].
      destruct (Nat.eq_dec u t) as [->|Hu]; [|exists th'; rewrite (nth_error_set_thread _ _ _ _ u Hn); destruct (Nat.eqb_spec u t); [lia | auto]].
      rewrite (nth_error_set_thread _ _ _ _ t Hn), Nat.eqb_refl. eexists; split; [reflexivity|]. cbn. congruence.
    + intros x tr [<-|Hx] Hin; cbn in *.
      * destruct (i_resp c I _ _ _ Hin) as (_ & th' & H2 & H3). assert (th' = th) as -> by congruence. lia.
      * eapply (i_cs_resp c I); eauto.
    + intros x [<-|Hx]; cbn.
      * rewrite (nth_error_set_thread _ _ _ _ t Hn), Nat.eqb_refl. eexists; split; [reflexivity|]. cbn. split; [right; eauto|].
        unfold prog in *. eapply skipn_cons_nth. symmetry. exact Htodo.
      * destruct (i_call c I x Hx) as (th' & H1 & H2 & H3).
        rewrite (nth_error_set_thread _ _ _ _ (c_t x) Hn). destruct (Nat.eqb_spec (c_t x) t) as [He|He].
        -- rewrite He in H1. assert (th' = th) as -> by congruence. eexists; split; [reflexivity|]. cbn. split; [|exact H3].
           destruct H2 as [H2|[_ [r0 H2]]]; [left; exact H2 | congruence].
        -- eauto.
    + intros u th' Hu. thr_cases Hn Hu u t.
      * injection Hu as <-. cbn. repeat split; try congruence; try lia; try (intros _; rewrite Ht; discriminate).
      * destruct (i_thr c I u th' Hu) as (A & B & C & D). repeat split; auto.
        -- intros H. specialize (B H). lia.
        -- intros H. specialize (C H). rewrite (Hhold eq_refl) in C. congruence.
    + discriminate.
  - (* an executed call is still at the head of the program *) exfalso. apply Hne; [congruence | reflexivity].
  - (* respond *)
    injection Hm as <-. constructor; cbn [cslog resplog now thr lock].
    + intros x Hx. destruct (i_times c I x Hx). lia.
    + apply (i_sorted c I).
    + intros u i tr [Heq|Hin].
      * injection Heq as <- <- <-. split; [lia|]. rewrite (nth_error_set_thread _ _ _ _ t Hn), Nat.eqb_refl. eexists; split; [reflexivity|]. cbn. lia.
      * destruct (i_resp c I u i tr Hin) as (H1 & th' & H2 & H3). split; [lia|].
        destruct (Nat.eq_dec u t) as [->|Hu]; [|exists th'; rewrite (nth_error_set_thread _ _ _ _ u Hn); destruct (Nat.eqb_spec u t); [lia | auto]].
        rewrite (nth_error_set_thread _ _ _ _ t Hn), Nat.eqb_refl. eexists; split; [reflexivity|]. cbn. assert (th' = th) by congruence. subst. lia.
    + intros x tr Hx [Heq|Hin].
      * injection Heq as _ _ <-. apply (i_times c I x Hx).
      * eapply (i_cs_resp c I); eauto.
    + intros x Hx. destruct (i_call c I x Hx) as (th' & H1 & H2 & H3).
      rewrite (nth_error_set_thread _ _ _ _ (c_t x) Hn). destruct (Nat.eqb_spec (c_t x) t) as [He|He].
      * rewrite He in H1. assert (th' = th) as -> by congruence. eexists; split; [reflexivity|]. cbn. split; [|exact H3]. left. lia.
      * eauto.
    + intros u th' Hu. thr_cases Hn Hu u t.
      * injection Hu as <-. cbn [todo ph donec tinv]. repeat split; try congruence. rewrite skipn_S_tl, <- Htodo. reflexivity.
      * destruct (i_thr c I u th' Hu) as (A & B & C & D). repeat split; auto. intros H. specialize (B H). lia.
    + intros u Hl. destruct (i_lock c I u Hl) as (th' & H1 & H2). destruct (Nat.eq_dec u t) as [->|Hu].
      * congruence.
      * exists th'. rewrite (nth_error_set_thread _ _ _ _ u Hn). destruct (Nat.eqb_spec u t); [lia | auto].
Qed.

Lemma init_inv s : Inv (init s progs).
Proof.
  constructor; cbn [init cslog resplog thr lock now]; try (intros; contradiction); try discriminate.
  - intros l1 x l2 H. destruct l1; discriminate.
  - intros t th Hn. rewrite nth_error_map in Hn. unfold prog. destruct (nth_error progs t) as [p|] eqn:Hp; [|discriminate].
    injection Hn as <-. cbn. rewrite (nth_error_nth _ _ _ Hp). repeat split; congruence.
Qed.

Lemma run_inv c sched : Inv c -> Inv (run c sched).
Proof.
  revert c; induction sched as [|t rest IH]; intros c H; cbn [run]; [exact H|].
  apply IH. destruct (move c t) as [c'|] eqn:Hm; [eapply move_inv; eauto | exact H].
Qed.

(* "x comes before y" in a list *)
Definition precedes {A} (l : list A) (x y : A) : Prop := exists l1 l2 l3, l = l1 ++ x :: l2 ++ y :: l3.

Lemma precedes_rev {A} (l : list A) x y : precedes l y x -> precedes (rev l) x y.
Proof.
  intros (l1 & l2 & l3 & ->). exists (rev l3), (rev l2), (rev l1).
  rewrite rev_app_distr. cbn [rev]. rewrite rev_app_distr. cbn [rev]. rewrite <- !app_assoc. reflexivity.
Qed.

(* two different entries of a list occur in one order or the other *)
Lemma in_two {A} (l : list A) x y : In x l -> In y l -> x = y \/ precedes l x y \/ precedes l y x.
Proof.
  intros Hx Hy. apply in_split in Hx as (l1 & l2 & ->). apply in_app_or in Hy as [Hy|[Hy|Hy]].
  - apply in_split in Hy as (m1 & m2 & ->). right; right. exists m1, m2, l2. rewrite <- app_assoc. reflexivity.
  - left. exact Hy.
  - apply in_split in Hy as (m1 & m2 & ->). right; left. exists l1, m1, m2. reflexivity.
Qed.

(* ---- 3. real-time precedence ---- *)
Theorem lin_real_time s0 sched xa xb tr :
  let c := run (init s0 progs) sched in
  In xa (lin c) -> In xb (lin c) ->
  In (c_t xa, c_i xa, tr) (resplog c) ->      (* call a responded at time tr ... *)
  tr < c_inv xb ->                            (* ... before call b was invoked *)
  precedes (lin c) xa xb.
Proof.
  cbn zeta. set (c := run (init s0 progs) sched). pose proof (run_inv _ sched (init_inv s0)) as I. fold c in I.
  unfold lin. intros Ha Hb Hr Hlt. apply in_rev in Ha, Hb.
  assert (Hcs : c_cs xa < c_cs xb).
  { pose proof (i_cs_resp c I xa tr Ha Hr). destruct (i_times c I xb Hb). lia. }
  destruct (in_two (cslog c) xa xb Ha Hb) as [->|[H|H]]; [lia | | apply precedes_rev; exact H].
  destruct H as (l1 & l2 & l3 & Heq). exfalso.
  destruct (i_sorted c I l1 xa (l2 ++ xb :: l3) Heq xb) as [H _]; [apply in_or_app; right; left; reflexivity | lia].
Qed.

(* ---- 4. program order: a thread's calls appear in the order of its program, and are its program's calls ---- *)
Theorem lin_program_order s0 sched x y :
  let c := run (init s0 progs) sched in
  precedes (lin c) x y -> c_t x = c_t y -> c_i x < c_i y.
Proof.
  cbn zeta. set (c := run (init s0 progs) sched). pose proof (run_inv _ sched (init_inv s0)) as I. fold c in I.
  unfold lin. intros (l1 & l2 & l3 & Heq) Ht.
  assert (Hc : cslog c = rev l3 ++ y :: rev l2 ++ x :: rev l1).
  { rewrite <- (rev_involutive (cslog c)), Heq. rewrite rev_app_distr. cbn [rev]. rewrite rev_app_distr. cbn [rev].
    rewrite <- !app_assoc. reflexivity. }
  destruct (i_sorted c I (rev l3) y (rev l2 ++ x :: rev l1) Hc x) as [_ H]; [apply in_or_app; right; left; reflexivity|].
  apply H. exact Ht.
Qed.

Theorem lin_calls_of_program s0 sched x :
  let c := run (init s0 progs) sched in
  In x (lin c) -> nth_error (prog (c_t x)) (c_i x) = Some (c_o x).
Proof.
  cbn zeta. intros Hx. apply in_rev in Hx.
  destruct (i_call _ (run_inv _ sched (init_inv s0)) x Hx) as (_ & _ & _ & H). exact H.
Qed.

(* ---- 5. progress: no reachable configuration is stuck while work remains ---- *)
Definition unfinished (th : thread) : Prop := todo th <> [] \/ ph th <> Idle.

Theorem progress s0 sched :
  let c := run (init s0 progs) sched in
  (exists t th, nth_error (thr c) t = Some th /\ unfinished th) -> exists t c', move c t = Some c'.
Proof.
  cbn zeta. set (c := run (init s0 progs) sched). pose proof (run_inv _ sched (init_inv s0)) as I. fold c in I.
  intros (t & th & Hn & Hu).
  destruct (lock c) as [h|] eqn:Hl.
  - (* the holder runs its critical section and releases *)
    destruct (i_lock c I h Hl) as (hh & Hh & Hph). exists h. unfold move. rewrite Hh, Hph.
    destruct (i_thr c I h hh Hh) as (_ & _ & _ & Hne). destruct (todo hh) as [|o os]; [exfalso; apply Hne; [congruence | reflexivity]|].
    destruct (step (st c) o). eauto.
  - (* the lock is free: any unfinished thread can move *)
    exists t. unfold move. rewrite Hn. destruct (i_thr c I t th Hn) as (_ & _ & Hhold & Hne).
    destruct (ph th) eqn:Hp.
    + destruct Hu as [Hu|Hu]; [|congruence]. destruct (todo th); [congruence | eauto].
    + rewrite Hl. eauto.
    + specialize (Hhold eq_refl). congruence.
    + eauto.
Qed.

(* ---- completeness: every call a thread has executed is in the log, once ---- *)
Definition Complete (c : config) : Prop :=
  length (thr c) = length progs /\
  forall t th, nth_error (thr c) t = Some th -> forall i,
    (i < donec th \/ (i = donec th /\ exists r, ph th = Executed r)) -> exists x, In x (cslog c) /\ c_t x = t /\ c_i x = i.

Lemma set_thread_length c t th th' : nth_error (thr c) t = Some th -> length (set_thread c t th') = length (thr c).
Proof.
  intros Hn. assert (Hlt : t < length (thr c)) by (apply nth_error_Some; congruence).
  unfold set_thread. rewrite app_length, firstn_length, Nat.min_l by lia. cbn [length]. rewrite skipn_length. lia.
Qed.

Lemma move_complete c t c' : Complete c -> move c t = Some c' -> Complete c'.
Proof.
  intros [Hlen HC] Hm. unfold move in Hm.
  destruct (nth_error (thr c) t) as [th|] eqn:Hn; [|discriminate].
  destruct (ph th) eqn:Hp; destruct (todo th) as [|o os] eqn:Ht; try discriminate.
  - (* Idle -> Waiting *)
    injection Hm as <-. split; [cbn [thr]; rewrite (set_thread_length _ _ _ _ Hn); exact Hlen|]. cbn [thr cslog].
    intros u thu Hu i Hi. thr_cases Hn Hu u t.
    + injection Hu as <-. cbn [donec ph] in Hi. destruct Hi as [Hi|[_ [r Hr]]]; [|discriminate]. apply (HC t th Hn i). left. exact Hi.
    + apply (HC u thu Hu i Hi).
  - (* Waiting -> Holding *)
    destruct (lock c); [discriminate|]. injection Hm as <-. split; [cbn [thr]; rewrite (set_thread_length _ _ _ _ Hn); exact Hlen|]. cbn [thr cslog].
    intros u thu Hu i Hi. thr_cases Hn Hu u t.
    + injection Hu as <-. cbn [donec ph] in Hi. destruct Hi as [Hi|[_ [r Hr]]]; [|discriminate]. apply (HC t th Hn i). left. exact Hi.
    + apply (HC u thu Hu i Hi).
  - destruct (lock c); [discriminate|]. injection Hm as <-. split; [cbn [thr]; rewrite (set_thread_length _ _ _ _ Hn); exact Hlen|]. cbn [thr cslog].
    intros u thu Hu i Hi. thr_cases Hn Hu u t.
    + injection Hu as <-. cbn [donec ph] in Hi. destruct Hi as [Hi|[_ [r Hr]]]; [|discriminate]. apply (HC t th Hn i). left. exact Hi.
    + apply (HC u thu Hu i Hi).
  - (* Holding -> Executed: the call is logged *)
    destruct (step (st c) o) as [s' r]. injection Hm as <-. split; [cbn [thr]; rewrite (set_thread_length _ _ _ _ Hn); exact Hlen|]. cbn [thr cslog].
    intros u thu Hu i Hi. thr_cases Hn Hu u t.
    + injection Hu as <-. cbn [donec ph] in Hi. destruct Hi as [Hi|[-> _]].
      * destruct (HC t th Hn i (or_introl Hi)) as (x & Hx & H1 & H2). exists x. split; [right; exact Hx|]. split; assumption.
      * eexists. split; [left; reflexivity|]. split; reflexivity.
    + destruct (HC u thu Hu i Hi) as (x & Hx & H1 & H2). exists x. split; [right; exact Hx|]. split; assumption.
  - (* Executed -> Idle: the index advances *)
    injection Hm as <-. split; [cbn [thr]; rewrite (set_thread_length _ _ _ _ Hn); exact Hlen|]. cbn [thr cslog].
    intros u thu Hu i Hi. thr_cases Hn Hu u t.
    + injection Hu as <-. cbn [donec ph] in Hi. destruct Hi as [Hi|[_ [r' Hr]]]; [|discriminate].
      apply (HC t th Hn i). destruct (Nat.eq_dec i (donec th)) as [->|Hne]; [right; split; [reflexivity|eauto]|left; lia].
    + apply (HC u thu Hu i Hi).
  - injection Hm as <-. split; [cbn [thr]; rewrite (set_thread_length _ _ _ _ Hn); exact Hlen|]. cbn [thr cslog].
    intros u thu Hu i Hi. thr_cases Hn Hu u t.
    + injection Hu as <-. cbn [donec ph] in Hi. destruct Hi as [Hi|[_ [r' Hr]]]; [|discriminate].
      apply (HC t th Hn i). destruct (Nat.eq_dec i (donec th)) as [->|Hne]; [right; split; [reflexivity|eauto]|left; lia].
    + apply (HC u thu Hu i Hi).
Qed.

Lemma init_complete s : Complete (init s progs).
Proof.
  split; [cbn; apply map_length|]. cbn [init thr cslog]. intros t th Hn i Hi. rewrite nth_error_map in Hn.
  destruct (nth_error progs t); [|discriminate]. injection Hn as <-. cbn in Hi. destruct Hi as [Hi|[_ [r Hr]]]; [lia|discriminate].
Qed.

Lemma run_complete c sched : Complete c -> Complete (run c sched).
Proof.
  revert c; induction sched as [|t rest IH]; intros c H; cbn [run]; [exact H|].
  apply IH. destruct (move c t) as [c'|] eqn:Hm; [eapply move_complete; eauto | exact H].
Qed.

(* when every thread has finished, every call of every program is in the linearization - exactly once *)
Theorem lin_complete s0 sched :
  let c := run (init s0 progs) sched in
  (forall t th, nth_error (thr c) t = Some th -> todo th = [] /\ ph th = Idle) ->
  forall t i o, nth_error (prog t) i = Some o -> exists x, In x (lin c) /\ c_t x = t /\ c_i x = i /\ c_o x = o.
Proof.
  cbn zeta. set (c := run (init s0 progs) sched). intros Hfin t i o Ho.
  pose proof (run_inv _ sched (init_inv s0)) as I. fold c in I.
  destruct (run_complete _ sched (init_complete s0)) as [Hlen HC]. fold c in Hlen, HC.
  assert (Ht : t < length progs).
  { unfold prog in Ho. destruct (Nat.lt_ge_cases t (length progs)) as [H|H]; [exact H|]. rewrite nth_overflow in Ho by exact H. destruct i; discriminate. }
  destruct (nth_error (thr c) t) as [th|] eqn:Hn; [|apply nth_error_None in Hn; lia].
  destruct (Hfin t th Hn) as [Htodo Hph]. destruct (i_thr c I t th Hn) as (Hsk & _).
  assert (Hi : i < donec th).
  { rewrite Htodo in Hsk. assert (Hl : i < length (prog t)) by (apply nth_error_Some; congruence).
    destruct (Nat.lt_ge_cases i (donec th)) as [H|H]; [exact H|]. exfalso.
    assert (length (skipn (donec th) (prog t)) = 0) by (rewrite <- Hsk; reflexivity). rewrite skipn_length in H0. lia. }
  destruct (HC t th Hn i (or_introl Hi)) as (x & Hx & H1 & H2).
  exists x. split; [unfold lin; apply in_rev in Hx; rewrite <- in_rev; apply in_rev; exact Hx|]. split; [exact H1|]. split; [exact H2|].
  destruct (i_call c I x Hx) as (_ & _ & _ & Hc). rewrite H1, H2 in Hc. congruence.
Qed.

Theorem lin_once s0 sched x y :
  let c := run (init s0 progs) sched in
  In x (lin c) -> In y (lin c) -> c_t x = c_t y -> c_i x = c_i y -> x = y.
Proof.
  cbn zeta. set (c := run (init s0 progs) sched). intros Hx Hy Ht Hi.
  pose proof (run_inv _ sched (init_inv s0)) as I. fold c in I.
  unfold lin in Hx, Hy. apply in_rev in Hx. apply in_rev in Hy.
  destruct (in_two _ x y Hx Hy) as [E|[(l1 & l2 & l3 & E)|(l1 & l2 & l3 & E)]]; [exact E| |].
  - exfalso. destruct (i_sorted c I l1 x (l2 ++ y :: l3) E y ltac:(apply in_or_app; right; left; reflexivity)) as [_ H]. specialize (H (eq_sym Ht)). lia.
  - exfalso. destruct (i_sorted c I l1 y (l2 ++ x :: l3) E x ltac:(apply in_or_app; right; left; reflexivity)) as [_ H]. specialize (H Ht). lia.
Qed.

End Lin.

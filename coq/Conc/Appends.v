(* Conc/Appends.v — every concurrent append to one file is present exactly once in the final content (C04). For programs
   that only append to one existing regular file: whatever the schedule, the final content is the old content followed by
   the appended chunks in the order of the critical sections, and - once every thread has finished - every append call of
   every program is in that order exactly once. *)
From stdpp Require Import gmap.
From Coq Require Import NArith.
From RV Require Import Base.Str Path.Helpers Path.Expand Memfs.State Memfs.Ops Memfs.Step Memfs.Wf Memfs.WfMore Memfs.ContentFacts Conc.Lin Conc.MemfsConc.

Definition chunk (o : op) : list N := match o with OAppendAll _ d => d | _ => [] end.
Definition is_append_to (s : list N) (o : op) : Prop := ∃ d, o = OAppendAll s d.

(* appending to an existing regular file succeeds and extends its content *)
Lemma append_existing env m s p f old d : WF m → resolve env m s = inl p → m_ents m !! p = Some f → e_file f = true → e_link f = false → e_dir f = false →
  m_data m !! p = Some old →
  append_all_op env m s d = (upd_data m (insert p (old ++ d)), inl tt).
Proof.
  intros HW Hs Hf Hff Hfl Hfd Hd. unfold append_all_op. rewrite Hs.
  assert (Ha : add m (new_file p) = (m, inl p)).
  { unfold add. change (e_path (new_file p)) with p. destruct p as [|b dir].
    - destruct (wf_root m HW) as (r & Hr & [Hrd _]). rewrite Hf in Hr. injection Hr as <-. congruence.
    - destruct (wf_par m HW _ _ _ Hf) as (pe & Hpe & [Hpd Hpl] & _). rewrite Hpe, Hpd, Hpl. cbn [negb orb]. rewrite Hf.
      change (e_file (new_file (b :: dir))) with true. change (e_link (new_file (b :: dir))) with false. change (e_dir (new_file (b :: dir))) with false.
      rewrite Hff, Hfl. done. }
  rewrite Ha, Hd. done.
Qed.

Lemma replay_appends env s p f : ∀ (os : list op) m old, WF m → resolve env m s = inl p → m_ents m !! p = Some f → e_file f = true → e_link f = false → e_dir f = false →
  m_data m !! p = Some old → Forall (is_append_to s) os →
  m_data (replay _ _ _ (mstep env) m os).1 !! p = Some (old ++ List.concat (map chunk os)).
Proof.
  induction os as [|o os IH]; intros m old HW Hs Hf Hff Hfl Hfd Hd Hall; [cbn; by rewrite app_nil_r|].
  apply Forall_cons in Hall as [[d ->] Hall]. cbn [replay map List.concat chunk]. unfold mstep at 1. cbn [step].
  rewrite (append_existing env m s p f old d HW Hs Hf Hff Hfl Hfd Hd). cbn [lift_unit].
  set (m1 := upd_data m (insert p (old ++ d))).
  assert (HW1 : WF m1).
  { pose proof (append_all_wf env m s d HW) as H. rewrite (append_existing env m s p f old d HW Hs Hf Hff Hfl Hfd Hd) in H. exact H. }
  specialize (IH m1 (old ++ d) HW1 ltac:(exact Hs) Hf Hff Hfl Hfd ltac:(cbn; by rewrite lookup_insert) Hall).
  destruct (replay _ _ _ (mstep env) m1 os) as [m2 rs]. cbn [fst] in *. by rewrite IH, app_assoc.
Qed.

(* C04: the final content under any schedule *)
Theorem concurrent_appends env (s0 : mfs) (progs : list (list op)) (sched : list nat) s p f old :
  WF s0 → resolve env s0 s = inl p → m_ents s0 !! p = Some f → e_file f = true → e_link f = false → e_dir f = false → m_data s0 !! p = Some old →
  Forall (Forall (is_append_to s)) progs →
  let c := run _ _ _ (mstep env) (init _ _ _ s0 progs) sched in
  m_data (st _ _ _ c) !! p = Some (old ++ List.concat (map chunk (map (c_o _ _) (lin _ _ _ c)))).
Proof.
  intros HW Hs Hf Hff Hfl Hfd Hd Hprogs. cbn zeta. pose proof (memfs_replay env s0 progs sched) as Hr. cbn zeta in Hr.
  set (c := run _ _ _ (mstep env) (init _ _ _ s0 progs) sched) in *.
  assert (Hall : Forall (is_append_to s) (map (c_o _ _) (lin _ _ _ c))).
  { apply Forall_forall. intros o Ho. apply elem_of_list_fmap in Ho as (x & -> & Hx). apply elem_of_list_In in Hx.
    pose proof (memfs_calls_of_program env s0 progs sched x Hx) as Hc. cbn zeta in Hc.
    assert (Hin : In (c_o _ _ x) (nth (c_t _ _ x) progs [])) by (eapply nth_error_In; exact Hc).
    rewrite Forall_forall in Hprogs.
    destruct (Nat.lt_ge_cases (c_t _ _ x) (length progs)) as [Hlt|Hge]; [|rewrite nth_overflow in Hin by exact Hge; contradiction].
    pose proof (Hprogs (nth (c_t _ _ x) progs []) ltac:(apply elem_of_list_In, nth_In; exact Hlt)) as Hp. rewrite Forall_forall in Hp.
    apply Hp. by apply elem_of_list_In. }
  pose proof (replay_appends env s p f _ s0 old HW Hs Hf Hff Hfl Hfd Hd Hall) as H. rewrite Hr in H. exact H.
Qed.

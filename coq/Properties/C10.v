(* C10 — symlinks record their target faithfully and are never mistaken for the target.
   Proved on the mirror (Memfs/LinkFacts.v): symlink(link, target) stores under the link path a link
   entry whose absolute target is the resolved target (relative spellings taken from the link's
   directory), whose relative form is relative(target, dir(link)) and whose kind is the kind the
   target has at creation, so that right afterwards readlink_abs / readlink / is_symlink / is_file /
   is_dir / is_symlink_dir / is_symlink_file answer as the property says; link exclusion of the
   queries in every state; readlink/readlink_abs fail on a non-link; follow(true) swaps path and alt
   exactly once; (C16) the stored relative path navigates from the link's directory to the absolute
   target; and in every well-formed state remove, chown without follow and chmod without follow on a
   link act on the link itself and leave every other entry - the target included - untouched.  The
   clauses are also evaluated on the real code (streams symlink-laws, nofollow-frame); 'for as long
   as the target is unchanged' is the frame of the other calls (C01/C09). *)
From stdpp Require Import gmap.
From Coq Require Import NArith.
From RV Require Import Base.Str Base.PathLex Base.PathLexFacts Path.Clean Path.Relative Path.RelativeFacts Path.Helpers Path.Expand
  Memfs.State Memfs.Ops Memfs.Walk Memfs.WalkOps Memfs.Step Memfs.ContentFacts Memfs.Wf Memfs.LinkFacts.

Theorem C10_link_exclusion : forall env m s p e, resolve env m s = inl p -> m_ents m !! p = Some e -> e_link e = true ->
  step env m (OIsSymlink s) = Done (m, inl (VBool true)) /\
  step env m (OIsFile s) = Done (m, inl (VBool false)) /\
  step env m (OIsDir s) = Done (m, inl (VBool false)).
Proof. exact link_exclusion. Qed.
Print Assumptions C10_link_exclusion.

Theorem C10_readlink_nonlink : forall env m s p e, resolve env m s = inl p -> m_ents m !! p = Some e -> e_link e = false ->
  step env m (OReadlink s) = Done (m, inr EIsNotSymlink) /\ step env m (OReadlinkAbs s) = Done (m, inr EIsNotSymlink).
Proof. exact readlink_nonlink. Qed.
Print Assumptions C10_readlink_nonlink.

Theorem C10_follow_swaps_once : forall e, follow_e (follow_e e) = follow_e e.
Proof. exact follow_swaps_once. Qed.
Print Assumptions C10_follow_swaps_once.

(* the relative path stored for a link (relative(target, dir(link))) navigates from the link's
   directory to the target: cleaning dir(link)/readlink(link) gives readlink_abs(link) *)
Theorem C10_readlink_navigates : forall ts ds, Forall is_name ts -> Forall is_name ds -> ts <> ds ->
  clean (join (abs_path ds) (relative (abs_path ts) (abs_path ds))) = Done (abs_path ts).
Proof. exact relative_navigates. Qed.
Print Assumptions C10_readlink_navigates.

(* what symlink() stores *)
Theorem C10_symlink_records : forall env m l t m' lp, symlink_op env m l t = (m', inl lp) ->
  resolve env m l = inl lp /\ exists tp, resolve env m (link_target lp t) = inl tp /\
    m_ents m' !! lp = Some (new_link lp tp (match m_ents m !! tp with Some x => e_dir x | None => false end)) /\
    m_cwd m' = m_cwd m.
Proof. exact symlink_records. Qed.
Print Assumptions C10_symlink_records.

(* ... and what the queries answer right afterwards *)
Theorem C10_symlink_then_queries : forall env m l t m' lp, symlink_op env m l t = (m', inl lp) ->
  exists tp, resolve env m (link_target lp t) = inl tp /\
    step env m' (OReadlinkAbs l) = Done (m', inl (VPath (render_rpath tp))) /\
    step env m' (OReadlink l) = Done (m', inl (VPath (relative (render_rpath tp) (render_rpath (tail lp))))) /\
    step env m' (OIsSymlink l) = Done (m', inl (VBool true)) /\
    step env m' (OIsFile l) = Done (m', inl (VBool false)) /\
    step env m' (OIsDir l) = Done (m', inl (VBool false)) /\
    step env m' (OIsSymlinkDir l) = Done (m', inl (VBool (match m_ents m !! tp with Some x => e_dir x | None => false end))) /\
    step env m' (OIsSymlinkFile l) = Done (m', inl (VBool (negb (match m_ents m !! tp with Some x => e_dir x | None => false end)))).
Proof. exact symlink_then_queries. Qed.
Print Assumptions C10_symlink_then_queries.

(* remove acts on the link itself *)
Theorem C10_remove_link_only : forall env m s p r, WF m -> resolve env m s = inl p -> m_ents m !! p = Some r -> e_link r = true ->
  exists m' b d pe, p = b :: d /\ m_ents m !! d = Some pe /\ remove_op env m s = (m', inl tt) /\
    m_ents m' !! p = None /\ m_ents m' !! d = Some (entry_remove pe b) /\
    (forall q, q <> p -> q <> d -> m_ents m' !! q = m_ents m !! q) /\ (forall q, q <> p -> m_data m' !! q = m_data m !! q) /\ m_cwd m' = m_cwd m.
Proof. exact remove_link_only. Qed.
Print Assumptions C10_remove_link_only.

(* chown without follow acts on the link itself *)
Theorem C10_chown_link_only : forall env m s o p r, WF m -> co_follow o = false -> resolve env m s = inl p -> m_ents m !! p = Some r -> e_link r = true ->
  exists m', chown_op env m s o = Done (m', inl tt) /\ m_ents m' !! p = Some (set_owner r (co_uid o) (co_gid o)) /\
        (forall q, q <> p -> m_ents m' !! q = m_ents m !! q) /\ m_data m' = m_data m.
Proof. exact chown_link_only. Qed.
Print Assumptions C10_chown_link_only.

(* chmod without follow on a link changes nothing, the target included *)
Theorem C10_chmod_link_nofollow : forall env m s o p r, WF m -> ch_follow o = false -> resolve env m s = inl p -> m_ents m !! p = Some r -> e_link r = true ->
  exists res, chmod_op env m s o = Done (m, res).
Proof. exact chmod_link_nofollow. Qed.
Print Assumptions C10_chmod_link_nofollow.

(* C10 — symlinks record their target faithfully and are never mistaken for the target.
   Proved on the mirror: link exclusion of the queries, readlink/readlink_abs fail on a non-link,
   follow(true) swaps path and alt exactly once, and (C16) the stored relative path navigates from the
   link's directory to the absolute target.  The remaining clauses are evaluated on the real code
   (streams symlink-laws, nofollow-frame). *)
From stdpp Require Import gmap.
From Coq Require Import NArith.
From RV Require Import Base.Str Base.PathLex Base.PathLexFacts Path.Clean Path.Relative Path.RelativeFacts Path.Helpers Path.Expand
  Memfs.State Memfs.Ops Memfs.Walk Memfs.Step Memfs.ContentFacts.

Theorem C10_link_exclusion : forall env m s p e, resolve env m s = inl p -> m_ents m !! p = Some e -> e_link e = true ->
  step env m (OIsSymlink s) = Done (m, inl (VBool true)) /\
  step env m (OIsFile s) = Done (m, inl (VBool false)) /\
  step env m (OIsDir s) = Done (m, inl (VBool false)).
Proof. exact link_exclusion. Qed.
Print Assumptions C10_link_exclusion.

Theorem C10_readlink_nonlink : forall env m s p e, resolve env m s = inl p -> m_ents m !! p = Some e -> e_link e = false ->
  step env m (OReadlink s) = Done (m, inr EIsNotSymlink) /\ step env m (OReadlinkAbs s) = Done (m, inr EIsNotSymlink).
Proof. exact readlink_nonlink. Qed.
Print Assumptions C10_readlink_nonlink.

Theorem C10_follow_swaps_once : forall e, follow_e (follow_e e) = follow_e e.
Proof. exact follow_swaps_once. Qed.
Print Assumptions C10_follow_swaps_once.

(* the relative path stored for a link (relative(target, dir(link))) navigates from the link's
   directory to the target: cleaning dir(link)/readlink(link) gives readlink_abs(link) *)
Theorem C10_readlink_navigates : forall ts ds, Forall is_name ts -> Forall is_name ds -> ts <> ds ->
  clean (join (abs_path ds) (relative (abs_path ts) (abs_path ds))) = Done (abs_path ts).
Proof. exact relative_navigates. Qed.
Print Assumptions C10_readlink_navigates.

(* C13 — the Vfs and VfsEntry enums are transparent wrappers.
   Wrap/Routes.v is regenerated from src/sys/fs/vfs.rs, entry.rs and stdfs/vfs.rs on every run. *)
From Coq Require Import List String.
From RV Require Import Wrap.Routes Wrap.Transparent.

(* every VirtualFileSystem method is dispatched in both arms of Vfs by the identity route *)
Theorem C13_vfs_wrapper_ok : wrapper_ok vfs_routes vfs_trait_required = true.
Proof. exact vfs_wrapper_ok. Qed.
Print Assumptions C13_vfs_wrapper_ok.

(* every required Entry method is dispatched in both arms of VfsEntry by the identity route *)
Theorem C13_entry_wrapper_ok : wrapper_ok entry_routes entry_trait_required = true.
Proof. exact entry_wrapper_ok. Qed.
Print Assumptions C13_entry_wrapper_ok.

Theorem C13_stdfs_impl_ok : forallb route_is_identity stdfs_routes = true /\ unique_routes stdfs_routes = true.
Proof. exact stdfs_impl_ok. Qed.
Print Assumptions C13_stdfs_impl_ok.

(* default Entry methods are not overridden by a backend (so they compute the same over routed primitives) *)
Theorem C13_defaults_commute : defaults_ok = true.
Proof. exact defaults_commute. Qed.
Print Assumptions C13_defaults_commute.

(* for ANY backend semantics, state and argument list: an identity route returns exactly what the
   direct call returns and has exactly its effect *)
Theorem C13_wrapper_transparent : forall (state value : Type) (sem : string -> list value -> state -> state * value)
  rs a m args st r,
  find_route rs a m = Some r -> route_is_identity r = true -> List.length args = List.length (r_params r) ->
  wrap_sem state value sem rs a m args st = Some (sem m args st).
Proof. exact wrapper_transparent. Qed.
Print Assumptions C13_wrapper_transparent.

(* ... and therefore for every history *)
Theorem C13_history_transparent : forall (state value : Type) (sem : string -> list value -> state -> state * value)
  rs a h, Forall (call_ok value rs a) h -> forall st,
  run_wrapped state value sem rs a h st = Some (run_direct state value sem h st).
Proof. exact history_transparent. Qed.
Print Assumptions C13_history_transparent.

Theorem C13_find_route_identity : forall rs required, wrapper_ok rs required = true ->
  forall a m r, find_route rs a m = Some r -> route_is_identity r = true.
Proof. exact find_route_identity. Qed.
Print Assumptions C13_find_route_identity.

(* C01 — Memfs behaves as a tree filesystem for every operation history.
   PARTIAL.  What is proved here is about the line-by-line mirror (Memfs/Ops.v, Walk.v, WalkOps.v),
   which the correspondence check holds equal to the real Memfs state-for-state over the bounded
   universe: the mirror never panics, keeps the tree well-formed (C03), writes / appends / reads
   exactly the byte-vector model (C06), and a move_p that fails in its validation changes nothing.
   The refinement of the mirror to an independently written reference tree filesystem
   (Memfs/Spec.v in DESIGN §7 C01) is not yet a theorem; until then "equal to a plain reference tree
   filesystem" is carried by the statement's clauses evaluated on the code's own pre/post snapshots
   (tools/frames.py) and by the mirror comparison. *)
From stdpp Require Import gmap.
From Coq Require Import NArith.
From RV Require Import Base.Str Path.Helpers Path.Expand Memfs.State Memfs.Ops Memfs.Step Memfs.Wf Memfs.ContentFacts Memfs.MoveFacts.

Theorem C01_step_no_panic : forall env m o, step env m o <> Panic.
Proof. exact step_no_panic. Qed.
Print Assumptions C01_step_no_panic.

Theorem C01_history_keeps_wf_partial : forall env m o m' r, WF m -> is_move o = false -> step env m o = Done (m', r) -> WF m'.
Proof. exact wf_step_nonmove. Qed.
Print Assumptions C01_history_keeps_wf_partial.

Theorem C01_write_replaces : forall env m s d m' p, WF m -> resolve env m s = inl p ->
  write_all_op env m s d = (m', inl tt) ->
  m_data m' !! p = Some d /\ forall q, q <> p -> m_data m' !! q = m_data m !! q.
Proof. exact write_replaces. Qed.
Print Assumptions C01_write_replaces.

Theorem C01_failed_move_validation_frame : forall env m s d e, move_validation env m s d = inr e -> move_op env m s d = Done (m, inr e).
Proof. exact move_validation_complete. Qed.
Print Assumptions C01_failed_move_validation_frame.

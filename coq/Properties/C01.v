(* C01 — Memfs behaves as a tree filesystem for every operation history.
   Memfs/Spec.v is a plain reference tree filesystem written from the trait documentation: one flat map from absolute
   paths to nodes and a working directory, no child lists, no separate data index. Memfs/Refine.v proves that the
   line-by-line mirror of Memfs (three redundant indexes; held equal to the real Memfs state-for-state by the
   correspondence check) REFINES it for the single-target calls mkfile, mkdir_p / mkdir_m, write_all, append_all, reads,
   remove, remove_all, symlink and set_cwd and for the queries: from every state reachable by ANY history of calls (reachable states are well formed
   and kind-sound: C03 + Memfs/Kinds.v, both proved for every call) each of these calls returns exactly the reference
   call's value or error kind and leaves exactly the reference call's tree. move_p is specified exactly and proved in
   Memfs/WfMove.v (C09). remove_all (Memfs/RemoveAll.v) always
   succeeds off the root, with exactly the subtree gone. A single-target call that reports failure (mkfile, mkdir_p / mkdir_m,
   write_all, append_all, remove, symlink, set_cwd, move_p) leaves the three indexes exactly as they were (Memfs/MkdirFail.v:
   for mkdir, a failure can only come from an existing non-directory prefix, before anything was created). chown without
   follow refines the reference chown (Memfs/RefineChown.v). Memfs/RefineHistory.v puts the calls together: a reference
   filesystem working on the flat tree alone (it resolves its own path arguments against the tree's working directory), and
   the theorem that from every well-formed kind-sound state - the fresh filesystem in particular - ANY history of
   mkfile, mkdir_p, mkdir_m, write_all, write_lines, append_all, append_line, append_lines, read_all, read_lines, remove, remove_all (off the root), symlink, readlink, readlink_abs, move_p, set_cwd, cwd, abs, chown without follow, chmod without follow (octal or symbolic, every option set the grammar accepts and that leaves no node at value 0), mkfile_m, root, paths / dirs / files / all_paths / all_dirs / all_files, copy of a link-free source to a fresh destination or (a directory) into an existing directory, entries() sorted by name without follow / dirs_first / files_first / contents_first, exists / is_dir / is_file / is_symlink / is_symlink_dir / is_exec / is_readonly, mode / owner / uid / gid
   gives call by call exactly the reference's value or error kind and
   ends in exactly the reference's tree. PARTIAL: copy onto existing entries, of sources containing links or with follow, entries() unsorted or with follow / dirs_first / files_first / contents_first, and chmod / chown with follow are compared with the real code state-for-state
   and judged on pre/post snapshots, and proved safe (no panic, well formed, kind-sound), but their reference-level
   specification is not yet a theorem. *)
From stdpp Require Import gmap.
From Coq Require Import NArith.
From RV Require Import Base.Str Path.Helpers Path.Expand Memfs.State Memfs.Ops Memfs.Step Memfs.Wf Memfs.WfMore Memfs.WfMove
  Memfs.ContentFacts Memfs.MoveFacts Memfs.Spec Memfs.Refine Memfs.Kinds Memfs.RemoveAll Memfs.RefineMore Memfs.MkdirFail Memfs.RefineChown Memfs.RefineChmod Memfs.RefineList Memfs.RefineEntries Memfs.WalkLex Memfs.RefineCopy Memfs.Names Memfs.RefineMove Memfs.RefineHistory Memfs.Walk Memfs.WalkOps Macros.Asserts.

Theorem C01_step_no_panic : forall env m o, step env m o <> Panic.
Proof. exact step_no_panic. Qed.
Print Assumptions C01_step_no_panic.

(* every state any history reaches is well formed and kind-sound: the hypotheses of the refinement theorems below *)
Theorem C01_reachable_ok : forall env os m m', WF m -> kinds_ok m -> run_ops env m os = Some m' -> WF m' /\ kinds_ok m'.
Proof. exact reachable_ok. Qed.
Print Assumptions C01_reachable_ok.

Theorem C01_initial_ok : WF mfs_init /\ kinds_ok mfs_init.
Proof. exact (conj wf_init kinds_init). Qed.
Print Assumptions C01_initial_ok.

(* the refinement, call by call: same tree afterwards, same value / error kind *)
Theorem C01_mkfile_refines : forall m p, WF m -> kinds_ok m ->
  let '(m', r) := add m (new_file p) in
  abs m' = (spec_mkfile (abs m) p def_mode_file def_uid def_gid).1 /\ r = (spec_mkfile (abs m) p def_mode_file def_uid def_gid).2.
Proof. exact mkfile_refines. Qed.
Print Assumptions C01_mkfile_refines.

Theorem C01_write_all_refines : forall env m s d p, WF m -> kinds_ok m -> resolve env m s = inl p ->
  let '(m', r) := write_all_op env m s d in
  abs m' = (spec_write_all (abs m) p def_mode_file def_uid def_gid d).1 /\ r = (spec_write_all (abs m) p def_mode_file def_uid def_gid d).2.
Proof. exact write_all_refines. Qed.
Print Assumptions C01_write_all_refines.

Theorem C01_append_all_refines : forall env m s d p, WF m -> kinds_ok m -> resolve env m s = inl p ->
  let '(m', r) := append_all_op env m s d in
  abs m' = (spec_append_all (abs m) p def_mode_file def_uid def_gid d).1 /\ r = (spec_append_all (abs m) p def_mode_file def_uid def_gid d).2.
Proof. exact append_all_refines. Qed.
Print Assumptions C01_append_all_refines.

Theorem C01_read_refines : forall env m s p, WF m -> kinds_ok m -> resolve env m s = inl p -> clone_file env m s = spec_read (abs m) p.
Proof. exact read_refines. Qed.
Print Assumptions C01_read_refines.

Theorem C01_remove_refines : forall env m s p, WF m -> kinds_ok m -> resolve env m s = inl p ->
  let '(m', r) := remove_op env m s in abs m' = (spec_remove (abs m) p).1 /\ r = (spec_remove (abs m) p).2.
Proof. exact remove_refines. Qed.
Print Assumptions C01_remove_refines.

(* remove_all on anything but the root: always succeeds, and what is left is the reference tree without the subtree *)
Theorem C01_remove_all_refines : forall env m s p, WF m -> resolve env m s = inl p -> p <> [] ->
  exists m', remove_all_op env m s = Done (m', inl tt) /\ abs m' = (spec_remove_all (abs m) p).1.
Proof. exact remove_all_refines. Qed.
Print Assumptions C01_remove_all_refines.

(* the same at the level of the three indexes: entries and data under p are gone, the parent no longer lists p, everything
   else (cwd and root included) is untouched; a missing path changes nothing *)
Theorem C01_remove_all_exact : forall env m s p, WF m -> resolve env m s = inl p -> p <> [] ->
  exists m', remove_all_op env m s = Done (m', inl tt) /\ WF m' /\
        (m_ents m !! p = None -> m' = m) /\ (is_Some (m_ents m !! p) -> removed m p m').
Proof. exact remove_all_op_spec. Qed.
Print Assumptions C01_remove_all_exact.

Theorem C01_set_cwd_refines : forall env m s p, WF m -> kinds_ok m -> resolve env m s = inl p ->
  let '(m', r) := set_cwd_op env m s in abs m' = (spec_set_cwd (abs m) p).1 /\ r = (spec_set_cwd (abs m) p).2.
Proof. exact set_cwd_refines. Qed.
Print Assumptions C01_set_cwd_refines.

Theorem C01_mkdir_p_refines : forall m p mode, WF m -> kinds_ok m ->
  let '(m', r) := mkdir_m_abs m p mode in
  abs m' = (spec_mkdirs (abs m) ([] :: prefixes (rev p) []) (def_mode_dir mode) def_uid def_gid).1 /\
  r = (spec_mkdirs (abs m) ([] :: prefixes (rev p) []) (def_mode_dir mode) def_uid def_gid).2.
Proof. exact mkdir_p_refines. Qed.
Print Assumptions C01_mkdir_p_refines.

Theorem C01_symlink_refines : forall m lp tp, WF m -> kinds_ok m ->
  let to_dir := match m_ents m !! tp with Some x => e_dir x | None => false end in
  let e := new_link lp tp to_dir in
  let '(m', r) := if bool_decide (is_Some (m_ents m !! lp)) then (m, inr EExistsAlready)
                  else match lp with [] => (m, inr EParentNotFound) | _ => add m e end in
  abs m' = (spec_symlink (abs m) lp tp (e_mode e) def_uid def_gid (e_rel e)).1 /\
  r = (spec_symlink (abs m) lp tp (e_mode e) def_uid def_gid (e_rel e)).2.
Proof. exact symlink_refines. Qed.
Print Assumptions C01_symlink_refines.

Theorem C01_queries_refine : forall m p, kinds_ok m ->
  bool_decide (is_Some (m_ents m !! p)) = spec_exists (abs m) p /\
  is_dir_at m p = spec_is_dir (abs m) p /\ is_file_at m p = spec_is_file (abs m) p /\ is_symlink_at m p = spec_is_symlink (abs m) p.
Proof. exact queries_refine. Qed.
Print Assumptions C01_queries_refine.

(* "a single-target call that reports failure leaves the tree exactly as it was", for the reference calls themselves *)
Theorem C01_write_replaces : forall env m s d m' p, WF m -> resolve env m s = inl p ->
  write_all_op env m s d = (m', inl tt) ->
  m_data m' !! p = Some d /\ forall q, q <> p -> m_data m' !! q = m_data m !! q.
Proof. exact write_replaces. Qed.
Print Assumptions C01_write_replaces.

Theorem C01_failed_move_validation_frame : forall env m s d e, move_validation env m s d = inr e -> move_op env m s d = Done (m, inr e).
Proof. exact move_validation_complete. Qed.
Print Assumptions C01_failed_move_validation_frame.

(* a single-target call that reports failure leaves the state exactly as it was *)
Theorem C01_failed_call_unchanged : forall env m o m' e, WF m -> single_target o = true -> step env m o = Done (m', inr e) -> m' = m.
Proof. exact failed_call_unchanged. Qed.
Print Assumptions C01_failed_call_unchanged.

Theorem C01_mkdir_failure_unchanged : forall m p mode m' e, WF m -> mkdir_m_abs m p mode = (m', inr e) -> m' = m.
Proof. exact mkdir_failure_unchanged. Qed.
Print Assumptions C01_mkdir_failure_unchanged.

(* chown without follow against the reference tree *)
Theorem C01_chown_refines : forall env m s o p r, WF m -> co_follow o = false -> resolve env m s = inl p -> m_ents m !! p = Some r ->
  exists m', chown_op env m s o = Done (m', inl tt) /\ abs m' = spec_chown (abs m) p (co_recursive o) (co_uid o) (co_gid o).
Proof. exact chown_refines. Qed.
Print Assumptions C01_chown_refines.

(* the reference filesystem on the flat tree, one call ... *)
Theorem C01_step_refines : forall env m o t' r', WF m -> kinds_ok m -> keys_ok m -> spec_step env (abs m) o = Some (t', r') ->
  exists m', step env m o = Done (m', r') /\ abs m' = t'.
Proof. exact step_refines. Qed.
Print Assumptions C01_step_refines.

(* chmod with both octal values given and without follow: the reference chmod *)
Theorem C01_chmod_refines : forall env m s o p r, WF m -> kinds_ok m -> ch_follow o = false -> ch_sym o = [] -> ch_dirs o <> 0%N -> ch_files o <> 0%N ->
  resolve env m s = inl p -> m_ents m !! p = Some r ->
  exists m', chmod_op env m s o = Done (m', inl tt) /\ abs m' = spec_chmod (abs m) p (ch_recursive o) (ch_dirs o) (ch_files o).
Proof. exact chmod_refines. Qed.
Print Assumptions C01_chmod_refines.

(* paths / dirs / files / all_paths / all_dirs / all_files of a directory: the reference listing, which is the set of qualifying paths
   below it in increasing lexicographic order *)
Theorem C01_listing_refines : forall env m k s p, WF m -> kinds_ok m -> resolve env m s = inl p -> is_dir_at m p = true ->
  listing_op env m k s = Done (inl (spec_list (abs m) k p)).
Proof. exact listing_refines. Qed.
Print Assumptions C01_listing_refines.

(* entries() sorted by name, without follow / dirs_first / files_first / contents_first, any depth window and dirs() / files() filter: the
   reference's listing (qualifying paths at or below the start in increasing lexicographic order) *)
Theorem C01_entries_refines : forall env m s o p r, WF m -> kinds_ok m -> plain_sorted o -> resolve env m s = inl p -> m_ents m !! p = Some r ->
  step env m (OEntries s o) = Done (m, inl (VItems (map inl (spec_entries (abs m) o p)))).
Proof. exact entries_refines. Qed.
Print Assumptions C01_entries_refines.

(* copy, for the calls the exact copy theorems cover (a source without links, not followed, to a fresh path whose parent is a real directory,
   or a directory into an existing real directory under its own name): the reference adds a copy of every node below the source *)
Theorem C01_copy_dir_refines : forall env m s d o sp dp db ddir r pd,
  WF m -> kinds_ok m -> keys_ok m -> cp_follow o = false -> resolve env m s = inl sp -> resolve env m d = inl dp ->
  m_ents m !! sp = Some r -> real_dir r -> dp = db :: ddir -> m_ents m !! dp = None -> m_ents m !! ddir = Some pd -> real_dir pd ->
  ~ sp `suffix_of` dp -> (forall q x, sp `suffix_of` q -> m_ents m !! q = Some x -> e_link x = false) ->
  exists m', copy_op env m s d o = Done (m', inl tt) /\ abs m' = spec_copy_tree (abs m) o sp dp.
Proof. exact copy_dir_refines. Qed.
Print Assumptions C01_copy_dir_refines.

Theorem C01_copy_into_refines : forall env m s d o sp dp b sd r pd,
  WF m -> kinds_ok m -> keys_ok m -> cp_follow o = false -> resolve env m s = inl sp -> resolve env m d = inl dp ->
  sp = b :: sd -> m_ents m !! sp = Some r -> real_dir r -> m_ents m !! dp = Some pd -> real_dir pd -> m_ents m !! (b :: dp) = None ->
  ~ sp `suffix_of` (b :: dp) -> (forall q x, sp `suffix_of` q -> m_ents m !! q = Some x -> e_link x = false) ->
  exists m', copy_op env m s d o = Done (m', inl tt) /\ abs m' = spec_copy_tree (abs m) o sp (b :: dp).
Proof. exact copy_into_refines. Qed.
Print Assumptions C01_copy_into_refines.

Theorem C01_copy_file_refines : forall env m s d o sp dp db ddir r pd,
  WF m -> kinds_ok m -> resolve env m s = inl sp -> resolve env m d = inl dp -> sp <> dp ->
  m_ents m !! sp = Some r -> e_dir r = false -> e_link r = false ->
  dp = db :: ddir -> m_ents m !! dp = None -> m_ents m !! ddir = Some pd -> real_dir pd ->
  exists m', copy_op env m s d o = Done (m', inl tt) /\ abs m' = spec_copy_tree (abs m) o sp dp.
Proof. exact copy_file_refines. Qed.
Print Assumptions C01_copy_file_refines.

(* what the reference tree holds after such a copy *)
Theorem C01_spec_copy_lookup : forall t o sp dp k, (forall k, dp `suffix_of` k -> t_nodes t !! k = None) ->
  t_nodes (spec_copy_tree t o sp dp) !! k =
    if decide (dp `suffix_of` k) then node_copy o <$> t_nodes t !! (rebase dp sp k) else t_nodes t !! k.
Proof. exact spec_copy_lookup. Qed.
Print Assumptions C01_spec_copy_lookup.

(* ... and any history: same results call by call, same tree at the end *)
Theorem C01_history_refines : forall env os m t rs, WF m -> kinds_ok m -> keys_ok m -> spec_run env (abs m) os = Some (t, rs) ->
  exists m', run env m os = Done (m', rs) /\ abs m' = t /\ WF m' /\ kinds_ok m' /\ keys_ok m'.
Proof. exact history_refines. Qed.
Print Assumptions C01_history_refines.

Theorem C01_history_refines_init : forall env os t rs, spec_run env (abs mfs_init) os = Some (t, rs) ->
  exists m', run env mfs_init os = Done (m', rs) /\ abs m' = t.
Proof. exact history_refines_init. Qed.
Print Assumptions C01_history_refines_init.

(* move_p against the reference tree: same result, same tree (every node at or below the source re-keyed under the destination) *)
Theorem C01_move_refines : forall env m s d m' r, WF m -> move_op env m s d = Done (m', r) ->
  abs m' = (spec_move env (abs m) s d).1 /\ r = (spec_move env (abs m) s d).2.
Proof. exact move_refines. Qed.
Print Assumptions C01_move_refines.

Theorem C01_spec_move_lookup : forall T sr dt k, ~ sr `suffix_of` dt -> ~ dt `suffix_of` sr ->
  spec_move_nodes T sr dt !! k =
    if decide (dt `suffix_of` k) then retarget k <$> (T !! rebase dt sr k)
    else if decide (sr `suffix_of` k) then None else T !! k.
Proof. exact spec_move_lookup. Qed.
Print Assumptions C01_spec_move_lookup.

(* C09 — copy duplicates and move_p relocates a subtree without loss or collateral change.
   move_p is proved completely (Memfs/WfMove.v): for every well-formed state and every source / destination, a
   successful move makes the source disappear with everything below it, makes the destination the former source
   subtree (same relative paths, kinds, modes, owners, child lists, byte contents; a link keeps the target it
   stores), changes nothing else apart from the two parents' name lists, and a failed validation changes
   nothing at all. PARTIAL for copy: its clauses are evaluated on the real code's pre/post snapshots for every
   tree of the bounded namespace and every pair of paths (tools/frames.py), and the mirror of _copy agrees with
   the code state-for-state; proved are no-panic, well-formedness preservation (C03) and (Memfs/CopyFacts.v)
   that copy only ever adds: whatever it returns, every entry that existed - the source included - is still
   there under the same path with the same kind, link target and owner, and the same mode unless a chmod
   option was given, directories list at least what they listed, no file loses its content, cwd and root stay.
   Copy of a regular file to a fresh path in an existing directory is proved completely (Memfs/CopyFile.v):
   it succeeds, the destination is a regular file with the source's bytes, owner and mode (the requested
   mode when a chmod option selects files), its directory lists it, nothing else changes. Copy of a
   DIRECTORY TREE without links to a fresh path in an existing directory, not following links, is proved on
   the reference tree (Memfs/CopyDir.v): it succeeds; every entry at j below the source has a copy at j
   below the destination (a directory with the requested or the source's mode; a regular file with the
   source's bytes, owner and requested or own mode); nothing else appears at or below the destination; and
   everything outside it - the source included - is as before. It needs the keys below the source to be
   proper path names, which Memfs/Names.v proves an invariant of every call (every key comes out of
   resolve, or is a prefix of such a path, or a re-rooted key), so it holds in every reachable state. When the
   destination is an existing directory the same holds with dst/<name of the source> as the destination
   (Memfs/CopyInto.v). Sources containing
   links and copies that follow links remain judged, not proved. *)
From stdpp Require Import gmap.
From Coq Require Import NArith.
From RV Require Import Base.Str Path.Helpers Path.Expand Memfs.State Memfs.Ops Memfs.Walk Memfs.WalkOps Memfs.Step Memfs.ContentFacts Memfs.MoveFacts Memfs.Wf Memfs.WfMove Memfs.CopyFacts Memfs.CopyFile Memfs.CopyDir Memfs.CopyInto Memfs.Refine Memfs.Names.

Theorem C09_move_validation_frame : forall env m s d e m',
  move_validation env m s d = inr e -> move_op env m s d = Done (m', inr e) -> m' = m.
Proof. exact move_validation_frame. Qed.
Print Assumptions C09_move_validation_frame.

(* what is guaranteed when the move proceeds: the source exists, the target is neither the source nor
   inside it, its parent is an existing real directory, an existing target has no children, and a directory only
   ever replaces a real directory *)
Theorem C09_move_go_facts : forall env m s d sp dt, move_validate env m s d = MvGo sp dt ->
  is_Some (m_ents m !! sp) /\ dt <> sp /\ is_under dt sp = false /\
  exists b ddir x, dt = b :: ddir /\ m_ents m !! ddir = Some x /\ e_dir x = true /\ e_link x = false /\
    match m_ents m !! dt with
    | Some y => default ∅ (e_files y) = ∅ /\ (is_dir_at m sp = true -> e_dir y = true /\ e_link y = false)
    | None => True
    end.
Proof. exact move_go_facts. Qed.
Print Assumptions C09_move_go_facts.

Theorem C09_move_validation_complete : forall env m s d e, move_validation env m s d = inr e -> move_op env m s d = Done (m, inr e).
Proof. exact move_validation_complete. Qed.
Print Assumptions C09_move_validation_complete.

Theorem C09_no_panic : forall env m s d o, step env m (OMoveP s d) <> Panic /\ step env m (OCopy s d o) <> Panic.
Proof. exact (fun env m s d o => conj (step_no_panic env m (OMoveP s d)) (step_no_panic env m (OCopy s d o))). Qed.
Print Assumptions C09_no_panic.

(* a successful move_p: the source disappears, with everything below it *)
Theorem C09_move_source_gone : forall env m m' s d sb db sd dd r, WF m ->
  move_validate env m s d = MvGo (sb :: sd) (db :: dd) -> move_op env m s d = Done (m', r) ->
  forall k, (sb :: sd) `suffix_of` k -> m_ents m' !! k = None /\ m_data m' !! k = None.
Proof. exact move_source_gone. Qed.
Print Assumptions C09_move_source_gone.

(* ... the destination is the former source subtree, entry for entry and byte for byte *)
Theorem C09_move_destination : forall env m m' s d sb db sd dd r, WF m ->
  move_validate env m s d = MvGo (sb :: sd) (db :: dd) -> move_op env m s d = Done (m', r) ->
  forall j, m_ents m' !! (j ++ db :: dd) = (fun e => move_entry e (j ++ db :: dd)) <$> (m_ents m !! (j ++ sb :: sd)) /\
            m_data m' !! (j ++ db :: dd) = m_data m !! (j ++ sb :: sd).
Proof. exact move_destination. Qed.
Print Assumptions C09_move_destination.

(* ... where a moved entry differs from the original only in the path it reports (and, for a link, in what its stored
   relative target resolves to from the new place) *)
Theorem C09_move_entry_shape : forall se dp,
  e_path (move_entry se dp) = dp /\ e_dir (move_entry se dp) = e_dir se /\ e_file (move_entry se dp) = e_file se /\
  e_link (move_entry se dp) = e_link se /\ e_files (move_entry se dp) = e_files se.
Proof. exact move_entry_shape. Qed.
Print Assumptions C09_move_entry_shape.

(* ... and nothing else changes: no data anywhere else, no entry other than the two parents (whose name lists change) *)
Theorem C09_move_frame : forall env m m' s d sb db sd dd r, WF m ->
  move_validate env m s d = MvGo (sb :: sd) (db :: dd) -> move_op env m s d = Done (m', r) ->
  forall k, ~ (sb :: sd) `suffix_of` k -> ~ (db :: dd) `suffix_of` k ->
  m_data m' !! k = m_data m !! k /\ (k <> sd -> k <> dd -> m_ents m' !! k = m_ents m !! k).
Proof. exact move_frame. Qed.
Print Assumptions C09_move_frame.

Theorem C09_move_cwd_root : forall env m m' s d sb db sd dd r, WF m ->
  move_validate env m s d = MvGo (sb :: sd) (db :: dd) -> move_op env m s d = Done (m', r) ->
  m_cwd m' = m_cwd m /\ m_root m' = m_root m /\ r = inl tt.
Proof. exact move_cwd_root. Qed.
Print Assumptions C09_move_cwd_root.

(* copy only ever adds: the source, and everything else that existed, is kept *)
Theorem C09_copy_keeps_everything : forall env m s d o r, copy_op env m s d o = Done r ->
  grows (match cp_mode o with None => true | Some _ => false end) m r.1.
Proof. exact copy_grows. Qed.
Print Assumptions C09_copy_keeps_everything.

(* copy of a regular file to a fresh path in an existing directory *)
Theorem C09_copy_file_fresh : forall env m s d o sp dp db ddir r pd bytes,
  WF m -> resolve env m s = inl sp -> resolve env m d = inl dp -> sp <> dp ->
  m_ents m !! sp = Some r -> e_file r = true -> e_dir r = false -> e_link r = false -> m_data m !! sp = Some bytes ->
  dp = db :: ddir -> m_ents m !! dp = None -> m_ents m !! ddir = Some pd -> real_dir pd ->
  exists m', copy_op env m s d o = Done (m', inl tt) /\
    m_ents m' !! dp = Some (copied_entry o r dp) /\ m_data m' !! dp = Some bytes /\
    m_ents m' !! ddir = Some (entry_add pd db).1 /\
    (forall q, q <> dp -> q <> ddir -> m_ents m' !! q = m_ents m !! q) /\
    (forall q, q <> dp -> m_data m' !! q = m_data m !! q) /\ m_cwd m' = m_cwd m /\ m_root m' = m_root m.
Proof. exact copy_file_fresh. Qed.
Print Assumptions C09_copy_file_fresh.

(* copy of a directory tree without links to a fresh path in an existing directory *)
Theorem C09_copy_dir_fresh : forall env m s d o sp dp db ddir r pd,
  WF m -> kinds_ok m -> keys_ok m -> cp_follow o = false -> resolve env m s = inl sp -> resolve env m d = inl dp ->
  m_ents m !! sp = Some r -> real_dir r -> dp = db :: ddir -> m_ents m !! dp = None -> m_ents m !! ddir = Some pd -> real_dir pd ->
  ~ sp `suffix_of` dp -> (forall q x, sp `suffix_of` q -> m_ents m !! q = Some x -> e_link x = false) ->
  exists m', copy_op env m s d o = Done (m', inl tt) /\ WF m' /\ kinds_ok m' /\ m_cwd m' = m_cwd m /\
    (forall j x, m_ents m !! (j ++ sp) = Some x -> abs_nodes m' !! (j ++ dp) = Some (cnode m o sp dp x)) /\
    (forall j, m_ents m !! (j ++ sp) = None -> abs_nodes m' !! (j ++ dp) = None) /\
    (forall k, ~ dp `suffix_of` k -> abs_nodes m' !! k = abs_nodes m !! k).
Proof. exact copy_dir_fresh_reachable. Qed.
Print Assumptions C09_copy_dir_fresh.

(* the keys of every reachable state are proper path names *)
Theorem C09_keys_invariant : forall env m o m' r, WF m -> keys_ok m -> step env m o = Done (m', r) -> keys_ok m'.
Proof. exact keys_step. Qed.
Print Assumptions C09_keys_invariant.

Theorem C09_keys_initial : keys_ok mfs_init.
Proof. exact keys_init. Qed.
Print Assumptions C09_keys_initial.

(* ... and with dst an existing directory: the copy lands under dst/<name of the source> *)
Theorem C09_copy_dir_into : forall env m s d o sp dp b sd r pd,
  WF m -> kinds_ok m -> keys_ok m -> cp_follow o = false -> resolve env m s = inl sp -> resolve env m d = inl dp ->
  sp = b :: sd -> m_ents m !! sp = Some r -> real_dir r -> m_ents m !! dp = Some pd -> real_dir pd -> m_ents m !! (b :: dp) = None ->
  ~ sp `suffix_of` (b :: dp) -> (forall q x, sp `suffix_of` q -> m_ents m !! q = Some x -> e_link x = false) ->
  exists m', copy_op env m s d o = Done (m', inl tt) /\ WF m' /\ kinds_ok m' /\ m_cwd m' = m_cwd m /\
    (forall j x, m_ents m !! (j ++ sp) = Some x -> abs_nodes m' !! (j ++ b :: dp) = Some (cnode m o sp (b :: dp) x)) /\
    (forall j, m_ents m !! (j ++ sp) = None -> abs_nodes m' !! (j ++ b :: dp) = None) /\
    (forall k, ~ (b :: dp) `suffix_of` k -> abs_nodes m' !! k = abs_nodes m !! k).
Proof. exact copy_dir_into. Qed.
Print Assumptions C09_copy_dir_into.

(* C09 — copy duplicates and move_p relocates a subtree without loss or collateral change.
   PARTIAL: the clauses of the statement are evaluated on the real code's pre/post snapshots for
   every tree of the bounded namespace and every pair of paths (tools/frames.py), and the mirrors of
   _copy / move_p agree with the code state-for-state; proved here are the parts that do not need
   the loop invariants of the two worklists: move_p and copy never panic, and move_p validates
   everything before its first mutation (an error from the validation leaves the state untouched). *)
From stdpp Require Import gmap.
From Coq Require Import NArith.
From RV Require Import Base.Str Path.Helpers Path.Expand Memfs.State Memfs.Ops Memfs.Walk Memfs.WalkOps Memfs.Step Memfs.ContentFacts Memfs.MoveFacts.

Theorem C09_move_validation_frame : forall env m s d e m',
  move_validation env m s d = inr e -> move_op env m s d = Done (m', inr e) -> m' = m.
Proof. exact move_validation_frame. Qed.
Print Assumptions C09_move_validation_frame.

(* what is guaranteed when the move proceeds: the source exists, the target is neither the source nor
   inside it, its parent is an existing real directory, an existing target has no children, and a directory only
   ever replaces a real directory *)
Theorem C09_move_go_facts : forall env m s d sp dt, move_validate env m s d = MvGo sp dt ->
  is_Some (m_ents m !! sp) /\ dt <> sp /\ is_under dt sp = false /\
  exists b ddir x, dt = b :: ddir /\ m_ents m !! ddir = Some x /\ e_dir x = true /\ e_link x = false /\
    match m_ents m !! dt with
    | Some y => default ∅ (e_files y) = ∅ /\ (is_dir_at m sp = true -> e_dir y = true /\ e_link y = false)
    | None => True
    end.
Proof. exact move_go_facts. Qed.
Print Assumptions C09_move_go_facts.

Theorem C09_move_validation_complete : forall env m s d e, move_validation env m s d = inr e -> move_op env m s d = Done (m, inr e).
Proof. exact move_validation_complete. Qed.
Print Assumptions C09_move_validation_complete.

Theorem C09_no_panic : forall env m s d o, step env m (OMoveP s d) <> Panic /\ step env m (OCopy s d o) <> Panic.
Proof. exact (fun env m s d o => conj (step_no_panic env m (OMoveP s d)) (step_no_panic env m (OCopy s d o))). Qed.
Print Assumptions C09_no_panic.

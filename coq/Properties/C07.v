(* C07 — handles from read/write/append honour the std Read, Seek and Write contracts. *)
From Coq Require Import List ZArith NArith.
From RV Require Import Base.Str File.MemFile File.MemFileFacts.
Local Open Scope Z_scope.

(* every sequence of read/seek calls behaves exactly like std::io::Cursor: same results, same position *)
Theorem C07_read_handle_sim : forall data ops, data_ok data -> Forall rop_ok ops ->
  exists f', mf_run {| mf_pos := 0; mf_data := data |} ops = Done (f', snd (c_run {| c_pos := 0; c_data := data |} ops))
             /\ mf_pos f' = c_pos (fst (c_run {| c_pos := 0; c_data := data |} ops)).
Proof. exact read_handle_sim. Qed.
Print Assumptions C07_read_handle_sim.

Theorem C07_read_handle_no_panic : forall data ops, data_ok data -> Forall rop_ok ops ->
  mf_run {| mf_pos := 0; mf_data := data |} ops <> Panic.
Proof. exact read_handle_no_panic. Qed.
Print Assumptions C07_read_handle_no_panic.

Theorem C07_read_at_end : forall c n, dlen (c_data c) <= c_pos c -> snd (c_read c n) = RBytes nil.
Proof. exact cursor_read_at_end. Qed.
Print Assumptions C07_read_at_end.

Theorem C07_seek_before_start : forall c w,
  match w with
  | SeekStart _ => True
  | SeekCurrent o => c_pos c + o < 0 -> c_seek c w = (c, RInvalidInput)
  | SeekEnd o => dlen (c_data c) + o < 0 -> c_seek c w = (c, RInvalidInput)
  end.
Proof. exact cursor_seek_before_start. Qed.
Print Assumptions C07_seek_before_start.

Theorem C07_write_handle_drop_persists : forall old ops, wh_run open_write (Some old) ops = Some (written ops).
Proof. exact write_handle_drop_persists. Qed.
Print Assumptions C07_write_handle_drop_persists.

Theorem C07_append_handle_drop_persists : forall old ops,
  wh_run (open_append old) (Some old) ops = Some (old ++ written ops).
Proof. exact append_handle_drop_persists. Qed.
Print Assumptions C07_append_handle_drop_persists.

Theorem C07_flush_visible_write : forall old pre,
  let '(h, s) := wh_after open_write (Some old) pre in
  snd (fst (wh_step h s WFlush)) = Some (written pre).
Proof. exact flush_visible_write. Qed.
Print Assumptions C07_flush_visible_write.

Theorem C07_flush_visible_append : forall old pre,
  let '(h, s) := wh_after (open_append old) (Some old) pre in
  snd (fst (wh_step h s WFlush)) = Some (old ++ written pre).
Proof. exact flush_visible_append. Qed.
Print Assumptions C07_flush_visible_append.

Theorem C07_drop_after_remove : forall h ops, wh_run h None ops = None.
Proof. exact drop_after_remove. Qed.
Print Assumptions C07_drop_after_remove.

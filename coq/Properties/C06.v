(* C06 — file contents round-trip exactly: write truncates, append extends, read agrees. *)
From stdpp Require Import gmap.
From Coq Require Import NArith.
From RV Require Import Base.Str Base.Utf8 Path.Helpers Path.Expand Memfs.State Memfs.Ops Memfs.Step Memfs.Wf Memfs.ContentFacts.

(* a successful write replaces the whole content; no other file's bytes change *)
Theorem C06_write_replaces : forall env m s d m' p, WF m -> resolve env m s = inl p ->
  write_all_op env m s d = (m', inl tt) ->
  m_data m' !! p = Some d /\ forall q, q <> p -> m_data m' !! q = m_data m !! q.
Proof. exact write_replaces. Qed.
Print Assumptions C06_write_replaces.

(* a successful append adds at the end, never alters the existing prefix, and touches no other file *)
Theorem C06_append_extends : forall env m s d m' p, WF m -> resolve env m s = inl p ->
  append_all_op env m s d = (m', inl tt) ->
  exists old, m_data m' !! p = Some (old ++ d) /\
    (is_Some (m_data m !! p) -> m_data m !! p = Some old) /\ (m_data m !! p = None -> old = nil) /\
    forall q, q <> p -> m_data m' !! q = m_data m !! q.
Proof. exact append_extends. Qed.
Print Assumptions C06_append_extends.

(* read_all returns exactly the stored bytes (InvalidData iff they are not UTF-8) *)
Theorem C06_read_all_returns : forall env m s p d, resolve env m s = inl p ->
  m_ents m !! p = None \/ (exists e, m_ents m !! p = Some e /\ e_file e = true) ->
  m_data m !! p = Some d ->
  step env m (OReadAll s) = Done (m, if valid_utf8 d then inl (VBytes d) else inr EInvalidData).
Proof. exact read_all_returns. Qed.
Print Assumptions C06_read_all_returns.

(* read_lines(write_lines(ls)) = ls for lines without CR / LF *)
Theorem C06_lines_roundtrip : forall ls, Forall plain_line ls -> ls <> nil -> lines_of (join_lines ls ++ (10%N :: nil)) = ls.
Proof. exact lines_roundtrip. Qed.
Print Assumptions C06_lines_roundtrip.

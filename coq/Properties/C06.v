(* C06 — file contents round-trip exactly: write truncates, append extends, read agrees.
   Per call (Memfs/ContentFacts.v) and for ANY sequence of write_all / write_lines / append_all / append_line / append_lines
   on one regular file (Memfs/ContentHistory.v): every call succeeds, the stored content is what the byte-vector model
   holds, read_all returns it, and no other file's content changes. A copied file does not alias its source
   (Memfs/NoAlias.v): after copy to a fresh path, writing either leaves the other's bytes as they are. *)
From stdpp Require Import gmap.
From Coq Require Import NArith.
From RV Require Import Base.Str Base.Utf8 Path.Helpers Path.Expand Memfs.State Memfs.Ops Memfs.Step Memfs.Wf Memfs.WfMore Memfs.Walk Memfs.WalkOps Memfs.ContentFacts Memfs.ContentHistory Memfs.NoAlias.

(* a successful write replaces the whole content; no other file's bytes change *)
Theorem C06_write_replaces : forall env m s d m' p, WF m -> resolve env m s = inl p ->
  write_all_op env m s d = (m', inl tt) ->
  m_data m' !! p = Some d /\ forall q, q <> p -> m_data m' !! q = m_data m !! q.
Proof. exact write_replaces. Qed.
Print Assumptions C06_write_replaces.

(* a successful append adds at the end, never alters the existing prefix, and touches no other file *)
Theorem C06_append_extends : forall env m s d m' p, WF m -> resolve env m s = inl p ->
  append_all_op env m s d = (m', inl tt) ->
  exists old, m_data m' !! p = Some (old ++ d) /\
    (is_Some (m_data m !! p) -> m_data m !! p = Some old) /\ (m_data m !! p = None -> old = nil) /\
    forall q, q <> p -> m_data m' !! q = m_data m !! q.
Proof. exact append_extends. Qed.
Print Assumptions C06_append_extends.

(* read_all returns exactly the stored bytes (InvalidData iff they are not UTF-8) *)
Theorem C06_read_all_returns : forall env m s p d, resolve env m s = inl p ->
  m_ents m !! p = None \/ (exists e, m_ents m !! p = Some e /\ e_file e = true) ->
  m_data m !! p = Some d ->
  step env m (OReadAll s) = Done (m, if valid_utf8 d then inl (VBytes d) else inr EInvalidData).
Proof. exact read_all_returns. Qed.
Print Assumptions C06_read_all_returns.

(* read_lines(write_lines(ls)) = ls for lines without CR / LF *)
Theorem C06_lines_roundtrip : forall ls, Forall plain_line ls -> ls <> nil -> lines_of (join_lines ls ++ (10%N :: nil)) = ls.
Proof. exact lines_roundtrip. Qed.
Print Assumptions C06_lines_roundtrip.

(* any sequence of content calls on one regular file = the byte-vector model *)
Theorem C06_content_history : forall env s p f, e_file f = true -> e_link f = false -> e_dir f = false ->
  forall os m cur, holds env s p f m cur -> Forall (content_call s) os ->
  exists m', run_ops env m os = Some m' /\ holds env s p f m' (fold_left bv_step os cur) /\ (forall q, q <> p -> m_data m' !! q = m_data m !! q).
Proof. exact content_history. Qed.
Print Assumptions C06_content_history.

Theorem C06_content_history_read : forall env s p f, e_file f = true -> e_link f = false -> e_dir f = false ->
  forall os m cur, holds env s p f m cur -> Forall (content_call s) os ->
  exists m', run_ops env m os = Some m' /\ clone_file env m' s = inl (fold_left bv_step os cur).
Proof. exact content_history_read. Qed.
Print Assumptions C06_content_history_read.

(* a copied file does not alias its source *)
Theorem C06_copy_no_alias : forall env m s d o sp dp db ddir r pd bytes m1,
  WF m -> resolve env m s = inl sp -> resolve env m d = inl dp -> sp <> dp ->
  m_ents m !! sp = Some r -> e_file r = true -> e_dir r = false -> e_link r = false -> m_data m !! sp = Some bytes ->
  dp = db :: ddir -> m_ents m !! dp = None -> m_ents m !! ddir = Some pd -> real_dir pd ->
  copy_op env m s d o = Done (m1, inl tt) ->
  m_data m1 !! sp = Some bytes /\ m_data m1 !! dp = Some bytes /\
  (forall new m2, write_all_op env m1 d new = (m2, inl tt) -> m_data m2 !! dp = Some new /\ m_data m2 !! sp = Some bytes) /\
  (forall new m2, write_all_op env m1 s new = (m2, inl tt) -> m_data m2 !! sp = Some new /\ m_data m2 !! dp = Some bytes).
Proof. exact copy_no_alias. Qed.
Print Assumptions C06_copy_no_alias.

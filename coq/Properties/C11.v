(* C11 — chmod/chown change exactly the selected entries to exactly the requested value.
   Expression level: the mirror of sys::mode against the documented grammar
   [dfa]:[ugoa][-+=][rwx](,...)*.  Tree level (Memfs/ChmodFacts.v): chown sets the ids of exactly the entries its
   traversal yields and changes nothing else; chmod changes nothing but mode fields, and only of entries its traversal
   names. (Which entries a traversal yields is C08's subject; the value a mode becomes is the expression level.) Without
   follow the two are put together for chown: in every well-formed state it succeeds and sets the requested ids on exactly the
   argument (recursive: everything at or below it) and changes nothing else (Memfs/LinkFacts.v, from C08's exactness theorem);
   and chmod of a single entry (no recursion, no follow) is exactly one application of the per-entry rule: the grammar's value
   v for the entry's kind is stored under the path (with the kind's type bits) when it differs from the current mode and is not 0
   (KF-C11-octal-zero), nothing else changes, and a link is left alone. Recursive chmod without follow is exact too
   (Memfs/ChmodExact.v): when the grammar yields a non-zero value for every entry (no grammar error) the call succeeds and
   every non-link entry at or below the argument carries exactly the grammar's value for its kind afterwards (its pre_op
   grants and the deferred, contents-first item pass agree), links and everything else are untouched. *)
From stdpp Require Import gmap.
From Coq Require Import List NArith.
From RV Require Import Base.Str Path.Helpers Path.Expand Chmod.Sym Chmod.SymFacts Chmod.SymIndep Memfs.State Memfs.Ops Memfs.Walk Memfs.WalkOps Memfs.ChmodFacts Memfs.Wf Memfs.LinkFacts Memfs.ChmodExact Memfs.Spec Memfs.Refine Memfs.RefineChmod Memfs.RefineChmodSym.
Local Open Scope N_scope.

(* any number of well-formed clauses: every applicable clause is applied, in order *)
Theorem C11_sym_wellformed : forall k m cs, cs <> nil -> Forall clause_wf cs ->
  sym_mode k m 0 (unparse cs) = inl (fold_left (apply_clause k) cs m).
Proof. exact sym_wellformed. Qed.
Print Assumptions C11_sym_wellformed.

Theorem C11_octal_priority : forall k m octal sym, octal <> 0 -> sym_mode k m octal sym = inl octal.
Proof. exact octal_priority. Qed.
Print Assumptions C11_octal_priority.

Theorem C11_symlink_untouched : forall k m cs, k_link k = true -> fold_left (apply_clause k) cs m = m.
Proof. exact symlink_untouched. Qed.
Print Assumptions C11_symlink_untouched.

(* file-type bits (every bit above the nine permission bits) are kept *)
Theorem C11_type_bits_kept : forall k m cl n, 9 <= n -> N.testbit (apply_clause k m cl) n = N.testbit m n.
Proof. exact type_bits_kept. Qed.
Print Assumptions C11_type_bits_kept.

(* the value each operator requests, bit by bit *)
Theorem C11_apply_clause_bit : forall k m cl n, clause_applies k cl = true ->
  let g := N.testbit (bits_of who_bits (cl_who cl)) n in
  let p := N.testbit (bits_of perm_bits (cl_perms cl)) n in
  N.testbit (apply_clause k m cl) n =
  match cl_op cl with
  | OMinus => andb (N.testbit m n) (negb (andb g p))
  | OPlus => orb (N.testbit m n) (andb g p)
  | OEq => if g then p else N.testbit m n
  end.
Proof. exact apply_clause_bit. Qed.
Print Assumptions C11_apply_clause_bit.

(* malformed first clauses are errors *)
Theorem C11_first_clause_bad_target : forall k m c rest,
  negb (orb (orb (orb (N.eqb c ch_d) (N.eqb c ch_f)) (N.eqb c ch_a)) (N.eqb c ch_colon)) = true ->
  sym_mode k m 0 (c :: rest) = inr EChmodTarget.
Proof. exact first_clause_bad_target. Qed.
Print Assumptions C11_first_clause_bad_target.

Theorem C11_first_clause_no_perms : forall k m cl, cl_who cl <> nil ->
  sym_mode k m 0 (map target_char (cl_targets cl) ++ (ch_colon :: nil) ++ map who_char (cl_who cl) ++ (op_char (cl_op cl) :: nil)) = inr EChmodPerms.
Proof. exact first_clause_no_perms. Qed.
Print Assumptions C11_first_clause_no_perms.

Theorem C11_first_clause_empty_who : forall k m cl rest,
  sym_mode k m 0 (map target_char (cl_targets cl) ++ ch_colon :: op_char (cl_op cl) :: rest) = inr EChmodGroup.
Proof. exact first_clause_empty_who. Qed.
Print Assumptions C11_first_clause_empty_who.

(* tree level: chown sets the requested ids on exactly the yielded entries, and nothing else changes *)
Theorem C11_chown_exact : forall env m s o m', chown_op env m s o = Done (m', inl tt) ->
  exists p evs es, resolve env m s = inl p /\
    walk (m_ents m) (w_follow (w_max_depth default_wopts (if co_recursive o then None else Some 0%nat)) (co_follow o)) no_pre p = inl (Done evs) /\
    oks_until_err (items_of evs) = (es, None) /\
    (forall q, m_ents m' !! q = if bool_decide (q ∈ map e_path es) then (fun x => set_owner x (co_uid o) (co_gid o)) <$> (m_ents m !! q) else m_ents m !! q) /\
    m_data m' = m_data m /\ m_cwd m' = m_cwd m /\ m_root m' = m_root m.
Proof. exact chown_exact. Qed.
Print Assumptions C11_chown_exact.

(* tree level: whatever chmod returns, it changed nothing but mode fields, and only of entries its traversal named *)
Theorem C11_chmod_frame : forall env m s o m' r, (forall q t, m_ents m !! q = Some t -> e_path t = q) -> chmod_op env m s o = Done (m', r) ->
  exists T : list (list (list N)), chmod_rel (fun q => q ∈ T) m m' /\
    (forall p evs, resolve env m s = inl p ->
       walk (m_ents m) (w_dirs_first (w_follow (w_max_depth (w_contents_first default_wopts) (if ch_recursive o then None else Some 0%nat)) (ch_follow o)))
            (chmod_pre_check o) p = inl (Done evs) -> T = ev_entry_paths evs).
Proof. exact chmod_frame. Qed.
Print Assumptions C11_chmod_frame.

(* chown without follow: exactly the argument (recursive: everything at or below it) gets exactly the requested ids *)
Theorem C11_chown_nofollow : forall env m s o p r, WF m -> co_follow o = false -> resolve env m s = inl p -> m_ents m !! p = Some r ->
  exists m', chown_op env m s o = Done (m', inl tt) /\
    (forall q, m_ents m' !! q = if bool_decide (p `suffix_of` q /\ (co_recursive o = true \/ q = p))
                           then (fun x => set_owner x (co_uid o) (co_gid o)) <$> (m_ents m !! q) else m_ents m !! q) /\
    m_data m' = m_data m /\ m_cwd m' = m_cwd m /\ m_root m' = m_root m.
Proof. exact chown_nofollow. Qed.
Print Assumptions C11_chown_nofollow.

(* chmod(path, ..) without recursion and follow: one application of the per-entry rule ... *)
Theorem C11_chmod_single : forall env m s o p r, WF m -> ch_follow o = false -> ch_recursive o = false ->
  resolve env m s = inl p -> m_ents m !! p = Some r ->
  chmod_op env m s o = Done (let '(m', e) := chmod_item_apply o m r in (m', match e with None => inl tt | Some e => inr e end)).
Proof. exact chmod_single. Qed.
Print Assumptions C11_chmod_single.

(* ... which stores exactly the grammar's value and changes nothing else *)
Theorem C11_chmod_single_value : forall env m s o p r v, WF m -> ch_follow o = false -> ch_recursive o = false ->
  resolve env m s = inl p -> m_ents m !! p = Some r -> e_link r = false ->
  (if e_dir r then mode_for r (ch_dirs o) (ch_sym o) else if e_file r then mode_for r (ch_files o) (ch_sym o) else inl 0%N) = inl v ->
  v <> e_mode r -> v <> 0%N ->
  exists m', chmod_op env m s o = Done (m', inl tt) /\ m_ents m' !! p = Some (set_mode r (Some v)) /\
        (forall q, q <> p -> m_ents m' !! q = m_ents m !! q) /\ m_data m' = m_data m /\ m_cwd m' = m_cwd m.
Proof. exact chmod_single_value. Qed.
Print Assumptions C11_chmod_single_value.

(* chmod without follow, recursive or not: exactly the non-link entries at or below the argument get exactly the grammar's value *)
Theorem C11_chmod_nofollow_exact : forall env m s o p r, WF m -> ch_follow o = false -> resolve env m s = inl p -> m_ents m !! p = Some r ->
  (forall x, chmod_pre_check o x = None) -> (forall q x, m_ents m !! q = Some x -> exists v, valof o x = inl v /\ v <> 0%N) ->
  exists m', chmod_op env m s o = Done (m', inl tt) /\
    (forall q, m_ents m' !! q = if bool_decide (p `suffix_of` q /\ (ch_recursive o = true \/ q = p))
                           then upd o <$> (m_ents m !! q) else m_ents m !! q) /\
    m_data m' = m_data m /\ m_cwd m' = m_cwd m /\ m_root m' = m_root m.
Proof. exact chmod_nofollow_exact. Qed.
Print Assumptions C11_chmod_nofollow_exact.

(* whether an expression is accepted, and with which error it is rejected, does not depend on the entry: a malformed expression is rejected
   for every entry alike (so nothing is changed anywhere), well-formedness is a property of the text *)
Theorem C11_sym_mode_shape : forall k k' m m' octal sym, same_shape (sym_mode k m octal sym) (sym_mode k' m' octal sym).
Proof. exact sym_mode_shape. Qed.
Print Assumptions C11_sym_mode_shape.

Theorem C11_sym_mode_error_indep : forall k k' m m' octal sym e, sym_mode k m octal sym = inr e -> sym_mode k' m' octal sym = inr e.
Proof. exact sym_mode_error_indep. Qed.
Print Assumptions C11_sym_mode_error_indep.

(* chmod without follow against the reference tree, octal or symbolic: every non-link node at or below the argument gets the grammar's value
   for its kind and mode, under guards decidable on the tree (expression accepted; no node's value is 0) *)
Theorem C11_chmod_sym_refines : forall env m s o p r, WF m -> kinds_ok m -> ch_follow o = false -> chmod_accepts o = true -> chmod_vals_ok (abs m) o = true ->
  resolve env m s = inl p -> m_ents m !! p = Some r ->
  exists m', chmod_op env m s o = Done (m', inl tt) /\ abs m' = spec_chmod_sym (abs m) p o.
Proof. exact chmod_sym_refines. Qed.
Print Assumptions C11_chmod_sym_refines.

(* C11 — chmod/chown change exactly the selected entries to exactly the requested value.
   Expression level: the mirror of sys::mode against the documented grammar
   [dfa]:[ugoa][-+=][rwx](,...)*.  (Tree level: Memfs/Chmod*.v, see DESIGN §7 C11.) *)
From Coq Require Import List NArith.
From RV Require Import Base.Str Chmod.Sym Chmod.SymFacts.
Local Open Scope N_scope.

(* any number of well-formed clauses: every applicable clause is applied, in order *)
Theorem C11_sym_wellformed : forall k m cs, cs <> nil -> Forall clause_wf cs ->
  sym_mode k m 0 (unparse cs) = inl (fold_left (apply_clause k) cs m).
Proof. exact sym_wellformed. Qed.
Print Assumptions C11_sym_wellformed.

Theorem C11_octal_priority : forall k m octal sym, octal <> 0 -> sym_mode k m octal sym = inl octal.
Proof. exact octal_priority. Qed.
Print Assumptions C11_octal_priority.

Theorem C11_symlink_untouched : forall k m cs, k_link k = true -> fold_left (apply_clause k) cs m = m.
Proof. exact symlink_untouched. Qed.
Print Assumptions C11_symlink_untouched.

(* file-type bits (every bit above the nine permission bits) are kept *)
Theorem C11_type_bits_kept : forall k m cl n, 9 <= n -> N.testbit (apply_clause k m cl) n = N.testbit m n.
Proof. exact type_bits_kept. Qed.
Print Assumptions C11_type_bits_kept.

(* the value each operator requests, bit by bit *)
Theorem C11_apply_clause_bit : forall k m cl n, clause_applies k cl = true ->
  let g := N.testbit (bits_of who_bits (cl_who cl)) n in
  let p := N.testbit (bits_of perm_bits (cl_perms cl)) n in
  N.testbit (apply_clause k m cl) n =
  match cl_op cl with
  | OMinus => andb (N.testbit m n) (negb (andb g p))
  | OPlus => orb (N.testbit m n) (andb g p)
  | OEq => if g then p else N.testbit m n
  end.
Proof. exact apply_clause_bit. Qed.
Print Assumptions C11_apply_clause_bit.

(* malformed first clauses are errors *)
Theorem C11_first_clause_bad_target : forall k m c rest,
  negb (orb (orb (orb (N.eqb c ch_d) (N.eqb c ch_f)) (N.eqb c ch_a)) (N.eqb c ch_colon)) = true ->
  sym_mode k m 0 (c :: rest) = inr EChmodTarget.
Proof. exact first_clause_bad_target. Qed.
Print Assumptions C11_first_clause_bad_target.

Theorem C11_first_clause_no_perms : forall k m cl, cl_who cl <> nil ->
  sym_mode k m 0 (map target_char (cl_targets cl) ++ (ch_colon :: nil) ++ map who_char (cl_who cl) ++ (op_char (cl_op cl) :: nil)) = inr EChmodPerms.
Proof. exact first_clause_no_perms. Qed.
Print Assumptions C11_first_clause_no_perms.

Theorem C11_first_clause_empty_who : forall k m cl rest,
  sym_mode k m 0 (map target_char (cl_targets cl) ++ ch_colon :: op_char (cl_op cl) :: rest) = inr EChmodGroup.
Proof. exact first_clause_empty_who. Qed.
Print Assumptions C11_first_clause_empty_who.

(* C14 — clean() returns the shortest lexically equivalent path. *)
From Coq Require Import List NArith.
From RV Require Import Base.Str Base.PathLex Path.Clean Path.CleanSpec Path.CleanFacts.

Theorem C14_clean_is_spec : forall s, clean s = Done (clean_spec s).
Proof. exact clean_is_spec. Qed.
Print Assumptions C14_clean_is_spec.

Theorem C14_clean_total : forall s, clean s <> Panic /\ clean s <> OutOfFuel.
Proof. exact clean_total. Qed.
Print Assumptions C14_clean_total.

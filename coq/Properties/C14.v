(* C14 — clean() returns the shortest lexically equivalent path.
   Statements are about Path/Clean.v (`clean`, the mirror of sys::clean, tied to the code by the
   clean-* correspondence streams) and Path/CleanSpec.v (denotation, lex_equiv, NormalForm). *)
From Coq Require Import List NArith.
From RV Require Import Base.Str Base.PathLex Path.Clean Path.CleanSpec Path.CleanFacts.

(* the mirror computes the canonical rendering of the path's denotation, for every string *)
Theorem C14_clean_is_spec : forall s, clean s = Done (clean_spec s).
Proof. exact clean_is_spec. Qed.
Print Assumptions C14_clean_is_spec.

(* never panics (prev.unwrap()), never runs out of fuel *)
Theorem C14_clean_total : forall s, clean s <> Panic /\ clean s <> OutOfFuel.
Proof. exact clean_total. Qed.
Print Assumptions C14_clean_total.

(* the result is in normal form: none of the six documented rules applies any more *)
Theorem C14_clean_normal : forall s, NormalForm (clean_spec s).
Proof. exact clean_normal. Qed.
Print Assumptions C14_clean_normal.

(* the result names the same location as the argument *)
Theorem C14_clean_equiv : forall s, lex_equiv s (clean_spec s).
Proof. exact clean_equiv. Qed.
Print Assumptions C14_clean_equiv.

(* it is the only normal-form path that does *)
Theorem C14_clean_unique : forall s t, lex_equiv s t -> NormalForm t -> t = clean_spec s.
Proof. exact clean_unique. Qed.
Print Assumptions C14_clean_unique.

Theorem C14_normal_form_fixed : forall t, NormalForm t -> clean_spec t = t.
Proof. exact normal_form_fixed. Qed.
Print Assumptions C14_normal_form_fixed.

Theorem C14_clean_idem : forall s r, clean s = Done r -> clean r = Done r.
Proof. exact clean_idem. Qed.
Print Assumptions C14_clean_idem.

Theorem C14_clean_preserves_absolute : forall s r, clean s = Done r -> is_absolute r = is_absolute s.
Proof. exact clean_preserves_absolute. Qed.
Print Assumptions C14_clean_preserves_absolute.

Theorem C14_clean_nonempty : forall s r, clean s = Done r -> r <> nil.
Proof. exact clean_nonempty. Qed.
Print Assumptions C14_clean_nonempty.

(* C17 — expand() substitutes ~ and environment variables exactly, in every environment.
   `env` is any function string -> option string.  Components combine with PathBuf::push (an
   absolute value replaces what precedes it), as the crate's own tests pin. *)
From Coq Require Import List NArith.
From RV Require Import Base.Str Base.PathLex Core.Iter Path.Helpers Path.Expand Path.ExpandFacts.

Theorem C17_expand_plain : forall env s, ~ In tilde s -> ~ In dollar s -> expand env s = Ok s.
Proof. exact expand_plain. Qed.
Print Assumptions C17_expand_plain.

Theorem C17_expand_tilde : forall env h, env s_home = Some h -> ~ In dollar h -> expand env (tilde :: nil) = Ok h.
Proof. exact expand_tilde. Qed.
Print Assumptions C17_expand_tilde.

Theorem C17_expand_tilde_slash : forall env h rest, env s_home = Some h -> ~ In tilde rest ->
  ~ In dollar (mash h rest) -> expand env (tilde :: slash :: rest) = Ok (mash h rest).
Proof. exact expand_tilde_slash. Qed.
Print Assumptions C17_expand_tilde_slash.

Theorem C17_expand_tilde_unset : forall env, env s_home = None -> expand env (tilde :: nil) = Err EVarNotPresent.
Proof. exact expand_tilde_unset. Qed.
Print Assumptions C17_expand_tilde_unset.

Theorem C17_two_tildes : forall env s, 1 < count_char tilde s -> expand env s = Err EMultipleHomeSymbols.
Proof. exact expand_two_tildes. Qed.
Print Assumptions C17_two_tildes.

Theorem C17_inner_tilde : forall env s, count_char tilde s = 1 -> starts_with s s_tilde_slash = false ->
  s <> tilde :: nil -> expand env s = Err EInvalidExpansion.
Proof. exact expand_inner_tilde. Qed.
Print Assumptions C17_inner_tilde.

(* inside a component every $NAME / ${NAME} is replaced by its value; an unset one fails *)
Theorem C17_component_substitution : forall env ts, toks_wf ts ->
  expand_seg (S (length (unparse ts))) env (unparse ts) nil = subst env ts.
Proof. exact expand_seg_tokens. Qed.
Print Assumptions C17_component_substitution.

(* an empty variable name fails *)
Theorem C17_empty_name : forall env f acc lit rest, forallb ne_dollar lit = true ->
  (let r2 := next_if_eq lbrace rest in match r2 with nil => True | c :: _ => var_char c = false end) ->
  expand_seg (S f) env (lit ++ dollar :: rest) acc = Err EInvalidExpansion.
Proof. exact expand_seg_empty_name. Qed.
Print Assumptions C17_empty_name.

(* the component loop terminates within the fuel the mirror supplies *)
Theorem C17_no_fuel_error : forall env chars fuel acc, length chars < fuel ->
  expand_seg fuel env chars acc <> Err EOther.
Proof. exact expand_seg_no_fuel_error. Qed.
Print Assumptions C17_no_fuel_error.

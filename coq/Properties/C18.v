(* C18 — XDG directory lookup honours the environment with the right precedence.
   Xdg/Dirs.v uses the names and defaults lifted from the current source (Gen/Consts.v); the
   statements below spell out the XDG names and defaults themselves. *)
From Coq Require Import List NArith String.
From RV Require Import Base.Str Base.PathLex Path.Helpers Path.Expand Xdg.Dirs Xdg.DirsFacts.
Local Open Scope string_scope.
Local Open Scope list_scope.

Theorem C18_config_dir_set : forall env x, env (V "XDG_CONFIG_HOME") = Some x -> config_dir env = Ok x.
Proof. exact config_dir_set. Qed.
Print Assumptions C18_config_dir_set.
Theorem C18_config_dir_unset : forall env h, env (V "XDG_CONFIG_HOME") = None -> env (V "HOME") = Some h ->
  config_dir env = Ok (mash h (V ".config")).
Proof. exact config_dir_unset. Qed.
Print Assumptions C18_config_dir_unset.
Theorem C18_cache_dir_set : forall env x, env (V "XDG_CACHE_HOME") = Some x -> cache_dir env = Ok x.
Proof. exact cache_dir_set. Qed.
Print Assumptions C18_cache_dir_set.
Theorem C18_cache_dir_unset : forall env h, env (V "XDG_CACHE_HOME") = None -> env (V "HOME") = Some h ->
  cache_dir env = Ok (mash h (V ".cache")).
Proof. exact cache_dir_unset. Qed.
Print Assumptions C18_cache_dir_unset.
Theorem C18_data_dir_set : forall env x, env (V "XDG_DATA_HOME") = Some x -> data_dir env = Ok x.
Proof. exact data_dir_set. Qed.
Print Assumptions C18_data_dir_set.
Theorem C18_data_dir_unset : forall env h, env (V "XDG_DATA_HOME") = None -> env (V "HOME") = Some h ->
  data_dir env = Ok (mash (mash h (V ".local")) (V "share")).
Proof. exact data_dir_unset. Qed.
Print Assumptions C18_data_dir_unset.
Theorem C18_state_dir_set : forall env x, env (V "XDG_STATE_HOME") = Some x -> state_dir env = Ok x.
Proof. exact state_dir_set. Qed.
Print Assumptions C18_state_dir_set.
Theorem C18_state_dir_unset : forall env h, env (V "XDG_STATE_HOME") = None -> env (V "HOME") = Some h ->
  state_dir env = Ok (mash (mash h (V ".local")) (V "state")).
Proof. exact state_dir_unset. Qed.
Print Assumptions C18_state_dir_unset.
Theorem C18_home_dirs_need_home : forall env, env (V "HOME") = None ->
  (env (V "XDG_CONFIG_HOME") = None -> config_dir env = Err EVarNotPresent) /\
  (env (V "XDG_CACHE_HOME") = None -> cache_dir env = Err EVarNotPresent) /\
  (env (V "XDG_DATA_HOME") = None -> data_dir env = Err EVarNotPresent) /\
  (env (V "XDG_STATE_HOME") = None -> state_dir env = Err EVarNotPresent).
Proof. exact home_dirs_need_home. Qed.
Print Assumptions C18_home_dirs_need_home.
Theorem C18_runtime_dir : forall env,
  runtime_dir env = match env (V "XDG_RUNTIME_DIR") with Some x => x | None => V "/tmp" end.
Proof. exact runtime_dir_spec. Qed.
Print Assumptions C18_runtime_dir.
Theorem C18_sys_config_dirs : forall env,
  sys_config_dirs env =
  match env (V "XDG_CONFIG_DIRS") with
  | Some x => match nonempty_segments x with nil => V "/etc/xdg" :: nil | ps => ps end
  | None => V "/etc/xdg" :: nil
  end.
Proof. exact sys_config_dirs_spec. Qed.
Print Assumptions C18_sys_config_dirs.
Theorem C18_sys_data_dirs : forall env,
  sys_data_dirs env =
  match env (V "XDG_DATA_DIRS") with
  | Some x => match nonempty_segments x with nil => V "/usr/local/share" :: V "/usr/share" :: nil | ps => ps end
  | None => V "/usr/local/share" :: V "/usr/share" :: nil
  end.
Proof. exact sys_data_dirs_spec. Qed.
Print Assumptions C18_sys_data_dirs.
Theorem C18_path_dirs : forall env,
  path_dirs env = match env (V "PATH") with Some x => Ok (nonempty_segments x) | None => Err EVarNotPresent end.
Proof. exact path_dirs_spec. Qed.
Print Assumptions C18_path_dirs.
Theorem C18_vfs_config_dir_first_hit : forall env ex name cd d,
  config_dir env = Ok cd -> vfs_config_dir env ex name = Some d ->
  exists pre post, cd :: sys_config_dirs env = pre ++ d :: post /\
    ex (mash d name) = true /\ Forall (fun x => ex (mash x name) = false) pre.
Proof. exact vfs_config_dir_first_hit. Qed.
Print Assumptions C18_vfs_config_dir_first_hit.
Theorem C18_vfs_config_dir_none : forall env ex name,
  vfs_config_dir env ex name = None <->
  match config_dir env with
  | inl cd => Forall (fun x => ex (mash x name) = false) (cd :: sys_config_dirs env)
  | inr _ => True
  end.
Proof. exact vfs_config_dir_none. Qed.
Print Assumptions C18_vfs_config_dir_none.
Theorem C18_getrids : forall env uid gid,
  getrids env uid gid =
  match (if N.eqb uid 0 then
           match env (V "SUDO_UID"), env (V "SUDO_GID") with
           | Some u, Some g => match parse_u32 u, parse_u32 g with Some a, Some b => Some (a, b) | _, _ => None end
           | _, _ => None
           end
         else None) with
  | Some p => p
  | None => (uid, gid)
  end.
Proof. exact getrids_spec. Qed.
Print Assumptions C18_getrids.

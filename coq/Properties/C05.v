(* C05 — abs() maps any path to a clean absolute path, identically on both backends.
   cwd = abs_of ns: the clean absolute path with names ns.  abs_spec (Path/AbsFacts.v) is the
   statement's closed form: clean(join(cwd, trim_protocol(expand s))), failing only for an empty
   path, a failed expansion, or ".." climbing above the root.
   Last clause (Memfs/v): every call of the alphabet reads its path arguments through this resolution only, so
   replacing an argument by the string abs returns for it changes neither the result nor the state - in every state a
   history reaches (the working directory and every remembered link target always consist of proper names, Memfs/v).
   An abs result that still contains '~' or '$' (a variable whose value contains one) would be expanded a second time by
   the second reading; for such arguments the re-spelling leaves the argument as it is. *)
From Coq Require Import List NArith.
From RV Require Import Base.Str Base.PathLex Base.PathLexFacts Base.SpanFacts Path.Clean Path.CleanSpec
  Path.Helpers Path.Expand Path.Abs Path.AbsFacts.
From RV Require Import Memfs.State Memfs.Ops Memfs.Step Memfs.WfMore Memfs.CopyFile Memfs.CwdInv Memfs.Spelling.

Theorem C05_abs_is_spec : forall ns env s, Forall is_name ns -> abs (abs_of ns) env s = abs_spec ns env s.
Proof. exact abs_is_spec. Qed.
Print Assumptions C05_abs_is_spec.

Theorem C05_abs_absolute_normal : forall ns env s r, Forall is_name ns -> abs (abs_of ns) env s = Ok r ->
  is_absolute r = true /\ NormalForm r.
Proof. exact abs_absolute_normal. Qed.
Print Assumptions C05_abs_absolute_normal.

Theorem C05_abs_fails_only : forall ns env s e, Forall is_name ns -> abs (abs_of ns) env s = Err e ->
  (is_empty s = true /\ e = EEmpty) \/ expand env s = Err e \/
  (e = EParentNotFound /\ exists p, expand env s = Ok p /\ is_rooted (trim_protocol p) = false /\
     length ns < d_ups (denote (components (trim_protocol p)))).
Proof. exact abs_fails_only. Qed.
Print Assumptions C05_abs_fails_only.

Theorem C05_abs_idem : forall ns ms env s r, Forall is_name ns -> Forall is_name ms ->
  abs (abs_of ns) env s = Ok r -> ~ In tilde r -> ~ In dollar r -> abs (abs_of ms) env r = Ok r.
Proof. exact abs_idem. Qed.
Print Assumptions C05_abs_idem.

Theorem C05_clean_join_relative : forall ns q, Forall is_name ns -> is_rooted q = false ->
  let d := denote (components q) in
  clean_spec (join (abs_of ns) q) = abs_of (firstn (length ns - d_ups d) ns ++ d_names d).
Proof. exact clean_join_relative. Qed.
Print Assumptions C05_clean_join_relative.

(* any spelling of a path argument behaves like the call with abs(path) *)
Theorem C05_spelling_independent : forall env m o, names_ok (m_cwd m) ->
  step env m (respell env m o) = step env m o.
Proof. exact spelling_independent. Qed.
Print Assumptions C05_spelling_independent.

Theorem C05_spelling_independent_reachable : forall env os m o, run_ops env mfs_init os = Some m ->
  step env m (respell env m o) = step env m o.
Proof. exact spelling_independent_reachable. Qed.
Print Assumptions C05_spelling_independent_reachable.

(* the argument the re-spelled call carries resolves to the same location *)
Theorem C05_resolve_abs_str : forall env m s, names_ok (m_cwd m) ->
  resolve env m (abs_str env m s) = resolve env m s.
Proof. exact resolve_abs_str. Qed.
Print Assumptions C05_resolve_abs_str.

(* the working directory and every target a link remembers consist of proper names in every reachable state *)
Theorem C05_reachable_cwd : forall env os m m', cwd_inv m -> run_ops env m os = Some m' -> cwd_inv m'.
Proof. exact reachable_cwd. Qed.
Print Assumptions C05_reachable_cwd.

(* C05 — abs() maps any path to a clean absolute path, identically on both backends.
   cwd = abs_of ns: the clean absolute path with names ns.  abs_spec (Path/AbsFacts.v) is the
   statement's closed form: clean(join(cwd, trim_protocol(expand s))), failing only for an empty
   path, a failed expansion, or ".." climbing above the root. *)
From Coq Require Import List NArith.
From RV Require Import Base.Str Base.PathLex Base.PathLexFacts Base.SpanFacts Path.Clean Path.CleanSpec
  Path.Helpers Path.Expand Path.Abs Path.AbsFacts.

Theorem C05_abs_is_spec : forall ns env s, Forall is_name ns -> abs (abs_of ns) env s = abs_spec ns env s.
Proof. exact abs_is_spec. Qed.
Print Assumptions C05_abs_is_spec.

Theorem C05_abs_absolute_normal : forall ns env s r, Forall is_name ns -> abs (abs_of ns) env s = Ok r ->
  is_absolute r = true /\ NormalForm r.
Proof. exact abs_absolute_normal. Qed.
Print Assumptions C05_abs_absolute_normal.

Theorem C05_abs_fails_only : forall ns env s e, Forall is_name ns -> abs (abs_of ns) env s = Err e ->
  (is_empty s = true /\ e = EEmpty) \/ expand env s = Err e \/
  (e = EParentNotFound /\ exists p, expand env s = Ok p /\ is_rooted (trim_protocol p) = false /\
     length ns < d_ups (denote (components (trim_protocol p)))).
Proof. exact abs_fails_only. Qed.
Print Assumptions C05_abs_fails_only.

Theorem C05_abs_idem : forall ns ms env s r, Forall is_name ns -> Forall is_name ms ->
  abs (abs_of ns) env s = Ok r -> ~ In tilde r -> ~ In dollar r -> abs (abs_of ms) env r = Ok r.
Proof. exact abs_idem. Qed.
Print Assumptions C05_abs_idem.

Theorem C05_clean_join_relative : forall ns q, Forall is_name ns -> is_rooted q = false ->
  let d := denote (components q) in
  clean_spec (join (abs_of ns) q) = abs_of (firstn (length ns - d_ups d) ns ++ d_names d).
Proof. exact clean_join_relative. Qed.
Print Assumptions C05_clean_join_relative.

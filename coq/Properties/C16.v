(* C16 — relative(path, base) is the navigation from base to path.
   `abs_path ns` is the clean absolute path with names ns ("/" ++ names joined by "/"); every clean
   absolute path is of this form (C14_normal_form: rooted case). *)
From Coq Require Import List NArith.
From RV Require Import Base.Str Base.PathLex Base.PathLexFacts Path.Clean Path.CleanSpec Path.Relative Path.RelativeFacts.

(* zero or more ".." followed only by normal components: exactly the spec's component list *)
Theorem C16_relative_shape : forall ps bs, Forall is_name ps -> Forall is_name bs -> ps <> bs ->
  relative (abs_path ps) (abs_path bs) = render (relative_spec ps bs).
Proof. exact relative_shape. Qed.
Print Assumptions C16_relative_shape.

(* cleaning base joined with the result yields path *)
Theorem C16_relative_navigates : forall ps bs, Forall is_name ps -> Forall is_name bs -> ps <> bs ->
  clean (join (abs_path bs) (relative (abs_path ps) (abs_path bs))) = Done (abs_path ps).
Proof. exact relative_navigates. Qed.
Print Assumptions C16_relative_navigates.

(* the number of ".." equals the number of components of base below the common prefix *)
Theorem C16_relative_ups : forall ps bs, Forall is_name ps -> Forall is_name bs -> ps <> bs ->
  components (relative (abs_path ps) (abs_path bs)) = relative_spec ps bs /\
  count_parents (relative_spec ps bs) = length (snd (strip_common ps bs)).
Proof. exact relative_ups. Qed.
Print Assumptions C16_relative_ups.

Theorem C16_relative_is_relative : forall ps bs, Forall is_name ps -> Forall is_name bs -> ps <> bs ->
  is_absolute (relative (abs_path ps) (abs_path bs)) = false.
Proof. exact relative_is_relative. Qed.
Print Assumptions C16_relative_is_relative.

(* p == b: joining the result onto base still yields path *)
Theorem C16_relative_same : forall ps, Forall is_name ps ->
  relative (abs_path ps) (abs_path ps) = abs_path ps /\ join (abs_path ps) (abs_path ps) = abs_path ps.
Proof. exact relative_same. Qed.
Print Assumptions C16_relative_same.

(* C08 — traversal yields exactly the selected entries, once, in order, and terminates.
   Proved about the mirror of EntriesIter (Memfs/Walk.v), for every snapshot, option record and
   pre_op: the descriptor counter never underflows (no panic); nothing the dirs()/files() filter
   rejects is ever yielded, deferred directories included; the whole event sequence is independent
   of max_descriptors.  Memfs/WalkSpec.v states what a traversal denotes as a plain recursion over the
   snapshot (visit an entry: LinkLooping if it is a followed link to a directory already open above it;
   otherwise pre_op, the entry itself if the depth window and the filter select it - after its contents
   with contents_first - and its children in the per-directory order, one level deeper, while the depth
   is below max_depth), and proves that the iterator machine (iterator stack, deferred stack, one `next`
   call per item) returns exactly the recursion's event sequence, for every snapshot, option record,
   pre_op and start, links followed or not, whenever the recursion is defined and the fuel covers its
   steps; Memfs/WalkTerm.v proves both always hold when links are not followed (termination within
   fuel: at most three machine steps per entry under the start).  Memfs/WalkExact.v reads the
   property off the recursion for every well-formed Memfs state, links not followed, no pre_op error:
   the traversal yields no error and exactly the entries at or below the start that the depth window
   and the dirs/files filter select - all of them, nothing else, each once; an entry comes before
   everything below it (after, with contents_first); with a sort installed siblings come in name order,
   grouped by kind with dirs_first / files_first; and paths/dirs/files/all_* return exactly the entries
   strictly below an existing directory (one level for the shallow helpers) of the asked kind, each
   once, never the argument.  Memfs/WalkLex.v: a sorted traversal with none of follow / dirs_first / files_first / contents_first
   yields its paths in strictly increasing lexicographic order, and a set of paths has exactly one such ordering, so the whole
   output sequence of the listing helpers is determined by the tree (Memfs/RefineList.v states it without a traversal).  Memfs/WalkFollow.v proves that the denotation is ALWAYS defined, links
   followed or not: a followed link whose target is already open above it is reported as LinkLooping, every
   other followed link adds a new path to the open directories and a plain child is one level deeper, so
   no descent is endless.  PARTIAL: with links followed, that the mirror's fuel (an artefact of the model;
   the code has none) covers the recursion's steps is exercised (driver comparison machine vs recursion on
   every explored call; tools/walkspec.py judges the yielded multiset), not proved. *)
From stdpp Require Import gmap sorting.
From Coq Require Import NArith.
From RV Require Import Base.Str Path.Helpers Memfs.State Memfs.Walk Memfs.WalkFacts Memfs.WalkSpec Memfs.WalkTerm Memfs.WalkExact Memfs.WalkLex Memfs.WalkFollow Memfs.Wf Memfs.Ops Memfs.WalkOps Path.Expand.

Theorem C08_walk_no_panic : forall sn o pre p, walk sn o pre p <> inl Panic.
Proof. exact walk_no_panic. Qed.
Print Assumptions C08_walk_no_panic.

Theorem C08_walk_no_rejected : forall sn o pre p evs, walk sn o pre p = inl (Done evs) ->
  forall x, In (IOk x) (items_of evs) -> passes o x = true.
Proof. exact walk_no_rejected. Qed.
Print Assumptions C08_walk_no_rejected.

Theorem C08_walk_cap_independent : forall sn o pre p evs cap,
  walk sn o pre p = inl (Done evs) -> walk sn (w_maxdesc o cap) pre p = inl (Done evs).
Proof. exact walk_cap_independent. Qed.
Print Assumptions C08_walk_cap_independent.

(* the iterator machine computes the recursion: for every snapshot, options, pre_op and start *)
Theorem C08_walk_is_recursion : forall (E : gmap (list (list N)) entry) o pre rootp r h evs,
  E !! rootp = Some r -> sw_walk h E o pre r = Some evs ->
  steps h E o pre [] (if o_follow o then follow_e r else r) + 1 <= walk_fuel E ->
  length (items_of evs) + 1 < walk_fuel E ->
  walk E o pre rootp = inl (Done evs).
Proof. exact walk_is_spec. Qed.
Print Assumptions C08_walk_is_recursion.

(* without following links: it terminates within its fuel, with the recursion's events *)
Theorem C08_walk_nofollow : forall (E : gmap (list (list N)) entry) o pre rootp r,
  key_ok E -> o_follow o = false -> E !! rootp = Some r ->
  exists h evs, sw_walk h E o pre r = Some evs /\ walk E o pre rootp = inl (Done evs).
Proof. exact walk_nofollow. Qed.
Print Assumptions C08_walk_nofollow.

Theorem C08_walk_nofollow_terminates : forall (E : gmap (list (list N)) entry) o pre rootp,
  key_ok E -> o_follow o = false -> walk E o pre rootp <> inl OutOfFuel.
Proof. exact walk_nofollow_terminates. Qed.
Print Assumptions C08_walk_nofollow_terminates.

(* exactly the selected entries, no errors, each once *)
Theorem C08_walk_exact : forall m o pre rootp r, WF m -> o_follow o = false -> (forall x, pre x = None) -> m_ents m !! rootp = Some r ->
  exists evs, walk (m_ents m) o pre rootp = inl (Done evs) /\
    items_of evs = map IOk (oks evs) /\
    (forall x, x ∈ oks evs <-> exists q, m_ents m !! q = Some x /\ rootp `suffix_of` q /\
                          selected o (length q - length rootp) x = true /\ le_max (length q - length rootp) (o_max o) = true) /\
    NoDup (map e_path (oks evs)).
Proof. exact walk_exact. Qed.
Print Assumptions C08_walk_exact.

(* parents before their contents, after them with contents_first *)
Theorem C08_walk_order : forall m o pre rootp r evs, WF m -> o_follow o = false -> (forall x, pre x = None) -> m_ents m !! rootp = Some r ->
  walk (m_ents m) o pre rootp = inl (Done evs) ->
  forall x y, x ∈ oks evs -> y ∈ oks evs -> strictly_above x y ->
    if o_contents_first o then before (oks evs) y x else before (oks evs) x y.
Proof. exact walk_order. Qed.
Print Assumptions C08_walk_order.

(* siblings in name order, grouped by kind with dirs_first / files_first *)
Theorem C08_walk_siblings : forall m o pre rootp r evs, WF m -> o_follow o = false -> (forall x, pre x = None) -> o_sort o = true ->
  m_ents m !! rootp = Some r -> walk (m_ents m) o pre rootp = inl (Done evs) ->
  forall x y q n n', x ∈ oks evs -> y ∈ oks evs -> e_path x = n :: q -> e_path y = n' :: q -> n <> n' -> sib_le o x y = true ->
    before (oks evs) x y.
Proof. exact walk_siblings. Qed.
Print Assumptions C08_walk_siblings.

(* the listing helpers *)
Theorem C08_listing_exact : forall env m k s p, WF m -> resolve env m s = inl p -> is_dir_at m p = true ->
  exists es, listing_op env m k s = Done (inl (map (fun e => render_rpath (e_path e)) es)) /\ NoDup (map e_path es) /\
    forall x, x ∈ es <-> exists q, m_ents m !! q = Some x /\ p `suffix_of` q /\ q <> p /\
                     (shallow k = true -> length q = S (length p)) /\ kind_sel k x = true.
Proof. exact listing_exact. Qed.
Print Assumptions C08_listing_exact.

(* a sorted traversal without follow, dirs_first, files_first and contents_first yields its paths in strictly increasing lexicographic
   order of their component lists (names compared as sort_by_name compares them): the whole sequence, not only siblings, is determined *)
Theorem C08_walk_sorted : forall m o pre rootp r evs, WF m -> plain_sorted o -> (forall x, pre x = None) -> m_ents m !! rootp = Some r ->
  walk (m_ents m) o pre rootp = inl (Done evs) -> StronglySorted plex (map e_path (oks evs)).
Proof. exact walk_sorted. Qed.
Print Assumptions C08_walk_sorted.

Theorem C08_order_determined : forall l1 l2 : list (list (list N)), StronglySorted plex l1 -> StronglySorted plex l2 -> NoDup l1 -> NoDup l2 ->
  (forall q, q ∈ l1 <-> q ∈ l2) -> l1 = l2.
Proof. exact plex_sorted_unique. Qed.
Print Assumptions C08_order_determined.

(* the denotation is defined for every snapshot, option record (links followed or not), pre_op and start: no endless descent *)
Theorem C08_denotation_defined : forall (E : gmap (list (list N)) entry) o pre r, key_ok E ->
  exists h evs, sw_walk h E o pre r = Some evs.
Proof. exact sw_always_defined. Qed.
Print Assumptions C08_denotation_defined.

(* C08 — traversal yields exactly the selected entries, once, in order, and terminates.
   Proved about the mirror of EntriesIter (Memfs/Walk.v), for every snapshot, option record and
   pre_op: the descriptor counter never underflows (no panic); nothing the dirs()/files() filter
   rejects is ever yielded, deferred directories included; the whole event sequence is independent
   of max_descriptors.  Memfs/WalkSpec.v states what a traversal denotes as a plain recursion over the
   snapshot (visit an entry: LinkLooping if it is a followed link to a directory already open above it;
   otherwise pre_op, the entry itself if the depth window and the filter select it - after its contents
   with contents_first - and its children in the per-directory order, one level deeper, while the depth
   is below max_depth), and proves that the iterator machine (iterator stack, deferred stack, one `next`
   call per item) returns exactly the recursion's event sequence, for every snapshot, option record,
   pre_op and start, links followed or not, whenever the recursion is defined and the fuel covers its
   steps; Memfs/WalkTerm.v proves both always hold when links are not followed (termination within
   fuel: at most three machine steps per entry under the start).  PARTIAL: with links followed,
   termination is exercised (the driver also compares machine and recursion on every explored call),
   not proved; the order relations and the exact multiset are read off the recursion and judged on
   every explored case by tools/walkspec.py (stream walk-valid). *)
From stdpp Require Import gmap.
From Coq Require Import NArith.
From RV Require Import Base.Str Path.Helpers Memfs.State Memfs.Walk Memfs.WalkFacts Memfs.WalkSpec Memfs.WalkTerm.

Theorem C08_walk_no_panic : forall sn o pre p, walk sn o pre p <> inl Panic.
Proof. exact walk_no_panic. Qed.
Print Assumptions C08_walk_no_panic.

Theorem C08_walk_no_rejected : forall sn o pre p evs, walk sn o pre p = inl (Done evs) ->
  forall x, In (IOk x) (items_of evs) -> passes o x = true.
Proof. exact walk_no_rejected. Qed.
Print Assumptions C08_walk_no_rejected.

Theorem C08_walk_cap_independent : forall sn o pre p evs cap,
  walk sn o pre p = inl (Done evs) -> walk sn (w_maxdesc o cap) pre p = inl (Done evs).
Proof. exact walk_cap_independent. Qed.
Print Assumptions C08_walk_cap_independent.

(* the iterator machine computes the recursion: for every snapshot, options, pre_op and start *)
Theorem C08_walk_is_recursion : forall (E : gmap (list (list N)) entry) o pre rootp r h evs,
  E !! rootp = Some r -> sw_walk h E o pre r = Some evs ->
  steps h E o pre [] (if o_follow o then follow_e r else r) + 1 <= walk_fuel E ->
  length (items_of evs) + 1 < walk_fuel E ->
  walk E o pre rootp = inl (Done evs).
Proof. exact walk_is_spec. Qed.
Print Assumptions C08_walk_is_recursion.

(* without following links: it terminates within its fuel, with the recursion's events *)
Theorem C08_walk_nofollow : forall (E : gmap (list (list N)) entry) o pre rootp r,
  key_ok E -> o_follow o = false -> E !! rootp = Some r ->
  exists h evs, sw_walk h E o pre r = Some evs /\ walk E o pre rootp = inl (Done evs).
Proof. exact walk_nofollow. Qed.
Print Assumptions C08_walk_nofollow.

Theorem C08_walk_nofollow_terminates : forall (E : gmap (list (list N)) entry) o pre rootp,
  key_ok E -> o_follow o = false -> walk E o pre rootp <> inl OutOfFuel.
Proof. exact walk_nofollow_terminates. Qed.
Print Assumptions C08_walk_nofollow_terminates.

(* C08 — traversal yields exactly the selected entries, once, in order, and terminates.
   Proved about the mirror of EntriesIter (Memfs/Walk.v), for every snapshot, option record and
   pre_op: the descriptor counter never underflows (no panic); nothing the dirs()/files() filter
   rejects is ever yielded, deferred directories included; the whole event sequence is independent
   of max_descriptors.  PARTIAL: exactness of the yielded multiset, the order relations and
   termination are judged on every explored case by the independent recursive specification
   tools/walkspec.py (stream walk-valid), not yet by theorems. *)
From stdpp Require Import gmap.
From Coq Require Import NArith.
From RV Require Import Base.Str Path.Helpers Memfs.State Memfs.Walk Memfs.WalkFacts.

Theorem C08_walk_no_panic : forall sn o pre p, walk sn o pre p <> inl Panic.
Proof. exact walk_no_panic. Qed.
Print Assumptions C08_walk_no_panic.

Theorem C08_walk_no_rejected : forall sn o pre p evs, walk sn o pre p = inl (Done evs) ->
  forall x, In (IOk x) (items_of evs) -> passes o x = true.
Proof. exact walk_no_rejected. Qed.
Print Assumptions C08_walk_no_rejected.

Theorem C08_walk_cap_independent : forall sn o pre p evs cap,
  walk sn o pre p = inl (Done evs) -> walk sn (w_maxdesc o cap) pre p = inl (Done evs).
Proof. exact walk_cap_independent. Qed.
Print Assumptions C08_walk_cap_independent.

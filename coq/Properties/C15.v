(* C15 — path helpers obey their inverse and containment laws on all UTF-8 input.
   Statements are about the mirrors in Path/Helpers.v (tied to the code by the h-* streams; the laws
   themselves are also evaluated on the real code by the law_* streams).
   The splitting laws hold on ARBITRARY strings (Path/SplitFacts.v: repeated separators, "." segments and
   trailing separators included): trim_last / dir drop exactly the last component, trim_first exactly the
   first, base / last / first name exactly that component, dir fails exactly on the empty path and the
   root.  trim_protocol is given in closed form (Path/ProtocolFacts.v): it removes the text up to and
   including the first "//" exactly when that text lower-cased is one of the four schemes, and returns
   the path unchanged otherwise.  KF-C15-ext: see ext_split / ext_split_refuted. *)
From Coq Require Import List NArith.
From RV Require Import Base.Str Base.PathLex Path.Helpers Path.HelpersFacts Path.SplitFacts Path.ProtocolFacts.

Theorem C15_trim_prefix_inv : forall s p, trim_prefix (s ++ p) s = p.
Proof. exact trim_prefix_inv. Qed.
Print Assumptions C15_trim_prefix_inv.

Theorem C15_trim_prefix_id : forall p s, (forall t, p <> s ++ t) -> trim_prefix p s = p.
Proof. exact (fun p s H => trim_prefix_id p s (not_prefix_starts_with p s H)). Qed.
Print Assumptions C15_trim_prefix_id.

Theorem C15_trim_suffix_inv : forall p s, trim_suffix (p ++ s) s = p.
Proof. exact trim_suffix_inv. Qed.
Print Assumptions C15_trim_suffix_inv.

Theorem C15_trim_suffix_id : forall p s, (forall t, p <> t ++ s) -> trim_suffix p s = p.
Proof. exact (fun p s H => trim_suffix_id p s (not_suffix_ends_with p s H)). Qed.
Print Assumptions C15_trim_suffix_id.

Theorem C15_ext_split : forall p e, ext p = Ok e -> kf_ext_class p = false -> trim_ext p ++ dot :: e = p.
Proof. exact ext_split. Qed.
Print Assumptions C15_ext_split.

Theorem C15_ext_split_refuted : exists p e, ext p = Ok e /\ kf_ext_class p = true /\ trim_ext p ++ dot :: e <> p.
Proof. exact ext_split_refuted. Qed.
Print Assumptions C15_ext_split_refuted.

Theorem C15_name_base : forall p,
  match ext p with
  | inl e => exists n b, name p = Ok n /\ base p = Ok b /\ n ++ dot :: e = b
  | inr _ => name p = base p
  end.
Proof. exact name_base. Qed.
Print Assumptions C15_name_base.

Theorem C15_mash_components : forall d p, d <> nil ->
  components (mash d p) = components d ++ flat_map (seg_comp false) (split (strip_seps p)).
Proof. exact mash_components. Qed.
Print Assumptions C15_mash_components.

Theorem C15_mash_components_empty_dir : forall p, components (mash nil p) = components (strip_seps p).
Proof. exact mash_components_empty_dir. Qed.
Print Assumptions C15_mash_components_empty_dir.

Theorem C15_mash_under : forall d p, path_starts_with (mash d p) d = true.
Proof. exact mash_under. Qed.
Print Assumptions C15_mash_under.

Theorem C15_mash_rendered : forall d p, mash d p = render (components (mash d p)).
Proof. exact mash_rendered. Qed.
Print Assumptions C15_mash_rendered.

Theorem C15_has_iff : forall p v, has p v = true <-> exists a b, p = a ++ v ++ b.
Proof. exact has_iff. Qed.
Print Assumptions C15_has_iff.

Theorem C15_has_prefix_iff : forall p v, has_prefix p v = true <-> exists t, p = v ++ t.
Proof. exact has_prefix_iff. Qed.
Print Assumptions C15_has_prefix_iff.

Theorem C15_has_suffix_iff : forall p v, has_suffix p v = true <-> exists t, p = t ++ v.
Proof. exact has_suffix_iff. Qed.
Print Assumptions C15_has_suffix_iff.

Theorem C15_concat_app : forall p v, concat p v = p ++ v.
Proof. exact concat_app. Qed.
Print Assumptions C15_concat_app.

Theorem C15_parse_paths_spec : forall v,
  parse_paths v = filter (fun g => negb (is_nil_str g)) (split_on colon v) /\
  Forall (fun g => g <> nil /\ Forall (fun c => c <> colon) g) (parse_paths v) /\
  List.concat (map (fun g => g ++ colon :: nil) (split_on colon v)) = v ++ colon :: nil.
Proof. exact parse_paths_spec. Qed.
Print Assumptions C15_parse_paths_spec.

(* splitting off exactly one component, on arbitrary strings *)
Theorem C15_trim_last_components : forall s, components (trim_last s) = removelast (components s).
Proof. exact trim_last_components. Qed.
Print Assumptions C15_trim_last_components.

Theorem C15_trim_first_components : forall s, components (trim_first s) = tl (components s).
Proof. exact trim_first_components. Qed.
Print Assumptions C15_trim_first_components.

Theorem C15_dir_base_split : forall p d, dir p = Ok d ->
  exists c, components p = components d ++ (c :: nil) /\ base p = Ok (comp_str c) /\ c <> CRoot.
Proof. exact dir_base_split. Qed.
Print Assumptions C15_dir_base_split.

Theorem C15_dir_fails : forall p, dir p = Err EParentNotFound <-> (components p = nil \/ components p = CRoot :: nil).
Proof. exact dir_fails. Qed.
Print Assumptions C15_dir_fails.

Theorem C15_first_trim_first_split : forall p f, first p = Ok f ->
  exists c, components p = c :: components (trim_first p) /\ f = comp_str c.
Proof. exact first_trim_first_split. Qed.
Print Assumptions C15_first_trim_first_split.

Theorem C15_last_trim_last_split : forall p l, last p = Ok l ->
  exists c, components p = components (trim_last p) ++ (c :: nil) /\ l = comp_str c.
Proof. exact last_trim_last_split. Qed.
Print Assumptions C15_last_trim_last_split.

(* trim_protocol removes one leading scheme, case-insensitively, and nothing else *)
Theorem C15_trim_protocol_closed : forall p,
  trim_protocol p = match find p (slash :: slash :: nil) with
                    | Some i => if is_scheme (map ascii_lower (firstn (i + 2) p)) then skipn (i + 2) p else p
                    | None => p
                    end.
Proof. exact trim_protocol_closed. Qed.
Print Assumptions C15_trim_protocol_closed.

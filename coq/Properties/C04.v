(* C04 — Memfs operations are atomic and deadlock-free under concurrent use.
   Conc/Lin.v: for ANY sequential step function and EVERY schedule of threads whose calls each run one critical
   section under one lock; Conc/MemfsConc.v instantiates it with the Memfs mirror's step (Memfs/Step.v).
   Conc/LockTable.v: the table regenerated from the source on every run shows that discipline for every
   single-step operation of the statement.  Completeness: once every thread has finished, every call of every program is
   in the linearization exactly once (lin_complete, lin_once).  Conc/Appends.v: for programs that append to one existing
   regular file the final content, under any schedule, is the old content followed by every appended chunk in the order of
   the critical sections - each exactly once. *)
From stdpp Require Import gmap.
From Coq Require Import List String NArith.
From RV Require Import Base.Str Path.Helpers Path.Expand Memfs.State Memfs.Ops Memfs.Step Memfs.Wf Conc.Lin Conc.MemfsConc Conc.LockTable Conc.Appends Gen.Locks.
Import ListNotations.

(* the calls, in the order of their critical sections, replayed sequentially give the observed results and final state *)
Theorem C04_replay : forall env (s0 : mfs) (progs : list (list op)) (sched : list nat),
  let c := run _ _ _ (mstep env) (init _ _ _ s0 progs) sched in
  replay _ _ _ (mstep env) s0 (map (c_o _ _) (lin _ _ _ c)) = (st _ _ _ c, map (c_r _ _) (lin _ _ _ c)).
Proof. exact memfs_replay. Qed.
Print Assumptions C04_replay.

(* that order respects real-time precedence: a call that responded before another was invoked comes first *)
Theorem C04_real_time : forall env (s0 : mfs) (progs : list (list op)) sched xa xb tr,
  let c := run _ _ _ (mstep env) (init _ _ _ s0 progs) sched in
  In xa (lin _ _ _ c) -> In xb (lin _ _ _ c) -> In (c_t _ _ xa, c_i _ _ xa, tr) (resplog _ _ _ c) -> tr < c_inv _ _ xb ->
  precedes (lin _ _ _ c) xa xb.
Proof. exact memfs_real_time. Qed.
Print Assumptions C04_real_time.

(* ... and every thread's program order, and consists of the threads' own calls *)
Theorem C04_program_order : forall env (s0 : mfs) (progs : list (list op)) sched x y,
  let c := run _ _ _ (mstep env) (init _ _ _ s0 progs) sched in
  precedes (lin _ _ _ c) x y -> c_t _ _ x = c_t _ _ y -> c_i _ _ x < c_i _ _ y.
Proof. exact memfs_program_order. Qed.
Print Assumptions C04_program_order.

Theorem C04_calls_of_program : forall env (s0 : mfs) (progs : list (list op)) sched x,
  let c := run _ _ _ (mstep env) (init _ _ _ s0 progs) sched in
  In x (lin _ _ _ c) -> nth_error (nth (c_t _ _ x) progs []) (c_i _ _ x) = Some (c_o _ _ x).
Proof. exact memfs_calls_of_program. Qed.
Print Assumptions C04_calls_of_program.

(* no deadlock: while any thread has work left some thread can move, in every reachable configuration *)
Theorem C04_progress : forall env (s0 : mfs) (progs : list (list op)) sched,
  let c := run _ _ _ (mstep env) (init _ _ _ s0 progs) sched in
  (exists t th, nth_error (thr _ _ _ c) t = Some th /\ unfinished _ _ th) -> exists t c', move _ _ _ (mstep env) c t = Some c'.
Proof. exact memfs_progress. Qed.
Print Assumptions C04_progress.

(* no critical section panics (so the lock is never poisoned): the mirror never yields Panic *)
Theorem C04_no_panic : forall env m o, snd (mstep env m o) <> Panic.
Proof. exact memfs_cs_no_panic. Qed.
Print Assumptions C04_no_panic.

(* the discipline the model assumes holds of the current source *)
Theorem C04_single_step_discipline : discipline_ok = true.
Proof. exact single_step_discipline. Qed.
Print Assumptions C04_single_step_discipline.

Theorem C04_no_method_relocks : never_nested = true.
Proof. exact no_method_relocks. Qed.
Print Assumptions C04_no_method_relocks.

(* once every thread has finished, every call of every program is in the linearization ... *)
Theorem C04_lin_complete : forall env (s0 : mfs) (progs : list (list op)) sched,
  let c := run _ _ _ (mstep env) (init _ _ _ s0 progs) sched in
  (forall t th, nth_error (thr _ _ _ c) t = Some th -> todo _ _ th = [] /\ ph _ _ th = Idle _) ->
  forall t i o, nth_error (nth t progs []) i = Some o -> exists x, In x (lin _ _ _ c) /\ c_t _ _ x = t /\ c_i _ _ x = i /\ c_o _ _ x = o.
Proof. exact memfs_lin_complete. Qed.
Print Assumptions C04_lin_complete.

(* ... exactly once *)
Theorem C04_lin_once : forall env (s0 : mfs) (progs : list (list op)) sched x y,
  let c := run _ _ _ (mstep env) (init _ _ _ s0 progs) sched in
  In x (lin _ _ _ c) -> In y (lin _ _ _ c) -> c_t _ _ x = c_t _ _ y -> c_i _ _ x = c_i _ _ y -> x = y.
Proof. exact memfs_lin_once. Qed.
Print Assumptions C04_lin_once.

(* every concurrent append to one file is present in the final content, in the order of the critical sections *)
Theorem C04_concurrent_appends : forall env (s0 : mfs) (progs : list (list op)) (sched : list nat) s p f old,
  WF s0 -> resolve env s0 s = inl p -> m_ents s0 !! p = Some f -> e_file f = true -> e_link f = false -> e_dir f = false -> m_data s0 !! p = Some old ->
  Forall (Forall (is_append_to s)) progs ->
  let c := run _ _ _ (mstep env) (init _ _ _ s0 progs) sched in
  m_data (st _ _ _ c) !! p = Some (old ++ List.concat (map chunk (map (c_o _ _) (lin _ _ _ c)))).
Proof. exact concurrent_appends. Qed.
Print Assumptions C04_concurrent_appends.

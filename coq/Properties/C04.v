(* C04 — Memfs operations are atomic and deadlock-free under concurrent use.
   Conc/Lin.v: for ANY sequential step function and EVERY schedule of threads whose calls each run one critical
   section under one lock; Conc/MemfsConc.v instantiates it with the Memfs mirror's step (Memfs/Step.v).
   Conc/LockTable.v: the table regenerated from the source on every run shows that discipline for every
   single-step operation of the statement. *)
From Coq Require Import List String.
From RV Require Import Base.Str Path.Helpers Path.Expand Memfs.State Memfs.Step Conc.Lin Conc.MemfsConc Conc.LockTable Gen.Locks.
Import ListNotations.

(* the calls, in the order of their critical sections, replayed sequentially give the observed results and final state *)
Theorem C04_replay : forall env (s0 : mfs) (progs : list (list op)) (sched : list nat),
  let c := run _ _ _ (mstep env) (init _ _ _ s0 progs) sched in
  replay _ _ _ (mstep env) s0 (map (c_o _ _) (lin _ _ _ c)) = (st _ _ _ c, map (c_r _ _) (lin _ _ _ c)).
Proof. exact memfs_replay. Qed.
Print Assumptions C04_replay.

(* that order respects real-time precedence: a call that responded before another was invoked comes first *)
Theorem C04_real_time : forall env (s0 : mfs) (progs : list (list op)) sched xa xb tr,
  let c := run _ _ _ (mstep env) (init _ _ _ s0 progs) sched in
  In xa (lin _ _ _ c) -> In xb (lin _ _ _ c) -> In (c_t _ _ xa, c_i _ _ xa, tr) (resplog _ _ _ c) -> tr < c_inv _ _ xb ->
  precedes (lin _ _ _ c) xa xb.
Proof. exact memfs_real_time. Qed.
Print Assumptions C04_real_time.

(* ... and every thread's program order, and consists of the threads' own calls *)
Theorem C04_program_order : forall env (s0 : mfs) (progs : list (list op)) sched x y,
  let c := run _ _ _ (mstep env) (init _ _ _ s0 progs) sched in
  precedes (lin _ _ _ c) x y -> c_t _ _ x = c_t _ _ y -> c_i _ _ x < c_i _ _ y.
Proof. exact memfs_program_order. Qed.
Print Assumptions C04_program_order.

Theorem C04_calls_of_program : forall env (s0 : mfs) (progs : list (list op)) sched x,
  let c := run _ _ _ (mstep env) (init _ _ _ s0 progs) sched in
  In x (lin _ _ _ c) -> nth_error (nth (c_t _ _ x) progs []) (c_i _ _ x) = Some (c_o _ _ x).
Proof. exact memfs_calls_of_program. Qed.
Print Assumptions C04_calls_of_program.

(* no deadlock: while any thread has work left some thread can move, in every reachable configuration *)
Theorem C04_progress : forall env (s0 : mfs) (progs : list (list op)) sched,
  let c := run _ _ _ (mstep env) (init _ _ _ s0 progs) sched in
  (exists t th, nth_error (thr _ _ _ c) t = Some th /\ unfinished _ _ th) -> exists t c', move _ _ _ (mstep env) c t = Some c'.
Proof. exact memfs_progress. Qed.
Print Assumptions C04_progress.

(* no critical section panics (so the lock is never poisoned): the mirror never yields Panic *)
Theorem C04_no_panic : forall env m o, snd (mstep env m o) <> Panic.
Proof. exact memfs_cs_no_panic. Qed.
Print Assumptions C04_no_panic.

(* the discipline the model assumes holds of the current source *)
Theorem C04_single_step_discipline : discipline_ok = true.
Proof. exact single_step_discipline. Qed.
Print Assumptions C04_single_step_discipline.

Theorem C04_no_method_relocks : never_nested = true.
Proof. exact no_method_relocks. Qed.
Print Assumptions C04_no_method_relocks.

(* C20 — the assert_vfs_* macros are sound and complete test oracles.
   Macros/Asserts.v mirrors each macro body over the Memfs mirror.  Proved: every checking macro passes
   exactly when its predicate holds in the state (so it never passes vacuously and never fails on a
   satisfying state), never changes the state, and a panic names the macro itself; acting macros that
   pass establish their postcondition.  PARTIAL: "panics exactly when the postcondition does not hold"
   for the acting macros is covered by the exhaustive comparison with the real macros (their mirrors are
   the macro bodies: operation, then the postcondition check); the Stdfs side runs in C02's streams, whose
   alphabet contains every macro and compares pass / panic and the resulting tree on both backends. *)
From stdpp Require Import gmap.
From Coq Require Import NArith.
From RV Require Import Base.Str Base.Utf8 Path.Helpers Path.Expand Memfs.State Memfs.Ops Memfs.Step Macros.Asserts Macros.AssertsFacts Macros.AssertsMore.

Theorem C20_exists_iff : forall env m s, (a_exists env m s).2 = Pass <-> exists p, resolve env m s = inl p /\ exists_at m p = true.
Proof. exact a_exists_iff. Qed.
Print Assumptions C20_exists_iff.
Theorem C20_no_exists_iff : forall env m s, (a_no_exists env m s).2 = Pass <-> exists p, resolve env m s = inl p /\ exists_at m p = false.
Proof. exact a_no_exists_iff. Qed.
Print Assumptions C20_no_exists_iff.
Theorem C20_is_dir_iff : forall env m s, (a_is_dir env m s).2 = Pass <-> exists p, resolve env m s = inl p /\ is_dir_at m p = true.
Proof. exact a_is_dir_iff. Qed.
Print Assumptions C20_is_dir_iff.
Theorem C20_no_dir_iff : forall env m s, (a_no_dir env m s).2 = Pass <-> exists p, resolve env m s = inl p /\ is_dir_at m p = false.
Proof. exact a_no_dir_iff. Qed.
Print Assumptions C20_no_dir_iff.
Theorem C20_is_file_iff : forall env m s, (a_is_file env m s).2 = Pass <-> exists p, resolve env m s = inl p /\ is_file_at m p = true.
Proof. exact a_is_file_iff. Qed.
Print Assumptions C20_is_file_iff.
Theorem C20_no_file_iff : forall env m s, (a_no_file env m s).2 = Pass <-> exists p, resolve env m s = inl p /\ is_file_at m p = false.
Proof. exact a_no_file_iff. Qed.
Print Assumptions C20_no_file_iff.
Theorem C20_is_symlink_iff : forall env m s, (a_is_symlink env m s).2 = Pass <-> exists p, resolve env m s = inl p /\ is_symlink_at m p = true.
Proof. exact a_is_symlink_iff. Qed.
Print Assumptions C20_is_symlink_iff.
Theorem C20_no_symlink_iff : forall env m s, (a_no_symlink env m s).2 = Pass <-> exists p, resolve env m s = inl p /\ is_symlink_at m p = false.
Proof. exact a_no_symlink_iff. Qed.
Print Assumptions C20_no_symlink_iff.
Theorem C20_read_all_iff : forall env m s d, (a_read_all env m s d).2 = Pass <->
  exists p, resolve env m s = inl p /\ is_file_at m p = true /\ file_bytes m p = Some d /\ valid_utf8 d = true.
Proof. exact a_read_all_iff. Qed.
Print Assumptions C20_read_all_iff.
Theorem C20_checking_macros_pure : forall env m s d,
  (a_exists env m s).1 = m /\ (a_no_exists env m s).1 = m /\ (a_is_dir env m s).1 = m /\ (a_no_dir env m s).1 = m /\
  (a_is_file env m s).1 = m /\ (a_no_file env m s).1 = m /\ (a_is_symlink env m s).1 = m /\ (a_no_symlink env m s).1 = m /\
  (a_read_all env m s d).1 = m /\ (a_readlink env m s d).1 = m /\ (a_readlink_abs env m s d).1 = m.
Proof. exact checking_macros_pure. Qed.
Print Assumptions C20_checking_macros_pure.
Theorem C20_checking_macros_name_themselves : forall env m s d,
  names (a_exists env m s).2 M_exists /\ names (a_no_exists env m s).2 M_no_exists /\
  names (a_is_dir env m s).2 M_is_dir /\ names (a_no_dir env m s).2 M_no_dir /\
  names (a_is_file env m s).2 M_is_file /\ names (a_no_file env m s).2 M_no_file /\
  names (a_is_symlink env m s).2 M_is_symlink /\ names (a_no_symlink env m s).2 M_no_symlink /\
  names (a_read_all env m s d).2 M_read_all /\ names (a_readlink env m s d).2 M_readlink /\
  names (a_readlink_abs env m s d).2 M_readlink_abs.
Proof. exact checking_macros_name_themselves. Qed.
Print Assumptions C20_checking_macros_name_themselves.
Theorem C20_mkdir_p_post : forall env m s m', a_mkdir_p env m s = (m', Pass) -> exists p, resolve env m s = inl p /\ is_dir_at m' p = true.
Proof. exact a_mkdir_p_post. Qed.
Print Assumptions C20_mkdir_p_post.
Theorem C20_mkfile_post : forall env m s m', a_mkfile env m s = (m', Pass) -> exists p, resolve env m s = inl p /\ is_file_at m' p = true.
Proof. exact a_mkfile_post. Qed.
Print Assumptions C20_mkfile_post.
Theorem C20_write_all_post : forall env m s d m', a_write_all env m s d = (m', Pass) -> exists p, resolve env m s = inl p /\ is_file_at m' p = true.
Proof. exact a_write_all_post. Qed.
Print Assumptions C20_write_all_post.
Theorem C20_symlink_post : forall env m l t m', a_symlink env m l t = (m', Pass) -> exists p, resolve env m l = inl p /\ is_symlink_at m' p = true.
Proof. exact a_symlink_post. Qed.
Print Assumptions C20_symlink_post.
Theorem C20_remove_post : forall env m s m', a_remove env m s = (m', Pass) -> exists p, resolve env m s = inl p /\ exists_at m' p = false.
Proof. exact a_remove_post. Qed.
Print Assumptions C20_remove_post.

(* the link-reading checkers *)
Theorem C20_readlink_iff : forall env m s x, (a_readlink env m s x).2 = Pass <->
  exists p e, resolve env m s = inl p /\ m_ents m !! p = Some e /\ e_link e = true /\ e_rel e = x.
Proof. exact a_readlink_iff. Qed.
Print Assumptions C20_readlink_iff.

Theorem C20_readlink_abs_iff : forall env m s x, (a_readlink_abs env m s x).2 = Pass <->
  exists p t e, resolve env m s = inl p /\ resolve env m x = inl t /\ m_ents m !! p = Some e /\ e_link e = true /\ e_alt e = Some t.
Proof. exact a_readlink_abs_iff. Qed.
Print Assumptions C20_readlink_abs_iff.

Theorem C20_readlink_macros_pure : forall env m s x, (a_readlink env m s x).1 = m /\ (a_readlink_abs env m s x).1 = m.
Proof. exact readlink_macros_pure. Qed.
Print Assumptions C20_readlink_macros_pure.

Theorem C20_mkdir_m_post : forall env m s mode m', a_mkdir_m env m s mode = (m', Pass) ->
  exists p e, resolve env m s = inl p /\ is_dir_at m' p = true /\ m_ents m' !! p = Some e /\ N.land (e_mode e) 4095 = N.land mode 4095.
Proof. exact a_mkdir_m_post. Qed.
Print Assumptions C20_mkdir_m_post.

Theorem C20_remove_all_post : forall env m s m', a_remove_all env m s = Done (m', Pass) -> exists p, resolve env m s = inl p /\ exists_at m' p = false.
Proof. exact a_remove_all_post. Qed.
Print Assumptions C20_remove_all_post.

(* C19 — core iterator, string, option helpers match their plain definitions.
   (The defer clause is modelled in Core/Defer.v; see DESIGN §7 C19.) *)
From Coq Require Import List ZArith NArith.
From RV Require Import Base.Str Core.Iter Core.IterFacts Defer.
Local Open Scope Z_scope.

Theorem C19_drop_is_spec : forall (A : Type) n (l : list A), in_isize n -> drop n l = drop_spec n l.
Proof. exact @drop_is_spec. Qed.
Print Assumptions C19_drop_is_spec.

Theorem C19_drop_pos : forall (A : Type) n (l : list A), 0 < n -> drop_spec n l = skipn (Z.to_nat n) l.
Proof. exact @drop_spec_pos. Qed.
Print Assumptions C19_drop_pos.

Theorem C19_drop_neg : forall (A : Type) n (l : list A), n < 0 -> drop_spec n l = firstn (length l - Z.to_nat (- n)) l.
Proof. exact @drop_spec_neg. Qed.
Print Assumptions C19_drop_neg.

Theorem C19_slice_is_spec : forall (A : Type) left right (xs : list A),
  len_ok xs -> in_isize left -> in_isize right -> - zlen xs <= left ->
  slice left right xs = slice_spec left right xs.
Proof. exact @slice_is_spec. Qed.
Print Assumptions C19_slice_is_spec.

Theorem C19_slice_empty : forall (A : Type) left right (xs : list A),
  let len := zlen xs in
  let lo := if left <? 0 then len + left else left in
  let hi := if right <? 0 then len + right else Z.min right (len - 1) in
  (hi < lo \/ len <= lo \/ hi < 0) -> slice_spec left right xs = nil.
Proof. exact @slice_spec_empty. Qed.
Print Assumptions C19_slice_empty.

Theorem C19_first : forall (A : Type) (l : list A), it_first l = hd_error l.
Proof. exact @it_first_spec. Qed.
Print Assumptions C19_first.

Theorem C19_first_result : forall (A : Type) (l : list A),
  it_first_result l = match hd_error l with Some x => inl x | None => inr ItemNotFound end.
Proof. exact @it_first_result_spec. Qed.
Print Assumptions C19_first_result.

Theorem C19_last_result : forall (A : Type) (l : list A),
  it_last_result l = match l with nil => inr ItemNotFound | x :: t => inl (List.last t x) end.
Proof. exact @it_last_result_spec. Qed.
Print Assumptions C19_last_result.

Theorem C19_single : forall (A : Type) (l : list A),
  it_single l = match length l with 0%nat => inr ItemNotFound
                | 1%nat => match l with x :: _ => inl x | nil => inr ItemNotFound end
                | _ => inr MultipleItemsFound end.
Proof. exact @it_single_spec. Qed.
Print Assumptions C19_single.

Theorem C19_some : forall (A : Type) (l : list A), it_some l = negb (Nat.eqb (length l) 0).
Proof. exact @it_some_spec. Qed.
Print Assumptions C19_some.

Theorem C19_consume : forall (A : Type) (l : list A), it_consume l = nil.
Proof. exact @it_consume_spec. Qed.
Print Assumptions C19_consume.

Theorem C19_size : forall s, str_size s = length s.
Proof. exact str_size_is_length. Qed.
Print Assumptions C19_size.

Theorem C19_to_bool : forall s,
  str_to_bool s = false <-> s = nil \/ map ascii_lower s = s_false \/ s = s_zero.
Proof. exact str_to_bool_false_iff. Qed.
Print Assumptions C19_to_bool.

Theorem C19_trim_suffix_once : forall s suffix,
  (exists t, s = t ++ suffix /\ str_trim_suffix s suffix = t) \/
  ((forall t, s <> t ++ suffix) /\ str_trim_suffix s suffix = s).
Proof. exact str_trim_suffix_once. Qed.
Print Assumptions C19_trim_suffix_once.

Theorem C19_opt_has : forall (A : Type) (eqb : A -> A -> bool),
  (forall a b, eqb a b = true <-> a = b) -> forall o x, opt_has eqb o x = true <-> o = Some x.
Proof. exact @opt_has_spec. Qed.
Print Assumptions C19_opt_has.

Theorem C19_take_while_p_longest : forall (A : Type) (p : A -> bool) l,
  let '(t, r) := take_while_p p l in
  l = t ++ r /\ forallb p t = true /\ match r with x :: _ => p x = false | nil => True end.
Proof. exact @take_while_p_longest. Qed.
Print Assumptions C19_take_while_p_longest.

(* defer: over Rust's scope semantics for locals (Core/Defer.v), every registered closure runs exactly once — as a
   multiset the log is the ordinary actions plus the registered defers — however the scopes are left ... *)
Theorem C19_defer_exactly_once : forall ss x,
  (count_occ Nat.eq_dec (fst (Defer.run ss)) x =
   count_occ Nat.eq_dec (fst (Defer.registered ss)) x + count_occ Nat.eq_dec (fst (Defer.logged ss)) x)%nat.
Proof. exact defer_exactly_once. Qed.
Print Assumptions C19_defer_exactly_once.

(* ... in reverse order of registration after the scope's own actions (normal end, early return or panic alike) *)
Theorem C19_defer_lifo : forall ss, Defer.flat ss ->
  fst (Defer.run ss) = (fst (Defer.logged ss) ++ rev (fst (Defer.registered ss)))%list.
Proof. exact defer_lifo. Qed.
Print Assumptions C19_defer_lifo.

(* ... an enclosing defer still runs when an inner scope is left early *)
Theorem C19_defer_runs_on_early_exit : forall id body l e, Defer.run body = (l, e) -> e <> Defer.Normal ->
  Defer.run (Defer.SCons (Defer.SDefer id) (Defer.SCons (Defer.SScope body) Defer.SNil)) = ((l ++ (id :: nil))%list, e).
Proof. exact defer_runs_on_early_exit. Qed.
Print Assumptions C19_defer_runs_on_early_exit.

(* C02 — Stdfs and Memfs are interchangeable inside the stated domain.
   What is proved: the domain restriction of the property (no argument passes through a symlink) is exactly
   what makes Memfs' lexical lookup coincide with component-wise POSIX resolution over the same tree; the
   agreement of the two implementations themselves is decided by the side-by-side runs (DESIGN.md §7 C02). *)
From stdpp Require Import gmap.
From RV Require Import Memfs.State Memfs.Posix.

Theorem C02_posix_is_lexical : forall m p, no_link_above m p -> posix_lookup (S (length p)) m p = Some p.
Proof. exact posix_is_lexical. Qed.
Print Assumptions C02_posix_is_lexical.

Theorem C02_presolve_lexical : forall fuel m cur comps,
  length comps < fuel ->
  (forall pre c post, comps = pre ++ c :: post -> post <> [] -> is_link_at m (c :: rev pre ++ cur) = false) ->
  presolve fuel m cur comps = Some (rev comps ++ cur).
Proof. exact presolve_lexical. Qed.
Print Assumptions C02_presolve_lexical.

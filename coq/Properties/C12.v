(* C12 — no call panics, hangs or wedges the filesystem, whatever its arguments.
   The mirrors carry the panic sites of the code explicitly (Panic outcomes); here: no operation of
   the Memfs alphabet reaches one, for any state and any argument strings, and the pure helpers are
   total.  Bounded time is fuel-bounded termination of the mirrors' worklist loops: proved for expand's
   scanner (C17), for move_p (its relocation loop finishes within 2 * entries + 2 iterations in every
   well-formed state) and for remove_all (its depth-first worklist finishes within 2 * entries + 2
   iterations in every well-formed state, the root included) and for the traversal when links are not
   followed (at most three machine steps per entry) - hence for EVERY call of the alphabet that does not
   ask to follow links (step_terminates: listings, entries, copy, chmod, chown, mkfile_m included).
   PARTIAL: for a traversal that follows links (entries / copy / chmod / chown with follow) the fuel
   bound is exercised (a HANG outcome in the transcripts would be a mismatch), not proved. *)
From stdpp Require Import gmap.
From Coq Require Import NArith.
From RV Require Import Base.Str Path.Clean Path.CleanFacts Path.Helpers Path.Expand Path.ExpandFacts
  Memfs.State Memfs.Ops Memfs.Walk Memfs.WalkFacts Memfs.Step Memfs.Wf Memfs.ContentFacts Memfs.WfMove Memfs.RemoveAll Memfs.WalkSpec Memfs.WalkTerm Memfs.WalkExact Memfs.Terminates.

Theorem C12_step_no_panic : forall env m o, step env m o <> Panic.
Proof. exact step_no_panic. Qed.
Print Assumptions C12_step_no_panic.

Theorem C12_walk_no_panic : forall sn o pre p, walk sn o pre p <> inl Panic.
Proof. exact walk_no_panic. Qed.
Print Assumptions C12_walk_no_panic.

(* the instance remains usable: the state after any call, successful or not, is again well-formed *)
Theorem C12_usable_after : forall env m o m' r, WF m -> step env m o = Done (m', r) -> WF m'.
Proof. exact wf_step. Qed.
Print Assumptions C12_usable_after.

(* move_p never runs out of fuel: its loop finishes within the bound the mirror gives it *)
Theorem C12_move_p_terminates : forall env m s d, WF m -> move_op env m s d <> OutOfFuel.
Proof. exact move_op_terminates. Qed.
Print Assumptions C12_move_p_terminates.

(* remove_all never runs out of fuel either, on any path, the root included *)
Theorem C12_remove_all_terminates : forall env m s, WF m -> remove_all_op env m s <> OutOfFuel.
Proof. exact remove_all_op_terminates. Qed.
Print Assumptions C12_remove_all_terminates.

(* entries() without following links never runs out of fuel *)
Theorem C12_walk_nofollow_terminates : forall m o pre rootp, WF m -> o_follow o = false ->
  walk (m_ents m) o pre rootp <> inl OutOfFuel.
Proof. exact walk_nofollow_wf. Qed.
Print Assumptions C12_walk_nofollow_terminates.

(* every call that does not ask to follow links finishes within its fuel *)
Theorem C12_step_terminates : forall env m o, WF m -> follows o = false -> step env m o <> OutOfFuel.
Proof. exact step_terminates. Qed.
Print Assumptions C12_step_terminates.

Theorem C12_clean_total : forall s, clean s <> Panic /\ clean s <> OutOfFuel.
Proof. exact clean_total. Qed.
Print Assumptions C12_clean_total.

Theorem C12_expand_scanner_terminates : forall env chars fuel acc, length chars < fuel ->
  expand_seg fuel env chars acc <> inr EOther.
Proof. exact expand_seg_no_fuel_error. Qed.
Print Assumptions C12_expand_scanner_terminates.

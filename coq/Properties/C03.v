(* C03 — the Memfs namespace stays a well-formed tree after any history, even failed calls.
   WF (Memfs/Wf.v) is the statement's conjunction over the three indexes of the mirror state.
   Proved here: WF holds initially and is preserved by EVERY operation of the alphabet - move_p with its
   relocation loop (Memfs/WfMove.v), copy, chmod, chown and mkfile_m included - for all states and arguments
   and whether the call succeeds or fails, hence after every history; the boolean checker wf_b (extracted
   and evaluated on every state snapshot the correspondence runs produce) is sound. *)
From stdpp Require Import gmap.
From Coq Require Import NArith.
From RV Require Import Base.Str Path.Expand Memfs.State Memfs.Ops Memfs.Step Memfs.Wf Memfs.WfMore Memfs.WfMove Memfs.WfB.

Theorem C03_wf_init : WF mfs_init.
Proof. exact wf_init. Qed.
Print Assumptions C03_wf_init.

Theorem C03_wf_step_partial : forall env m o m' r,
  WF m -> is_move o = false -> step env m o = Done (m', r) -> WF m'.
Proof. exact wf_step_nonmove. Qed.
Print Assumptions C03_wf_step_partial.

Theorem C03_wf_step_all_but_move_p : forall env m o m' r,
  WF m -> is_move_p o = false -> step env m o = Done (m', r) -> WF m'.
Proof. exact wf_step_nonmovep. Qed.
Print Assumptions C03_wf_step_all_but_move_p.

Theorem C03_wf_history : forall env os m m', WF m ->
  forallb (fun o => negb (is_move_p o)) os = true -> run_ops env m os = Some m' -> WF m'.
Proof. exact wf_history. Qed.
Print Assumptions C03_wf_history.

Theorem C03_move_p_wf : forall env m s d m' r, WF m -> move_op env m s d = Done (m', r) -> WF m'.
Proof. exact move_op_wf. Qed.
Print Assumptions C03_move_p_wf.

Theorem C03_wf_step : forall env m o m' r, WF m -> step env m o = Done (m', r) -> WF m'.
Proof. exact wf_step. Qed.
Print Assumptions C03_wf_step.

Theorem C03_wf_all_histories : forall env os m m', WF m -> run_ops env m os = Some m' -> WF m'.
Proof. exact wf_all_histories. Qed.
Print Assumptions C03_wf_all_histories.

Theorem C03_add_wf : forall m e, WF m -> fresh e -> WF (add m e).1.
Proof. exact add_wf. Qed.
Print Assumptions C03_add_wf.

Theorem C03_remove_all_wf : forall env m s r, WF m -> remove_all_op env m s = Done r -> WF r.1.
Proof. exact remove_all_wf. Qed.
Print Assumptions C03_remove_all_wf.

Theorem C03_wf_b_sound : forall m, wf_b m = true -> WF m.
Proof. exact wf_b_sound. Qed.
Print Assumptions C03_wf_b_sound.

(* recursive listing from the root reaches every existing path: all its ancestors exist *)
Theorem C03_wf_reachable : forall m, WF m -> forall p e, m_ents m !! p = Some e ->
  forall k, k <= length p -> is_Some (m_ents m !! drop k p).
Proof. exact wf_reachable. Qed.
Print Assumptions C03_wf_reachable.

(* Chmod/SymIndep.v — whether a symbolic expression is accepted, and with which error it is rejected, does not depend on
   the entry it is applied to (C11: a malformed expression is rejected for every entry alike; well-formedness is a property of
   the text).  Only the resulting mode depends on the entry's kind and current mode. *)
From Coq Require Import List NArith Bool Lia Arith.
Import ListNotations.
From RV Require Import Base.Str Chmod.Sym.
Local Open Scope N_scope.

(* same shape: both accepted, or both rejected with the same error *)
Definition same_shape {A B} (x : cres A) (y : cres B) : Prop :=
  match x, y with inl _, inl _ => True | inr e, inr e' => e = e' | _, _ => False end.

Lemma target_loop_indep k k' : forall rest c a a',
  match target_loop k c rest a, target_loop k' c rest a' with
  | inl (_, r), inl (_, r') => r = r'
  | inr e, inr e' => e = e'
  | _, _ => False
  end.
Proof.
  induction rest as [|c' rest IH]; intros c a a'; cbn [target_loop].
  - destruct (negb _); [reflexivity|]. destruct (N.eqb c ch_colon); reflexivity.
  - destruct (negb _); [reflexivity|]. destruct (N.eqb c ch_colon); [reflexivity|]. apply IH.
Qed.

Lemma clause_step_indep k k' c rest m m' :
  match clause_step k c rest m, clause_step k' c rest m' with
  | inl (_, r, b), inl (_, r', b') => r = r' /\ b = b'
  | inr e, inr e' => e = e'
  | _, _ => False
  end.
Proof.
  unfold clause_step. pose proof (target_loop_indep k k' rest c true true) as H.
  destruct (target_loop k c rest true) as [[a r1]|e]; destruct (target_loop k' c rest true) as [[a' r1']|e']; try contradiction; [|exact H].
  subst r1'. destruct r1 as [|c1 r1]; [split; reflexivity|].
  destruct (group_loop c1 r1 0) as [[[g op] r2]|e]; [|reflexivity].
  destruct (N.eqb g 0); [reflexivity|]. destruct r2 as [|c2 r2]; [reflexivity|].
  destruct (perm_loop c2 r2 0) as [[[p r3] cm]|e]; [|reflexivity].
  destruct (N.eqb p 0); [reflexivity|]. split; reflexivity.
Qed.

Lemma mode_loop_indep k k' : forall fuel chars m m', same_shape (mode_loop fuel k chars m) (mode_loop fuel k' chars m').
Proof.
  induction fuel as [|f IH]; intros chars m m'; cbn [mode_loop]; [reflexivity|].
  destruct chars as [|c rest]; [exact I|].
  pose proof (clause_step_indep k k' c rest m m') as H.
  destruct (clause_step k c rest m) as [[[m1 r] b]|e]; destruct (clause_step k' c rest m') as [[[m1' r'] b']|e']; try contradiction; [|exact H].
  destruct H as [-> _]. apply IH.
Qed.

(* C11: acceptance of an expression is independent of the entry *)
Theorem sym_mode_shape k k' m m' octal sym : same_shape (sym_mode k m octal sym) (sym_mode k' m' octal sym).
Proof.
  unfold sym_mode. destruct (negb (N.eqb octal 0)); [exact I|]. destruct sym as [|c s]; [exact I|]. apply mode_loop_indep.
Qed.

Corollary sym_mode_error_indep k k' m m' octal sym e : sym_mode k m octal sym = inr e -> sym_mode k' m' octal sym = inr e.
Proof.
  intros H. pose proof (sym_mode_shape k k' m m' octal sym) as S. rewrite H in S. unfold same_shape in S.
  destruct (sym_mode k' m' octal sym) as [v|e']; [contradiction|]. congruence.
Qed.

Corollary sym_mode_accept_indep k k' m m' octal sym v : sym_mode k m octal sym = inl v -> exists v', sym_mode k' m' octal sym = inl v'.
Proof.
  intros H. pose proof (sym_mode_shape k k' m m' octal sym) as S. rewrite H in S. unfold same_shape in S.
  destruct (sym_mode k' m' octal sym) as [v'|e']; [eauto|contradiction].
Qed.

(* Chmod/SymFacts.v — proofs for the expression level of C11. *)
From Coq Require Import List NArith Bool Lia Arith.
Import ListNotations.
From RV Require Import Base.Str Chmod.Sym.
Local Open Scope N_scope.

(* unfolding equations (the loops recurse on the remaining characters) *)
Lemma target_loop_eq k c rest applies : target_loop k c rest applies =
  if negb (N.eqb c ch_d || N.eqb c ch_f || N.eqb c ch_a || N.eqb c ch_colon) then inr EChmodTarget else
  let applies := applies && negb (k_link k || (N.eqb c ch_d && negb (k_dir k)) || (N.eqb c ch_f && negb (k_file k))) in
  if N.eqb c ch_colon then inl (applies, rest)
  else match rest with [] => inr EChmod | c' :: rest' => target_loop k c' rest' applies end.
Proof. destruct rest; reflexivity. Qed.

Lemma group_loop_eq c rest group : group_loop c rest group =
  if N.eqb c ch_minus || N.eqb c ch_plus || N.eqb c ch_eq then inl (group, c, rest)
  else
    let g := if N.eqb c ch_u then Some 448 else if N.eqb c ch_g then Some 56
             else if N.eqb c ch_o then Some 7 else if N.eqb c ch_a then Some 511 else None in
    match g with
    | None => inr EChmodGroup
    | Some bits => match rest with [] => inr EChmod | c' :: rest' => group_loop c' rest' (N.lor group bits) end
    end.
Proof. destruct rest; reflexivity. Qed.

Lemma perm_loop_eq c rest perm : perm_loop c rest perm =
  if N.eqb c ch_comma then inl (perm, rest, true)
  else
    let p := if N.eqb c ch_r then Some 292 else if N.eqb c ch_w then Some 146
             else if N.eqb c ch_x then Some 73 else None in
    match p with
    | None => inr EChmodPerms
    | Some bits => match rest with [] => inl (N.lor perm bits, [], false) | c' :: rest' => perm_loop c' rest' (N.lor perm bits) end
    end.
Proof. destruct rest; reflexivity. Qed.

(* ---- the three scanning loops on the concrete syntax ---- *)
Lemma target_loop_spec k ts rest applies :
  match map target_char ts ++ ch_colon :: rest with
  | c :: r => target_loop k c r applies =
              inl (applies && negb (k_link k) && forallb (target_applies k) ts, rest)
  | [] => False
  end.
Proof.
  revert applies. induction ts as [|t ts IH]; intros applies; cbn [map app].
  - rewrite target_loop_eq. cbn. destruct (k_link k), applies; reflexivity.
  - destruct (map target_char ts ++ ch_colon :: rest) as [|c r] eqn:E; [destruct (IH true)|].
    rewrite target_loop_eq. destruct t; cbn - [target_loop]; rewrite IH; cbn [forallb target_applies];
      destruct applies, (k_link k), (k_dir k), (k_file k); cbn; reflexivity.
Qed.

Lemma bits_of_cons {A} (f : A -> N) x l acc :
  fold_left (fun a y => N.lor a (f y)) (x :: l) acc = fold_left (fun a y => N.lor a (f y)) l (N.lor acc (f x)).
Proof. reflexivity. Qed.

Lemma group_loop_spec ws o rest group :
  match map who_char ws ++ op_char o :: rest with
  | c :: r => group_loop c r group = inl (fold_left (fun a w => N.lor a (who_bits w)) ws group, op_char o, rest)
  | [] => False
  end.
Proof.
  revert group. induction ws as [|w ws IH]; intros group; cbn [map app].
  - rewrite group_loop_eq. destruct o; reflexivity.
  - destruct (map who_char ws ++ op_char o :: rest) as [|c r] eqn:E; [destruct (IH 0)|].
    rewrite group_loop_eq. destruct w; cbn - [group_loop N.lor]; rewrite IH; reflexivity.
Qed.

Lemma perm_loop_end ps perm : ps <> [] ->
  match map perm_char ps with
  | c :: r => perm_loop c r perm = inl (fold_left (fun a p => N.lor a (perm_bits p)) ps perm, [], false)
  | [] => False
  end.
Proof.
  revert perm. induction ps as [|p ps IH]; intros perm Hne; [congruence|]. cbn [map].
  destruct ps as [|p' ps'].
  - destruct p; reflexivity.
  - assert (IH' : forall perm, perm_loop (perm_char p') (map perm_char ps') perm =
              inl (fold_left (fun a p => N.lor a (perm_bits p)) (p' :: ps') perm, [], false))
      by (intros q; exact (IH q ltac:(discriminate))).
    cbn [map]. rewrite perm_loop_eq. destruct p; cbn - [perm_loop N.lor fold_left]; rewrite IH'; reflexivity.
Qed.

Lemma perm_loop_comma ps rest perm : ps <> [] ->
  match map perm_char ps ++ ch_comma :: rest with
  | c :: r => perm_loop c r perm = inl (fold_left (fun a p => N.lor a (perm_bits p)) ps perm, rest, true)
  | [] => False
  end.
Proof.
  revert perm. induction ps as [|p ps IH]; intros perm Hne; [congruence|]. cbn [map app].
  destruct ps as [|p' ps'].
  - cbn [map app]. rewrite perm_loop_eq. destruct p; cbn - [perm_loop N.lor]; rewrite perm_loop_eq; reflexivity.
  - assert (IH' : forall perm, perm_loop (perm_char p') (map perm_char ps' ++ ch_comma :: rest) perm =
              inl (fold_left (fun a p => N.lor a (perm_bits p)) (p' :: ps') perm, rest, true))
      by (intros q; exact (IH q ltac:(discriminate))).
    cbn [map app]. rewrite perm_loop_eq. destruct p; cbn - [perm_loop N.lor fold_left]; rewrite IH'; reflexivity.
Qed.

Lemma who_bits_nonzero ws : ws <> [] -> forall g, fold_left (fun a w => N.lor a (who_bits w)) ws g <> 0.
Proof.
  induction ws as [|w ws IH]; intros Hne g; [congruence|]. cbn [fold_left].
  destruct ws as [|w' ws'].
  - cbn. intros H. apply N.lor_eq_0_iff in H as [_ H]. destruct w; discriminate.
  - apply IH. discriminate.
Qed.

Lemma lor_fold_nonzero {A} (f : A -> N) l g : g <> 0 -> fold_left (fun a x => N.lor a (f x)) l g <> 0.
Proof.
  revert g. induction l as [|x l IH]; intros g Hg; [exact Hg|]. cbn. apply IH. intros H.
  apply N.lor_eq_0_iff in H as [H _]. contradiction.
Qed.

Lemma perm_bits_nonzero ps : ps <> [] -> fold_left (fun a p => N.lor a (perm_bits p)) ps 0 <> 0.
Proof.
  destruct ps as [|p ps]; [congruence|]. intros _. cbn [fold_left]. apply lor_fold_nonzero. destruct p; discriminate.
Qed.

Lemma apply_op_spec k cl mode : 
  (if clause_applies k cl then apply_op (op_char (cl_op cl)) (bits_of who_bits (cl_who cl)) (bits_of perm_bits (cl_perms cl)) mode else mode)
  = apply_clause k mode cl.
Proof. unfold apply_clause, apply_op. destruct (clause_applies k cl); [|reflexivity]. destruct (cl_op cl); reflexivity. Qed.

(* one clause, followed by the end of the expression or by ",more" *)
Lemma clause_step_last k cl mode : clause_wf cl ->
  match unparse_clause cl with
  | c :: r => clause_step k c r mode = inl (apply_clause k mode cl, [], false)
  | [] => False
  end.
Proof.
  intros [Hw Hp]. unfold unparse_clause.
  pose proof (target_loop_spec k (cl_targets cl) (map who_char (cl_who cl) ++ [op_char (cl_op cl)] ++ map perm_char (cl_perms cl)) true) as Ht.
  cbn [app] in *. destruct (map target_char (cl_targets cl) ++ ch_colon :: map who_char (cl_who cl) ++ op_char (cl_op cl) :: map perm_char (cl_perms cl)) as [|c r] eqn:E; [contradiction|].
  unfold clause_step. rewrite Ht.
  pose proof (group_loop_spec (cl_who cl) (cl_op cl) (map perm_char (cl_perms cl)) 0) as Hg.
  destruct (map who_char (cl_who cl) ++ op_char (cl_op cl) :: map perm_char (cl_perms cl)) as [|c1 r1] eqn:E1; [contradiction|].
  rewrite Hg. pose proof (who_bits_nonzero (cl_who cl) Hw 0) as Hnz. apply N.eqb_neq in Hnz. rewrite Hnz.
  pose proof (perm_loop_end (cl_perms cl) 0 Hp) as Hpl.
  destruct (map perm_char (cl_perms cl)) as [|c2 r2] eqn:E2; [contradiction|]. rewrite Hpl.
  pose proof (perm_bits_nonzero (cl_perms cl) Hp) as Hpz. apply N.eqb_neq in Hpz. rewrite Hpz.
  rewrite <- apply_op_spec. unfold clause_applies, bits_of. cbn [andb]. reflexivity.
Qed.

Lemma clause_step_more k cl rest mode : clause_wf cl ->
  match unparse_clause cl ++ ch_comma :: rest with
  | c :: r => clause_step k c r mode = inl (apply_clause k mode cl, rest, true)
  | [] => False
  end.
Proof.
  intros [Hw Hp]. unfold unparse_clause. rewrite <- !app_assoc.
  pose proof (target_loop_spec k (cl_targets cl) (map who_char (cl_who cl) ++ [op_char (cl_op cl)] ++ map perm_char (cl_perms cl) ++ ch_comma :: rest) true) as Ht.
  cbn [app] in *.
  destruct (map target_char (cl_targets cl) ++ ch_colon :: map who_char (cl_who cl) ++ op_char (cl_op cl) :: map perm_char (cl_perms cl) ++ ch_comma :: rest) as [|c r] eqn:E; [contradiction|].
  unfold clause_step. rewrite Ht.
  pose proof (group_loop_spec (cl_who cl) (cl_op cl) (map perm_char (cl_perms cl) ++ ch_comma :: rest) 0) as Hg.
  destruct (map who_char (cl_who cl) ++ op_char (cl_op cl) :: map perm_char (cl_perms cl) ++ ch_comma :: rest) as [|c1 r1] eqn:E1; [contradiction|].
  rewrite Hg. pose proof (who_bits_nonzero (cl_who cl) Hw 0) as Hnz. apply N.eqb_neq in Hnz. rewrite Hnz.
  pose proof (perm_loop_comma (cl_perms cl) rest 0 Hp) as Hpl.
  destruct (map perm_char (cl_perms cl) ++ ch_comma :: rest) as [|c2 r2] eqn:E2; [contradiction|]. rewrite Hpl.
  pose proof (perm_bits_nonzero (cl_perms cl) Hp) as Hpz. apply N.eqb_neq in Hpz. rewrite Hpz.
  rewrite <- apply_op_spec. unfold clause_applies, bits_of. cbn [andb]. reflexivity.
Qed.

Lemma unparse_clause_nonempty cl : unparse_clause cl <> [].
Proof. unfold unparse_clause. destruct (map target_char (cl_targets cl)); discriminate. Qed.

(* T1: a well-formed expression of any number of clauses applies every clause, in order *)
Lemma mode_loop_spec k cs : Forall clause_wf cs -> forall fuel mode, (length (unparse cs) < fuel)%nat ->
  mode_loop fuel k (unparse cs) mode = inl (fold_left (apply_clause k) cs mode).
Proof.
  induction cs as [|cl cs IH]; intros Hwf fuel mode Hf.
  - destruct fuel; [cbn in Hf; lia | reflexivity].
  - inversion Hwf as [|? ? Hcl Hcs]; subst. destruct fuel as [|f]; [lia|].
    destruct cs as [|cl' cs'].
    + cbn [unparse fold_left] in *. pose proof (clause_step_last k cl mode Hcl) as Hs.
      destruct (unparse_clause cl) as [|c r] eqn:E; [contradiction|]. cbn [mode_loop]. rewrite Hs.
      destruct f; [cbn in Hf; lia | reflexivity].
    + assert (Hu : unparse (cl :: cl' :: cs') = unparse_clause cl ++ ch_comma :: unparse (cl' :: cs')) by reflexivity.
      rewrite Hu in *. pose proof (clause_step_more k cl (unparse (cl' :: cs')) mode Hcl) as Hs.
      destruct (unparse_clause cl ++ ch_comma :: unparse (cl' :: cs')) as [|c r] eqn:E.
      { destruct (unparse_clause cl); discriminate. }
      cbn [mode_loop]. rewrite Hs. cbn [fold_left]. apply IH; [assumption|].
      apply (f_equal (@length N)) in E. rewrite app_length in E. cbn [length] in *. lia.
Qed.

Theorem sym_wellformed k m cs : cs <> [] -> Forall clause_wf cs ->
  sym_mode k m 0 (unparse cs) = inl (fold_left (apply_clause k) cs m).
Proof.
  intros Hne Hwf. unfold sym_mode. cbn [N.eqb negb].
  destruct (unparse cs) as [|c r] eqn:E.
  - exfalso. destruct cs as [|cl [|cl' cs']]; [congruence| |]; cbn in E.
    + exact (unparse_clause_nonempty cl E).
    + destruct (unparse_clause cl); discriminate.
  - rewrite <- E. apply mode_loop_spec; [assumption | lia].
Qed.

(* T2: octal takes priority *)
Theorem octal_priority k m octal sym : octal <> 0 -> sym_mode k m octal sym = inl octal.
Proof. intros H. unfold sym_mode. apply N.eqb_neq in H. rewrite H. reflexivity. Qed.

(* T3: a symlink is never changed, whatever the (well-formed) expression *)
Lemma apply_clause_link k m cl : k_link k = true -> apply_clause k m cl = m.
Proof. intros H. unfold apply_clause, clause_applies. rewrite H. reflexivity. Qed.

Theorem symlink_untouched k m cs : k_link k = true -> fold_left (apply_clause k) cs m = m.
Proof. intros H. induction cs as [|cl cs IH]; [reflexivity|]. cbn. rewrite apply_clause_link by assumption. exact IH. Qed.

(* T4: only the nine permission bits can change: the file-type (and every higher) bit is kept *)
Lemma bits_le_511 {A} (f : A -> N) (Hf : forall x, N.land (f x) 511 = f x) l g :
  N.land g 511 = g -> N.land (fold_left (fun a x => N.lor a (f x)) l g) 511 = fold_left (fun a x => N.lor a (f x)) l g.
Proof.
  revert g. induction l as [|x l IH]; intros g Hg; [exact Hg|]. cbn. apply IH.
  rewrite N.land_lor_distr_l, Hg, Hf. reflexivity.
Qed.

Lemma who_mask cl : N.land (bits_of who_bits (cl_who cl)) 511 = bits_of who_bits (cl_who cl).
Proof. apply bits_le_511; [intros w; destruct w; reflexivity | reflexivity]. Qed.

Lemma testbit_mask g n : N.land g 511 = g -> 9 <= n -> N.testbit g n = false.
Proof.
  intros Hg Hn. rewrite <- Hg. rewrite N.land_spec.
  replace (N.testbit 511 n) with false; [apply andb_false_r|].
  symmetry. apply N.bits_above_log2. change (N.log2 511) with 8. lia.
Qed.

Theorem type_bits_kept k m cl n : 9 <= n -> N.testbit (apply_clause k m cl) n = N.testbit m n.
Proof.
  intros Hn. unfold apply_clause. destruct (clause_applies k cl); [|reflexivity].
  pose proof (testbit_mask _ n (who_mask cl) Hn) as Hg.
  destruct (cl_op cl); rewrite ?N.lor_spec, ?N.ldiff_spec, ?N.land_spec, Hg; cbn;
    rewrite ?andb_true_r, ?orb_false_r; reflexivity.
Qed.

(* T5: what each operator does to a permission bit inside / outside the who-mask *)
Theorem apply_clause_bit k m cl n : clause_applies k cl = true ->
  let g := N.testbit (bits_of who_bits (cl_who cl)) n in
  let p := N.testbit (bits_of perm_bits (cl_perms cl)) n in
  N.testbit (apply_clause k m cl) n =
  match cl_op cl with
  | OMinus => N.testbit m n && negb (g && p)
  | OPlus => N.testbit m n || (g && p)
  | OEq => if g then p else N.testbit m n
  end.
Proof.
  intros Ha. cbn zeta. unfold apply_clause. rewrite Ha.
  destruct (cl_op cl); rewrite ?N.lor_spec, ?N.ldiff_spec, ?N.land_spec; try reflexivity.
  destruct (N.testbit (bits_of who_bits (cl_who cl)) n), (N.testbit (bits_of perm_bits (cl_perms cl)) n), (N.testbit m n); reflexivity.
Qed.

(* T6: malformed first clauses are errors (nothing is computed, so nothing can be applied) *)
Theorem first_clause_bad_target k m c rest :
  negb (N.eqb c ch_d || N.eqb c ch_f || N.eqb c ch_a || N.eqb c ch_colon) = true ->
  sym_mode k m 0 (c :: rest) = inr EChmodTarget.
Proof. intros H. unfold sym_mode. cbn [N.eqb negb length mode_loop]. unfold clause_step. rewrite target_loop_eq, H. reflexivity. Qed.

Theorem first_clause_no_perms k m cl : cl_who cl <> [] ->
  sym_mode k m 0 (map target_char (cl_targets cl) ++ [ch_colon] ++ map who_char (cl_who cl) ++ [op_char (cl_op cl)]) = inr EChmodPerms.
Proof.
  intros Hw. unfold sym_mode. cbn [N.eqb negb].
  pose proof (target_loop_spec k (cl_targets cl) (map who_char (cl_who cl) ++ [op_char (cl_op cl)]) true) as Ht.
  cbn [app] in *.
  destruct (map target_char (cl_targets cl) ++ ch_colon :: map who_char (cl_who cl) ++ [op_char (cl_op cl)]) as [|c r] eqn:E; [contradiction|].
  cbn [mode_loop]. unfold clause_step. rewrite Ht.
  pose proof (group_loop_spec (cl_who cl) (cl_op cl) [] 0) as Hg.
  destruct (map who_char (cl_who cl) ++ [op_char (cl_op cl)]) as [|c1 r1] eqn:E1; [contradiction|].
  rewrite Hg. pose proof (who_bits_nonzero (cl_who cl) Hw 0) as Hnz. apply N.eqb_neq in Hnz. rewrite Hnz. reflexivity.
Qed.

Theorem first_clause_empty_who k m cl rest :
  sym_mode k m 0 (map target_char (cl_targets cl) ++ ch_colon :: op_char (cl_op cl) :: rest) = inr EChmodGroup.
Proof.
  unfold sym_mode. cbn [N.eqb negb].
  pose proof (target_loop_spec k (cl_targets cl) (op_char (cl_op cl) :: rest) true) as Ht.
  destruct (map target_char (cl_targets cl) ++ ch_colon :: op_char (cl_op cl) :: rest) as [|c r] eqn:E; [contradiction|].
  cbn [mode_loop]. unfold clause_step. rewrite Ht. rewrite group_loop_eq. destruct (cl_op cl); reflexivity.
Qed.

Example sym_instance :
  sym_mode {| k_dir := false; k_file := true; k_link := false |} 33188 0
    (unparse [ {| cl_targets := [TD]; cl_who := [WA]; cl_op := OPlus; cl_perms := [PX] |};
               {| cl_targets := [TF]; cl_who := [WG; WO]; cl_op := OMinus; cl_perms := [PR; PW; PX] |} ]) = inl 33152.
Proof. vm_compute. reflexivity. Qed.

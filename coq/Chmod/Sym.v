(* Chmod/Sym.v — mirror of sys::mode / revoking_mode (src/sys/fs/chmod.rs, after its fix) and the
   grammar-level specification of symbolic chmod expressions  [dfa]:[ugoa][-+=][rwx](,...)* . *)
From Coq Require Import List NArith Bool Lia Arith.
Import ListNotations.
From RV Require Import Base.Str.
Local Open Scope N_scope.

Inductive chmod_err := EChmod | EChmodTarget | EChmodGroup | EChmodOp | EChmodPerms.
Definition cres (A : Type) := (A + chmod_err)%type.

(* what sys::mode asks of the entry *)
Record ekind := { k_dir : bool; k_file : bool; k_link : bool }.

Definition ch_d := 100. Definition ch_f := 102. Definition ch_a := 97. Definition ch_colon := 58.
Definition ch_u := 117. Definition ch_g := 103. Definition ch_o := 111.
Definition ch_minus := 45. Definition ch_plus := 43. Definition ch_eq := 61.
Definition ch_r := 114. Definition ch_w := 119. Definition ch_x := 120. Definition ch_comma := 44.

(* State::Target — `c` is the char in hand, `rest` what is left to pop *)
Fixpoint target_loop (k : ekind) (c : N) (rest : str) (applies : bool) : cres (bool * str) :=
  if negb (N.eqb c ch_d || N.eqb c ch_f || N.eqb c ch_a || N.eqb c ch_colon) then inr EChmodTarget else
  let applies := applies && negb (k_link k || (N.eqb c ch_d && negb (k_dir k)) || (N.eqb c ch_f && negb (k_file k))) in
  if N.eqb c ch_colon then inl (applies, rest)
  else match rest with
       | [] => inr EChmod                       (* _pop on an empty vector *)
       | c' :: rest' => target_loop k c' rest' applies
       end.

(* State::Group *)
Fixpoint group_loop (c : N) (rest : str) (group : N) : cres (N * N * str) :=
  if N.eqb c ch_minus || N.eqb c ch_plus || N.eqb c ch_eq then inl (group, c, rest)
  else
    let g := if N.eqb c ch_u then Some 448 else if N.eqb c ch_g then Some 56
             else if N.eqb c ch_o then Some 7 else if N.eqb c ch_a then Some 511 else None in
    match g with
    | None => inr EChmodGroup
    | Some bits =>
        match rest with
        | [] => inr EChmod
        | c' :: rest' => group_loop c' rest' (N.lor group bits)
        end
    end.

(* State::Perms — returns the accumulated bits, what is left, and whether a ',' ended the clause *)
Fixpoint perm_loop (c : N) (rest : str) (perm : N) : cres (N * str * bool) :=
  if N.eqb c ch_comma then inl (perm, rest, true)
  else
    let p := if N.eqb c ch_r then Some 292 else if N.eqb c ch_w then Some 146
             else if N.eqb c ch_x then Some 73 else None in
    match p with
    | None => inr EChmodPerms
    | Some bits =>
        match rest with
        | [] => inl (N.lor perm bits, [], false)
        | c' :: rest' => perm_loop c' rest' (N.lor perm bits)
        end
    end.

Definition apply_op (op group perm mode : N) : N :=
  if N.eqb op ch_minus then N.ldiff mode (N.land group perm)
  else if N.eqb op ch_plus then N.lor mode (N.land group perm)
  else N.lor (N.ldiff mode group) (N.land group perm).

(* one pass Target -> Group -> Perms over the chars in hand *)
Definition clause_step (k : ekind) (c : N) (rest : str) (mode : N) : cres (N * str * bool) :=
  match target_loop k c rest true with
  | inr e => inr e
  | inl (applies, rest1) =>
      match rest1 with
      | [] => inl (mode, [], false)                 (* while let Some(c) = chars.pop() ends *)
      | c1 :: rest1' =>
          match group_loop c1 rest1' 0 with
          | inr e => inr e
          | inl (group, op, rest2) =>
              if N.eqb group 0 then inr EChmodGroup else
              match rest2 with
              | [] => inr EChmodPerms              (* the fix: an operator must be followed by permissions *)
              | c2 :: rest2' =>
                  match perm_loop c2 rest2' 0 with
                  | inr e => inr e
                  | inl (perm, rest3, comma) =>
                      if N.eqb perm 0 then inr EChmodPerms
                      else inl (if applies then apply_op op group perm mode else mode, rest3, comma)
                  end
              end
          end
      end
  end.

Fixpoint mode_loop (fuel : nat) (k : ekind) (chars : str) (mode : N) : cres N :=
  match fuel with
  | O => inr EChmod
  | S f =>
      match chars with
      | [] => inl mode
      | c :: rest =>
          match clause_step k c rest mode with
          | inr e => inr e
          | inl (mode', rest', _) => mode_loop f k rest' mode'
          end
      end
  end.

(* sys::mode(entry, octal, sym) *)
Definition sym_mode (k : ekind) (entry_mode octal : N) (sym : str) : cres N :=
  if negb (N.eqb octal 0) then inl octal
  else match sym with
       | [] => inl 0
       | _ => mode_loop (S (length sym)) k sym entry_mode
       end.

(* revoking_mode *)
Definition revoking_mode (old new : N) : bool :=
  (N.ltb (N.land new 320) (N.land old 320)) || (N.ltb (N.land new 40) (N.land old 40)) || (N.ltb (N.land new 5) (N.land old 5)).

(* ---- specification: the documented grammar ---- *)
Inductive target := TD | TF | TA.
Inductive who := WU | WG | WO | WA.
Inductive cop := OMinus | OPlus | OEq.
Inductive perm := PR | PW | PX.
Record clause := { cl_targets : list target; cl_who : list who; cl_op : cop; cl_perms : list perm }.

Definition target_char t := match t with TD => ch_d | TF => ch_f | TA => ch_a end.
Definition who_char w := match w with WU => ch_u | WG => ch_g | WO => ch_o | WA => ch_a end.
Definition op_char o := match o with OMinus => ch_minus | OPlus => ch_plus | OEq => ch_eq end.
Definition perm_char p := match p with PR => ch_r | PW => ch_w | PX => ch_x end.

Definition unparse_clause (cl : clause) : str :=
  map target_char (cl_targets cl) ++ [ch_colon] ++ map who_char (cl_who cl) ++ [op_char (cl_op cl)] ++ map perm_char (cl_perms cl).

Fixpoint unparse (cs : list clause) : str :=
  match cs with
  | [] => []
  | [cl] => unparse_clause cl
  | cl :: cs' => unparse_clause cl ++ ch_comma :: unparse cs'
  end.

Definition who_bits w := match w with WU => 448 | WG => 56 | WO => 7 | WA => 511 end.
Definition perm_bits p := match p with PR => 292 | PW => 146 | PX => 73 end.
Definition bits_of {A} (f : A -> N) (l : list A) : N := fold_left (fun acc x => N.lor acc (f x)) l 0.

Definition target_applies (k : ekind) (t : target) : bool :=
  match t with TD => k_dir k | TF => k_file k | TA => true end.

(* a clause applies to an entry that is not a symlink and matches every listed target letter *)
Definition clause_applies (k : ekind) (cl : clause) : bool :=
  negb (k_link k) && forallb (target_applies k) (cl_targets cl).

Definition apply_clause (k : ekind) (mode : N) (cl : clause) : N :=
  if clause_applies k cl then
    let g := bits_of who_bits (cl_who cl) in
    let p := bits_of perm_bits (cl_perms cl) in
    match cl_op cl with
    | OMinus => N.ldiff mode (N.land g p)
    | OPlus => N.lor mode (N.land g p)
    | OEq => N.lor (N.ldiff mode g) (N.land g p)
    end
  else mode.

Definition clause_wf (cl : clause) : Prop := cl_who cl <> [] /\ cl_perms cl <> [].

(* Memfs/Walk.v — mirror of the traversal engine: Entries options, EntriesIter::process / next
   (src/sys/fs/entries.rs), EntryIter (entry_iter.rs) and MemfsEntryIter (memfs/entry.rs), over a
   snapshot of the entries index.  The iterator stack, the deferred stack, the descriptor counter,
   per-directory caching / sorting / grouping, the pre_op call-out and the link-loop check are kept
   as in the Rust code.  Directory iteration order without sorting is the order of `elements` on
   the name set (the real HashSet order is arbitrary: comparisons are order-insensitive there). *)
From stdpp Require Import gmap.
From Coq Require Import NArith.
From RV Require Import Base.Str Path.Helpers Memfs.State.

Notation snap := (gmap (list (list N)) entry) (only parsing).

Record wopts := mkWopts {
  o_dirs : bool; o_files : bool; o_follow : bool;
  o_min : nat; o_max : option nat;                 (* None = usize::MAX *)
  o_maxdesc : N;
  o_dirs_first : bool; o_files_first : bool; o_contents_first : bool;
  o_sort : bool                                    (* a sort by file name is installed *)
}.

(* Memfs::_entries defaults *)
Definition default_wopts : wopts :=
  mkWopts false false false 0 None Gen.Consts.c_default_max_descriptors false false false false.

(* Entries builder methods *)
Definition w_dirs (o : wopts) : wopts := mkWopts true false (o_follow o) (o_min o) (o_max o) (o_maxdesc o) (o_dirs_first o) (o_files_first o) (o_contents_first o) (o_sort o).
Definition w_files (o : wopts) : wopts := mkWopts false true (o_follow o) (o_min o) (o_max o) (o_maxdesc o) (o_dirs_first o) (o_files_first o) (o_contents_first o) (o_sort o).
Definition w_follow (o : wopts) (b : bool) : wopts := mkWopts (o_dirs o) (o_files o) b (o_min o) (o_max o) (o_maxdesc o) (o_dirs_first o) (o_files_first o) (o_contents_first o) (o_sort o).
Definition le_max (n : nat) (m : option nat) : bool := match m with None => true | Some k => n <=? k end.
Definition min_opt (n : nat) (m : option nat) : nat := match m with None => n | Some k => Nat.min n k end.
(* min_depth(min): min = min(min, max) *)
Definition w_min_depth (o : wopts) (n : nat) : wopts :=
  mkWopts (o_dirs o) (o_files o) (o_follow o) (min_opt n (o_max o)) (o_max o) (o_maxdesc o) (o_dirs_first o) (o_files_first o) (o_contents_first o) (o_sort o).
(* max_depth(max): max = max(max, min) *)
Definition w_max_depth (o : wopts) (n : option nat) : wopts :=
  mkWopts (o_dirs o) (o_files o) (o_follow o) (o_min o)
          (match n with None => None | Some k => Some (Nat.max k (o_min o)) end)
          (o_maxdesc o) (o_dirs_first o) (o_files_first o) (o_contents_first o) (o_sort o).
Definition w_dirs_first (o : wopts) : wopts := mkWopts (o_dirs o) (o_files o) (o_follow o) (o_min o) (o_max o) (o_maxdesc o) true (o_files_first o) (o_contents_first o) true.
Definition w_files_first (o : wopts) : wopts := mkWopts (o_dirs o) (o_files o) (o_follow o) (o_min o) (o_max o) (o_maxdesc o) (o_dirs_first o) true (o_contents_first o) true.
Definition w_contents_first (o : wopts) : wopts := mkWopts (o_dirs o) (o_files o) (o_follow o) (o_min o) (o_max o) (o_maxdesc o) (o_dirs_first o) (o_files_first o) true (o_sort o).
Definition w_sort_by_name (o : wopts) : wopts := mkWopts (o_dirs o) (o_files o) (o_follow o) (o_min o) (o_max o) (o_maxdesc o) (o_dirs_first o) (o_files_first o) (o_contents_first o) true.
Definition w_maxdesc (o : wopts) (n : N) : wopts := mkWopts (o_dirs o) (o_files o) (o_follow o) (o_min o) (o_max o) n (o_dirs_first o) (o_files_first o) (o_contents_first o) (o_sort o).

(* MemfsEntry::follow(true): swap path and alt once *)
Definition follow_e (e : entry) : entry :=
  if e_link e && negb (e_follow e) then
    match e_alt e with
    | Some a => mkEntry a (Some (e_path e)) (e_rel e) (e_dir e) (e_file e) (e_link e) (e_mode e) (e_uid e) (e_gid e) true (e_files e)
    | None => e
    end
  else e.

(* Path::file_name of an entry's path: None for the root *)
Definition file_name_of (e : entry) : option (list N) := head (e_path e).

(* Ord on Option<&OsStr>: None first, then bytewise lexicographic on the UTF-8 encoding.  Scalar
   values compare like their UTF-8 encodings, so code points can be compared directly. *)
Fixpoint name_leb (a b : list N) : bool :=
  match a, b with
  | [], _ => true
  | _ :: _, [] => false
  | x :: a', y :: b' => if (x <? y)%N then true else if (y <? x)%N then false else name_leb a' b'
  end.
Definition oname_leb (a b : option (list N)) : bool :=
  match a, b with None, _ => true | Some _, None => false | Some x, Some y => name_leb x y end.
Definition ent_leb (a b : entry) : bool := oname_leb (file_name_of a) (file_name_of b).

(* stable insertion sort, like slice::sort_by *)
Fixpoint insert_sorted (x : entry) (l : list entry) : list entry :=
  match l with
  | [] => [x]
  | y :: l' => if ent_leb y x then y :: insert_sorted x l' else x :: y :: l'
  end.
Definition sort_ents (l : list entry) : list entry := foldr insert_sorted [] l.

Inductive werr := WLoop (p : rpath) | WNoEnt (p : rpath) | WPre (e : errkind).
Inductive item := IOk (e : entry) | IErr (e : werr).

(* one directory being iterated *)
Record frame := mkFrame { f_path : rpath; f_cached : bool; f_items : list entry }.

(* a deferred directory carries the iterator depth it was found at *)
Record wstate := mkWstate { s_started : bool; s_open : N; s_iters : list frame; s_deferred : list (entry * nat) }.

(* MemfsEntryIter::new + next: the children, in set order, stopping at the first missing one *)
Fixpoint child_entries (sn : snap) (p : rpath) (follow : bool) (ns : list (list N)) : list entry :=
  match ns with
  | [] => []
  | n :: ns' => match sn !! (n :: p) with
                | Some c => (if follow then follow_e c else c) :: child_entries sn p follow ns'
                | None => []
                end
  end.

Definition children (sn : snap) (follow : bool) (p : rpath) : option (list entry) :=
  match sn !! p with
  | None => None
  | Some e => Some (child_entries sn p follow (match e_files e with Some fs => elements fs | None => [] end))
  end.

Definition lt_max (n : nat) (m : option nat) : bool := match m with None => true | Some k => n <? k end.

(* the dirs()/files() filter installed by into_iter *)
Definition passes (o : wopts) (e : entry) : bool :=
  if o_files o then e_file e else if o_dirs o then e_dir e else true.

(* EntriesIter::process.  `pre` is the pre_op call-out (None = Ok). *)
Definition process (sn : snap) (o : wopts) (pre : entry -> option errkind) (st : wstate) (e : entry)
  : wstate * option item * list entry :=
  let depth := length (s_iters st) in
  let enter := e_dir e && (negb (e_link e) || o_follow o) in
  let looping := enter && e_link e && existsb (fun f => bool_decide (f_path f = e_path e)) (s_iters st) in
  if looping then (st, Some (IErr (WLoop (e_path e))), []) else
  let r : (wstate * list entry) + (werr * list entry) :=
    if enter && lt_max depth (o_max o) then
      match pre e with
      | Some err => inr (WPre err, [])
      | None =>
          match children sn (o_follow o) (e_path e) with
          | None => inr (WNoEnt (e_path e), [e])        (* pre_op already ran *)
          | Some cs =>
              if o_sort o || (o_maxdesc o <? s_open st + 1)%N then
                let items := if o_sort o then
                               (if o_dirs_first o then sort_ents (filter (fun c => e_dir c) cs) ++ sort_ents (filter (fun c => negb (e_dir c)) cs)
                                else if o_files_first o then sort_ents (filter (fun c => negb (e_dir c)) cs) ++ sort_ents (filter (fun c => e_dir c) cs)
                                else sort_ents cs)
                             else cs in
                inl (mkWstate (s_started st) (s_open st) (mkFrame (e_path e) true items :: s_iters st) (s_deferred st), [e])
              else inl (mkWstate (s_started st) (s_open st + 1)%N (mkFrame (e_path e) false cs :: s_iters st) (s_deferred st), [e])
          end
      end
    else inl (st, []) in
  match r with
  | inr (err, pres) => (st, Some (IErr err), pres)
  | inl (st1, pres) =>
      if depth <? o_min o then (st1, None, pres)
      else if negb (passes o e) then (st1, None, pres)
      else if e_dir e && o_contents_first o then
        (mkWstate (s_started st1) (s_open st1) (s_iters st1) ((e, depth) :: s_deferred st1), None, pres)
      else (st1, Some (IOk e), pres)
  end.

(* EntriesIter::next: the loop after the `started` block, on fuel.  Returns the new state, the item
   (None = end of iteration) and the entries pre_op was called on, in order. *)
Fixpoint next_loop (fuel : nat) (sn : snap) (o : wopts) (pre : entry -> option errkind) (st : wstate)
  : outcome (wstate * option item * list entry) :=
  match fuel with
  | O => OutOfFuel
  | S fuel' =>
    (* a deferred directory is returned once the iterator stack is back at the depth it was found at *)
    if o_contents_first o && (match s_deferred st with (_, dep) :: _ => length (s_iters st) <=? dep | [] => false end) then
      match s_deferred st with
      | (d, _) :: ds => Done (mkWstate (s_started st) (s_open st) (s_iters st) ds, Some (IOk d), [])
      | [] => Done (st, None, [])
      end
    else
    match s_iters st with
    | [] => Done (st, None, [])
    | top :: rest =>
        match f_items top with
        | e :: es =>
            let st0 := mkWstate (s_started st) (s_open st) (mkFrame (f_path top) (f_cached top) es :: rest) (s_deferred st) in
            match process sn o pre st0 e with
            | (st1, Some it, pres) => Done (st1, Some it, pres)
            | (st1, None, pres) =>
                match next_loop fuel' sn o pre st1 with
                | Done (st2, it, pres') => Done (st2, it, pres ++ pres')
                | x => x
                end
            end
        | [] =>
            (* self.open_descriptors -= 1 for a frame that was counted *)
            if negb (f_cached top) && (s_open st =? 0)%N then Panic else
            let st0 := mkWstate (s_started st) (if f_cached top then s_open st else (s_open st - 1)%N) rest (s_deferred st) in
            next_loop fuel' sn o pre st0
        end
    end
  end.

Definition next (fuel : nat) (sn : snap) (o : wopts) (pre : entry -> option errkind) (root : entry) (st : wstate)
  : outcome (wstate * option item * list entry) :=
  if s_started st then next_loop fuel sn o pre st
  else
    let st0 := mkWstate true (s_open st) (s_iters st) (s_deferred st) in
    match process sn o pre st0 (if o_follow o then follow_e root else root) with
    | (st1, Some it, pres) => Done (st1, Some it, pres)
    | (st1, None, pres) =>
        match next_loop fuel sn o pre st1 with
        | Done (st2, it, pres') => Done (st2, it, pres ++ pres')
        | x => x
        end
    end.

(* the events a consumer of the iterator sees, in order: pre_op calls and yielded items *)
Inductive event := EvPre (e : entry) | EvItem (i : item).

(* iterate to the end (n bounds the number of yielded items) *)
Fixpoint collect (n fuel : nat) (sn : snap) (o : wopts) (pre : entry -> option errkind) (root : entry) (st : wstate)
  : outcome (list event) :=
  match n with
  | O => OutOfFuel
  | S n' =>
      match next fuel sn o pre root st with
      | Done (st', Some it, pres) =>
          match collect n' fuel sn o pre root st' with
          | Done evs => Done (map EvPre pres ++ EvItem it :: evs)
          | x => x
          end
      | Done (_, None, pres) => Done (map EvPre pres)
      | Panic => Panic
      | OutOfFuel => OutOfFuel
      end
  end.

Definition walk_fuel (sn : snap) : nat := 4 * (size sn + 2) * (size sn + 2) + 8.

(* vfs.entries(path)?.<options>.into_iter().collect() *)
Definition walk (sn : snap) (o : wopts) (pre : entry -> option errkind) (rootp : rpath) : outcome (list event) + errkind :=
  match sn !! rootp with
  | None => inr EDoesNotExist
  | Some r => inl (collect (walk_fuel sn) (walk_fuel sn) sn o pre r (mkWstate false 0 [] []))
  end.

Definition items_of (evs : list event) : list item :=
  flat_map (fun ev => match ev with EvItem i => [i] | EvPre _ => [] end) evs.

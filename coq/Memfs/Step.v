(* Memfs/Step.v — the operation alphabet of the Memfs mirror and its step function (non-traversal
   operations; the traversal-based ones are added in Memfs/WalkOps.v). *)
From stdpp Require Import gmap.
From Coq Require Import NArith.
From RV Require Import Base.Str Base.Utf8 Base.PathLex Path.Helpers Path.Expand Memfs.State Memfs.Ops Memfs.Walk Memfs.WalkOps.

Inductive op :=
  | OAbs (s : list N) | OExists (s : list N) | OIsDir (s : list N) | OIsFile (s : list N) | OIsSymlink (s : list N)
  | OIsSymlinkDir (s : list N) | OIsSymlinkFile (s : list N) | OIsExec (s : list N) | OIsReadonly (s : list N)
  | OMode (s : list N) | OOwner (s : list N) | OUid (s : list N) | OGid (s : list N)
  | OCwd | ORoot | OSetCwd (s : list N)
  | OMkfile (s : list N) | OMkdirP (s : list N) | OMkdirM (s : list N) (mode : N)
  | OWriteAll (s : list N) (d : list N) | OWriteLines (s : list N) (ls : list (list N))
  | OAppendAll (s : list N) (d : list N) | OAppendLine (s : list N) (l : list N) | OAppendLines (s : list N) (ls : list (list N))
  | OReadAll (s : list N) | OReadLines (s : list N)
  | ORemove (s : list N) | ORemoveAll (s : list N)
  | OSymlink (l t : list N) | OReadlink (s : list N) | OReadlinkAbs (s : list N)
  | OMoveP (s d : list N)
  (* traversal-based *)
  | OList (k : listing) (s : list N)
  | OEntries (s : list N) (wo : wopts)
  | OCopy (s d : list N) (o : copy_opts)
  | OChmod (s : list N) (o : chmod_opts)
  | OChown (s : list N) (o : chown_opts)
  | OMkfileM (s : list N) (mode : N).

Inductive rval :=
  | VUnit | VBool (b : bool) | VPath (p : list N) | VBytes (d : list N) | VLines (ls : list (list N))
  | VNum (n : N) | VPair (a b : N)
  | VPaths (ps : list (list N))
  | VItems (is : list (list N + errkind)).

Definition result := (rval + errkind)%type.

Definition query_bool (env : envmap) (m : mfs) (s : list N) (f : entry -> bool) : result :=
  match resolve env m s with
  | inr _ => inl (VBool false)                             (* unwrap_or_false! *)
  | inl p => match m_ents m !! p with Some e => inl (VBool (f e)) | None => inl (VBool false) end
  end.

Definition query_entry (env : envmap) (m : mfs) (s : list N) (f : entry -> result) : result :=
  match resolve env m s with
  | inr e => inr e
  | inl p => match m_ents m !! p with Some e => f e | None => inr EDoesNotExist end
  end.

Definition lift_unit (r : mfs * mres unit) : mfs * result :=
  match r with (m, inl _) => (m, inl VUnit) | (m, inr e) => (m, inr e) end.
Definition lift_path (r : mfs * mres rpath) : mfs * result :=
  match r with (m, inl p) => (m, inl (VPath (render_rpath p))) | (m, inr e) => (m, inr e) end.

Definition nl_join (ls : list (list N)) : list N := join_lines ls.

Definition step (env : envmap) (m : mfs) (o : op) : outcome (mfs * result) :=
  match o with
  | OAbs s => Done (m, match resolve env m s with inl p => inl (VPath (render_rpath p)) | inr e => inr e end)
  | OExists s => Done (m, match resolve env m s with
                          | inr _ => inl (VBool false)
                          | inl p => inl (VBool (bool_decide (is_Some (m_ents m !! p))))
                          end)
  | OIsDir s => Done (m, query_bool env m s (fun e => e_dir e && negb (e_link e)))
  | OIsFile s => Done (m, query_bool env m s (fun e => e_file e && negb (e_link e)))
  | OIsSymlink s => Done (m, query_bool env m s e_link)
  | OIsSymlinkDir s => Done (m, query_bool env m s (fun e => e_link e && e_dir e))
  | OIsSymlinkFile s => Done (m, query_bool env m s (fun e => e_link e && e_file e))
  | OIsExec s => Done (m, query_bool env m s (fun e => is_exec_mode (e_mode e)))
  | OIsReadonly s => Done (m, query_bool env m s (fun e => is_readonly_mode (e_mode e)))
  | OMode s => Done (m, query_entry env m s (fun e => inl (VNum (e_mode e))))
  | OOwner s => Done (m, query_entry env m s (fun e => inl (VPair (e_uid e) (e_gid e))))
  | OUid s => Done (m, query_entry env m s (fun e => inl (VNum (e_uid e))))
  | OGid s => Done (m, query_entry env m s (fun e => inl (VNum (e_gid e))))
  | OCwd => Done (m, inl (VPath (render_rpath (m_cwd m))))
  | ORoot => Done (m, inl (VPath (render_rpath (m_root m))))
  | OSetCwd s => Done (lift_path (set_cwd_op env m s))
  | OMkfile s => Done (match resolve env m s with
                       | inr e => (m, inr e)
                       | inl p => lift_path (add m (new_file p))
                       end)
  | OMkdirP s => Done (match resolve env m s with
                       | inr e => (m, inr e)
                       | inl p => match mkdir_m_abs m p None with
                                  | (m', inl _) => (m', inl (VPath (render_rpath p)))
                                  | (m', inr e) => (m', inr e)
                                  end
                       end)
  | OMkdirM s mode => Done (match resolve env m s with
                            | inr e => (m, inr e)
                            | inl p => match mkdir_m_abs m p (Some mode) with
                                       | (m', inl _) => (m', inl (VPath (render_rpath p)))
                                       | (m', inr e) => (m', inr e)
                                       end
                            end)
  | OWriteAll s d => Done (lift_unit (write_all_op env m s d))
  | OWriteLines s ls =>
      let d := nl_join ls in
      Done (match d with [] => (m, inl VUnit) | _ => lift_unit (write_all_op env m s (d ++ [10%N])) end)
  | OAppendAll s d => Done (lift_unit (append_all_op env m s d))
  | OAppendLine s l =>
      Done (match l with [] => (m, inl VUnit) | _ => lift_unit (append_all_op env m s (l ++ [10%N])) end)
  | OAppendLines s ls =>
      let d := nl_join ls in
      Done (match d with [] => (m, inl VUnit) | _ => lift_unit (append_all_op env m s (d ++ [10%N])) end)
  | OReadAll s => Done (m, match clone_file env m s with
                           | inl d => if valid_utf8 d then inl (VBytes d) else inr EInvalidData
                           | inr e => inr e
                           end)
  | OReadLines s => Done (m, match clone_file env m s with
                             | inl d => let ls := lines_of d in
                                        if forallb valid_utf8 ls then inl (VLines ls) else inr EInvalidData
                             | inr e => inr e
                             end)
  | ORemove s => Done (lift_unit (remove_op env m s))
  | ORemoveAll s => match remove_all_op env m s with
                    | Done r => Done (lift_unit r) | Panic => Panic | OutOfFuel => OutOfFuel
                    end
  | OSymlink l t => Done (lift_path (symlink_op env m l t))
  | OReadlink s => Done (m, query_entry env m s (fun e => if e_link e then inl (VPath (e_rel e)) else inr EIsNotSymlink))
  | OReadlinkAbs s => Done (m, query_entry env m s (fun e => if e_link e
                                                             then inl (VPath (match e_alt e with Some a => render_rpath a | None => [] end))
                                                             else inr EIsNotSymlink))
  | OMoveP s d => match move_op env m s d with
                  | Done r => Done (lift_unit r) | Panic => Panic | OutOfFuel => OutOfFuel
                  end
  | OList k s => match listing_op env m k s with
                 | Done (inl ps) => Done (m, inl (VPaths ps))
                 | Done (inr e) => Done (m, inr e)
                 | Panic => Panic | OutOfFuel => OutOfFuel
                 end
  | OEntries s wo =>
      match resolve env m s with
      | inr e => Done (m, inr e)
      | inl p =>
          match walk (m_ents m) wo no_pre p with
          | inr e => Done (m, inr e)
          | inl (Done evs) =>
              Done (m, inl (VItems (map (fun i => match i with
                                                  | IOk e => inl (render_rpath (e_path e))
                                                  | IErr w => inr (werr_kind w)
                                                  end) (items_of evs))))
          | inl Panic => Panic
          | inl OutOfFuel => OutOfFuel
          end
      end
  | OCopy s d o => match copy_op env m s d o with
                   | Done r => Done (lift_unit r) | Panic => Panic | OutOfFuel => OutOfFuel
                   end
  | OChmod s o => match chmod_op env m s o with
                  | Done r => Done (lift_unit r) | Panic => Panic | OutOfFuel => OutOfFuel
                  end
  | OChown s o => match chown_op env m s o with
                  | Done r => Done (lift_unit r) | Panic => Panic | OutOfFuel => OutOfFuel
                  end
  | OMkfileM s mode =>
      match resolve env m s with
      | inr e => Done (m, inr e)
      | inl p =>
          match add m (new_file p) with
          | (m1, inr e) => Done (m1, inr e)
          | (m1, inl p') =>
              (* self.chmod(&path, mode): chmod_b(path)?.all(mode).exec(), relative to nothing: path is absolute *)
              match chmod_op env m1 (render_rpath p') {| ch_dirs := mode; ch_files := mode; ch_follow := false; ch_recursive := true; ch_sym := [] |} with
              | Done (m2, inl _) => Done (m2, inl (VPath (render_rpath p')))
              | Done (m2, inr e) => Done (m2, inr e)
              | Panic => Panic | OutOfFuel => OutOfFuel
              end
          end
      end
  end.

Fixpoint run (env : envmap) (m : mfs) (ops : list op) : outcome (mfs * list result) :=
  match ops with
  | [] => Done (m, [])
  | o :: ops' =>
      match step env m o with
      | Done (m', r) => match run env m' ops' with
                        | Done (m'', rs) => Done (m'', r :: rs)
                        | Panic => Panic | OutOfFuel => OutOfFuel
                        end
      | Panic => Panic
      | OutOfFuel => OutOfFuel
      end
  end.

(* Memfs/State.v — state of the in-memory filesystem as MemfsInner / MemfsEntry hold it
   (src/sys/fs/memfs/vfs.rs, entry.rs): three redundant indexes — entries by path, file data by
   path, and per-directory sets of child names.  Paths are clean absolute paths, held as the
   REVERSED list of their names (head = base name, tail = parent, [] = root). *)
From stdpp Require Import gmap.
From Coq Require Import NArith.
From RV Require Import Base.Str Base.PathLex Base.PathLexFacts Base.SpanFacts Path.Helpers Path.Relative Gen.Consts.

Notation name := (list N) (only parsing).
Notation rpath := (list (list N)) (only parsing).
Notation bytes := (list N) (only parsing).

Record entry := mkEntry {
  e_path : rpath;            (* abs path *)
  e_alt : option rpath;      (* abs path a link points to (None = empty PathBuf) *)
  e_rel : list N;            (* relative path a link points to, as stored *)
  e_dir : bool; e_file : bool; e_link : bool;
  e_mode : N; e_uid : N; e_gid : N;
  e_follow : bool;
  e_files : option (gset (list N))      (* child names of a directory *)
}.

Record mfs := mkMfs {
  m_cwd : rpath;
  m_root : rpath;
  m_ents : gmap (list (list N)) entry;
  m_data : gmap (list (list N)) (list N)
}.

(* the string a stored path stands for *)
Definition render_rpath (p : rpath) : list N := abs_of (rev p).

(* MemfsEntryOpts::mode — the given or default mode, OR-ed with the type bits of the kind *)
Definition opts_mode (dir file link : bool) (given : option N) : N :=
  let m := match given with
           | Some x => x
           | None => if link then c_default_mode_link else if file then c_default_mode_file else c_default_mode_dir
           end in
  if link then N.lor m c_type_bits_link
  else if file then N.lor m c_type_bits_file
  else if dir then N.lor m c_type_bits_dir
  else m.

(* MemfsEntry::opts(path).file().build() *)
Definition new_file (p : rpath) : entry :=
  mkEntry p None [] false true false (opts_mode false true false None) c_default_uid c_default_gid false None.

(* MemfsEntry::opts(path).mode(mode).build(): the mode is fixed before the kind is known, build()
   then defaults the kind to directory and re-applies a non-zero mode *)
Definition new_dir (p : rpath) (mode : option N) : entry :=
  let m1 := opts_mode false false false mode in
  let m2 := opts_mode true false false (if N.eqb m1 0 then None else Some m1) in
  mkEntry p None [] true false false m2 c_default_uid c_default_gid false (Some ∅).

(* MemfsEntry::opts(link).file().link_to(target) [.dir().link_to(target) when the target is a dir] *)
Definition new_link (p target : rpath) (to_dir : bool) : entry :=
  let rel := relative (render_rpath target) (render_rpath (tail p)) in
  mkEntry p (Some target) rel to_dir (negb to_dir) true (opts_mode to_dir (negb to_dir) true None)
          c_default_uid c_default_gid false (if to_dir then Some ∅ else None).

(* Memfs::new() *)
Definition mfs_init : mfs :=
  mkMfs [] [] {[ [] := new_dir [] None ]} ∅.

(* MemfsEntry::set_mode / set_owner *)
Definition set_mode (e : entry) (mode : option N) : entry :=
  mkEntry (e_path e) (e_alt e) (e_rel e) (e_dir e) (e_file e) (e_link e)
          (opts_mode (e_dir e) (e_file e) (e_link e) mode) (e_uid e) (e_gid e) (e_follow e) (e_files e).
Definition set_owner (e : entry) (uid gid : option N) : entry :=
  mkEntry (e_path e) (e_alt e) (e_rel e) (e_dir e) (e_file e) (e_link e) (e_mode e)
          (match uid with Some u => u | None => e_uid e end) (match gid with Some g => g | None => e_gid e end)
          (e_follow e) (e_files e).
Definition set_path (e : entry) (p : rpath) : entry :=
  mkEntry p (e_alt e) (e_rel e) (e_dir e) (e_file e) (e_link e) (e_mode e) (e_uid e) (e_gid e) (e_follow e) (e_files e).
Definition set_alt (e : entry) (a : option rpath) : entry :=
  mkEntry (e_path e) a (e_rel e) (e_dir e) (e_file e) (e_link e) (e_mode e) (e_uid e) (e_gid e) (e_follow e) (e_files e).
Definition set_files (e : entry) (fs : option (gset (list N))) : entry :=
  mkEntry (e_path e) (e_alt e) (e_rel e) (e_dir e) (e_file e) (e_link e) (e_mode e) (e_uid e) (e_gid e) (e_follow e) fs.

(* MemfsEntry::add / remove (on an entry known to be a directory) *)
Definition entry_add (e : entry) (n : list N) : entry * bool :=
  match e_files e with
  | Some fs => (set_files e (Some ({[ n ]} ∪ fs)), negb (bool_decide (n ∈ fs)))
  | None => (set_files e (Some {[ n ]}), true)
  end.
Definition entry_remove (e : entry) (n : list N) : entry :=
  match e_files e with
  | Some fs => set_files e (Some (fs ∖ {[ n ]}))
  | None => e
  end.

(* Entry accessors derived from the mode *)
Definition is_exec_mode (m : N) : bool := negb (N.eqb (N.land m 73) 0).
Definition is_readonly_mode (m : N) : bool := N.eqb (N.land m 146) 0.

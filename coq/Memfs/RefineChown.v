(* Memfs/RefineChown.v — chown without follow against the reference tree (C01 / C11). *)
From stdpp Require Import gmap.
From Coq Require Import NArith.
From RV Require Import Base.Str Path.Helpers Path.Expand Memfs.State Memfs.Ops Memfs.Walk Memfs.WalkOps Memfs.Wf Memfs.Spec Memfs.Refine Memfs.LinkFacts.

Definition node_chown (u g : option N) (n : node) : node :=
  mkNode (n_kind n) (n_mode n) (match u with Some x => x | None => n_uid n end) (match g with Some x => x | None => n_gid n end)
         (n_data n) (n_target n) (n_rel n) (n_tdir n).

(* the reference call: the argument (recursive: everything at or below it) gets the given ids, nothing else changes *)
Definition spec_chown (t : tree) (p : rpath) (rec : bool) (u g : option N) : tree :=
  mkTree (t_cwd t) (map_imap (λ q n, Some (if bool_decide (p `suffix_of` q ∧ (rec = true ∨ q = p)) then node_chown u g n else n)) (t_nodes t)).

Lemma node_of_set_owner x u g d : node_of (set_owner x u g) d = node_chown u g (node_of x d).
Proof. reflexivity. Qed.

Theorem chown_refines env m s o p r : WF m → co_follow o = false → resolve env m s = inl p → m_ents m !! p = Some r →
  ∃ m', chown_op env m s o = Done (m', inl tt) ∧ abs m' = spec_chown (abs m) p (co_recursive o) (co_uid o) (co_gid o).
Proof.
  intros HW Hnf Hres Hr. destruct (chown_nofollow env m s o p r HW Hnf Hres Hr) as (m' & Hop & Hlk & Hd & Hc & _).
  exists m'. split; [done|]. apply tree_eq; [done|]. intros q. cbn [spec_chown t_nodes]. rewrite map_lookup_imap, !lookup_abs, Hlk, Hd.
  case_bool_decide; destruct (m_ents m !! q) as [x|]; cbn; done.
Qed.

(* Memfs/RefineList.v — the listing helpers (paths, dirs, files, all_paths, all_dirs, all_files) refine the reference tree
   filesystem (C01, C08).  The reference needs no traversal: the listing of a directory is the set of paths strictly below it
   (one level for the shallow helpers) whose node has the asked kind, in increasing lexicographic order of their component
   lists (Memfs/WalkLex.v).  A link counts as a directory or a file by what it pointed to when it was made. *)
From stdpp Require Import gmap sorting.
From Coq Require Import NArith.
From RV Require Import Base.Str Path.Helpers Path.Expand Memfs.State Memfs.Ops Memfs.Walk Memfs.WalkOps Memfs.WalkFacts Memfs.WalkSpec Memfs.WalkTerm
  Memfs.WalkExact Memfs.WalkLex Memfs.Wf Memfs.Spec Memfs.Refine.

Definition node_dirlike (n : node) : bool := match n_kind n with KDir => true | KLink => n_tdir n | KFile => false end.
Definition node_sel (k : listing) (n : node) : bool :=
  match k with LDirs | LAllDirs => node_dirlike n | LFiles | LAllFiles => negb (node_dirlike n) | _ => true end.

Definition list_sel (t : tree) (k : listing) (p q : rpath) : bool :=
  bool_decide (p `suffix_of` q ∧ q ≠ p ∧ (shallow k = true → length q = S (length p))) &&
  match t_nodes t !! q with Some n => node_sel k n | None => false end.

Definition spec_list (t : tree) (k : listing) (p : rpath) : list (list N) :=
  map render_rpath (merge_sort plex (filter (λ q, list_sel t k p q = true) (map fst (map_to_list (t_nodes t))))).

Lemma plain_listing k : plain_sorted (listing_opts k).
Proof. by destruct k. Qed.

Lemma node_sel_of k x d : kind_ok x → node_sel k (node_of x d) = kind_sel k x.
Proof.
  intros Hk. unfold kind_ok in Hk. unfold node_sel, kind_sel, node_dirlike, node_of, kind_of_entry. cbn.
  destruct k; try done; destruct (e_link x), (e_dir x), (e_file x); done.
Qed.

Theorem listing_refines env m k s p : WF m → kinds_ok m → resolve env m s = inl p → is_dir_at m p = true →
  listing_op env m k s = Done (inl (spec_list (abs m) k p)).
Proof.
  intros HW HK Hres Hd. unfold listing_op. rewrite Hres, Hd. cbn [negb].
  unfold is_dir_at in Hd. destruct (m_ents m !! p) as [r|] eqn:Hr; [|done].
  destruct (walk_exact m (listing_opts k) no_pre p r HW ltac:(by destruct k) ltac:(done) Hr) as (evs & Hw & Hit & Hiff & Hnd).
  pose proof (walk_sorted m (listing_opts k) no_pre p r evs HW (plain_listing k) ltac:(done) Hr Hw) as Hsorted.
  rewrite Hw, Hit, oks_until_err_oks. f_equal. f_equal. unfold spec_list. rewrite <- map_map. f_equal.
  apply plex_sorted_unique; [done|apply StronglySorted_merge_sort; apply _|done| |].
  - rewrite merge_sort_Permutation. apply NoDup_filter, NoDup_fst_map_to_list.
  - intros q. rewrite merge_sort_Permutation, elem_of_list_filter, elem_of_list_fmap. split.
    + intros (x & -> & Hx). apply Hiff in Hx as (q & Hq & Hs & Hsel & Hmax). rewrite (wf_key m HW _ _ Hq).
      pose proof (suffix_length _ _ Hs) as Hl.
      assert (Hmin : 1 ≤ length q - length p).
      { unfold selected in Hsel. apply andb_true_iff in Hsel as [Hm _]. apply negb_true_iff, Nat.ltb_ge in Hm. by destruct k. }
      split.
      * unfold list_sel. apply andb_true_iff. split.
        -- apply bool_decide_eq_true. split; [done|]. split; [intros ->; lia|].
           intros Hsh. destruct k; try done; cbn in Hmax; apply Nat.leb_le in Hmax; lia.
        -- rewrite lookup_abs, Hq. cbn. rewrite (node_sel_of k x _ (HK _ _ Hq)).
           unfold selected in Hsel. apply andb_true_iff in Hsel as [_ Hp]. by destruct k.
      * apply elem_of_list_fmap. exists (q, node_of x (m_data m !! q)). split; [done|].
        apply elem_of_map_to_list. by rewrite lookup_abs, Hq.
    + intros [Hsel Hin]. unfold list_sel in Hsel. apply andb_true_iff in Hsel as [Hc Hn]. apply bool_decide_eq_true in Hc as (Hs & Hne & Hsh).
      rewrite lookup_abs in Hn. destruct (m_ents m !! q) as [x|] eqn:Hq; [|done]. cbn in Hn. rewrite (node_sel_of k x _ (HK _ _ Hq)) in Hn.
      exists x. split; [by rewrite (wf_key m HW _ _ Hq)|]. apply Hiff. exists q. split; [done|]. split; [done|].
      pose proof (suffix_length _ _ Hs) as Hl.
      assert (Hlt : length p < length q).
      { destruct (decide (length q = length p)) as [E|]; [|lia]. exfalso. apply Hne. destruct Hs as [j ->].
        rewrite app_length in E. destruct j; [done|cbn in E; lia]. }
      split.
      * unfold selected. apply andb_true_iff. split; [|by destruct k].
        apply negb_true_iff, Nat.ltb_ge. destruct k; cbn; lia.
      * destruct k; cbn; try done; specialize (Hsh eq_refl); apply Nat.leb_le; lia.
Qed.

(* Memfs/ContentFacts.v — C06 / C10 / C12 facts about the mirror: what write/append/read do to the
   byte contents, the frame (other files untouched), line helpers, symlink records, and that no
   operation of the alphabet panics. *)
From stdpp Require Import gmap.
From Coq Require Import NArith.
From RV Require Import Base.Str Base.Utf8 Base.PathLex Path.Helpers Path.Expand
  Memfs.State Memfs.Ops Memfs.Walk Memfs.WalkOps Memfs.WalkFacts Memfs.Step Memfs.Wf.

(* ---- what _add leaves in the data index ---- *)
Lemma add_data_other m e q : q ≠ e_path e → m_data (add m e).1 !! q = m_data m !! q.
Proof.
  intros Hq. unfold add. destruct (e_path e) as [|base dir] eqn:Hp; [by destruct (e_file e)|].
  destruct (m_ents m !! dir) as [pe|]; [|done]. destruct (negb (e_dir pe) || e_link pe); [done|].
  destruct (m_ents m !! (base :: dir)) as [x|]; [by repeat case_match|].
  set (m1 := if negb (e_link e) && e_file e then _ else _).
  assert (H1 : m_data m1 !! q = m_data m !! q).
  { unfold m1. case_match; [cbn; by rewrite lookup_insert_ne|done]. }
  cbn [upd_ents m_ents]. destruct (_ !! dir) as [parent|]; [|exact H1].
  destruct (entry_add parent base) as [p' fr]. destruct fr; exact H1.
Qed.

Lemma add_file_ok_has_data m p m' r : WF m → add m (new_file p) = (m', inl r) → is_Some (m_data m' !! p).
Proof.
  intros HW. unfold add. cbn [e_path new_file e_file e_link e_dir negb andb].
  destruct p as [|base dir]; [done|].
  destruct (m_ents m !! dir) as [pe|] eqn:Hd; [|intros H; by simplify_eq].
  destruct (negb (e_dir pe) || e_link pe); [intros H; by simplify_eq|].
  destruct (m_ents m !! (base :: dir)) as [x|] eqn:Hx.
  - cbn [orb]. destruct (negb (e_file x) || e_link x && true) eqn:E; [intros H; by simplify_eq|].
    intros H. simplify_eq. apply orb_false_iff in E as [E1 E2]. apply negb_false_iff in E1.
    rewrite andb_true_r in E2. apply (wf_dat m' HW). eauto.
  - cbn [upd_ents upd_data m_ents m_data]. rewrite lookup_insert_ne by (intros H; apply (f_equal length) in H; simpl in H; lia).
    rewrite Hd. destruct (entry_add pe base) as [p' fr]. destruct fr; intros H; simplify_eq; cbn; rewrite lookup_insert; eauto.
Qed.

(* C06: a successful write replaces the whole content, and touches no other file *)
Theorem write_replaces env m s d m' p : WF m → resolve env m s = inl p →
  write_all_op env m s d = (m', inl tt) → m_data m' !! p = Some d ∧ ∀ q, q ≠ p → m_data m' !! q = m_data m !! q.
Proof.
  intros HW Hr. unfold write_all_op. rewrite Hr.
  destruct (add m (new_file p)) as [m1 [r|e]] eqn:Ea; [|intros H; by simplify_eq].
  destruct (add_file_ok_has_data m p m1 r HW Ea) as [old Ho]. rewrite Ho. intros H. simplify_eq.
  split; [cbn; by rewrite lookup_insert|]. intros q Hq. cbn. rewrite lookup_insert_ne by done.
  replace m1 with (add m (new_file p)).1 by (by rewrite Ea). by apply add_data_other.
Qed.

(* C06: a successful append adds at the end and never alters the existing prefix *)
Theorem append_extends env m s d m' p : WF m → resolve env m s = inl p →
  append_all_op env m s d = (m', inl tt) →
  ∃ old, m_data m' !! p = Some (old ++ d) ∧
         (is_Some (m_data m !! p) → m_data m !! p = Some old) ∧ (m_data m !! p = None → old = []) ∧
         ∀ q, q ≠ p → m_data m' !! q = m_data m !! q.
Proof.
  intros HW Hr. unfold append_all_op. rewrite Hr.
  destruct (add m (new_file p)) as [m1 [r|e]] eqn:Ea; [|intros H; by simplify_eq].
  destruct (m_data m1 !! p) as [old|] eqn:Ho; [|intros H; by simplify_eq]. intros H. simplify_eq.
  exists old. split; [cbn; by rewrite lookup_insert|].
  (* what _add did to p's data: nothing if p existed, [] if it was created *)
  assert (Hold : (is_Some (m_data m !! p) → m_data m !! p = Some old) ∧ (m_data m !! p = None → old = [])).
  { revert Ea Ho. unfold add. cbn [e_path new_file e_file e_link e_dir negb andb].
    destruct p as [|base dir]; [done|].
    destruct (m_ents m !! dir) as [pe|] eqn:Hd; [|intros H; by simplify_eq].
    destruct (negb (e_dir pe) || e_link pe); [intros H; by simplify_eq|].
    destruct (m_ents m !! (base :: dir)) as [x|] eqn:Hx.
    - cbn [orb]. destruct (negb (e_file x) || e_link x && true); [intros H; by simplify_eq|].
      intros H Ho. simplify_eq. split; [intros _; exact Ho | intros Hn; congruence].
    - cbn [upd_ents upd_data m_ents m_data]. rewrite lookup_insert_ne by (intros H; apply (f_equal length) in H; simpl in H; lia).
      rewrite Hd. destruct (entry_add pe base) as [p' fr].
      assert (Hnd : m_data m !! (base :: dir) = None).
      { destruct (m_data m !! (base :: dir)) eqn:E; [|done]. assert (is_Some (m_data m !! (base :: dir))) as Hs by eauto.
        apply (wf_dat m HW) in Hs as (e0 & H0 & _). congruence. }
      destruct fr; intros H Ho; simplify_eq; cbn in Ho; rewrite lookup_insert in Ho; simplify_eq; (split; [intros [? ?]; congruence | done]). }
  split; [apply Hold|]. split; [apply Hold|].
  intros q Hq. cbn. rewrite lookup_insert_ne by done.
  replace m1 with (add m (new_file p)).1 by (by rewrite Ea). by apply add_data_other.
Qed.

(* C06: reads return what the byte-vector model holds *)
Theorem read_all_returns env m s p d : resolve env m s = inl p → m_ents m !! p = None ∨ (∃ e, m_ents m !! p = Some e ∧ e_file e = true) →
  m_data m !! p = Some d →
  step env m (OReadAll s) = Done (m, if valid_utf8 d then inl (VBytes d) else inr EInvalidData).
Proof.
  intros Hr He Hd. cbn [step]. unfold clone_file. rewrite Hr.
  destruct He as [He|(e & He & Hf)]; rewrite He, ?Hf; cbn [negb]; rewrite Hd; reflexivity.
Qed.

(* C06: line helpers add exactly one newline per line; reading the lines back returns them *)
Definition plain_line (l : list N) : Prop := Forall (fun c => c ≠ 10%N ∧ c ≠ 13%N) l.

Lemma split_lines_plain l rest acc : plain_line l →
  split_lines (l ++ 10%N :: rest) acc = finish_line (rev l ++ acc) :: split_lines rest [].
Proof.
  revert acc. induction l as [|c l IH]; intros acc Hp; cbn [app split_lines].
  - reflexivity.
  - inversion Hp as [|? ? [Hc1 Hc2] Hp']; subst. destruct (N.eqb_spec c 10); [done|].
    rewrite IH by done. cbn [rev]. rewrite <- app_assoc. done.
Qed.

Lemma split_lines_plain_nocr l rest : plain_line l → split_lines (l ++ 10%N :: rest) [] = l :: split_lines rest [].
Proof.
  intros Hp. rewrite split_lines_plain by done. rewrite app_nil_r. f_equal. unfold finish_line.
  destruct (rev l) as [|c r] eqn:E; [apply (f_equal (@rev N)) in E; rewrite rev_involutive in E; by subst|].
  assert (Hc : c ≠ 13%N).
  { assert (In c l) as Hin by (apply in_rev; rewrite E; by left).
    unfold plain_line in Hp. rewrite Forall_forall in Hp. apply elem_of_list_In in Hin. by destruct (Hp c Hin). }
  destruct (N.eqb_spec c 13); [done|]. rewrite <- E, rev_involutive. done.
Qed.

Theorem lines_roundtrip ls : Forall plain_line ls → ls ≠ [] → lines_of (join_lines ls ++ [10%N]) = ls.
Proof.
  unfold lines_of. induction ls as [|l ls IH]; intros Hp Hne; [done|].
  inversion Hp as [|? ? Hl Hp']; subst. destruct ls as [|l2 ls2].
  - cbn [join_lines]. rewrite split_lines_plain_nocr by done. done.
  - change (join_lines (l :: l2 :: ls2)) with (l ++ 10%N :: join_lines (l2 :: ls2)).
    rewrite <- app_assoc. cbn [app]. rewrite split_lines_plain_nocr by done. f_equal. apply IH; done.
Qed.

(* ---- C10: entry.follow(true) swaps path and alt exactly once ---- *)
Theorem follow_swaps_once e : follow_e (follow_e e) = follow_e e.
Proof.
  unfold follow_e. destruct (e_link e) eqn:El, (e_follow e) eqn:Ef; cbn [andb negb]; rewrite ?El, ?Ef; cbn [andb negb]; try reflexivity.
  destruct (e_alt e) eqn:Ea; cbn; rewrite ?El, ?Ef; cbn; rewrite ?Ea; reflexivity.
Qed.

(* C10: link exclusion on the queries *)
Theorem link_exclusion env m s p e : resolve env m s = inl p → m_ents m !! p = Some e → e_link e = true →
  step env m (OIsSymlink s) = Done (m, inl (VBool true)) ∧
  step env m (OIsFile s) = Done (m, inl (VBool false)) ∧
  step env m (OIsDir s) = Done (m, inl (VBool false)).
Proof.
  intros Hr He Hl. cbn [step]. unfold query_bool. rewrite Hr, He, Hl. cbn. rewrite !andb_false_r. done.
Qed.

(* C10: readlink / readlink_abs on a non-link fail *)
Theorem readlink_nonlink env m s p e : resolve env m s = inl p → m_ents m !! p = Some e → e_link e = false →
  step env m (OReadlink s) = Done (m, inr EIsNotSymlink) ∧ step env m (OReadlinkAbs s) = Done (m, inr EIsNotSymlink).
Proof. intros Hr He Hl. cbn [step]. unfold query_entry. rewrite Hr, He, Hl. done. Qed.

(* ---- C12: no operation of the alphabet panics ---- *)
Lemma remove_all_loop_no_panic fuel : ∀ m ps, remove_all_loop fuel m ps ≠ Panic.
Proof.
  induction fuel as [|f IH]; intros m ps; cbn [remove_all_loop]; [done|].
  repeat case_match; try done; apply IH.
Qed.

Lemma move_loop_no_panic fuel : ∀ m a b ps, move_loop fuel m a b ps ≠ Panic.
Proof.
  induction fuel as [|f IH]; intros m a b ps; cbn [move_loop]; [done|].
  repeat case_match; try done; apply IH.
Qed.

Lemma walk_user_no_panic {A} sn o pre p (k : list event → A) :
  match walk sn o pre p with inl (Done evs) => Done (k evs) | inl Panic => Panic | inl OutOfFuel => OutOfFuel | inr e => Done (k []) end ≠ Panic.
Proof. destruct (walk sn o pre p) as [[evs| |]|] eqn:E; try done. by apply walk_no_panic in E. Qed.

Theorem step_no_panic env m o : step env m o ≠ Panic.
Proof.
  destruct o; cbn [step]; try done.
  - pose proof (remove_all_loop_no_panic). unfold remove_all_op. destruct (resolve env m s); [|done].
    destruct (remove_all_loop _ _ _) eqn:E; try done. by apply H in E.
  - unfold move_op. destruct (move_validate env m s d); try done.
    destruct (move_loop _ _ _ _ _) eqn:E; try done. by apply move_loop_no_panic in E.
  - unfold listing_op. destruct (resolve env m s); [|done]. destruct (negb _); [done|].
    destruct (walk _ _ _ _) as [[evs| |]|] eqn:Ew; try done; [by repeat case_match | by apply walk_no_panic in Ew].
  - destruct (resolve env m s); [|done]. destruct (walk _ _ _ _) as [[evs| |]|] eqn:Ew; try done. by apply walk_no_panic in Ew.
  - unfold copy_op. repeat case_match; try done.
    all: match goal with H : walk _ _ _ _ = inl Panic |- _ => by apply walk_no_panic in H end.
  - unfold chmod_op. repeat case_match; try done.
    all: match goal with H : walk _ _ _ _ = inl Panic |- _ => by apply walk_no_panic in H end.
  - unfold chown_op. repeat case_match; try done.
    all: match goal with H : walk _ _ _ _ = inl Panic |- _ => by apply walk_no_panic in H end.
  - destruct (resolve env m s); [|done]. destruct (add m (new_file l)) as [m1 [p'|e]]; [|done].
    unfold chmod_op. repeat case_match; try done.
    all: match goal with H : walk _ _ _ _ = inl Panic |- _ => by apply walk_no_panic in H end.
Qed.

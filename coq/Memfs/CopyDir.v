(* Memfs/CopyDir.v — copy of a directory tree (C09): stage 1, where a source entry lands. *)
From stdpp Require Import gmap.
From Coq Require Import NArith.
From RV Require Import Base.Str Base.PathLex Base.PathLexFacts Base.SpanFacts Path.Helpers Path.HelpersFacts Path.Expand
  Memfs.State Memfs.Ops Memfs.Walk Memfs.WalkOps Memfs.Wf Memfs.CopyFile.

Lemma is_name_noslash g : is_name g → noslash g.
Proof. by intros (_ & H & _). Qed.

Lemma strip_seps_join B : List.Forall is_name B → strip_seps (join_names B) = join_names B.
Proof.
  intros HB. destruct B as [|b B]; [done|]. inversion HB as [|? ? Hb HB']; subst.
  destruct Hb as (Hne & Hns & _). destruct b as [|c b]; [done|]. inversion Hns; subst.
  assert (Hj : ∃ t, join_names ((c :: b) :: B) = c :: t) by (destruct B; cbn; eauto).
  destruct Hj as [t ->]. cbn [strip_seps]. by rewrite (proj2 (N.eqb_neq c slash)).
Qed.

Lemma strip_seps_slash_join B : List.Forall is_name B → strip_seps (slash :: join_names B) = join_names B.
Proof. intros HB. cbn [strip_seps]. rewrite N.eqb_refl. by apply strip_seps_join. Qed.

Lemma flat_map_seg_names B : List.Forall is_name B → flat_map (seg_comp false) B = map CNormal B.
Proof. induction 1 as [|b B Hb _ IH]; [done|]. cbn [flat_map map]. rewrite (seg_comp_name false b Hb), IH. done. Qed.

Lemma names_of_comps cs B : flat_map (fun c => match c with CNormal n => [n] | _ => [] end) (cs ++ map CNormal B)
  = flat_map (fun c => match c with CNormal n => [n] | _ => [] end) cs ++ B.
Proof.
  rewrite flat_map_app. f_equal. induction B as [|b B IH]; [done|]. cbn [map flat_map app]. by rewrite IH.
Qed.

(* the tail of a source path below the source root, as the string trim_prefix leaves it *)
Lemma trim_prefix_render A B : List.Forall is_name A → List.Forall is_name B →
  strip_seps (trim_prefix (abs_of (A ++ B)) (abs_of A)) = join_names B.
Proof.
  intros HA HB. rewrite (abs_of_string (A ++ B)) by (apply List.Forall_app; done). rewrite (abs_of_string A HA).
  destruct A as [|a A'].
  - cbn [app join_names]. change (slash :: join_names B) with ([slash] ++ join_names B). rewrite trim_prefix_inv. by apply strip_seps_join.
  - destruct B as [|b B'].
    + rewrite app_nil_r. rewrite <- (app_nil_r (slash :: join_names (a :: A'))) at 1. by rewrite trim_prefix_inv.
    + rewrite (join_names_app (a :: A') (b :: B')) by done.
      change (slash :: join_names (a :: A') ++ slash :: join_names (b :: B')) with ((slash :: join_names (a :: A')) ++ slash :: join_names (b :: B')).
      rewrite trim_prefix_inv. by apply strip_seps_slash_join.
Qed.

Lemma copy_dst_rebase dp sp j : names_ok dp → names_ok (j ++ sp) → copy_dst dp (j ++ sp) sp = j ++ dp.
Proof.
  intros Hd Hq. unfold names_ok in *. apply List.Forall_app in Hq as [Hj Hs].
  unfold copy_dst, rp_of_string, render_rpath. rewrite rev_app_distr.
  assert (Hne : abs_of (rev dp) ≠ []) by (rewrite abs_of_string by (by apply List.Forall_rev); discriminate).
  unfold names_of. rewrite (mash_components _ _ Hne).
  rewrite (trim_prefix_render (rev sp) (rev j)) by (by apply List.Forall_rev).
  rewrite (components_abs_of (rev dp)) by (by apply List.Forall_rev).
  destruct (rev j) as [|b B] eqn:Ej.
  - assert (j = []) as -> by (apply (f_equal (@rev _)) in Ej; by rewrite rev_involutive in Ej).
    change (split (join_names [])) with [@nil N]. change (flat_map (seg_comp false) [[]]) with (@nil comp). rewrite app_nil_r.
    change (CRoot :: map CNormal (rev dp)) with ([CRoot] ++ map CNormal (rev dp)). rewrite names_of_comps. cbn [flat_map app].
    by rewrite rev_involutive.
  - assert (HB : List.Forall is_name (b :: B)) by (rewrite <- Ej; by apply List.Forall_rev).
    assert (HBn : List.Forall noslash (b :: B)) by (eapply List.Forall_impl; [|exact HB]; apply is_name_noslash).
    rewrite (split_join (b :: B) HBn ltac:(done)).
    rewrite (flat_map_seg_names _ HB).
    change ((CRoot :: map CNormal (rev dp)) ++ map CNormal (b :: B)) with ([CRoot] ++ (map CNormal (rev dp) ++ map CNormal (b :: B))).
    rewrite <- map_app. rewrite names_of_comps. cbn [flat_map app]. rewrite rev_app_distr, rev_involutive, <- Ej, rev_involutive. done.
Qed.

(* ---- stage 2: one step of the copy loop, on the reference tree ---- *)
From RV Require Import Memfs.WfMore Memfs.Spec Memfs.Refine Memfs.Kinds Memfs.LinkFacts.

Lemma add_existing_dir m p mode x : WF m → m_ents m !! p = Some x → real_dir x → add m (new_dir p mode) = (m, inl p).
Proof.
  intros HW Hx [Hd Hl]. unfold add. change (e_path (new_dir p mode)) with p. destruct p as [|b d]; [done|].
  destruct (wf_par m HW _ _ _ Hx) as (pe & Hpe & [Hpd Hpl] & _). rewrite Hpe, Hpd, Hpl. cbn [negb orb]. rewrite Hx.
  change (e_file (new_dir (b :: d) mode)) with false. change (e_link (new_dir (b :: d) mode)) with false.
  change (e_dir (new_dir (b :: d) mode)) with true. cbn [andb negb]. rewrite Hd, Hl. done.
Qed.

Lemma prefixes_snoc ns n : ∀ acc, prefixes (ns ++ [n]) acc = prefixes ns acc ++ [n :: rev ns ++ acc].
Proof.
  induction ns as [|a ns IH]; intros acc; [done|]. cbn [app prefixes rev]. rewrite IH. f_equal. f_equal. f_equal. by rewrite <- app_assoc.
Qed.

Lemma mkdir_loop_app l1 : ∀ l2 m mode, mkdir_loop m (l1 ++ l2) mode =
  match mkdir_loop m l1 mode with (m1, inl _) => mkdir_loop m1 l2 mode | (m1, inr e) => (m1, inr e) end.
Proof.
  induction l1 as [|p l1 IH]; intros l2 m mode; [done|]. cbn [app mkdir_loop].
  destruct (add m (new_dir p mode)) as [m' [q|e]]; [apply IH|done].
Qed.

Lemma mkdir_existing m d : ∀ mode x, WF m → m_ents m !! d = Some x → real_dir x → mkdir_loop m (prefixes (rev d) []) mode = (m, inl tt).
Proof.
  induction d as [|n d IH]; intros mode x HW Hx Hrd; [done|].
  cbn [rev]. rewrite prefixes_snoc, rev_involutive, app_nil_r, mkdir_loop_app.
  destruct (wf_par m HW _ _ _ Hx) as (pe & Hpe & Hprd & _). rewrite (IH mode pe HW Hpe Hprd).
  cbn [mkdir_loop]. by rewrite (add_existing_dir m (n :: d) mode x HW Hx Hrd).
Qed.

Lemma mkdir_fresh m b d mode pd : WF m → m_ents m !! (b :: d) = None → m_ents m !! d = Some pd → real_dir pd →
  ∃ m', mkdir_m_abs m (b :: d) mode = (m', inl tt) ∧ m_cwd m' = m_cwd m ∧
        abs_nodes m' = <[b :: d := node_of (new_dir (b :: d) mode) None]> (abs_nodes m).
Proof.
  intros HW Hx Hpd [Hd Hl]. unfold mkdir_m_abs.
  assert (Hroot : add m (new_dir [] mode) = (m, inl [])) by done. rewrite Hroot.
  cbn [rev]. rewrite prefixes_snoc, rev_involutive, app_nil_r, mkdir_loop_app.
  rewrite (mkdir_existing m d mode pd HW Hpd (conj Hd Hl)). cbn [mkdir_loop].
  destruct (add_absent m (new_dir (b :: d) mode) b d pd HW eq_refl Hpd Hd Hl Hx) as (m' & -> & Hc & Hn). eauto.
Qed.

Lemma abs_set_mode_at m p e md : m_ents m !! p = Some e →
  abs_nodes (set_mode_at m p md) = <[p := node_of (set_mode e (Some md)) (m_data m !! p)]> (abs_nodes m) ∧
  m_data (set_mode_at m p md) = m_data m ∧ m_cwd (set_mode_at m p md) = m_cwd m.
Proof.
  intros He. unfold set_mode_at. rewrite He. split; [|done]. apply map_eq. intros q. rewrite lookup_abs_nodes. cbn [upd_ents m_ents m_data].
  destruct (decide (q = p)) as [->|Hn]; [by rewrite !lookup_insert|]. rewrite !lookup_insert_ne by done. by rewrite lookup_abs_nodes.
Qed.

Lemma abs_set_data' m p e d : m_ents m !! p = Some e →
  abs_nodes (upd_data m (insert p d)) = <[p := node_of e (Some d)]> (abs_nodes m).
Proof.
  intros He. apply map_eq. intros q. rewrite lookup_abs_nodes. cbn [upd_data m_ents m_data].
  destruct (decide (q = p)) as [->|Hn]; [by rewrite !lookup_insert, He|]. rewrite !lookup_insert_ne by done. by rewrite lookup_abs_nodes.
Qed.

(* the node a copied regular file gets *)
Definition file_copy_entry (fm : option N) (c : entry) (dst : rpath) : entry :=
  match fm with
  | Some md => set_mode (set_mode (set_path c dst) (Some md)) (Some md)
  | None => set_mode (set_path c dst) (Some (e_mode c))
  end.

Lemma copy_one_dir env o dm fm m b d c src pd : WF m → cp_follow o = false → e_link src = false →
  m_ents m !! e_path src = Some c → e_dir c = true →
  m_ents m !! (b :: d) = None → m_ents m !! d = Some pd → real_dir pd →
  ∃ m', copy_one env o dm fm m (b :: d) src = (m', inl tt) ∧ m_cwd m' = m_cwd m ∧
        abs_nodes m' = <[b :: d := node_of (new_dir (b :: d) (orelse dm (Some (e_mode c)))) None]> (abs_nodes m).
Proof.
  intros HW Hnf Hl Hc Hd Hx Hpd Hrd. unfold copy_one. rewrite Hl, andb_false_r. unfold clone_entry. rewrite Hc, Hd.
  by apply (mkdir_fresh m b d _ pd).
Qed.

Lemma copy_one_file env o dm fm m b d c src pd bytes : WF m → e_link src = false →
  m_ents m !! e_path src = Some c → e_dir c = false → e_file c = true → e_link c = false → e_path c = e_path src →
  m_data m !! e_path src = Some bytes → e_path src ≠ b :: d →
  m_ents m !! (b :: d) = None → m_ents m !! d = Some pd → real_dir pd →
  ∃ m', copy_one env o dm fm m (b :: d) src = (m', inl tt) ∧ m_cwd m' = m_cwd m ∧
        abs_nodes m' = <[b :: d := node_of (file_copy_entry fm c (b :: d)) (Some bytes)]> (abs_nodes m).
Proof.
  intros HW Hl Hc Hd Hf Hcl Hcp Hdat Hne Hx Hpd [Hpdd Hpdl]. unfold copy_one. rewrite Hl, andb_false_r. unfold clone_entry. rewrite Hc, Hd.
  cbv beta iota. rewrite Hpd.
  set (dst := set_mode (set_path c (b :: d)) (orelse fm (Some (e_mode c)))).
  destruct (add_absent m dst b d pd HW eq_refl Hpd Hpdd Hpdl Hx) as (m1 & Ha & Hc1 & Hn1). rewrite Ha.
  (* the entry now stored under the destination *)
  assert (Hl1 : m_ents m1 !! (b :: d) = Some dst).
  { destruct (add_new_lookup m dst b d m1 (b :: d) eq_refl Hx Ha) as (_ & H1 & _). exact H1. }
  assert (Hd1 : m_data m1 !! e_path src = Some bytes).
  { unfold add in Ha. change (e_path dst) with (b :: d) in Ha. cbv beta iota zeta in Ha. rewrite Hpd, Hpdd, Hpdl in Ha. cbn [negb orb] in Ha. rewrite Hx in Ha.
    change (e_link dst) with (e_link c) in Ha. change (e_file dst) with (e_file c) in Ha. rewrite Hcl, Hf in Ha. cbn [negb andb] in Ha.
    cbn [upd_ents upd_data m_ents] in Ha. rewrite lookup_insert_ne in Ha by (intros E; apply (f_equal length) in E; cbn in E; lia).
    rewrite Hpd in Ha. destruct (entry_add pd b) as [pe' fr]. destruct fr; simplify_eq; cbn; by rewrite lookup_insert_ne. }
  rewrite Hcl, Hf. cbn [negb]. rewrite ?Hcp.
  destruct fm as [md|].
  - destruct (abs_set_mode_at m1 (b :: d) dst md Hl1) as (Hn2 & Hd2 & Hc2).
    rewrite Hd2, Hd1. eexists. split; [done|]. split; [cbn; by rewrite Hc2|].
    assert (Hl2 : m_ents (set_mode_at m1 (b :: d) md) !! (b :: d) = Some (set_mode dst (Some md))).
    { unfold set_mode_at. rewrite Hl1. cbn. by rewrite lookup_insert. }
    rewrite (abs_set_data' _ (b :: d) _ bytes Hl2), Hn2, Hn1. rewrite !insert_insert. done.
  - rewrite Hd1. eexists. split; [done|]. split; [done|].
    rewrite (abs_set_data' m1 (b :: d) dst bytes Hl1), Hn1. by rewrite insert_insert.
Qed.

(* ---- stage 3: the loop ---- *)
From RV Require Import Memfs.WalkFacts Memfs.WalkSpec Memfs.WalkTerm Memfs.WalkExact Memfs.WfMove.

Lemma fold_insert_lookup_in {A} (key : A → rpath) (val : A → node) (L : list A) : ∀ (T : gmap rpath node) x,
  NoDup (map key L) → x ∈ L → fold_left (fun T x => <[key x := val x]> T) L T !! key x = Some (val x).
Proof.
  induction L as [|a L IH]; intros T x Hnd Hx; [by apply elem_of_nil in Hx|].
  cbn [map] in Hnd. apply NoDup_cons in Hnd as [Hna Hnd]. cbn [fold_left].
  apply elem_of_cons in Hx as [->|Hx]; [|by apply IH].
  clear IH. revert T. induction L as [|b L IH2]; intros T; cbn [fold_left]; [by rewrite lookup_insert|].
  cbn [map] in Hna, Hnd. apply NoDup_cons in Hnd as [_ Hnd]. rewrite insert_commute by (intros E; apply Hna; rewrite E; left).
  apply IH2; [|done]. intros Hin. apply Hna. by right.
Qed.

Lemma fold_insert_lookup_notin {A} (key : A → rpath) (val : A → node) (L : list A) : ∀ (T : gmap rpath node) k,
  k ∉ map key L → fold_left (fun T x => <[key x := val x]> T) L T !! k = T !! k.
Proof.
  induction L as [|a L IH]; intros T k Hk; [done|]. cbn [fold_left map] in *. rewrite IH by (intros H; apply Hk; by right).
  rewrite lookup_insert_ne; [done|]. intros E. apply Hk. rewrite E. left.
Qed.

Lemma fold_insert_snoc {A} (key : A → rpath) (val : A → node) (L : list A) (x : A) (T : gmap rpath node) :
  fold_left (fun T x => <[key x := val x]> T) (L ++ [x]) T = <[key x := val x]> (fold_left (fun T x => <[key x := val x]> T) L T).
Proof. by rewrite fold_left_app. Qed.

(* what the node of an entry depends on *)
Lemma node_of_eq c x d1 d2 : kind_of_entry c = kind_of_entry x → e_mode c = e_mode x → e_uid c = e_uid x → e_gid c = e_gid x →
  e_alt c = e_alt x → e_rel c = e_rel x → e_link c && e_dir c = e_link x && e_dir x → default [] d1 = default [] d2 →
  node_of c d1 = node_of x d2.
Proof. unfold node_of. by intros -> -> -> -> -> -> -> ->. Qed.

Section CopyDir.
Variables (env : envmap) (m : mfs) (o : copy_opts) (sp dp ddir : rpath) (db : list N) (pd : entry).
Hypothesis HW : WF m.
Hypothesis HK : kinds_ok m.
Hypothesis Hnf : cp_follow o = false.
Hypothesis Hdp : dp = db :: ddir.
Hypothesis Hdpn : m_ents m !! dp = None.
Hypothesis Hpd : m_ents m !! ddir = Some pd.
Hypothesis Hpdr : real_dir pd.
Hypothesis Hnotin : ¬ sp `suffix_of` dp.
Hypothesis Hnames_dp : names_ok dp.
Hypothesis Hnames : ∀ q, sp `suffix_of` q → is_Some (m_ents m !! q) → names_ok q.
Hypothesis Hnolink : ∀ q x, sp `suffix_of` q → m_ents m !! q = Some x → e_link x = false.
Hypothesis Hsp : is_Some (m_ents m !! sp).

Let dm := match cp_mode o with Some x => if cp_cdirs o || negb (cp_cfiles o) then Some x else None | None => None end.
Let fm := match cp_mode o with Some x => if cp_cfiles o || negb (cp_cdirs o) then Some x else None | None => None end.

(* where a source path lands *)
Definition rb (q : rpath) : rpath := take (length q - length sp) q ++ dp.
Lemma rb_app j : rb (j ++ sp) = j ++ dp.
Proof. unfold rb. rewrite app_length, Nat.add_sub, take_app. done. Qed.

(* the node a source entry is copied to *)
Definition cnode (x : entry) : node :=
  if e_dir x then node_of (new_dir (rb (e_path x)) (orelse dm (Some (e_mode x)))) None
  else node_of (file_copy_entry fm x (rb (e_path x))) (m_data m !! e_path x).

Definition ins (P : list entry) (T : gmap rpath node) : gmap rpath node :=
  fold_left (fun T x => <[rb (e_path x) := cnode x]> T) P T.

(* nothing exists at or below the destination, and the source is not below it *)
Lemma under_dp_absent k : dp `suffix_of` k → m_ents m !! k = None.
Proof.
  intros [j ->]. destruct (m_ents m !! (j ++ dp)) as [x|] eqn:Hx; [|done]. exfalso.
  destruct (wf_reachable m HW _ _ Hx (length j)) as [y Hy]; [rewrite app_length; lia|].
  rewrite (drop_app_alt j dp (length j) eq_refl) in Hy. congruence.
Qed.

Lemma src_not_under_dp q : sp `suffix_of` q → is_Some (m_ents m !! q) → ¬ dp `suffix_of` q.
Proof. intros Hs [x Hx] Hd. by rewrite (under_dp_absent q Hd) in Hx. Qed.

Lemma rb_under q : sp `suffix_of` q → dp `suffix_of` rb q.
Proof. intros [j ->]. rewrite rb_app. by apply suffix_app_r. Qed.

Lemma rb_inj q q' : sp `suffix_of` q → sp `suffix_of` q' → rb q = rb q' → q = q'.
Proof. intros [j ->] [j' ->]. rewrite !rb_app. intros H. apply app_inv_tail in H. by subst. Qed.

Definition Inv (mk : mfs) (P : list entry) : Prop :=
  WF mk ∧ kinds_ok mk ∧ m_cwd mk = m_cwd m ∧ abs_nodes mk = ins P (abs_nodes m).

(* the items: snapshot entries below the source, distinct, parents first *)
Definition items_ok (L : list entry) : Prop :=
  NoDup (map e_path L) ∧ (∀ x, x ∈ L → m_ents m !! e_path x = Some x ∧ sp `suffix_of` e_path x) ∧
  (∀ P x R n q, L = P ++ x :: R → e_path x = n :: q → sp `suffix_of` q → ∃ y, y ∈ P ∧ e_path y = q).

Lemma keys_nodup L : items_ok L → NoDup (map (fun x => rb (e_path x)) L).
Proof.
  intros (Hnd & Hin & _). induction L as [|x L IH]; [constructor|]. cbn [map] in *. apply NoDup_cons in Hnd as [Hx Hnd].
  apply NoDup_cons. split; [|apply IH; [done|intros; apply Hin; by right]].
  intros Hk. apply elem_of_list_fmap in Hk as (y & Hy & Hyin). apply Hx. apply elem_of_list_fmap. exists y. split; [|done].
  apply rb_inj; [apply Hin; left|apply Hin; by right|done].
Qed.

Lemma copy_step mk P x R : items_ok (P ++ x :: R) → Inv mk P →
  ∃ mk', copy_one env o dm fm mk (rb (e_path x)) x = (mk', inl tt) ∧ Inv mk' (P ++ [x]).
Proof.
  intros Hok (HWk & HKk & Hck & Hnk). pose proof (keys_nodup _ Hok) as Hkeys. destruct Hok as (Hnd & Hin & Hpar).
  destruct (Hin x ltac:(apply elem_of_app; right; left)) as [Hx Hsx].
  set (q := e_path x) in *. destruct Hsx as [j Hq].
  assert (Hrb : rb q = j ++ dp) by (rewrite Hq; apply rb_app).
  (* the source is untouched so far *)
  assert (Hqn : ¬ dp `suffix_of` q) by (apply src_not_under_dp; [by exists j|eauto]).
  assert (Hsrc : abs_nodes mk !! q = abs_nodes m !! q).
  { rewrite Hnk. apply fold_insert_lookup_notin. intros Hk. apply elem_of_list_fmap in Hk as (y & Hy & Hyin).
    apply Hqn. rewrite Hy. apply rb_under. apply (Hin y). apply elem_of_app. by left. }
  rewrite !lookup_abs_nodes, Hx in Hsrc. cbn in Hsrc.
  destruct (m_ents mk !! q) as [c|] eqn:Hc; [|done]. cbn in Hsrc. assert (Hnode : node_of c (m_data mk !! q) = node_of x (m_data m !! q)) by congruence.
  pose proof (Hnolink q x ltac:(by exists j) Hx) as Hxl.
  assert (Hfields : e_link c = false ∧ e_dir c = e_dir x ∧ e_file c = e_file x ∧ e_mode c = e_mode x ∧ e_uid c = e_uid x ∧ e_gid c = e_gid x ∧
                    e_alt c = e_alt x ∧ e_rel c = e_rel x).
  { unfold node_of in Hnode. injection Hnode as Hk Hm Hu Hg Hd Ha Hr Ht. unfold kind_of_entry in Hk. rewrite Hxl in Hk.
    pose proof (HKk _ _ Hc) as Hkc. pose proof (HK _ _ Hx) as Hkx. unfold kind_ok in *.
    destruct (e_link c); [by destruct (e_dir x)|]. split; [done|].
    destruct (e_dir c) eqn:E1, (e_dir x) eqn:E2; try done; rewrite Hkc, Hkx in *; repeat split; try done;
      destruct (e_file c), (e_file x); done. }
  destruct Hfields as (Hcl & Hcd & Hcf & Hcm & Hcu & Hcg & Hca & Hcr).
  (* the destination is free *)
  assert (Hfree : m_ents mk !! rb q = None).
  { pose proof (lookup_abs_nodes mk (rb q)) as Hl. rewrite Hnk in Hl.
    unfold ins in Hl. rewrite fold_insert_lookup_notin in Hl.
    - rewrite lookup_abs_nodes, (under_dp_absent (rb q)) in Hl by (apply rb_under; by exists j). cbn in Hl.
      by destruct (m_ents mk !! rb q).
    - intros Hk. apply elem_of_list_fmap in Hk as (y & Hy & Hyin).
      rewrite map_app in Hkeys. cbn [map] in Hkeys. apply NoDup_app in Hkeys as (_ & Hdis & _).
      apply (Hdis (rb (e_path y))); [apply elem_of_list_fmap; by exists y|]. rewrite <- Hy. left. }
  (* its parent is a real directory *)
  assert (Hparent : ∃ b d pk, rb q = b :: d ∧ m_ents mk !! d = Some pk ∧ real_dir pk).
  { destruct j as [|n j'].
    - cbn [app] in Hrb. rewrite Hrb, Hdp. exists db, ddir.
      assert (Hl : abs_nodes mk !! ddir = abs_nodes m !! ddir).
      { rewrite Hnk. apply fold_insert_lookup_notin. intros Hk. apply elem_of_list_fmap in Hk as (y & Hy & Hyin).
        assert (Hu : dp `suffix_of` ddir) by (rewrite Hy; apply rb_under; apply (Hin y); apply elem_of_app; by left).
        rewrite Hdp in Hu. apply suffix_length in Hu. cbn in Hu. lia. }
      rewrite !lookup_abs_nodes, Hpd in Hl. cbn in Hl. destruct (m_ents mk !! ddir) as [pk|]; [|done]. cbn in Hl. apply (inj Some) in Hl.
      exists pk. split; [done|]. split; [done|]. unfold node_of in Hl. injection Hl as Hk _. unfold kind_of_entry in Hk.
      destruct Hpdr as [Hd1 Hl1]. rewrite Hd1, Hl1 in Hk. unfold real_dir. destruct (e_link pk); [done|]. destruct (e_dir pk); done.
    - (* the parent of the source entry was copied before *)
      cbn [app] in Hq. destruct (Hpar P x R n (j' ++ sp) eq_refl Hq ltac:(by exists j')) as (y & Hy & Hyp).
      destruct (Hin y ltac:(apply elem_of_app; by left)) as [Hym _].
      destruct (wf_par m HW _ _ _ ltac:(rewrite <- Hq; exact Hx)) as (pe & Hpe & [Hped Hpel] & _).
      rewrite Hyp, Hpe in Hym. injection Hym as ->.
      assert (Hl : abs_nodes mk !! rb (e_path y) = Some (cnode y)).
      { rewrite Hnk. unfold ins. apply (fold_insert_lookup_in (fun x => rb (e_path x)) cnode P _ y); [|done].
        rewrite map_app in Hkeys. by apply NoDup_app in Hkeys as (? & _). }
      rewrite Hyp, rb_app in Hl. cbn [app] in Hrb. rewrite Hrb. exists n, (j' ++ dp).
      rewrite lookup_abs_nodes in Hl. destruct (m_ents mk !! (j' ++ dp)) as [pk|]; [|done]. cbn in Hl. apply (inj Some) in Hl.
      exists pk. split; [done|]. split; [done|]. unfold cnode in Hl. rewrite Hped in Hl. unfold node_of in Hl. injection Hl as Hk _.
      unfold kind_of_entry in Hk. cbn in Hk. unfold real_dir. destruct (e_link pk); [done|]. destruct (e_dir pk); done. }
  destruct Hparent as (b & d & pk & Hbd & Hpk & Hpkr).
  pose proof (wf_key mk HWk _ _ Hc) as Hcp.
  destruct (e_dir x) eqn:Exd.
  - (* a directory *)
    destruct (copy_one_dir env o dm fm mk b d c x pk HWk Hnf Hxl Hc ltac:(by rewrite Hcd) ltac:(by rewrite <- Hbd) Hpk Hpkr)
      as (mk' & Hone & Hc' & Hn').
    exists mk'. rewrite Hbd. split; [done|].
    pose proof (copy_one_wf env o dm fm mk (b :: d) x HWk) as HW'. pose proof (copy_one_kinds env o dm fm mk (b :: d) x HKk) as HK'.
    rewrite Hone in HW', HK'. split; [done|]. split; [done|]. split; [congruence|].
    unfold ins. rewrite fold_insert_snoc. fold (ins P (abs_nodes m)). rewrite <- Hnk, Hn'. fold q. rewrite Hbd. f_equal.
    unfold cnode. fold q. rewrite Exd, Hbd, Hcm. done.
  - (* a regular file *)
    assert (Hxf : e_file x = true) by (pose proof (HK _ _ Hx) as Hk; unfold kind_ok in Hk; rewrite Exd in Hk; by destruct (e_file x)).
    assert (Hdm : is_Some (m_data m !! q)) by (apply (wf_dat m HW); eauto).
    assert (Hdk : is_Some (m_data mk !! q)) by (apply (wf_dat mk HWk); exists c; by rewrite Hcf, Hcl).
    destruct Hdm as [b0 Hb0]. destruct Hdk as [b1 Hb1].
    assert (b1 = b0) as -> by (unfold node_of in Hnode; injection Hnode as _ _ _ _ Hd _ _ _; rewrite Hb0, Hb1 in Hd; done).
    assert (Hne : q ≠ b :: d) by (intros E; apply Hqn; rewrite E, <- Hbd; apply rb_under; by exists j).
    destruct (copy_one_file env o dm fm mk b d c x pk b0 HWk Hxl Hc ltac:(by rewrite Hcd) ltac:(by rewrite Hcf) Hcl Hcp Hb1 Hne ltac:(by rewrite <- Hbd) Hpk Hpkr)
      as (mk' & Hone & Hc' & Hn').
    exists mk'. rewrite Hbd. split; [done|].
    pose proof (copy_one_wf env o dm fm mk (b :: d) x HWk) as HW'. pose proof (copy_one_kinds env o dm fm mk (b :: d) x HKk) as HK'.
    rewrite Hone in HW', HK'. split; [done|]. split; [done|]. split; [congruence|].
    unfold ins. rewrite fold_insert_snoc. fold (ins P (abs_nodes m)). rewrite <- Hnk, Hn'. fold q. rewrite Hbd. f_equal.
    unfold cnode. fold q. rewrite Exd, Hbd, Hb0. unfold file_copy_entry.
    destruct fm; apply node_of_eq; cbn; unfold kind_of_entry; cbn; rewrite ?Hcl, ?Hxl, ?Hcd, ?Exd, ?Hcf, ?Hxf, ?Hcm, ?Hcu, ?Hcg, ?Hca, ?Hcr; done.
Qed.

Lemma items_ok_assoc P x R : items_ok (P ++ x :: R) → items_ok ((P ++ [x]) ++ R).
Proof. by rewrite <- app_assoc. Qed.

Lemma copy_loop_inv L : ∀ P mk, items_ok (P ++ L) → Inv mk P →
  ∃ m', copy_loop env o dm fm false dp sp mk (map IOk L) = (m', inl tt) ∧ Inv m' (P ++ L).
Proof.
  induction L as [|x R IH]; intros P mk Hok HI; [exists mk; by rewrite app_nil_r|].
  cbn [map copy_loop]. destruct (proj1 (proj2 Hok) x ltac:(apply elem_of_app; right; left)) as [Hx [j Hq]].
  assert (Hdst : copy_dst dp (e_path x) sp = rb (e_path x)).
  { rewrite Hq, rb_app. apply copy_dst_rebase; [done|]. rewrite <- Hq. apply Hnames; [by exists j|eauto]. }
  rewrite Hdst. rewrite bool_decide_false.
  2:{ intros E. apply (src_not_under_dp (e_path x)); [by exists j|eauto|]. rewrite <- E. apply rb_under. by exists j. }
  destruct (copy_step mk P x R Hok HI) as (mk' & -> & HI').
  destruct (IH (P ++ [x]) mk' (items_ok_assoc _ _ _ Hok) HI') as (m' & -> & HI''). exists m'. split; [done|]. by rewrite <- app_assoc in HI''.
Qed.
End CopyDir.

Lemma split_unique {A} (x : A) : ∀ l1 l2 l1' l2', x ∉ l1 → x ∉ l1' → l1 ++ x :: l2 = l1' ++ x :: l2' → l1 = l1'.
Proof.
  induction l1 as [|a l1 IH]; intros l2 l1' l2' H1 H1' E.
  - destruct l1' as [|a' l1']; [done|]. cbn in E. injection E as -> _. exfalso. apply H1'. left.
  - destruct l1' as [|a' l1']; cbn in E.
    + injection E as -> _. exfalso. apply H1. left.
    + injection E as -> E. f_equal. eapply IH; [| |exact E]; intros Hin; [apply H1|apply H1']; by right.
Qed.

Lemma before_split_in {A} (L : list A) l1 y l2 x l3 P R : NoDup L → L = l1 ++ y :: l2 ++ x :: l3 → L = P ++ x :: R → y ∈ P.
Proof.
  intros Hnd H1 H2. assert (H1' : L = (l1 ++ y :: l2) ++ x :: l3) by (rewrite H1, <- app_assoc; done).
  assert (Hx1 : x ∉ l1 ++ y :: l2).
  { rewrite H1' in Hnd. apply NoDup_app in Hnd as (_ & Hdis & _). intros Hin. apply (Hdis x Hin). left. }
  assert (Hx2 : x ∉ P).
  { rewrite H2 in Hnd. apply NoDup_app in Hnd as (_ & Hdis & _). intros Hin. apply (Hdis x Hin). left. }
  rewrite H1' in H2. rewrite <- (split_unique x _ _ _ _ Hx1 Hx2 H2). apply elem_of_app. right. left.
Qed.

(* C09: copy of a directory tree without links to a fresh path in an existing directory. The call succeeds; every entry
   at j below the source has a copy at j below the destination - a directory with the requested (or the source's) mode, a
   regular file with the source's bytes, owner and requested (or own) mode; nothing else is added at or below the
   destination; everything outside it - the source included - is as before (directories may list one more name). *)
Theorem copy_dir_fresh env m s d o sp dp db ddir r pd :
  WF m → kinds_ok m → cp_follow o = false → resolve env m s = inl sp → resolve env m d = inl dp →
  m_ents m !! sp = Some r → real_dir r → dp = db :: ddir → m_ents m !! dp = None → m_ents m !! ddir = Some pd → real_dir pd →
  ¬ sp `suffix_of` dp → (∀ q, sp `suffix_of` q → is_Some (m_ents m !! q) → names_ok q) →
  (∀ q x, sp `suffix_of` q → m_ents m !! q = Some x → e_link x = false) →
  ∃ m', copy_op env m s d o = Done (m', inl tt) ∧ WF m' ∧ kinds_ok m' ∧ m_cwd m' = m_cwd m ∧
    (∀ j x, m_ents m !! (j ++ sp) = Some x → abs_nodes m' !! (j ++ dp) = Some (cnode m o sp dp x)) ∧
    (∀ j, m_ents m !! (j ++ sp) = None → abs_nodes m' !! (j ++ dp) = None) ∧
    (∀ k, ¬ dp `suffix_of` k → abs_nodes m' !! k = abs_nodes m !! k).
Proof.
  intros HW HK Hnf Hs Hd Hr Hrr Hdp Hdpn Hpd Hpdr Hnotin Hnames Hnolink.
  pose proof (resolve_names_ok env m d dp Hd) as Hndp.
  assert (Hne : sp ≠ dp) by (intros ->; congruence).
  unfold copy_op. rewrite Hs, Hd. rewrite bool_decide_false by done. unfold clone_entry at 1. rewrite Hr, Hnf.
  rewrite (wf_key m HW _ _ Hr).
  set (wo := w_follow default_wopts false).
  destruct (walk_exact m wo no_pre sp r HW eq_refl ltac:(done) Hr) as (evs & Hw & Hit & Hiff & Hnd).
  rewrite Hw, Hit.
  assert (Hci : is_dir_at m dp = false) by (unfold is_dir_at; by rewrite Hdpn). rewrite Hci.
  (* the items *)
  assert (Hmem : ∀ x, x ∈ oks evs ↔ ∃ q, m_ents m !! q = Some x ∧ sp `suffix_of` q).
  { intros x. rewrite Hiff. split; [intros (q & ? & ? & _); eauto|]. intros (q & ? & ?). exists q. done. }
  assert (Hok : items_ok m sp ([] ++ oks evs)).
  { cbn [app]. split; [done|]. split.
    - intros x Hx. apply Hmem in Hx as (q & Hq & Hsq). rewrite (wf_key m HW _ _ Hq). done.
    - intros P x R n q HL Hpx Hsq.
      assert (Hxin : x ∈ oks evs) by (rewrite HL; apply elem_of_app; right; left).
      apply Hmem in Hxin as (q' & Hq' & _). rewrite (wf_key m HW _ _ Hq') in Hpx. subst q'.
      destruct (wf_par m HW _ _ _ Hq') as (y & Hy & _).
      assert (Hyin : y ∈ oks evs) by (apply Hmem; eauto).
      assert (Hyp : e_path y = q) by (by apply (wf_key m HW)).
      assert (Hxp : e_path x = n :: q) by (by apply (wf_key m HW)).
      assert (Hxin2 : x ∈ oks evs) by (rewrite HL; apply elem_of_app; right; left).
      pose proof (walk_order m wo no_pre sp r evs HW eq_refl ltac:(done) Hr Hw y x Hyin Hxin2) as Hord.
      cbn in Hord. destruct Hord as (l1 & l2 & l3 & Hl).
      { split; [rewrite Hyp, Hxp; by apply suffix_cons_r|]. rewrite Hyp, Hxp. intros E. apply (f_equal length) in E. cbn in E. lia. }
      exists y. split; [|done].
      assert (Hndl : NoDup (oks evs)) by (eapply NoDup_fmap_1; exact Hnd).
      exact (before_split_in (oks evs) l1 y l2 x l3 P R Hndl Hl HL). }

  destruct (copy_loop_inv env m o sp dp ddir db pd HW HK Hnf Hdp Hdpn Hpd Hpdr Hnotin Hndp Hnames Hnolink (oks evs) [] m Hok
              ltac:(split; [done|split; [done|split; done]])) as (m' & Hloop & HW' & HK' & Hc' & Hn').
  cbn [app] in Hn'. exists m'. split; [by rewrite Hloop|]. split; [done|]. split; [done|]. split; [done|].
  cbn [app] in Hok. assert (Hkeys : NoDup (map (fun x => rb sp dp (e_path x)) (oks evs))) by (eapply keys_nodup; try eassumption).
  split; [|split].
  - intros j x Hx. rewrite Hn'. unfold ins.
    assert (Hxin : x ∈ oks evs) by (apply Hmem; exists (j ++ sp); split; [done|by apply suffix_app_r]).
    pose proof (fold_insert_lookup_in (fun x => rb sp dp (e_path x)) (cnode m o sp dp) (oks evs) (abs_nodes m) x Hkeys Hxin) as Hl.
    cbn beta in Hl. rewrite (wf_key m HW _ _ Hx), rb_app in Hl. exact Hl.
  - intros j Hx. rewrite Hn'. unfold ins. rewrite fold_insert_lookup_notin.
    + rewrite lookup_abs_nodes, (under_dp_absent m dp HW Hdpn (j ++ dp)); [done|by apply suffix_app_r].
    + intros Hk. apply elem_of_list_fmap in Hk as (y & Hy & Hyin). apply Hmem in Hyin as (q & Hq & [j' ->]).
      rewrite (wf_key m HW _ _ Hq), rb_app in Hy. apply app_inv_tail in Hy. subst j'. congruence.
  - intros k Hk. rewrite Hn'. unfold ins. apply fold_insert_lookup_notin. intros Hin. apply Hk.
    apply elem_of_list_fmap in Hin as (y & -> & Hyin). apply Hmem in Hyin as (q & Hq & Hsq).
    rewrite (wf_key m HW _ _ Hq). by apply rb_under.
Qed.

(* ... in every state whose keys are proper names - every reachable state (Memfs/Names.v) *)
From RV Require Import Memfs.Names.

Theorem copy_dir_fresh_reachable env m s d o sp dp db ddir r pd :
  WF m → kinds_ok m → keys_ok m → cp_follow o = false → resolve env m s = inl sp → resolve env m d = inl dp →
  m_ents m !! sp = Some r → real_dir r → dp = db :: ddir → m_ents m !! dp = None → m_ents m !! ddir = Some pd → real_dir pd →
  ¬ sp `suffix_of` dp → (∀ q x, sp `suffix_of` q → m_ents m !! q = Some x → e_link x = false) →
  ∃ m', copy_op env m s d o = Done (m', inl tt) ∧ WF m' ∧ kinds_ok m' ∧ m_cwd m' = m_cwd m ∧
    (∀ j x, m_ents m !! (j ++ sp) = Some x → abs_nodes m' !! (j ++ dp) = Some (cnode m o sp dp x)) ∧
    (∀ j, m_ents m !! (j ++ sp) = None → abs_nodes m' !! (j ++ dp) = None) ∧
    (∀ k, ¬ dp `suffix_of` k → abs_nodes m' !! k = abs_nodes m !! k).
Proof.
  intros HW HK Hkeys Hnf Hs Hd Hr Hrr Hdp Hdpn Hpd Hpdr Hnotin Hnolink.
  apply (copy_dir_fresh env m s d o sp dp db ddir r pd); try done. intros q _ Hq. by apply Hkeys.
Qed.

(* Memfs/RefineMore.v — the multi-target calls against the reference tree (C01): remove_all. *)
From stdpp Require Import gmap.
From Coq Require Import NArith.
From RV Require Import Base.Str Path.Helpers Path.Expand Memfs.State Memfs.Ops Memfs.Wf Memfs.WfMove Memfs.RemoveAll
  Memfs.Spec Memfs.Refine.

Lemma node_of_entry_remove pe b d : node_of (entry_remove pe b) d = node_of pe d.
Proof. unfold entry_remove. by destruct (e_files pe). Qed.

Lemma remove_all_refines env m s p : WF m → resolve env m s = inl p → p ≠ [] →
  ∃ m', remove_all_op env m s = Done (m', inl tt) ∧ abs m' = (spec_remove_all (abs m) p).1.
Proof.
  intros HW Hres Hp. destruct (remove_all_op_spec env m s p HW Hres Hp) as (m' & Hop & HW' & Habs & Hpres).
  exists m'. split; [done|]. unfold spec_remove_all. cbn [fst].
  destruct (m_ents m !! p) as [e|] eqn:He.
  - specialize (Hpres ltac:(eauto)). apply tree_eq; cbn [t_cwd t_nodes abs]; [apply (removed_cwd_root _ _ _ Hpres)|].
    intros q. rewrite lookup_abs_nodes. rewrite map_filter_lookup. cbn [fst]. rewrite lookup_abs_nodes.
    destruct (decide (p `suffix_of` q)) as [Hq|Hq].
    + destruct (removed_gone _ _ _ q Hpres Hq) as [-> _]. cbn. destruct (m_ents m !! q); cbn; [|done].
      by rewrite option_guard_False by (intros H; by apply H).
    + destruct p as [|b d]; [done|]. destruct (decide (q = d)) as [->|Hne].
      * destruct (removed_parent _ _ _ _ Hpres) as [-> ->]. destruct (m_ents m !! d) as [pe|]; cbn; [|done].
        rewrite option_guard_True by done. by rewrite node_of_entry_remove.
      * destruct (removed_frame _ _ _ q Hpres Hq Hne) as [-> ->]. destruct (m_ents m !! q); cbn; [|done].
        by rewrite option_guard_True by done.
  - rewrite (Habs eq_refl). apply tree_eq; cbn [t_cwd t_nodes abs]; [done|].
    intros q. rewrite map_filter_lookup. cbn [fst]. rewrite lookup_abs_nodes.
    destruct (decide (p `suffix_of` q)) as [Hq|Hq].
    + assert (m_ents m !! q = None) as ->; [|done].
      destruct (decide (q = p)) as [->|Hne]; [done|]. eapply nothing_under; eauto. intros y Hy. congruence.
    + destruct (m_ents m !! q); cbn; [|done]. by rewrite option_guard_True by done.
Qed.

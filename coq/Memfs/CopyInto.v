(* Memfs/CopyInto.v — copy(src, dst) with dst an existing directory places the copy under dst/<name of src> (C09): the call
   is the copy to that path. *)
From stdpp Require Import gmap.
From Coq Require Import NArith.
From RV Require Import Base.Str Base.PathLex Base.PathLexFacts Path.Helpers Path.Expand Memfs.State Memfs.Ops Memfs.Walk Memfs.WalkOps Memfs.WalkFacts
  Memfs.WalkSpec Memfs.WalkTerm Memfs.WalkExact Memfs.Wf Memfs.CopyFile Memfs.CopyDir Memfs.Refine Memfs.Names.

(* with every item below the source, copying "into" dp is copying "to" dp/<base of the source> *)
Lemma copy_loop_into env o dm fm dp b sd is : ∀ m, names_ok dp →
  (∀ x, IOk x ∈ is → ∃ j, e_path x = j ++ b :: sd ∧ names_ok (j ++ b :: sd)) →
  copy_loop env o dm fm true dp (b :: sd) m is = copy_loop env o dm fm false (b :: dp) (b :: sd) m is.
Proof.
  induction is as [|it is IH]; intros m Hdp His; [done|]. cbn [copy_loop]. destruct it as [x|w]; [|done].
  destruct (His x ltac:(left)) as (j & Hq & Hn).
  assert (Hb : is_name b) by (apply names_ok_app in Hn as [_ Hn]; unfold names_ok in Hn; by inversion Hn).
  assert (Heq : copy_dst dp (e_path x) sd = copy_dst (b :: dp) (e_path x) (b :: sd)).
  { rewrite Hq. rewrite (copy_dst_rebase (b :: dp) (b :: sd) j) by (try done; by constructor).
    replace (j ++ b :: sd) with ((j ++ [b]) ++ sd) by (by rewrite <- app_assoc).
    rewrite (copy_dst_rebase dp sd (j ++ [b])) by (try done; by rewrite <- app_assoc). by rewrite <- app_assoc. }
  rewrite Heq. case_bool_decide; [apply IH; [done|intros; apply His; by right]|].
  destruct (copy_one env o dm fm m _ x) as [m' [u|e]]; [|done]. apply IH; [done|intros; apply His; by right].
Qed.

Theorem copy_dir_into env m s d o sp dp b sd r pd :
  WF m → kinds_ok m → keys_ok m → cp_follow o = false → resolve env m s = inl sp → resolve env m d = inl dp →
  sp = b :: sd → m_ents m !! sp = Some r → real_dir r → m_ents m !! dp = Some pd → real_dir pd → m_ents m !! (b :: dp) = None →
  ¬ sp `suffix_of` (b :: dp) → (∀ q x, sp `suffix_of` q → m_ents m !! q = Some x → e_link x = false) →
  ∃ m', copy_op env m s d o = Done (m', inl tt) ∧ WF m' ∧ kinds_ok m' ∧ m_cwd m' = m_cwd m ∧
    (∀ j x, m_ents m !! (j ++ sp) = Some x → abs_nodes m' !! (j ++ b :: dp) = Some (cnode m o sp (b :: dp) x)) ∧
    (∀ j, m_ents m !! (j ++ sp) = None → abs_nodes m' !! (j ++ b :: dp) = None) ∧
    (∀ k, ¬ (b :: dp) `suffix_of` k → abs_nodes m' !! k = abs_nodes m !! k).
Proof.
  intros HW HK Hkeys Hnf Hs Hd Hsp Hr Hrr Hpd Hpdr Hfree Hnotin Hnolink.
  (* the same call, read as a copy to dp/<b>: compare the two unfoldings of copy_op *)
  pose proof (resolve_names_ok env m d dp Hd) as Hndp.
  assert (Hne : sp ≠ dp).
  { intros ->. apply Hnotin. by apply suffix_cons_r. }
  unfold copy_op. rewrite Hs, Hd. rewrite bool_decide_false by done. unfold clone_entry at 1. rewrite Hr, Hnf.
  rewrite (wf_key m HW _ _ Hr).
  set (wo := w_follow default_wopts false).
  destruct (walk_exact m wo no_pre sp r HW eq_refl ltac:(done) Hr) as (evs & Hw & Hit & Hiff & Hnd).
  rewrite Hw, Hit.
  assert (Hci : is_dir_at m dp = true) by (unfold is_dir_at; rewrite Hpd; destruct Hpdr as [-> ->]; done). rewrite Hci.
  rewrite Hsp. rewrite copy_loop_into; [|done|].
  2:{ intros x Hx. apply elem_of_list_fmap in Hx as (x' & E & Hx'). injection E as <-.
      apply Hiff in Hx' as (q & Hq & [j ->] & _). rewrite (wf_key m HW _ _ Hq). exists j. rewrite <- Hsp. split; [done|]. apply Hkeys. eauto. }
  (* from here on it is the fresh-destination copy to b :: dp; replay its proof through the loop lemma *)
  rewrite <- Hsp.
  assert (Hmem : ∀ x, x ∈ oks evs ↔ ∃ q, m_ents m !! q = Some x ∧ sp `suffix_of` q).
  { intros x. rewrite Hiff. split; [intros (q & ? & ? & _); eauto|]. intros (q & ? & ?). exists q. done. }
  assert (Hndp' : names_ok (b :: dp)).
  { constructor; [|done]. pose proof (Hkeys sp ltac:(eauto)) as Hn. rewrite Hsp in Hn. unfold names_ok in Hn. by inversion Hn. }
  assert (Hok : items_ok m sp ([] ++ oks evs)).
  { cbn [app]. split; [done|]. split.
    - intros x Hx. apply Hmem in Hx as (q & Hq & Hsq). rewrite (wf_key m HW _ _ Hq). done.
    - intros P x R n q HL Hpx Hsq.
      assert (Hxin : x ∈ oks evs) by (rewrite HL; apply elem_of_app; right; left).
      assert (Hxin2 := Hxin). apply Hmem in Hxin as (q' & Hq' & _). rewrite (wf_key m HW _ _ Hq') in Hpx. subst q'.
      destruct (wf_par m HW _ _ _ Hq') as (y & Hy & _).
      assert (Hyin : y ∈ oks evs) by (apply Hmem; eauto).
      assert (Hyp : e_path y = q) by (by apply (wf_key m HW)).
      assert (Hxp : e_path x = n :: q) by (by apply (wf_key m HW)).
      pose proof (walk_order m wo no_pre sp r evs HW eq_refl ltac:(done) Hr Hw y x Hyin Hxin2) as Hord.
      cbn in Hord. destruct Hord as (l1 & l2 & l3 & Hl).
      { split; [rewrite Hyp, Hxp; by apply suffix_cons_r|]. rewrite Hyp, Hxp. intros E. apply (f_equal length) in E. cbn in E. lia. }
      exists y. split; [|done].
      assert (Hndl : NoDup (oks evs)) by (eapply NoDup_fmap_1; exact Hnd).
      exact (before_split_in (oks evs) l1 y l2 x l3 P R Hndl Hl HL). }
  destruct (copy_loop_inv env m o sp (b :: dp) dp b pd HW HK Hnf eq_refl Hfree Hpd Hpdr Hnotin Hndp' ltac:(intros q _ Hq; by apply Hkeys) Hnolink (oks evs) [] m Hok
              ltac:(split; [done|split; [done|split; done]])) as (m' & Hloop & HW' & HK' & Hc' & Hn').
  cbn [app] in Hn'. exists m'. split; [by rewrite Hloop|]. split; [done|]. split; [done|]. split; [done|].
  cbn [app] in Hok. assert (Hkeys' : NoDup (map (fun x => rb sp (b :: dp) (e_path x)) (oks evs))) by (eapply keys_nodup; try eassumption; done).
  split; [|split].
  - intros j x Hx. rewrite Hn'. unfold ins.
    assert (Hxin : x ∈ oks evs) by (apply Hmem; exists (j ++ sp); split; [done|by apply suffix_app_r]).
    pose proof (fold_insert_lookup_in (fun x => rb sp (b :: dp) (e_path x)) (cnode m o sp (b :: dp)) (oks evs) (abs_nodes m) x Hkeys' Hxin) as Hl.
    cbn beta in Hl. rewrite (wf_key m HW _ _ Hx), rb_app in Hl. exact Hl.
  - intros j Hx. rewrite Hn'. unfold ins. rewrite fold_insert_lookup_notin.
    + rewrite lookup_abs_nodes, (under_dp_absent m (b :: dp) HW Hfree (j ++ b :: dp)); [done|by apply suffix_app_r].
    + intros Hk. apply elem_of_list_fmap in Hk as (y & Hy & Hyin). apply Hmem in Hyin as (q & Hq & [j' ->]).
      rewrite (wf_key m HW _ _ Hq), rb_app in Hy. apply app_inv_tail in Hy. subst j'. congruence.
  - intros k Hk. rewrite Hn'. unfold ins. apply fold_insert_lookup_notin. intros Hin. apply Hk.
    apply elem_of_list_fmap in Hin as (y & -> & Hyin). apply Hmem in Hyin as (q & Hq & Hsq).
    rewrite (wf_key m HW _ _ Hq). by apply rb_under.
Qed.

(* Memfs/Terminates.v — bounded time (C12): from every well-formed state, every call of the Memfs alphabet that does not
   ask to follow links finishes within the fuel its mirror carries. (Calls that do not traverse carry no fuel at all.) *)
From stdpp Require Import gmap.
From Coq Require Import NArith.
From RV Require Import Base.Str Path.Helpers Path.Expand Memfs.State Memfs.Ops Memfs.Walk Memfs.WalkOps Memfs.Step Memfs.Wf Memfs.WfMore
  Memfs.WfMove Memfs.RemoveAll Memfs.WalkSpec Memfs.WalkTerm Memfs.WalkExact.

(* does the call ask a traversal to follow links? *)
Definition follows (o : op) : bool :=
  match o with
  | OEntries _ wo => o_follow wo
  | OCopy _ _ co => cp_follow co
  | OChmod _ ho => ch_follow ho
  | OChown _ wo => co_follow wo
  | _ => false
  end.

Lemma listing_terminates env m k s : WF m → listing_op env m k s ≠ OutOfFuel.
Proof.
  intros HW. unfold listing_op. destruct (resolve env m s) as [p|e]; [|done]. destruct (negb (is_dir_at m p)); [done|].
  pose proof (walk_nofollow_wf m (listing_opts k) no_pre p HW ltac:(by destruct k)) as Hw.
  destruct (walk _ _ _ p) as [[evs| |]|e]; try done. by destruct (oks_until_err _).
Qed.

Lemma chown_terminates env m s o : WF m → co_follow o = false → chown_op env m s o ≠ OutOfFuel.
Proof.
  intros HW Hnf. unfold chown_op. destruct (resolve env m s) as [p|e]; [|done].
  set (wo := w_follow _ _). pose proof (walk_nofollow_wf m wo no_pre p HW Hnf) as Hw.
  destruct (walk _ _ _ p) as [[evs| |]|e]; try done. by destruct (oks_until_err _).
Qed.

Lemma chmod_terminates env m s o : WF m → ch_follow o = false → chmod_op env m s o ≠ OutOfFuel.
Proof.
  intros HW Hnf. unfold chmod_op. destruct (resolve env m s) as [p|e]; [|done].
  set (wo := w_dirs_first _). pose proof (walk_nofollow_wf m wo (chmod_pre_check o) p HW Hnf) as Hw.
  destruct (walk _ _ _ p) as [[evs| |]|e]; done.
Qed.

Lemma copy_terminates env m s d o : WF m → cp_follow o = false → copy_op env m s d o ≠ OutOfFuel.
Proof.
  intros HW Hnf. unfold copy_op. destruct (resolve env m s) as [sp|e]; [|done]. destruct (resolve env m d) as [dp|e]; [|done].
  case_bool_decide; [done|]. destruct (clone_entry m sp) as [re|e]; [|done].
  set (wo := w_follow _ _). set (rp := e_path _). pose proof (walk_nofollow_wf m wo no_pre rp HW Hnf) as Hw.
  destruct (walk _ _ _ rp) as [[evs| |]|e]; done.
Qed.

Theorem step_terminates env m o : WF m → follows o = false → step env m o ≠ OutOfFuel.
Proof.
  intros HW Hf. destruct o; cbn [step]; try done.
  - (* remove_all *) pose proof (remove_all_op_terminates env m s HW). by destruct (remove_all_op env m s).
  - (* move_p *) pose proof (move_op_terminates env m s d HW). by destruct (move_op env m s d).
  - (* listings *) pose proof (listing_terminates env m k s HW). by destruct (listing_op env m k s) as [[?|?]| |].
  - (* entries *) destruct (resolve env m s) as [p|e]; [|done].
    pose proof (walk_nofollow_wf m wo no_pre p HW Hf). by destruct (walk _ _ _ p) as [[?| |]|?].
  - pose proof (copy_terminates env m s d o HW Hf). by destruct (copy_op env m s d o).
  - pose proof (chmod_terminates env m s o HW Hf). by destruct (chmod_op env m s o).
  - pose proof (chown_terminates env m s o HW Hf). by destruct (chown_op env m s o).
  - (* mkfile_m *) destruct (resolve env m s) as [p|e]; [|done].
    pose proof (add_wf m (new_file p) HW (fresh_new_file p)) as HW1. destruct (add m (new_file p)) as [m1 [p'|e]]; [|done]. cbn [fst] in HW1.
    set (co := {| ch_dirs := mode; ch_files := mode; ch_follow := false; ch_recursive := true; ch_sym := [] |}).
    pose proof (chmod_terminates env m1 (render_rpath p') co HW1 eq_refl). by destruct (chmod_op env m1 _ co) as [[? [?|?]]| |].
Qed.

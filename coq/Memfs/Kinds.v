(* Memfs/Kinds.v — every stored entry is directory-kinded or file-kinded, never both or neither (a link carries the
   kind its target had): an invariant of every call, needed to read the three flags of an entry as one kind (C01). *)
From stdpp Require Import gmap.
From Coq Require Import NArith.
From RV Require Import Base.Str Base.PathLex Path.Helpers Path.Expand Chmod.Sym Memfs.State Memfs.Ops Memfs.Walk Memfs.WalkOps Memfs.Step
  Memfs.Wf Memfs.WfMore Memfs.WfMove Memfs.Spec Memfs.Refine.

Lemma kinds_insert m p e : kinds_ok m → kind_ok e → kinds_ok (upd_ents m (insert p e)).
Proof.
  intros HK He q x Hq. cbn in Hq. destruct (decide (q = p)) as [->|Hn]; [rewrite lookup_insert in Hq; by simplify_eq|].
  rewrite lookup_insert_ne in Hq by done. by eapply HK.
Qed.
Lemma kinds_delete m p : kinds_ok m → kinds_ok (upd_ents m (delete p)).
Proof. intros HK q x Hq. cbn in Hq. apply lookup_delete_Some in Hq as [_ Hq]. by eapply HK. Qed.
Lemma kinds_data m f : kinds_ok m → kinds_ok (upd_data m f).
Proof. intros HK q x Hq. by eapply HK. Qed.

Lemma kind_entry_add pe n : kind_ok pe → kind_ok (entry_add pe n).1.
Proof. unfold entry_add, kind_ok. by destruct (e_files pe). Qed.
Lemma kind_entry_remove pe n : kind_ok pe → kind_ok (entry_remove pe n).
Proof. unfold entry_remove, kind_ok. by destruct (e_files pe). Qed.
Lemma kind_new_file p : kind_ok (new_file p). Proof. reflexivity. Qed.
Lemma kind_new_dir p md : kind_ok (new_dir p md). Proof. reflexivity. Qed.
Lemma kind_new_link p t d : kind_ok (new_link p t d). Proof. unfold kind_ok. cbn. by destruct d. Qed.

Lemma add_kinds m e : kinds_ok m → kind_ok e → kinds_ok (add m e).1.
Proof.
  intros HK He. unfold add. destruct (e_path e) as [|base dir] eqn:Hp; [by destruct (e_file e)|].
  destruct (m_ents m !! dir) as [pe|] eqn:Hpe; [|done].
  destruct (negb (e_dir pe) || e_link pe); [done|].
  destruct (m_ents m !! (base :: dir)) as [x|] eqn:Hx; [repeat case_match; done|].
  set (m1 := if negb (e_link e) && e_file e then _ else m).
  assert (HK1 : kinds_ok m1) by (unfold m1; destruct (_ && _); [by apply kinds_data | done]).
  pose proof (kinds_insert m1 (base :: dir) e HK1 He) as HK2.
  destruct (m_ents (upd_ents m1 (insert (base :: dir) e)) !! dir) as [parent|] eqn:Hp2; [|exact HK2].
  destruct (entry_add parent base) as [pe' fr] eqn:Ea.
  assert (kinds_ok (upd_ents (upd_ents m1 (insert (base :: dir) e)) (insert dir pe'))).
  { apply kinds_insert; [done|]. replace pe' with (entry_add parent base).1 by (by rewrite Ea). apply kind_entry_add. by eapply HK2. }
  by destruct fr.
Qed.

Lemma mkdir_loop_kinds ps : ∀ m md, kinds_ok m → kinds_ok (mkdir_loop m ps md).1.
Proof.
  induction ps as [|p ps IH]; intros m md HK; cbn [mkdir_loop]; [done|].
  pose proof (add_kinds m (new_dir p md) HK (kind_new_dir p md)) as H.
  destruct (add m (new_dir p md)) as [m' [q|e]]; cbn [fst] in *; [by apply IH | done].
Qed.

Lemma mkdir_m_abs_kinds m p md : kinds_ok m → kinds_ok (mkdir_m_abs m p md).1.
Proof.
  intros HK. unfold mkdir_m_abs. pose proof (add_kinds m (new_dir [] md) HK (kind_new_dir [] md)) as H.
  destruct (add m (new_dir [] md)) as [m0 [r|e]]; cbn [fst] in *; [by apply mkdir_loop_kinds | exact H].
Qed.

Lemma symlink_kinds env m l t : kinds_ok m → kinds_ok (symlink_op env m l t).1.
Proof.
  intros HK. unfold symlink_op. destruct (resolve env m l) as [lp|e]; [|done].
  destruct (if is_absolute t then _ else _) as [t'|e]; [|done].
  destruct (resolve env m t') as [tp|e]; [|done]. case_bool_decide; [done|].
  destruct lp as [|b d]; [done|]. apply add_kinds; [done | apply kind_new_link].
Qed.

Lemma write_all_kinds env m s d : kinds_ok m → kinds_ok (write_all_op env m s d).1.
Proof.
  intros HK. unfold write_all_op. destruct (resolve env m s) as [p|e]; [|done].
  pose proof (add_kinds m (new_file p) HK (kind_new_file p)) as H.
  destruct (add m (new_file p)) as [m' [r|e]]; cbn [fst] in *; [|done]. destruct (m_data m' !! p); [by apply kinds_data | done].
Qed.

Lemma append_all_kinds env m s d : kinds_ok m → kinds_ok (append_all_op env m s d).1.
Proof.
  intros HK. unfold append_all_op. destruct (resolve env m s) as [p|e]; [|done].
  pose proof (add_kinds m (new_file p) HK (kind_new_file p)) as H.
  destruct (add m (new_file p)) as [m' [r|e]]; cbn [fst] in *; [|done]. destruct (m_data m' !! p); [by apply kinds_data | done].
Qed.

Lemma set_cwd_kinds env m s : kinds_ok m → kinds_ok (set_cwd_op env m s).1.
Proof. intros HK. unfold set_cwd_op. repeat case_match; cbn [fst]; try done; intros q x Hq; by eapply HK. Qed.

Lemma remove_kinds env m s : kinds_ok m → kinds_ok (remove_op env m s).1.
Proof.
  intros HK. unfold remove_op. destruct (resolve env m s) as [p|e]; [|done].
  destruct (negb _); [done|]. destruct (match m_ents m !! p with Some e => _ | None => false end); [done|].
  destruct p as [|base dir]; [done|].
  destruct (m_ents m !! dir) as [pe|] eqn:Hpe.
  - destruct (e_dir pe); [|done]. cbn [fst]. apply kinds_delete.
    assert (kinds_ok (upd_ents m (insert dir (entry_remove pe base)))) by (apply kinds_insert; [done | apply kind_entry_remove; by eapply HK]).
    repeat case_match; [by apply kinds_data | done | done].
  - cbn [fst]. apply kinds_delete. repeat case_match; [by apply kinds_data | done | done].
Qed.

Lemma remove_all_loop_kinds fuel : ∀ m paths r, kinds_ok m → remove_all_loop fuel m paths = Done r → kinds_ok r.1.
Proof.
  induction fuel as [|f IH]; intros m paths r HK; cbn [remove_all_loop]; [discriminate|].
  destruct paths as [|p rest]; [intros H; by simplify_eq|].
  destruct (m_ents m !! p) as [e|] eqn:He; [|by apply IH].
  destruct (match e_files e with Some fs => elements fs | None => [] end) as [|k ks] eqn:Hk; [|by apply IH].
  destruct p as [|base dir]; [intros H; by simplify_eq|].
  destruct (m_ents m !! dir) as [pe|] eqn:Hpe.
  - destruct (e_dir pe); [|intros H; by simplify_eq]. apply IH. apply kinds_delete, kinds_data.
    apply kinds_insert; [done | apply kind_entry_remove; by eapply HK].
  - apply IH. by apply kinds_delete, kinds_data.
Qed.

Lemma set_mode_at_kinds m p md : kinds_ok m → kinds_ok (set_mode_at m p md).
Proof.
  intros HK. unfold set_mode_at. destruct (m_ents m !! p) as [x|] eqn:E; [|done]. apply kinds_insert; [done|]. by apply (HK _ _ E).
Qed.

Lemma chmod_events_kinds o evs : ∀ m, kinds_ok m → kinds_ok (chmod_events o m evs).1.
Proof.
  induction evs as [|ev evs IH]; intros m HK; cbn [chmod_events]; [done|].
  destruct ev as [x|[src|w]]; [| |done].
  - apply IH. unfold chmod_pre_apply. repeat case_match; try done; by apply set_mode_at_kinds.
  - assert (H : kinds_ok (chmod_item_apply o m src).1) by (unfold chmod_item_apply; repeat case_match; cbn [fst]; try done; by apply set_mode_at_kinds).
    destruct (chmod_item_apply o m src) as [m' [e|]]; cbn [fst] in *; [done | by apply IH].
Qed.

Lemma chmod_op_kinds env m s o r : kinds_ok m → chmod_op env m s o = Done r → kinds_ok r.1.
Proof.
  intros HK. unfold chmod_op. destruct (resolve env m s) as [p|e]; [|intros H; by simplify_eq].
  destruct (walk _ _ _ p) as [[evs| |]|e]; intros H; simplify_eq; cbn [fst]; try done. by apply chmod_events_kinds.
Qed.

Lemma chown_op_kinds env m s o r : kinds_ok m → chown_op env m s o = Done r → kinds_ok r.1.
Proof.
  intros HK. unfold chown_op. destruct (resolve env m s) as [p|e]; [|intros H; by simplify_eq].
  destruct (walk _ _ _ p) as [[evs| |]|e]; try (intros H; simplify_eq; cbn [fst]; exact HK); try discriminate.
  destruct (oks_until_err (items_of evs)) as [es err]. intros H. simplify_eq. cbn [fst].
  clear -HK. revert m HK. induction es as [|e es IH]; intros m HK; cbn [fold_left]; [done|]. apply IH.
  destruct (m_ents m !! e_path e) as [x|] eqn:E; [|done]. apply kinds_insert; [done|]. by apply (HK _ _ E).
Qed.

Lemma copy_one_kinds env o dm fm m dst src : kinds_ok m → kinds_ok (copy_one env o dm fm m dst src).1.
Proof.
  intros HK. unfold copy_one. destruct (negb (cp_follow o) && e_link src).
  - pose proof (symlink_kinds env m (render_rpath dst) (match e_alt src with Some a => render_rpath a | None => [] end) HK) as H.
    destruct (symlink_op env m _ _) as [m' [p|e]]; exact H.
  - unfold clone_entry. destruct (m_ents m !! e_path src) as [s|] eqn:Hs; [|done].
    destruct (e_dir s) eqn:Hsd; [by apply mkdir_m_abs_kinds|].
    destruct dst as [|db ddir]; [done|].
    assert (Hrest : ∀ m1, kinds_ok m1 → kinds_ok (copy_file_rest fm (db :: ddir) s m1).1).
    { intros m1 HK1. unfold copy_file_rest.
      assert (Hkd : kind_ok (set_mode (set_path s (db :: ddir)) (orelse fm (Some (e_mode s))))) by (apply (HK _ _ Hs)).
      pose proof (add_kinds m1 _ HK1 Hkd) as Ha.
      destruct (add m1 _) as [m2a [p|e]]; cbn [fst] in *; [|done].
      assert (kinds_ok (match fm with Some md => set_mode_at m2a (db :: ddir) md | None => m2a end)) by (destruct fm; [by apply set_mode_at_kinds | done]).
      repeat case_match; cbn [fst]; try done; by apply kinds_data. }
    destruct (m_ents m !! ddir); [exact (Hrest m HK)|].
    destruct dm as [x|].
    + pose proof (mkdir_m_abs_kinds m ddir (Some x) HK) as H. destruct (mkdir_m_abs m ddir (Some x)) as [m1 [u|e]]; cbn [fst] in *; [exact (Hrest m1 H) | done].
    + destruct (e_path s) as [|sb sdir] eqn:Hps; [done|]. unfold clone_entry. destruct (m_ents m !! sdir) as [pe|]; [|done].
      pose proof (mkdir_m_abs_kinds m ddir (Some (e_mode pe)) HK) as H. destruct (mkdir_m_abs m ddir (Some (e_mode pe))) as [m1 [u|e]]; cbn [fst] in *; [|done].
      rewrite <- Hps. exact (Hrest m1 H).
Qed.

Lemma copy_loop_kinds env o dm fm ci dr sr is : ∀ m, kinds_ok m → kinds_ok (copy_loop env o dm fm ci dr sr m is).1.
Proof.
  induction is as [|it is IH]; intros m HK; cbn [copy_loop]; [done|].
  destruct it as [src|w]; [|done]. destruct (if ci then _ else _) as [prefix|e]; [|done].
  case_bool_decide; [by apply IH|].
  pose proof (copy_one_kinds env o dm fm m (copy_dst dr (e_path src) prefix) src HK) as Hc.
  destruct (copy_one env o dm fm m _ src) as [m' [u|e]]; cbn [fst] in *; [by apply IH | done].
Qed.

Lemma copy_op_kinds env m s d o r : kinds_ok m → copy_op env m s d o = Done r → kinds_ok r.1.
Proof.
  intros HK. unfold copy_op. destruct (resolve env m s) as [sp|e]; [|intros H; by simplify_eq].
  destruct (resolve env m d) as [dp|e]; [|intros H; by simplify_eq].
  case_bool_decide; [intros Hq; by simplify_eq|].
  destruct (clone_entry m sp) as [re|e]; [|intros Hq; by simplify_eq].
  destruct (walk _ _ _ _) as [[evs| |]|e]; intros Hq; simplify_eq; cbn [fst]; try done. by apply copy_loop_kinds.
Qed.

(* move_p: every entry of the result has the flags of an entry of the state it started from *)
Lemma move_op_kinds env m s d m' r : WF m → kinds_ok m → move_op env m s d = Done (m', r) → kinds_ok m'.
Proof.
  intros HW HK Hm. destruct (move_validate env m s d) as [e| |sp dt0] eqn:Ev.
  - unfold move_op in Hm. rewrite Ev in Hm. by simplify_eq.
  - unfold move_op in Hm. rewrite Ev in Hm. by simplify_eq.
  - destruct (MoveFacts.move_go_facts env m s d _ _ Ev) as (_ & _ & Hu & b & ddir & x0 & -> & _).
    destruct sp as [|sb sd].
    { exfalso. assert (is_under (b :: ddir) [] = true) as Ht by (apply is_under_spec, suffix_nil). congruence. }
    destruct (move_op_spec env m s d sb sd b ddir m' r HW Ev Hm) as (se & op & x & Hse & Hop & Hx & Hxr & _ & He & _ & _ & _ & H1 & H2 & Hfree).
    intros q e' Hq. rewrite He in Hq.
    destruct (Fe_shape m sb b sd ddir se op x HW Hse Hop Hx Hxr q e' Hq) as (_ & q0 & e0 & H0 & D & F & _).
    unfold kind_ok. rewrite D, F. by apply (HK _ _ H0).
Qed.

(* ---- every call ---- *)
Theorem kinds_step env m o m' r : WF m → kinds_ok m → step env m o = Done (m', r) → kinds_ok m'.
Proof.
  intros HW HK Hs. destruct o; cbn [step] in Hs;
    try (apply done_fst in Hs; cbn [fst] in Hs; subst m'; exact HK).
  - apply done_fst in Hs. rewrite <- Hs, lift_path_fst. by apply set_cwd_kinds.
  - apply done_fst in Hs. rewrite <- Hs. destruct (resolve env m s) as [p|e]; [|exact HK].
    rewrite lift_path_fst. apply add_kinds; [exact HK | apply kind_new_file].
  - apply done_fst in Hs. rewrite <- Hs. destruct (resolve env m s) as [p|e]; [|exact HK].
    pose proof (mkdir_m_abs_kinds m p None HK) as H. destruct (mkdir_m_abs m p None) as [m1 [u|e]]; exact H.
  - apply done_fst in Hs. rewrite <- Hs. destruct (resolve env m s) as [p|e]; [|exact HK].
    pose proof (mkdir_m_abs_kinds m p (Some mode) HK) as H. destruct (mkdir_m_abs m p (Some mode)) as [m1 [u|e]]; exact H.
  - apply done_fst in Hs. rewrite <- Hs, lift_unit_fst. by apply write_all_kinds.
  - apply done_fst in Hs. rewrite <- Hs. destruct (nl_join ls); [exact HK|]. rewrite lift_unit_fst. by apply write_all_kinds.
  - apply done_fst in Hs. rewrite <- Hs, lift_unit_fst. by apply append_all_kinds.
  - apply done_fst in Hs. rewrite <- Hs. destruct l; [exact HK|]. rewrite lift_unit_fst. by apply append_all_kinds.
  - apply done_fst in Hs. rewrite <- Hs. destruct (nl_join ls); [exact HK|]. rewrite lift_unit_fst. by apply append_all_kinds.
  - apply done_fst in Hs. rewrite <- Hs, lift_unit_fst. by apply remove_kinds.
  - destruct (remove_all_op env m s) as [r0| |] eqn:E; try discriminate.
    apply done_fst in Hs. rewrite <- Hs, lift_unit_fst. unfold remove_all_op in E. destruct (resolve env m s); [|by simplify_eq].
    by eapply remove_all_loop_kinds.
  - apply done_fst in Hs. rewrite <- Hs, lift_path_fst. by apply symlink_kinds.
  - destruct (move_op env m s d) as [[m1 r1]| |] eqn:E; try discriminate.
    apply done_fst in Hs. rewrite <- Hs, lift_unit_fst. by eapply move_op_kinds.
  - destruct (listing_op env m k s) as [[ps|e]| |]; try discriminate; apply done_fst in Hs; cbn in Hs; subst; exact HK.
  - destruct (resolve env m s) as [p|e]; [|apply done_fst in Hs; cbn in Hs; subst; exact HK].
    destruct (walk (m_ents m) wo no_pre p) as [[evs| |]|e]; try discriminate; apply done_fst in Hs; cbn in Hs; subst; exact HK.
  - destruct (copy_op env m s d o) as [r0| |] eqn:E; try discriminate.
    apply done_fst in Hs. rewrite <- Hs, lift_unit_fst. by eapply copy_op_kinds.
  - destruct (chmod_op env m s o) as [r0| |] eqn:E; try discriminate.
    apply done_fst in Hs. rewrite <- Hs, lift_unit_fst. by eapply chmod_op_kinds.
  - destruct (chown_op env m s o) as [r0| |] eqn:E; try discriminate.
    apply done_fst in Hs. rewrite <- Hs, lift_unit_fst. by eapply chown_op_kinds.
  - destruct (resolve env m s) as [p|e]; [|apply done_fst in Hs; cbn in Hs; subst; exact HK].
    pose proof (add_kinds m (new_file p) HK (kind_new_file p)) as Ha.
    destruct (add m (new_file p)) as [m1 [p'|e]]; cbn [fst] in Ha; [|apply done_fst in Hs; cbn in Hs; subst; exact Ha].
    destruct (chmod_op env m1 _ _) as [[m2 [u|e]]| |] eqn:E; try discriminate;
      apply done_fst in Hs; cbn in Hs; subst; by apply (chmod_op_kinds _ _ _ _ _ Ha E).
Qed.

Lemma kinds_init : kinds_ok mfs_init.
Proof. intros p e Hp. unfold mfs_init in Hp. cbn in Hp. apply lookup_singleton_Some in Hp as [_ <-]. reflexivity. Qed.

(* every state a history reaches is well formed and has sound kinds *)
Theorem reachable_ok env os : ∀ m m', WF m → kinds_ok m → run_ops env m os = Some m' → WF m' ∧ kinds_ok m'.
Proof.
  induction os as [|o os IH]; intros m m' HW HK Hr; cbn in *; [by simplify_eq|].
  destruct (step env m o) as [[m1 r]| |] eqn:Hs; try discriminate.
  eapply IH; [| |exact Hr]; [by eapply wf_step | by eapply kinds_step].
Qed.

(* Memfs/RefineHistory.v — C01 for whole histories: a reference filesystem that works on the flat tree alone (resolving its
   own path arguments against the tree's working directory) and the theorem that, from every well-formed kind-sound state,
   ANY history of the calls it covers - mkfile, mkdir_p, mkdir_m, write_all, write_lines, append_all, append_line, append_lines, read_all, read_lines, remove, remove_all (off the root), symlink, readlink, readlink_abs, move_p, set_cwd, cwd, abs, chown without follow, exists / is_dir / is_file / is_symlink / is_symlink_dir / is_symlink_file / is_exec / is_readonly, mode / owner / uid / gid - gives, call by call,
   exactly the reference's value or error kind, and ends in exactly the reference's tree. *)
From stdpp Require Import gmap.
From Coq Require Import NArith.
From RV Require Import Base.Str Base.Utf8 Base.PathLex Path.Helpers Path.Expand Path.Abs Memfs.State Memfs.Ops Memfs.Walk Memfs.WalkOps Memfs.Step
  Memfs.Wf Memfs.WfMore Memfs.WfMove Memfs.Spec Memfs.Refine Memfs.RefineMore Memfs.RefineChown Memfs.RefineChmod Memfs.RefineChmodSym Memfs.RefineList Memfs.RefineEntries Memfs.RefineCopy Memfs.Names Memfs.CopyFile Memfs.RefineMove Memfs.ContentFacts Memfs.Kinds Memfs.RemoveAll Memfs.LinkFacts
  Macros.Asserts.

Definition resolve_t (env : envmap) (t : tree) (s : list N) : mres rpath :=
  match Abs.abs (render_rpath (t_cwd t)) env s with inl r => inl (rev (names_of r)) | inr e => inr e end.

Lemma resolve_abs env m s : resolve env m s = resolve_t env (abs m) s.
Proof. reflexivity. Qed.

Definition as_unit (r : unit + errkind) : result := match r with inl _ => inl VUnit | inr e => inr e end.
Definition as_path (r : rpath + errkind) : result := match r with inl p => inl (VPath (render_rpath p)) | inr e => inr e end.

Definition is_link_node (n : node) : bool := match n_kind n with KLink => true | _ => false end.

(* a query answered from the node stored under the resolved path *)
Definition node_query (env : envmap) (t : tree) (s : list N) (f : node → result) : result :=
  match resolve_t env t s with
  | inr e => inr e
  | inl p => match t_nodes t !! p with Some n => f n | None => inr EDoesNotExist end
  end.
Definition node_bool (env : envmap) (t : tree) (s : list N) (f : node → bool) : result :=
  match resolve_t env t s with
  | inr _ => inl (VBool false)
  | inl p => match t_nodes t !! p with Some n => inl (VBool (f n)) | None => inl (VBool false) end
  end.

Definition nolinks_under (t : tree) (sp : rpath) : bool :=
  forallb (λ qn : rpath * node, negb (bool_decide (sp `suffix_of` qn.1)) || negb (is_link_node qn.2)) (map_to_list (t_nodes t)).

(* the reference filesystem, one call; None = a call this reference does not cover *)
Definition spec_step (env : envmap) (t : tree) (o : op) : option (tree * result) :=
  match o with
  | OCwd => Some (t, inl (VPath (render_rpath (t_cwd t))))
  | OExists s => Some (t, match resolve_t env t s with inr _ => inl (VBool false) | inl p => inl (VBool (spec_exists t p)) end)
  | OIsDir s => Some (t, match resolve_t env t s with inr _ => inl (VBool false) | inl p => inl (VBool (spec_is_dir t p)) end)
  | OIsFile s => Some (t, match resolve_t env t s with inr _ => inl (VBool false) | inl p => inl (VBool (spec_is_file t p)) end)
  | OIsSymlink s => Some (t, match resolve_t env t s with inr _ => inl (VBool false) | inl p => inl (VBool (spec_is_symlink t p)) end)
  | OAbs s => Some (t, match resolve_t env t s with inl p => inl (VPath (render_rpath p)) | inr e => inr e end)
  | OIsSymlinkDir s => Some (t, node_bool env t s (fun n => is_link_node n && n_tdir n))
  | OIsSymlinkFile s => Some (t, node_bool env t s (fun n => is_link_node n && negb (n_tdir n)))
  | OIsExec s => Some (t, node_bool env t s (fun n => is_exec_mode (n_mode n)))
  | OIsReadonly s => Some (t, node_bool env t s (fun n => is_readonly_mode (n_mode n)))
  | OMode s => Some (t, node_query env t s (fun n => inl (VNum (n_mode n))))
  | OOwner s => Some (t, node_query env t s (fun n => inl (VPair (n_uid n) (n_gid n))))
  | OUid s => Some (t, node_query env t s (fun n => inl (VNum (n_uid n))))
  | OGid s => Some (t, node_query env t s (fun n => inl (VNum (n_gid n))))
  | OReadlink s => Some (t, node_query env t s (fun n => if is_link_node n then inl (VPath (n_rel n)) else inr EIsNotSymlink))
  | OReadlinkAbs s => Some (t, node_query env t s (fun n => if is_link_node n
                                                            then inl (VPath (match n_target n with Some a => render_rpath a | None => [] end))
                                                            else inr EIsNotSymlink))
  | OReadLines s => Some (t, match (match resolve_t env t s with inr e => inr e | inl p => spec_read t p end) with
                             | inl d => let ls := lines_of d in if forallb valid_utf8 ls then inl (VLines ls) else inr EInvalidData
                             | inr e => inr e
                             end)
  | OWriteLines s ls => Some (match nl_join ls with
                              | [] => (t, inl VUnit)
                              | d => match resolve_t env t s with
                                     | inr e => (t, inr e)
                                     | inl p => let '(t', r) := spec_write_all t p def_mode_file def_uid def_gid (d ++ [10%N]) in (t', as_unit r)
                                     end
                              end)
  | OAppendLine s l => Some (match l with
                             | [] => (t, inl VUnit)
                             | _ => match resolve_t env t s with
                                    | inr e => (t, inr e)
                                    | inl p => let '(t', r) := spec_append_all t p def_mode_file def_uid def_gid (l ++ [10%N]) in (t', as_unit r)
                                    end
                             end)
  | OAppendLines s ls => Some (match nl_join ls with
                               | [] => (t, inl VUnit)
                               | d => match resolve_t env t s with
                                      | inr e => (t, inr e)
                                      | inl p => let '(t', r) := spec_append_all t p def_mode_file def_uid def_gid (d ++ [10%N]) in (t', as_unit r)
                                      end
                               end)
  | OMkfile s => Some (match resolve_t env t s with
                       | inr e => (t, inr e)
                       | inl p => let '(t', r) := spec_mkfile t p def_mode_file def_uid def_gid in (t', as_path r)
                       end)
  | OMkdirP s => Some (match resolve_t env t s with
                       | inr e => (t, inr e)
                       | inl p => let '(t', r) := spec_mkdirs t ([] :: prefixes (rev p) []) (def_mode_dir None) def_uid def_gid in
                                  (t', match r with inl _ => inl (VPath (render_rpath p)) | inr e => inr e end)
                       end)
  | OMkdirM s mode => Some (match resolve_t env t s with
                       | inr e => (t, inr e)
                       | inl p => let '(t', r) := spec_mkdirs t ([] :: prefixes (rev p) []) (def_mode_dir (Some mode)) def_uid def_gid in
                                  (t', match r with inl _ => inl (VPath (render_rpath p)) | inr e => inr e end)
                       end)
  | OWriteAll s d => Some (match resolve_t env t s with
                           | inr e => (t, inr e)
                           | inl p => let '(t', r) := spec_write_all t p def_mode_file def_uid def_gid d in (t', as_unit r)
                           end)
  | OAppendAll s d => Some (match resolve_t env t s with
                            | inr e => (t, inr e)
                            | inl p => let '(t', r) := spec_append_all t p def_mode_file def_uid def_gid d in (t', as_unit r)
                            end)
  | OReadAll s => Some (t, match (match resolve_t env t s with inr e => inr e | inl p => spec_read t p end) with
                           | inl d => if valid_utf8 d then inl (VBytes d) else inr EInvalidData
                           | inr e => inr e
                           end)
  | ORemove s => Some (match resolve_t env t s with
                       | inr e => (t, inr e)
                       | inl p => let '(t', r) := spec_remove t p in (t', as_unit r)
                       end)
  | ORemoveAll s => match resolve_t env t s with
                    | inr e => Some (t, inr e)
                    | inl [] => None                                  (* the root: not covered *)
                    | inl p => Some ((spec_remove_all t p).1, inl VUnit)
                    end
  | OSetCwd s => Some (match resolve_t env t s with
                       | inr e => (t, inr e)
                       | inl p => let '(t', r) := spec_set_cwd t p in (t', as_path r)
                       end)
  | OSymlink l tg =>
      Some (match resolve_t env t l with
            | inr e => (t, inr e)
            | inl lp =>
                match (if is_absolute tg then inl tg else match lp with [] => inr EParentNotFound | _ :: d => inl (mash (render_rpath d) tg) end) with
                | inr e => (t, inr e)
                | inl tg' =>
                    match resolve_t env t tg' with
                    | inr e => (t, inr e)
                    | inl tp => let e := new_link lp tp false in
                                let '(t1, r) := spec_symlink t lp tp (e_mode e) def_uid def_gid (e_rel e) in (t1, as_path r)
                    end
                end
            end)
  | OMoveP s d => Some (let '(t', r) := spec_move env t s d in (t', as_unit r))
  | OChown s co => if co_follow co then None else
                   match resolve_t env t s with
                   | inr e => Some (t, inr e)
                   | inl p => match t_nodes t !! p with
                              | Some _ => Some (spec_chown t p (co_recursive co) (co_uid co) (co_gid co), inl VUnit)
                              | None => Some (t, inr EDoesNotExist)
                              end
                   end
  | ORoot => Some (t, inl (VPath (render_rpath [])))
  | OEntries s wo =>
      (* covered: sorted by name, none of follow / dirs_first / files_first / contents_first *)
      if plain_sorted_b wo then
        Some (t, match resolve_t env t s with
                 | inr e => inr e
                 | inl p => if spec_exists t p then inl (VItems (map inl (spec_entries t wo p))) else inr EDoesNotExist
                 end)
      else None
  | OCopy s d o =>
      (* covered: a source without links, not followed, to a path that does not exist and whose parent is a real directory, or (a directory)
         into an existing real directory under its own name *)
      if cp_follow o then None else
      match resolve_t env t s, resolve_t env t d with
      | inl sp, inl dp =>
          match t_nodes t !! sp with
          | Some n =>
              if negb (nolinks_under t sp) then None else
              match n_kind n with
              | KLink => None
              | KDir =>
                  match t_nodes t !! dp, dp, sp with
                  | None, db :: ddir, _ => if spec_is_dir t ddir && negb (bool_decide (sp `suffix_of` dp)) then Some (spec_copy_tree t o sp dp, inl VUnit) else None
                  | Some _, _, b :: sd => if spec_is_dir t dp && negb (bool_decide (is_Some (t_nodes t !! (b :: dp)))) && negb (bool_decide (sp `suffix_of` (b :: dp)))
                                          then Some (spec_copy_tree t o sp (b :: dp), inl VUnit) else None
                  | _, _, _ => None
                  end
              | KFile =>
                  match t_nodes t !! dp, dp with
                  | None, db :: ddir => if spec_is_dir t ddir && negb (bool_decide (sp = dp)) then Some (spec_copy_tree t o sp dp, inl VUnit) else None
                  | _, _ => None
                  end
              end
          | None => None
          end
      | _, _ => None
      end
  | OList k s => Some (t, match resolve_t env t s with
                          | inr _ => inr EIsNotDir
                          | inl p => if spec_is_dir t p then inl (VPaths (spec_list t k p)) else inr EIsNotDir
                          end)
  | OChmod s o =>
      (* covered: no follow, an expression the grammar accepts, no node whose value would be 0 ("no mode given") *)
      if ch_follow o || negb (chmod_accepts o) || negb (chmod_vals_ok t o) then None else
      match resolve_t env t s with
      | inr e => Some (t, inr e)
      | inl p => match t_nodes t !! p with
                 | Some _ => Some (spec_chmod_sym t p o, inl VUnit)
                 | None => Some (t, inr EDoesNotExist)
                 end
      end
  | OMkfileM s mode =>
      (* mkfile, then chmod of the returned path as the code re-reads it; covered when that reading is the path itself *)
      if N.eqb mode 0 then None else
      match resolve_t env t s with
      | inr e => Some (t, inr e)
      | inl p => let '(t1, r) := spec_mkfile t p def_mode_file def_uid def_gid in
                 match r with
                 | inr e => Some (t1, inr e)
                 | inl p' => match resolve_t env t1 (render_rpath p'), t_nodes t1 !! p' with
                             | inl q, Some _ => if bool_decide (q = p') then Some (spec_chmod t1 p' true mode mode, inl (VPath (render_rpath p'))) else None
                             | _, _ => None
                             end
                 end
      end
  end.

Lemma query_bool_spec env m s (f : entry → bool) (g : tree → rpath → bool) :
  (∀ p, (match m_ents m !! p with Some e => f e | None => false end) = g (abs m) p) →
  query_bool env m s f = match resolve_t env (abs m) s with inr _ => inl (VBool false) | inl p => inl (VBool (g (abs m) p)) end.
Proof.
  intros H. unfold query_bool. rewrite resolve_abs. destruct (resolve_t env (abs m) s) as [p|e]; [|done].
  rewrite <- H. by destruct (m_ents m !! p).
Qed.

Lemma query_entry_node env m s (f : entry → result) (g : node → result) :
  (∀ e d, f e = g (node_of e d)) → query_entry env m s f = node_query env (abs m) s g.
Proof.
  intros H. unfold query_entry, node_query. rewrite resolve_abs. destruct (resolve_t env (abs m) s) as [p|e]; [|done].
  rewrite lookup_abs. destruct (m_ents m !! p); cbn; [apply H|done].
Qed.
Lemma query_bool_node env m s (f : entry → bool) (g : node → bool) :
  (∀ e d, f e = g (node_of e d)) → query_bool env m s f = node_bool env (abs m) s g.
Proof.
  intros H. unfold query_bool, node_bool. rewrite resolve_abs. destruct (resolve_t env (abs m) s) as [p|e]; [|done].
  rewrite lookup_abs. destruct (m_ents m !! p); cbn; [by rewrite (H _ (m_data m !! p))|done].
Qed.

(* one call *)
Lemma nolinks_under_spec m sp : nolinks_under (abs m) sp = true → ∀ q x, sp `suffix_of` q → m_ents m !! q = Some x → e_link x = false.
Proof.
  unfold nolinks_under. rewrite forallb_forall. intros H q x Hs Hx.
  specialize (H (q, node_of x (m_data m !! q))). cbn in H. rewrite bool_decide_eq_true_2 in H by done. cbn in H.
  destruct (e_link x) eqn:El; [|done]. exfalso.
  assert (Hin : In (q, node_of x (m_data m !! q)) (map_to_list (t_nodes (abs m)))).
  { apply elem_of_list_In, elem_of_map_to_list. by rewrite lookup_abs, Hx. }
  specialize (H Hin). unfold is_link_node, node_of, kind_of_entry in H. cbn in H. by rewrite El in H.
Qed.

Lemma real_dir_of_spec m p : kinds_ok m → spec_is_dir (abs m) p = true → ∃ e, m_ents m !! p = Some e ∧ real_dir e.
Proof.
  intros HK H. destruct (queries_refine m p HK) as (_ & Hd & _). rewrite <- Hd in H. unfold is_dir_at in H.
  destruct (m_ents m !! p) as [e|]; [|done]. exists e. split; [done|]. apply andb_true_iff in H as [H1 H2]. apply negb_true_iff in H2. by split.
Qed.

Theorem step_refines env m o t' r' : WF m → kinds_ok m → keys_ok m → spec_step env (abs m) o = Some (t', r') →
  ∃ m', step env m o = Done (m', r') ∧ abs m' = t'.
Proof.
  intros HW HK Hkeys Hs.
  (* the three content writers, given their refinement *)
  assert (Hwrite : ∀ s d, (match resolve_t env (abs m) s with
                           | inr e => (abs m, inr e)
                           | inl p => let '(t1, r) := spec_write_all (abs m) p def_mode_file def_uid def_gid d in (t1, as_unit r)
                           end) = (t', r') → ∃ m', Done (lift_unit (write_all_op env m s d)) = Done (m', r') ∧ abs m' = t').
  { intros s d H. rewrite <- resolve_abs in H. pose proof (write_all_refines env m s d) as Hr.
    destruct (resolve env m s) as [p|e] eqn:E; [|simplify_eq; exists m; unfold write_all_op; by rewrite E].
    specialize (Hr p HW HK eq_refl). destruct (write_all_op env m s d) as [m1 r1]. destruct Hr as [Ha Hr1].
    destruct (spec_write_all (abs m) p _ _ _ d) as [t1 rr]. cbn [fst snd] in *. subst t1 rr. injection H as <- <-. exists m1. split; [|done]. by destruct r1. }
  assert (Happend : ∀ s d, (match resolve_t env (abs m) s with
                           | inr e => (abs m, inr e)
                           | inl p => let '(t1, r) := spec_append_all (abs m) p def_mode_file def_uid def_gid d in (t1, as_unit r)
                           end) = (t', r') → ∃ m', Done (lift_unit (append_all_op env m s d)) = Done (m', r') ∧ abs m' = t').
  { intros s d H. rewrite <- resolve_abs in H. pose proof (append_all_refines env m s d) as Hr.
    destruct (resolve env m s) as [p|e] eqn:E; [|simplify_eq; exists m; unfold append_all_op; by rewrite E].
    specialize (Hr p HW HK eq_refl). destruct (append_all_op env m s d) as [m1 r1]. destruct Hr as [Ha Hr1].
    destruct (spec_append_all (abs m) p _ _ _ d) as [t1 rr]. cbn [fst snd] in *. subst t1 rr. injection H as <- <-. exists m1. split; [|done]. by destruct r1. }
  assert (Hread : ∀ s, clone_file env m s = match resolve_t env (abs m) s with inr e => inr e | inl p => spec_read (abs m) p end).
  { intros s. rewrite <- resolve_abs. pose proof (read_refines env m s) as Hr. unfold clone_file in *. destruct (resolve env m s) as [p|e]; [|done]. by rewrite (Hr p HW HK eq_refl). }
  destruct o; cbn [spec_step] in Hs; try discriminate; cbn [step].
  - (* abs *) injection Hs as <- <-. exists m. by rewrite resolve_abs.
  - (* exists *) injection Hs as <- <-. exists m. split; [|done]. f_equal. f_equal. rewrite resolve_abs.
    destruct (resolve_t env (abs m) s) as [p|e]; [|done]. by destruct (queries_refine m p HK) as (-> & _).
  - (* is_dir *) injection Hs as <- <-. exists m. split; [|done]. f_equal. f_equal.
    apply (query_bool_spec env m s _ spec_is_dir). intros p. destruct (queries_refine m p HK) as (_ & H & _). exact H.
  - (* is_file *) injection Hs as <- <-. exists m. split; [|done]. f_equal. f_equal.
    apply (query_bool_spec env m s _ spec_is_file). intros p. destruct (queries_refine m p HK) as (_ & _ & H & _). exact H.
  - (* is_symlink *) injection Hs as <- <-. exists m. split; [|done]. f_equal. f_equal.
    apply (query_bool_spec env m s _ spec_is_symlink). intros p. destruct (queries_refine m p HK) as (_ & _ & _ & H). exact H.
  - (* is_symlink_dir *) injection Hs as <- <-. exists m. split; [|done]. f_equal. f_equal. apply query_bool_node.
    intros e d. unfold is_link_node, node_of, kind_of_entry. cbn. destruct (e_link e), (e_dir e); done.
  - (* is_symlink_file *) injection Hs as <- <-. exists m. split; [|done]. f_equal. f_equal.
    unfold query_bool, node_bool. rewrite resolve_abs. destruct (resolve_t env (abs m) s) as [p|e]; [|done].
    rewrite lookup_abs. destruct (m_ents m !! p) as [x|] eqn:Hx; cbn; [|done]. pose proof (HK _ _ Hx) as Hk. unfold kind_ok in Hk.
    unfold is_link_node, node_of, kind_of_entry. cbn. destruct (e_link x), (e_dir x), (e_file x); done.
  - (* is_exec *) injection Hs as <- <-. exists m. split; [|done]. f_equal. f_equal. by apply query_bool_node.
  - (* is_readonly *) injection Hs as <- <-. exists m. split; [|done]. f_equal. f_equal. by apply query_bool_node.
  - (* mode *) injection Hs as <- <-. exists m. split; [|done]. f_equal. f_equal. by apply query_entry_node.
  - (* owner *) injection Hs as <- <-. exists m. split; [|done]. f_equal. f_equal. by apply query_entry_node.
  - (* uid *) injection Hs as <- <-. exists m. split; [|done]. f_equal. f_equal. by apply query_entry_node.
  - (* gid *) injection Hs as <- <-. exists m. split; [|done]. f_equal. f_equal. by apply query_entry_node.
  - (* cwd *) injection Hs as <- <-. by exists m.
  - (* root *) injection Hs as <- <-. exists m. by rewrite (wf_rootpath m HW).
  - (* set_cwd *) injection Hs as Hs. rewrite <- resolve_abs in Hs. pose proof (set_cwd_refines env m s) as Hr. unfold set_cwd_op in *.
    destruct (resolve env m s) as [p|e] eqn:E; [|simplify_eq; by exists m]. specialize (Hr p HW HK eq_refl).
    destruct (match m_ents m !! p with Some x => _ | None => _ end) as [m1 r1]. destruct Hr as [Ha Hr1].
    destruct (spec_set_cwd (abs m) p) as [t1 rr]. cbn [fst snd] in *. subst t1 rr. injection Hs as <- <-. exists m1. split; [|done]. by destruct r1.
  - (* mkfile *) injection Hs as Hs. rewrite <- resolve_abs in Hs. destruct (resolve env m s) as [p|e]; [|simplify_eq; by exists m].
    pose proof (mkfile_refines m p HW HK) as Hr. destruct (add m (new_file p)) as [m1 r1]. destruct Hr as [Ha Hr1].
    destruct (spec_mkfile (abs m) p def_mode_file def_uid def_gid) as [t1 rr]. cbn [fst snd] in *. subst t1 rr. injection Hs as <- <-. exists m1. split; [|done]. by destruct r1.
  - (* mkdir_p *) injection Hs as Hs. rewrite <- resolve_abs in Hs. destruct (resolve env m s) as [p|e]; [|simplify_eq; by exists m].
    pose proof (mkdir_p_refines m p None HW HK) as Hr. destruct (mkdir_m_abs m p None) as [m1 r1]. destruct Hr as [Ha Hr1].
    destruct (spec_mkdirs (abs m) _ _ _ _) as [t1 rr]. cbn [fst snd] in *. subst t1 rr. injection Hs as <- <-. exists m1. split; [|done]. by destruct r1.
  - (* mkdir_m *) injection Hs as Hs. rewrite <- resolve_abs in Hs. destruct (resolve env m s) as [p|e]; [|simplify_eq; by exists m].
    pose proof (mkdir_p_refines m p (Some mode) HW HK) as Hr. destruct (mkdir_m_abs m p (Some mode)) as [m1 r1]. destruct Hr as [Ha Hr1].
    destruct (spec_mkdirs (abs m) _ _ _ _) as [t1 rr]. cbn [fst snd] in *. subst t1 rr. injection Hs as <- <-. exists m1. split; [|done]. by destruct r1.
  - (* write_all *) injection Hs as Hs. by apply Hwrite.
  - (* write_lines *) injection Hs as Hs. cbn zeta. destruct (nl_join ls) as [|c d0]; [simplify_eq; by exists m|]. by apply Hwrite.
  - (* append_all *) injection Hs as Hs. by apply Happend.
  - (* append_line *) injection Hs as Hs. destruct l as [|c l0]; [simplify_eq; by exists m|]. by apply Happend.
  - (* append_lines *) injection Hs as Hs. cbn zeta. destruct (nl_join ls) as [|c d0]; [simplify_eq; by exists m|]. by apply Happend.
  - (* read_all *) injection Hs as <- <-. exists m. split; [|done]. by rewrite Hread.
  - (* read_lines *) injection Hs as <- <-. exists m. split; [|done]. by rewrite Hread.
  - (* remove *) injection Hs as Hs. rewrite <- resolve_abs in Hs. pose proof (remove_refines env m s) as Hr.
    destruct (resolve env m s) as [p|e] eqn:E; [|simplify_eq; exists m; unfold remove_op; by rewrite E].
    specialize (Hr p HW HK eq_refl). destruct (remove_op env m s) as [m1 r1]. destruct Hr as [Ha Hr1].
    destruct (spec_remove (abs m) p) as [t1 rr]. cbn [fst snd] in *. subst t1 rr. injection Hs as <- <-. exists m1. split; [|done]. by destruct r1.
  - (* remove_all *) rewrite <- resolve_abs in Hs. destruct (resolve env m s) as [p|e] eqn:E.
    + destruct p as [|b d]; [discriminate|]. injection Hs as <- <-.
      destruct (remove_all_refines env m s (b :: d) HW E ltac:(done)) as (m1 & -> & Ha). exists m1. done.
    + injection Hs as <- <-. exists m. unfold remove_all_op. by rewrite E.
  - (* symlink *) injection Hs as Hs. rewrite <- !resolve_abs in Hs. unfold symlink_op.
    destruct (resolve env m l) as [lp|e] eqn:El; [|simplify_eq; by exists m].
    destruct (if is_absolute t then _ else _) as [tg'|e]; [|simplify_eq; by exists m].
    rewrite <- resolve_abs in Hs. destruct (resolve env m tg') as [tp|e] eqn:Et; [|simplify_eq; by exists m].
    pose proof (symlink_refines m lp tp HW HK) as Hr. cbn zeta in Hr, Hs.
    set (td := match m_ents m !! tp with Some x => e_dir x | None => false end) in *.
    change (e_mode (new_link lp tp td)) with (e_mode (new_link lp tp false)) in Hr.
    change (e_rel (new_link lp tp td)) with (e_rel (new_link lp tp false)) in Hr.
    destruct (if bool_decide (is_Some (m_ents m !! lp)) then _ else _) as [m1 r1]. destruct Hr as [Ha Hr1].
    destruct (spec_symlink (abs m) lp tp _ _ _ _) as [t1 rr]. cbn [fst snd] in *. subst t1 rr. injection Hs as <- <-.
    exists m1. split; [|done]. by destruct r1.
  - (* readlink *) injection Hs as <- <-. exists m. split; [|done]. f_equal. f_equal. apply query_entry_node.
    intros e d. unfold is_link_node, node_of, kind_of_entry. cbn. destruct (e_link e); [done|]. by destruct (e_dir e).
  - (* readlink_abs *) injection Hs as <- <-. exists m. split; [|done]. f_equal. f_equal. apply query_entry_node.
    intros e d. unfold is_link_node, node_of, kind_of_entry. cbn. destruct (e_link e); [done|]. by destruct (e_dir e).
  - (* move_p *) injection Hs as Hs.
    pose proof (move_op_terminates env m s d HW) as Hterm. pose proof (step_no_panic env m (OMoveP s d)) as Hnp. cbn [step] in Hnp.
    destruct (move_op env m s d) as [[m1 r1]| |] eqn:Em; [|done|done].
    destruct (move_refines env m s d m1 r1 HW Em) as [Ha Hr]. destruct (spec_move env (abs m) s d) as [t1 rr]. cbn [fst snd] in *. subst t1 rr.
    injection Hs as <- <-. exists m1. split; [|done]. by destruct r1.
  - (* listings *) injection Hs as <- <-. exists m. split; [|done]. rewrite <- resolve_abs.
    destruct (resolve env m s) as [p|e] eqn:E; [|unfold listing_op; by rewrite E].
    destruct (queries_refine m p HK) as (_ & Hd & _). rewrite <- Hd. fold (is_dir_at m p).
    destruct (is_dir_at m p) eqn:Hdir; [by rewrite (listing_refines env m k s p HW HK E Hdir)|].
    unfold listing_op. by rewrite E, Hdir.
  - (* entries *) destruct (plain_sorted_b wo) eqn:Hpl; [|discriminate]. apply plain_sorted_b_spec in Hpl. injection Hs as <- <-.
    exists m. split; [|done]. rewrite <- resolve_abs. destruct (resolve env m s) as [p|e] eqn:E; [|done].
    destruct (queries_refine m p HK) as (He & _). rewrite <- He.
    destruct (m_ents m !! p) as [x|] eqn:Hx.
    + rewrite bool_decide_eq_true_2 by eauto. pose proof (entries_refines env m s wo p x HW HK Hpl E Hx) as H. cbn [step] in H. rewrite E in H. exact H.
    + rewrite bool_decide_eq_false_2 by (intros [? ?]; done). pose proof (entries_missing env m s wo p E Hx) as H. cbn [step] in H. rewrite E in H. exact H.
  - (* copy *) destruct (cp_follow o) eqn:Hnf; [discriminate|]. rewrite <- !resolve_abs in Hs.
    destruct (resolve env m s) as [sp|e] eqn:Es; [|discriminate]. destruct (resolve env m d) as [dp|e] eqn:Ed; [|discriminate].
    rewrite !lookup_abs in Hs. destruct (m_ents m !! sp) as [r|] eqn:Hr; [|discriminate]. cbn [fmap option_fmap option_map] in Hs.
    destruct (nolinks_under (abs m) sp) eqn:Hnl; [|discriminate]. cbn [negb] in Hs. pose proof (nolinks_under_spec m sp Hnl) as Hnolink.
    unfold node_of at 1 in Hs. cbn [n_kind] in Hs. unfold kind_of_entry in Hs.
    pose proof (Hnolink sp r ltac:(done) Hr) as Hrl. rewrite Hrl in Hs.
    destruct (e_dir r) eqn:Hrd.
    + (* a directory *)
      destruct (m_ents m !! dp) as [pd|] eqn:Hdp; cbn [fmap option_fmap option_map] in Hs.
      * destruct sp as [|b sd]; [destruct dp; discriminate|].
        assert (Hs' : (if spec_is_dir (abs m) dp && negb (bool_decide (is_Some (t_nodes (abs m) !! (b :: dp)))) && negb (bool_decide ((b :: sd) `suffix_of` (b :: dp)))
                       then Some (spec_copy_tree (abs m) o (b :: sd) (b :: dp), inl VUnit) else None) = Some (t', r')) by (destruct dp; exact Hs).
        clear Hs. destruct (spec_is_dir (abs m) dp) eqn:Hsd; [|discriminate]. cbn [andb] in Hs'.
        case_bool_decide as Hfree; [discriminate|]. case_bool_decide as Hnotin; [discriminate|]. cbn in Hs'. injection Hs' as <- <-.
        destruct (real_dir_of_spec m dp HK Hsd) as (pd' & Hpd' & Hpdr). rewrite Hdp in Hpd'. simplify_eq.
        assert (Hfree' : m_ents m !! (b :: dp) = None).
        { destruct (m_ents m !! (b :: dp)) eqn:E; [|done]. exfalso. apply Hfree. rewrite lookup_abs, E. by eexists. }
        destruct (copy_into_refines env m s d o (b :: sd) dp b sd r pd' HW HK Hkeys Hnf Es Ed eq_refl Hr (conj Hrd Hrl) Hdp Hpdr Hfree' Hnotin Hnolink) as (m1 & -> & Ha).
        exists m1. done.
      * destruct dp as [|db ddir]; [discriminate|]. destruct (spec_is_dir (abs m) ddir) eqn:Hsd; [|discriminate]. cbn [andb] in Hs.
        case_bool_decide as Hnotin; [discriminate|]. cbn in Hs. injection Hs as <- <-.
        destruct (real_dir_of_spec m ddir HK Hsd) as (pd & Hpd & Hpdr).
        destruct (copy_dir_refines env m s d o sp (db :: ddir) db ddir r pd HW HK Hkeys Hnf Es Ed Hr (conj Hrd Hrl) eq_refl Hdp Hpd Hpdr Hnotin Hnolink) as (m1 & -> & Ha).
        exists m1. done.
    + (* a regular file *)
      destruct (m_ents m !! dp) as [pd|] eqn:Hdp; cbn [fmap option_fmap option_map] in Hs; [discriminate|].
      destruct dp as [|db ddir]; [discriminate|]. destruct (spec_is_dir (abs m) ddir) eqn:Hsd; [|discriminate]. cbn [andb] in Hs.
      case_bool_decide as Hne; [discriminate|]. cbn in Hs. injection Hs as <- <-.
      destruct (real_dir_of_spec m ddir HK Hsd) as (pd & Hpd & Hpdr).
      destruct (copy_file_refines env m s d o sp (db :: ddir) db ddir r pd HW HK Es Ed Hne Hr Hrd Hrl eq_refl Hdp Hpd Hpdr) as (m1 & -> & Ha).
      exists m1. done.
  - (* chmod *) destruct (ch_follow o) eqn:Hnf; [discriminate|]. destruct (chmod_accepts o) eqn:Hacc; [|discriminate].
    destruct (chmod_vals_ok (abs m) o) eqn:Hvals; [|discriminate]. cbn [orb negb] in Hs. rewrite <- resolve_abs in Hs.
    destruct (resolve env m s) as [p|e] eqn:E; [|injection Hs as <- <-; exists m; unfold chmod_op; by rewrite E].
    rewrite lookup_abs in Hs. destruct (m_ents m !! p) as [x|] eqn:Hx; cbn in Hs; injection Hs as <- <-.
    + destruct (chmod_sym_refines env m s o p x HW HK Hnf Hacc Hvals E Hx) as (m1 & -> & Ha). exists m1. done.
    + exists m. unfold chmod_op. rewrite E. unfold walk. by rewrite Hx.
  - (* chown *) destruct (co_follow o) eqn:Hnf; [discriminate|]. rewrite <- resolve_abs in Hs.
    destruct (resolve env m s) as [p|e] eqn:E; [|injection Hs as <- <-; exists m; unfold chown_op; by rewrite E].
    rewrite lookup_abs in Hs. destruct (m_ents m !! p) as [x|] eqn:Hx; cbn in Hs; injection Hs as <- <-.
    + destruct (chown_refines env m s o p x HW Hnf E Hx) as (m1 & -> & Ha). exists m1. done.
    + exists m. unfold chown_op. rewrite E. unfold walk. by rewrite Hx.
  - (* mkfile_m *) destruct (N.eqb mode 0) eqn:Hm0; [discriminate|]. apply N.eqb_neq in Hm0. rewrite <- resolve_abs in Hs.
    destruct (resolve env m s) as [p|e] eqn:E; [|injection Hs as <- <-; by exists m].
    pose proof (mkfile_refines m p HW HK) as Hr.
    pose proof (wf_step env m (OMkfile s)) as HW1. pose proof (kinds_step env m (OMkfile s)) as HK1. cbn [step] in HW1, HK1. rewrite E in HW1, HK1.
    destruct (add m (new_file p)) as [m1 r1]. destruct Hr as [Ha Hr1].
    assert (HW1' : WF m1) by (destruct r1; exact (HW1 _ _ HW eq_refl)).
    assert (HK1' : kinds_ok m1) by (destruct r1; exact (HK1 _ _ HW HK eq_refl)). clear HW1 HK1.
    destruct (spec_mkfile (abs m) p def_mode_file def_uid def_gid) as [t1 rr]. cbn [fst snd] in *. subst t1 rr.
    destruct r1 as [p'|e]; [|injection Hs as <- <-; by exists m1].
    rewrite <- resolve_abs, lookup_abs in Hs. destruct (resolve env m1 (render_rpath p')) as [q|e] eqn:E1; [|done].
    destruct (m_ents m1 !! p') as [x|] eqn:Hx; [|done]. cbn in Hs. case_bool_decide; [|done]. subst q. injection Hs as <- <-.
    destruct (chmod_refines env m1 (render_rpath p') {| ch_dirs := mode; ch_files := mode; ch_follow := false; ch_recursive := true; ch_sym := [] |} p' x
                HW1' HK1' eq_refl eq_refl Hm0 Hm0 E1 Hx) as (m2 & -> & Ha2). exists m2. done.
Qed.

(* a whole history *)
Fixpoint spec_run (env : envmap) (t : tree) (os : list op) : option (tree * list result) :=
  match os with
  | [] => Some (t, [])
  | o :: rest => match spec_step env t o with
                 | Some (t1, r) => match spec_run env t1 rest with Some (t2, rs) => Some (t2, r :: rs) | None => None end
                 | None => None
                 end
  end.

Theorem history_refines env os : ∀ m t rs, WF m → kinds_ok m → keys_ok m → spec_run env (abs m) os = Some (t, rs) →
  ∃ m', run env m os = Done (m', rs) ∧ abs m' = t ∧ WF m' ∧ kinds_ok m' ∧ keys_ok m'.
Proof.
  induction os as [|o os IH]; intros m t rs HW HK Hkeys Hs; cbn [spec_run run] in *; [simplify_eq; by exists m|].
  destruct (spec_step env (abs m) o) as [[t1 r]|] eqn:Eo; [|done].
  destruct (spec_run env t1 os) as [[t2 rs']|] eqn:Er; [|done]. simplify_eq.
  destruct (step_refines env m o t1 r HW HK Hkeys Eo) as (m1 & Hstep & <-). rewrite Hstep.
  pose proof (wf_step env m o m1 r HW Hstep) as HW1. pose proof (kinds_step env m o m1 r HW HK Hstep) as HK1.
  pose proof (keys_step env m o m1 r HW Hkeys Hstep) as Hkeys1.
  destruct (IH m1 t rs' HW1 HK1 Hkeys1 Er) as (m' & -> & Ha & HW' & HK' & Hk'). exists m'. done.
Qed.

(* from the fresh filesystem *)
Corollary history_refines_init env os t rs : spec_run env (abs mfs_init) os = Some (t, rs) →
  ∃ m', run env mfs_init os = Done (m', rs) ∧ abs m' = t.
Proof. intros H. destruct (history_refines env os mfs_init t rs wf_init kinds_init keys_init H) as (m' & ? & ? & _). eauto. Qed.

(* the reference covers a history that uses most of its alphabet: the premise of the theorem is satisfiable *)
Example history_refines_nonvacuous :
  match spec_run (fun _ => None) (abs mfs_init)
          [OMkdirP [47; 97; 47; 98]%N; OMkfileM [47; 97; 47; 98; 47; 102]%N 384%N; OWriteAll [47; 97; 47; 98; 47; 102]%N [1]%N;
           OSymlink [47; 97; 47; 108]%N [47; 97; 47; 98]%N;
           OChmod [47; 97]%N {| ch_dirs := 448; ch_files := 416; ch_follow := false; ch_recursive := true; ch_sym := [] |};
           OChmod [47; 97]%N {| ch_dirs := 0; ch_files := 0; ch_follow := false; ch_recursive := true; ch_sym := [102; 58; 103; 45; 114]%N |};
           OChown [47; 97; 47; 98]%N {| co_uid := Some 5%N; co_gid := None; co_follow := false; co_recursive := true |};
           OMoveP [47; 97; 47; 98]%N [47; 99]%N; OSetCwd [47; 99]%N; OReadAll [102]%N; OMode [102]%N; ORemoveAll [47; 97]%N; ORoot;
           OList LAllPaths [47]%N; OCopy [47; 99]%N [47; 100]%N {| cp_mode := None; cp_cdirs := false; cp_cfiles := false; cp_follow := false |};
           OReadAll [47; 100; 47; 102]%N; OEntries [47; 100]%N (w_sort_by_name (w_files default_wopts))] with
  | Some (t, rs) => (size (t_nodes t) =? 5) && (length rs =? 17) &&
                    match nth 16 rs (inr EDoesNotExist) with inl (VItems [inl [47; 100; 47; 102]%N]) => true | _ => false end &&
                    match nth 15 rs (inr EDoesNotExist) with inl (VBytes [1%N]) => true | _ => false end &&
                    match nth 13 rs (inr EDoesNotExist) with inl (VPaths [[47; 99]%N; [47; 99; 47; 102]%N]) => true | _ => false end &&
                    match nth 9 rs (inr EDoesNotExist) with inl (VBytes [1%N]) => true | _ => false end &&
                    match nth 10 rs (inr EDoesNotExist) with inl (VNum v) => N.eqb v (N.lor 384 Gen.Consts.c_type_bits_file) | _ => false end
  | None => false
  end = true.
Proof. vm_compute. reflexivity. Qed.

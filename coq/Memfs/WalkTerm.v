(* Memfs/WalkTerm.v — traversal without following links terminates (C08 / C12): on every snapshot whose entries report
   the path they are stored under, the recursion of Memfs/WalkSpec.v is defined (depth bound = height of the snapshot),
   the machine's steps and items are bounded by three times / once the number of entries under the starting path, and so
   `walk` returns exactly the recursion's events within its fuel. *)
From stdpp Require Import gmap.
From Coq Require Import NArith.
From RV Require Import Base.Str Path.Helpers Memfs.State Memfs.Walk Memfs.WalkFacts Memfs.WalkSpec.

Definition key_ok (sn : snap) : Prop := ∀ p e, sn !! p = Some e → e_path e = p.

Definition under (p : rpath) (kv : rpath * entry) : Prop := p `suffix_of` kv.1.
Global Instance under_dec p kv : Decision (under p kv).
Proof. unfold under. apply _. Defined.
Definition nunder (sn : snap) (p : rpath) : nat := size (filter (under p) sn).

(* ---- sizes of disjoint filters ---- *)
Lemma size_filter_disj (P Q R : rpath * entry → Prop) `{!∀ x, Decision (P x)} `{!∀ x, Decision (Q x)} `{!∀ x, Decision (R x)}
  (m : gmap rpath entry) :
  (∀ x, P x → Q x → False) → (∀ x, P x → R x) → (∀ x, Q x → R x) →
  size (filter P m) + size (filter Q m) ≤ size (filter R m).
Proof.
  intros Hd HP HQ. induction m as [|i x m Hi IH] using map_ind; [by rewrite !map_filter_empty|].
  rewrite !map_filter_insert. rewrite !delete_notin by done.
  assert (Hn : ∀ (S : rpath * entry → Prop) `{!∀ x, Decision (S x)}, filter S m !! i = None) by (intros; apply map_filter_lookup_None; by left).
  destruct (decide (P (i, x))) as [p|np]; destruct (decide (Q (i, x))) as [q|nq].
  - by destruct (Hd _ p q).
  - rewrite decide_True by auto. rewrite !map_size_insert_None by auto. lia.
  - rewrite decide_True by auto. rewrite !map_size_insert_None by auto. lia.
  - case_decide; [rewrite map_size_insert_None by auto|]; lia.
Qed.

Lemma suffix_cons_same {A} (a b : A) p q : (a :: p) `suffix_of` q → (b :: p) `suffix_of` q → a = b.
Proof.
  intros [j ->] [j' Hq]. assert (length j = length j') as Hl.
  { apply (f_equal length) in Hq. rewrite !app_length in Hq. cbn in Hq. lia. }
  apply app_inj_1 in Hq as [_ Hq]; [|done]. by injection Hq.
Qed.

Definition under_any (cs : list entry) (kv : rpath * entry) : Prop := Exists (fun c => e_path c `suffix_of` kv.1) cs.
Global Instance under_any_dec cs kv : Decision (under_any cs kv).
Proof. unfold under_any. apply _. Defined.

Lemma nunder_children sn p cs : NoDup (map e_path cs) → (∀ c, c ∈ cs → ∃ n, e_path c = n :: p) →
  list_sum (map (fun c => nunder sn (e_path c)) cs) ≤ size (filter (under_any cs) sn).
Proof.
  induction cs as [|c cs IH]; intros Hnd Hc; [cbn; lia|].
  cbn [map] in *. apply NoDup_cons in Hnd as [Hnc Hnd]. rewrite list_sum_cons.
  specialize (IH Hnd ltac:(intros; apply Hc; by right)).
  etrans; [apply Nat.add_le_mono_l, IH|]. unfold nunder. apply size_filter_disj.
  - intros [q x] Hu Ha. unfold under, under_any in *. cbn in *. apply Exists_exists in Ha as (c' & Hc' & Hs').
    destruct (Hc c ltac:(left)) as [n En]. destruct (Hc c' ltac:(by right)) as [n' En']. rewrite En in Hu. rewrite En' in Hs'.
    pose proof (suffix_cons_same _ _ _ _ Hu Hs') as ->. apply Hnc. rewrite En, <- En'. by apply elem_of_list_fmap_1.
  - intros kv Hu. by left.
  - intros kv Ha. by right.
Qed.

Lemma nunder_parent sn p e cs : sn !! p = Some e → NoDup (map e_path cs) → (∀ c, c ∈ cs → ∃ n, e_path c = n :: p) →
  list_sum (map (fun c => nunder sn (e_path c)) cs) + 1 ≤ nunder sn p.
Proof.
  intros He Hnd Hc. pose proof (nunder_children sn p cs Hnd Hc) as H1.
  assert (H2 : size (filter (under_any cs) sn) + size (filter (fun kv => kv.1 = p) sn) ≤ nunder sn p).
  { unfold nunder. apply size_filter_disj.
    - intros [q x] Ha Hq. cbn in Hq. subst q. unfold under_any in Ha. apply Exists_exists in Ha as (c & Hin & Hs). cbn in Hs.
      destruct (Hc c Hin) as [n En]. rewrite En in Hs. apply suffix_length in Hs. cbn in Hs. lia.
    - intros [q x] Ha. unfold under_any, under in *. apply Exists_exists in Ha as (c & Hin & Hs). cbn in *.
      destruct (Hc c Hin) as [n En]. rewrite En in Hs. by eapply suffix_cons_l.
    - intros [q x] Hq. cbn in Hq. subst q. unfold under. cbn. done. }
  assert (H3 : 1 ≤ size (filter (fun kv : rpath * entry => kv.1 = p) sn)).
  { assert (Hl : filter (fun kv : rpath * entry => kv.1 = p) sn !! p = Some e) by (apply map_filter_lookup_Some; done).
    destruct (decide (size (filter (fun kv : rpath * entry => kv.1 = p) sn) = 0)) as [Hz|]; [|lia].
    apply map_size_empty_inv in Hz. rewrite Hz in Hl. by rewrite lookup_empty in Hl. }
  lia.
Qed.

Lemma nunder_le sn p : nunder sn p ≤ size sn.
Proof.
  unfold nunder. induction sn as [|i x m Hi IH] using map_ind; [by rewrite map_filter_empty|].
  rewrite map_filter_insert. rewrite (map_size_insert_None i x m Hi). case_decide.
  - rewrite map_size_insert_None; [lia|]. apply map_filter_lookup_None. by left.
  - rewrite delete_notin by done. lia.
Qed.

(* ---- the per-directory orderings are permutations ---- *)
Lemma insert_sorted_perm x l : insert_sorted x l ≡ₚ x :: l.
Proof.
  induction l as [|y l IH]; [done|]. cbn. destruct (ent_leb y x); [|done]. rewrite IH. apply Permutation_swap.
Qed.
Lemma sort_ents_perm l : sort_ents l ≡ₚ l.
Proof. induction l as [|x l IH]; [done|]. cbn. rewrite insert_sorted_perm. by rewrite IH. Qed.

Lemma filter_split_perm (l : list entry) :
  filter (fun c => e_dir c) l ++ filter (fun c => negb (e_dir c)) l ≡ₚ l.
Proof.
  induction l as [|x l IH]; [done|]. rewrite !filter_cons. destruct (e_dir x) eqn:E; cbn [negb].
  - rewrite decide_True by done. rewrite decide_False by (intros H; done). cbn. by rewrite IH.
  - rewrite decide_False by (intros H; done). rewrite decide_True by done. rewrite <- Permutation_middle. by rewrite IH.
Qed.

Lemma arrange_perm o cs : arrange o cs ≡ₚ cs.
Proof.
  unfold arrange. destruct (o_sort o); [|done]. destruct (o_dirs_first o).
  - rewrite !sort_ents_perm. apply filter_split_perm.
  - destruct (o_files_first o); [|apply sort_ents_perm]. rewrite !sort_ents_perm. rewrite Permutation_app_comm. apply filter_split_perm.
Qed.

(* ---- children, when links are not followed ---- *)
Lemma child_entries_spec sn p ns c : c ∈ child_entries sn p false ns → ∃ n, n ∈ ns ∧ sn !! (n :: p) = Some c.
Proof.
  induction ns as [|n ns IH]; cbn [child_entries]; [by intros H; apply elem_of_nil in H|].
  destruct (sn !! (n :: p)) as [c'|] eqn:E; [|by intros H; apply elem_of_nil in H].
  intros [->|H]%elem_of_cons; [exists n; split; [left|done]|]. destruct (IH H) as (n' & ? & ?). exists n'. split; [by right|done].
Qed.

Lemma child_entries_nodup sn p ns : key_ok sn → NoDup ns → NoDup (map e_path (child_entries sn p false ns)).
Proof.
  intros Hk. induction ns as [|n ns IH]; intros Hnd; cbn [child_entries]; [constructor|].
  apply NoDup_cons in Hnd as [Hn Hnd]. destruct (sn !! (n :: p)) as [c|] eqn:E; [|constructor].
  cbn [map]. apply NoDup_cons. split; [|by apply IH].
  intros Hin. apply elem_of_list_fmap in Hin as (c' & Hp & Hc'). apply child_entries_spec in Hc' as (n' & Hn' & E').
  rewrite (Hk _ _ E), (Hk _ _ E') in Hp. injection Hp as ->. done.
Qed.

Definition bnd (sn : snap) (p : rpath) (k : nat) : Prop := ∀ q, p `suffix_of` q → is_Some (sn !! q) → length q ≤ length p + k.

Lemma kids_total (f : entry → option (list event)) (g w : entry → nat) l :
  (∀ c, c ∈ l → ∃ evs, f c = Some evs ∧ g c + 1 ≤ 3 * w c ∧ length (items_of evs) ≤ w c) →
  ∃ kids, concat_opt (map f l) = Some kids ∧ list_sum (map (fun c => S (g c)) l) ≤ 3 * list_sum (map w l) ∧
          length (items_of kids) ≤ list_sum (map w l).
Proof.
  induction l as [|c l IH]; intros H; [exists []; cbn; split; [done|lia]|].
  destruct (H c ltac:(left)) as (evs & Hf & Hg & Hi). destruct (IH ltac:(intros; apply H; by right)) as (kids & Hk & Hs & Hit).
  exists (evs ++ kids). cbn [map concat_opt]. rewrite Hf, Hk. split; [done|]. rewrite !list_sum_cons, items_of_app, app_length. lia.
Qed.

Lemma loops_nofollow o stack e : o_follow o = false → loops o stack e = false.
Proof. unfold loops, enters. intros ->. destruct (e_dir e), (e_link e); done. Qed.

Lemma sw_S (h : nat) (S0 : gmap (list (list N)) entry) o pre stack e : sw (S h) S0 o pre stack e =
  let depth := length stack in
  if loops o stack e then Some [EvItem (IErr (WLoop (e_path e)))] else
  if enters o e && lt_max depth (o_max o) then
    match pre e with
    | Some err => Some [EvItem (IErr (WPre err))]
    | None =>
        match children S0 (o_follow o) (e_path e) with
        | None => Some [EvPre e; EvItem (IErr (WNoEnt (e_path e)))]
        | Some cs =>
            match concat_opt (map (sw h S0 o pre (e_path e :: stack)) (arrange o cs)) with
            | None => None
            | Some kids =>
                Some (if selected o depth e then
                        (if e_dir e && o_contents_first o then EvPre e :: kids ++ [EvItem (IOk e)]
                         else EvPre e :: EvItem (IOk e) :: kids)
                      else EvPre e :: kids)
            end
        end
    end
  else Some (if selected o depth e then [EvItem (IOk e)] else []).
Proof. reflexivity. Qed.

Lemma steps_S (h : nat) (S0 : gmap (list (list N)) entry) o pre stack e : steps (S h) S0 o pre stack e =
  let depth := length stack in
  let late := if selected o depth e && e_dir e && o_contents_first o then 1 else 0 in
  if loops o stack e then 0 else
  if enters o e && lt_max depth (o_max o) then
    match pre e with
    | Some err => 0
    | None =>
        match children S0 (o_follow o) (e_path e) with
        | None => 0
        | Some cs => list_sum (map (fun c => S (steps h S0 o pre (e_path e :: stack) c)) (arrange o cs)) + 1 + late
        end
    end
  else late.
Proof. reflexivity. Qed.

Lemma items_of_pre e evs : items_of (EvPre e :: evs) = items_of evs.
Proof. done. Qed.

Lemma nofollow_total k : ∀ S0 o pre stack e p, key_ok S0 → o_follow o = false → S0 !! p = Some e → bnd S0 p k →
  ∃ evs, sw (S k) S0 o pre stack e = Some evs ∧ steps (S k) S0 o pre stack e + 1 ≤ 3 * nunder S0 p ∧
         length (items_of evs) ≤ nunder S0 p.
Proof.
  induction k as [|k IH]; intros S0 o pre stack e p Hk Hnf He Hb.
  all: pose proof (Hk _ _ He) as Hp; rewrite sw_S, steps_S; cbn zeta; rewrite (loops_nofollow o stack e Hnf).
  all: assert (H1 : 1 ≤ nunder S0 p) by (pose proof (nunder_parent S0 p e [] He ltac:(constructor) ltac:(intros c Hc; by apply elem_of_nil in Hc)) as H; cbn in H; lia).
  all: destruct (enters o e && lt_max (length stack) (o_max o));
    [|eexists; split; [done|]; split; [destruct (selected o (length stack) e && e_dir e && o_contents_first o); lia|];
      destruct (selected o (length stack) e); cbn; lia].
  all: destruct (pre e) as [err|]; [eexists; split; [done|]; cbn; lia|].
  all: rewrite Hp; unfold children; rewrite He, Hnf.
  all: set (ns := match e_files e with Some fs => elements fs | None => [] end).
  all: assert (Hns : NoDup ns) by (subst ns; destruct (e_files e); [apply NoDup_elements|constructor]).
  all: set (cs := child_entries S0 p false ns).
  all: pose proof (arrange_perm o cs) as Hperm.
  all: assert (Hcs : ∀ c, c ∈ arrange o cs → ∃ n, S0 !! (n :: p) = Some c)
         by (intros c Hc; rewrite Hperm in Hc; apply child_entries_spec in Hc as (n & _ & ?); eauto).
  all: assert (Hnd : NoDup (map e_path (arrange o cs))) by (rewrite Hperm; by apply child_entries_nodup).
  all: assert (Hpaths : ∀ c, c ∈ arrange o cs → ∃ n, e_path c = n :: p) by (intros c Hc; destruct (Hcs c Hc) as [n Hn]; exists n; by apply Hk).
  all: pose proof (nunder_parent S0 p e (arrange o cs) He Hnd Hpaths) as Hsum.
  - (* height 0: no children *)
    assert (Hnil : arrange o cs = []).
    { destruct (arrange o cs) as [|c l]; [done|]. exfalso. destruct (Hcs c ltac:(left)) as [n Hn].
      specialize (Hb (n :: p) ltac:(by apply suffix_cons_r) ltac:(eauto)). cbn in Hb. lia. }
    rewrite Hnil. cbn [map concat_opt]. change (list_sum []) with 0.
    eexists; split; [done|]. split; [destruct (selected o (length stack) e && e_dir e && o_contents_first o); lia|].
    destruct (selected o (length stack) e); [destruct (e_dir e && o_contents_first o)|]; cbn; lia.
  - destruct (kids_total (sw (S k) S0 o pre (p :: stack)) (steps (S k) S0 o pre (p :: stack)) (fun c => nunder S0 (e_path c)) (arrange o cs))
      as (kids & Hkids & Hst & Hit).
    { intros c Hc. destruct (Hcs c Hc) as [n Hn]. rewrite (Hk _ _ Hn).
      apply (IH S0 o pre (p :: stack) c (n :: p) Hk Hnf Hn).
      intros q Hq Hs. specialize (Hb q ltac:(by eapply suffix_cons_l) Hs). cbn. lia. }
    rewrite Hkids. eexists; split; [done|]. split; [destruct (selected o (length stack) e && e_dir e && o_contents_first o); lia|].
    destruct (selected o (length stack) e); [destruct (e_dir e && o_contents_first o)|];
      rewrite ?items_of_pre, ?items_of_item, ?items_of_app, ?items_of_item, ?app_length; cbn [length items_of flat_map app]; lia.
Qed.

Lemma snap_height (E : gmap rpath entry) : ∃ h, ∀ q, is_Some (E !! q) → length q ≤ h.
Proof.
  induction E as [|k x E Hk [h IH]] using map_ind.
  - exists 0. intros q Hq. rewrite lookup_empty in Hq. by destruct Hq.
  - exists (max h (length k)). intros q Hq. destruct (decide (q = k)) as [->|Hne]; [lia|].
    rewrite lookup_insert_ne in Hq by done. specialize (IH q Hq). lia.
Qed.

Lemma walk_fuel_ge (E : gmap rpath entry) : 3 * size E + 2 ≤ walk_fuel E.
Proof. unfold walk_fuel. nia. Qed.

(* C08 / C12: without following links the traversal terminates within its fuel, and what it returns is the recursion *)
Theorem walk_nofollow (E : gmap rpath entry) o pre rootp r : key_ok E → o_follow o = false → E !! rootp = Some r →
  ∃ h evs, sw_walk h E o pre r = Some evs ∧ walk E o pre rootp = inl (Done evs).
Proof.
  intros Hk Hnf Hr. destruct (snap_height E) as [k Hh].
  assert (Hb : bnd E rootp k) by (intros q _ Hq; specialize (Hh q Hq); lia).
  destruct (nofollow_total k E o pre [] r rootp Hk Hnf Hr Hb) as (evs & Hsw & Hst & Hit).
  pose proof (nunder_le E rootp) as Hle. pose proof (walk_fuel_ge E) as Hf.
  exists (S k), evs. assert (Hsw' : sw_walk (S k) E o pre r = Some evs) by (unfold sw_walk; by rewrite Hnf).
  split; [done|]. apply (walk_is_spec E o pre rootp r (S k) evs Hr Hsw'); rewrite ?Hnf; lia.
Qed.

Theorem walk_nofollow_terminates (E : gmap rpath entry) o pre rootp : key_ok E → o_follow o = false →
  walk E o pre rootp ≠ inl OutOfFuel.
Proof.
  intros Hk Hnf. destruct (E !! rootp) as [r|] eqn:Hr.
  - destruct (walk_nofollow E o pre rootp r Hk Hnf Hr) as (h & evs & _ & ->). done.
  - unfold walk. by rewrite Hr.
Qed.

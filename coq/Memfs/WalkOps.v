(* Memfs/WalkOps.v — mirrors of the traversal-based Memfs operations: the six listing helpers,
   _copy, _chmod, _chown (src/sys/fs/memfs/vfs.rs).  Each takes its snapshot of the entries index
   when the Rust code does (entries()/_entries clone the subtree) and applies its effects to the
   live state afterwards, in the order the iterator yields. *)
From stdpp Require Import gmap.
From Coq Require Import NArith.
From RV Require Import Base.Str Base.PathLex Base.SpanFacts Path.Helpers Path.Expand Chmod.Sym
  Memfs.State Memfs.Ops Memfs.Walk.

Definition rp_of_string (s : list N) : rpath := rev (names_of s).

Definition werr_kind (w : werr) : errkind :=
  match w with WLoop _ => ELinkLooping | WNoEnt _ => EDoesNotExist | WPre e => e end.

(* `for entry in entries { let entry = entry?; .. }`: the Ok entries up to the first error *)
Fixpoint oks_until_err (is : list item) : list entry * option errkind :=
  match is with
  | [] => ([], None)
  | IOk e :: is' => let '(l, r) := oks_until_err is' in (e :: l, r)
  | IErr w :: _ => ([], Some (werr_kind w))
  end.

Definition no_pre (_ : entry) : option errkind := None.

Inductive listing := LPaths | LDirs | LFiles | LAllPaths | LAllDirs | LAllFiles.

Definition listing_opts (k : listing) : wopts :=
  let o := w_min_depth default_wopts 1 in
  let o := match k with LPaths | LDirs | LFiles => w_max_depth o (Some 1) | _ => o end in
  let o := w_sort_by_name o in
  match k with LDirs | LAllDirs => w_dirs o | LFiles | LAllFiles => w_files o | _ => o end.

(* paths / dirs / files / all_paths / all_dirs / all_files *)
Definition listing_op (env : envmap) (m : mfs) (k : listing) (s : list N) : outcome (mres (list (list N))) :=
  match resolve env m s with
  | inr _ => Done (inr EIsNotDir)                                   (* !self.is_dir(path) *)
  | inl p =>
      if negb (is_dir_at m p) then Done (inr EIsNotDir) else
      match walk (m_ents m) (listing_opts k) no_pre p with
      | inr e => Done (inr e)
      | inl (Done evs) =>
          let '(es, err) := oks_until_err (items_of evs) in
          Done (match err with Some e => inr e | None => inl (map (fun e => render_rpath (e_path e)) es) end)
      | inl Panic => Panic
      | inl OutOfFuel => OutOfFuel
      end
  end.

(* ---- chown ---- *)
Record chown_opts := { co_uid : option N; co_gid : option N; co_follow : bool; co_recursive : bool }.

Definition chown_op (env : envmap) (m : mfs) (s : list N) (o : chown_opts) : outcome (mfs * mres unit) :=
  match resolve env m s with
  | inr e => Done (m, inr e)
  | inl p =>
      let wo := w_follow (w_max_depth default_wopts (if co_recursive o then None else Some 0)) (co_follow o) in
      match walk (m_ents m) wo no_pre p with
      | inr e => Done (m, inr e)
      | inl (Done evs) =>
          let '(es, err) := oks_until_err (items_of evs) in
          let m' := fold_left (fun acc e => match m_ents acc !! e_path e with
                                            | Some x => upd_ents acc (insert (e_path e) (set_owner x (co_uid o) (co_gid o)))
                                            | None => acc
                                            end) es m in
          Done (m', match err with Some e => inr e | None => inl tt end)
      | inl Panic => Panic
      | inl OutOfFuel => OutOfFuel
      end
  end.

(* ---- chmod ---- *)
Record chmod_opts := { ch_dirs : N; ch_files : N; ch_follow : bool; ch_recursive : bool; ch_sym : list N }.

Definition kind_of (e : entry) : ekind := {| k_dir := e_dir e; k_file := e_file e; k_link := e_link e |}.

Definition chmod_err_kind (c : chmod_err) : errkind :=
  match c with
  | EChmod => EInvChmod | EChmodTarget => EInvChmodTarget | EChmodGroup => EInvChmodGroup
  | EChmodOp => EInvChmodOp | EChmodPerms => EInvChmodPerms
  end.

Definition mode_for (e : entry) (octal : N) (sym : list N) : mres N :=
  match sym_mode (kind_of e) (e_mode e) octal sym with
  | inl x => inl x
  | inr c => inr (chmod_err_kind c)
  end.

Definition set_mode_at (m : mfs) (p : rpath) (mode : N) : mfs :=
  match m_ents m !! p with
  | Some x => upd_ents m (insert p (set_mode x (Some mode)))
  | None => m
  end.

(* the pre_op closure: compute m1; grant it right away when it does not revoke directory access *)
Definition chmod_pre_check (o : chmod_opts) (x : entry) : option errkind :=
  match mode_for x (ch_dirs o) (ch_sym o) with inl _ => None | inr e => Some e end.

(* a followed link stands for its target: `vfs.entry(x.path()).ok()` on the live state, else the entry itself *)
Definition chmod_target (o : chmod_opts) (m : mfs) (x : entry) : entry :=
  if ch_follow o && e_link x then match m_ents m !! e_path x with Some t => t | None => x end else x.

Definition chmod_pre_apply (o : chmod_opts) (m : mfs) (x0 : entry) : mfs :=
  let x := chmod_target o m x0 in
  match mode_for x (ch_dirs o) (ch_sym o) with
  | inr _ => m
  | inl m1 =>
      if negb (e_link x) && e_dir x && negb (revoking_mode (e_mode x) m1) && negb (N.eqb (e_mode x) m1)
      then set_mode_at m (e_path x) m1 else m
  end.

(* the loop body over yielded entries *)
Definition chmod_item_apply (o : chmod_opts) (m : mfs) (src0 : entry) : mfs * option errkind :=
  let src := chmod_target o m src0 in
  let m2r := if e_dir src then mode_for src (ch_dirs o) (ch_sym o)
             else if e_file src then mode_for src (ch_files o) (ch_sym o)
             else inl 0%N in
  match m2r with
  | inr e => (m, Some e)
  | inl m2 =>
      if negb (e_link src) && negb (N.eqb m2 (e_mode src)) && negb (N.eqb m2 0)
      then (set_mode_at m (e_path src) m2, None) else (m, None)
  end.

Fixpoint chmod_events (o : chmod_opts) (m : mfs) (evs : list event) : mfs * mres unit :=
  match evs with
  | [] => (m, inl tt)
  | EvPre x :: evs' => chmod_events o (chmod_pre_apply o m x) evs'
  | EvItem (IErr w) :: _ => (m, inr (werr_kind w))
  | EvItem (IOk src) :: evs' =>
      match chmod_item_apply o m src with
      | (m', None) => chmod_events o m' evs'
      | (m', Some e) => (m', inr e)
      end
  end.

Definition chmod_op (env : envmap) (m : mfs) (s : list N) (o : chmod_opts) : outcome (mfs * mres unit) :=
  match resolve env m s with                          (* chmod_b: self.abs(path)? *)
  | inr e => Done (m, inr e)
  | inl p =>
      let wo := w_contents_first default_wopts in
      let wo := w_max_depth wo (if ch_recursive o then None else Some 0) in
      let wo := w_dirs_first (w_follow wo (ch_follow o)) in
      match walk (m_ents m) wo (chmod_pre_check o) p with
      | inr e => Done (m, inr e)
      | inl (Done evs) => Done (chmod_events o m evs)
      | inl Panic => Panic
      | inl OutOfFuel => OutOfFuel
      end
  end.

(* ---- copy ---- *)
Record copy_opts := { cp_mode : option N; cp_cdirs : bool; cp_cfiles : bool; cp_follow : bool }.

Definition clone_entry (m : mfs) (p : rpath) : mres entry :=
  match m_ents m !! p with Some e => inl e | None => inr EDoesNotExist end.

(* dst_root.mash(src.path().trim_prefix(prefix)) on the rendered strings *)
Definition copy_dst (dst_root : rpath) (srcp prefix : rpath) : rpath :=
  rp_of_string (mash (render_rpath dst_root) (trim_prefix (render_rpath srcp) (render_rpath prefix))).

Definition orelse {A} (a b : option A) : option A := match a with Some _ => a | None => b end.

(* one iteration of the copy loop *)
Definition copy_one (env : envmap) (o : copy_opts) (dir_mode file_mode : option N) (m : mfs) (dst_path : rpath) (src : entry)
  : mfs * mres unit :=
  if negb (cp_follow o) && e_link src then
    match symlink_op env m (render_rpath dst_path) (match e_alt src with Some a => render_rpath a | None => [] end) with
    | (m', inl _) => (m', inl tt)
    | (m', inr e) => (m', inr e)
    end
  else
    match clone_entry m (e_path src) with
    | inr e => (m, inr e)
    | inl src =>
        if e_dir src then mkdir_m_abs m dst_path (orelse dir_mode (Some (e_mode src)))
        else
          match dst_path with
          | [] => (m, inr EParentNotFound)                      (* dst_path.dir()? *)
          | _ :: ddir =>
              let pre : mfs * mres unit :=
                match m_ents m !! ddir with
                | Some _ => (m, inl tt)
                | None =>
                    match (match dir_mode with
                           | Some x => inl (Some x)
                           | None => match e_path src with
                                     | [] => inr EParentNotFound
                                     | _ :: sdir => match clone_entry m sdir with inl pe => inl (Some (e_mode pe)) | inr e => inr e end
                                     end
                           end) with
                    | inr e => (m, inr e)
                    | inl md => mkdir_m_abs m ddir md
                    end
                end in
              match pre with
              | (m1, inr e) => (m1, inr e)
              | (m1, inl _) =>
                  let dst := set_mode (set_path src dst_path) (orelse file_mode (Some (e_mode src))) in
                  match add m1 dst with
                  | (m2, inr e) => (m2, inr e)
                  | (m2a, inl _) =>
                      (* an existing destination keeps its entry; a requested mode still applies to it *)
                      let m2 := match file_mode with Some md => set_mode_at m2a dst_path md | None => m2a end in
                      if negb (e_link src) then
                        (* _clone_file(src.path()) then insert_file(dst_path, ..) *)
                        if negb (e_file src) then (m2, inr EIsNotFile) else
                        match m_data m2 !! e_path src with
                        | Some d => (upd_data m2 (insert dst_path d), inl tt)
                        | None => (m2, inr EDoesNotExist)
                        end
                      else (m2, inl tt)
                  end
              end
          end
    end.

Fixpoint copy_loop (env : envmap) (o : copy_opts) (dir_mode file_mode : option N) (copy_into : bool)
    (dst_root src_rootp : rpath) (m : mfs) (is : list item) : mfs * mres unit :=
  match is with
  | [] => (m, inl tt)
  | IErr w :: _ => (m, inr (werr_kind w))
  | IOk src :: is' =>
      match (if copy_into then match src_rootp with [] => inr EParentNotFound | _ :: d => inl d end else inl src_rootp) with
      | inr e => (m, inr e)
      | inl prefix =>
          let dst_path := copy_dst dst_root (e_path src) prefix in
          (* copying into the directory the source is already in resolves to the source itself *)
          if bool_decide (dst_path = e_path src) then copy_loop env o dir_mode file_mode copy_into dst_root src_rootp m is' else
          match copy_one env o dir_mode file_mode m dst_path src with
          | (m', inl _) => copy_loop env o dir_mode file_mode copy_into dst_root src_rootp m' is'
          | (m', inr e) => (m', inr e)
          end
      end
  end.

Definition copy_op (env : envmap) (m : mfs) (src dst : list N) (o : copy_opts) : outcome (mfs * mres unit) :=
  match resolve env m src with
  | inr e => Done (m, inr e)
  | inl sp =>
      match resolve env m dst with
      | inr e => Done (m, inr e)
      | inl dp =>
          if bool_decide (sp = dp) then Done (m, inl tt) else
          let dir_mode := match cp_mode o with Some x => if cp_cdirs o || negb (cp_cfiles o) then Some x else None | None => None end in
          let file_mode := match cp_mode o with Some x => if cp_cfiles o || negb (cp_cdirs o) then Some x else None | None => None end in
          let copy_into := is_dir_at m dp in
          match clone_entry m sp with
          | inr e => Done (m, inr e)
          | inl re =>
              let re := if cp_follow o then follow_e re else re in
              match walk (m_ents m) (w_follow default_wopts (cp_follow o)) no_pre (e_path re) with
              | inr e => Done (m, inr e)
              | inl (Done evs) => Done (copy_loop env o dir_mode file_mode copy_into dp (e_path re) m (items_of evs))
              | inl Panic => Panic
              | inl OutOfFuel => OutOfFuel
              end
          end
      end
  end.

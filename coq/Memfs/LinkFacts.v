(* Memfs/LinkFacts.v — symlinks at the level of the three indexes (C10, C11): what symlink() stores, and that remove, chown
   and chmod without follow act on the link itself and never on its target. *)
From stdpp Require Import gmap.
From Coq Require Import NArith.
From RV Require Import Base.Str Base.PathLex Path.Relative Path.Helpers Path.Expand Memfs.State Memfs.Ops Memfs.Walk Memfs.WalkOps Memfs.WalkFacts
  Memfs.WalkSpec Memfs.WalkTerm Memfs.WalkExact Memfs.Wf Memfs.WfMove Memfs.ChmodFacts.

(* where a link's target is taken from: absolute as given, relative from the link's directory *)
Definition link_target (lp : rpath) (target : list N) : list N :=
  if is_absolute target then target else mash (render_rpath (tail lp)) target.

Lemma add_new_lookup m e b d m' r : e_path e = b :: d → m_ents m !! (b :: d) = None → add m e = (m', inl r) →
  r = b :: d ∧ m_ents m' !! (b :: d) = Some e ∧ m_cwd m' = m_cwd m.
Proof.
  intros Hp Hx. unfold add. rewrite Hp. destruct (m_ents m !! d) as [pe|] eqn:Hpe; [|intros H; by simplify_eq].
  destruct (negb (e_dir pe) || e_link pe); [intros H; by simplify_eq|]. rewrite Hx.
  set (m1 := if negb (e_link e) && e_file e then _ else m).
  assert (Hm1e : m_ents m1 = m_ents m) by (unfold m1; by destruct (_ && _)).
  assert (Hm1c : m_cwd m1 = m_cwd m) by (unfold m1; by destruct (_ && _)).
  assert (Hne : d ≠ b :: d) by (intros E; apply (f_equal length) in E; cbn in E; lia).
  cbn [upd_ents m_ents]. rewrite lookup_insert_ne by done. rewrite Hm1e, Hpe.
  destruct (entry_add pe b) as [parent' fresh]. destruct fresh; intros H; simplify_eq.
  split; [done|]. cbn [upd_ents m_ents m_cwd]. rewrite lookup_insert_ne by done. by rewrite lookup_insert.
Qed.

(* symlink() records its target faithfully: the entry stored under the link path is a link whose absolute target is the
   resolved target, whose relative form is relative(target, dir(link)), and whose kind is the kind the target has now *)
Theorem symlink_records env m l t m' lp : symlink_op env m l t = (m', inl lp) →
  resolve env m l = inl lp ∧ ∃ tp, resolve env m (link_target lp t) = inl tp ∧
    m_ents m' !! lp = Some (new_link lp tp (match m_ents m !! tp with Some x => e_dir x | None => false end)) ∧
    m_cwd m' = m_cwd m.
Proof.
  unfold symlink_op, link_target. destruct (resolve env m l) as [lp0|e] eqn:Hl; [|intros H; by simplify_eq].
  destruct lp0 as [|b d].
  - (* the root *)
    destruct (is_absolute t); [|intros H; by simplify_eq].
    destruct (resolve env m t) as [tp|e]; [|intros H; by simplify_eq].
    case_bool_decide; intros H0; by simplify_eq.
  - cbn [tail].
    assert (Hgen : ∀ t0, (match resolve env m t0 with
              | inl tp => if bool_decide (is_Some (m_ents m !! (b :: d))) then (m, inr EExistsAlready)
                          else add m (new_link (b :: d) tp (match m_ents m !! tp with Some x => e_dir x | None => false end))
              | inr e => (m, inr e) end = (m', inl lp)) →
              b :: d = lp ∧ ∃ tp, resolve env m t0 = inl tp ∧
                m_ents m' !! lp = Some (new_link lp tp (match m_ents m !! tp with Some x => e_dir x | None => false end)) ∧ m_cwd m' = m_cwd m).
    { intros t0. destruct (resolve env m t0) as [tp|e]; [|intros H; by simplify_eq].
      case_bool_decide as Hex; [intros H; by simplify_eq|].
      assert (Hx : m_ents m !! (b :: d) = None) by (destruct (m_ents m !! (b :: d)) eqn:E; [exfalso; apply Hex; eauto|done]).
      intros H. destruct (add_new_lookup m (new_link (b :: d) tp (match m_ents m !! tp with Some x => e_dir x | None => false end)) b d m' lp eq_refl Hx H) as (-> & Hlk & Hc).
      split; [done|]. exists tp. done. }
    destruct (is_absolute t); intros H; destruct (Hgen _ H) as [<- Hr]; (split; [done|exact Hr]).
Qed.

(* what the queries then say about the link *)
Corollary new_link_queries lp tp td :
  let e := new_link lp tp td in
  e_link e = true ∧ e_alt e = Some tp ∧ e_rel e = relative (render_rpath tp) (render_rpath (tail lp)) ∧
  e_dir e = td ∧ e_file e = negb td ∧ e_path e = lp.
Proof. done. Qed.

(* ---- chown without follow ---- *)
Lemma default_nofollow_selected mx d x : selected (w_follow (w_max_depth default_wopts mx) false) d x = true.
Proof. done. Qed.

Theorem chown_nofollow env m s o p r : WF m → co_follow o = false → resolve env m s = inl p → m_ents m !! p = Some r →
  ∃ m', chown_op env m s o = Done (m', inl tt) ∧
    (∀ q, m_ents m' !! q = if bool_decide (p `suffix_of` q ∧ (co_recursive o = true ∨ q = p))
                           then (fun x => set_owner x (co_uid o) (co_gid o)) <$> (m_ents m !! q) else m_ents m !! q) ∧
    m_data m' = m_data m ∧ m_cwd m' = m_cwd m ∧ m_root m' = m_root m.
Proof.
  intros HW Hnf Hres Hr.
  set (wo := w_follow (w_max_depth default_wopts (if co_recursive o then None else Some 0)) (co_follow o)).
  destruct (walk_exact m wo no_pre p r HW Hnf ltac:(done) Hr) as (evs & Hw & Hit & Hiff & Hnd).
  assert (Hop : ∃ m', chown_op env m s o = Done (m', inl tt)).
  { unfold chown_op. rewrite Hres. fold wo. rewrite Hw, Hit, oks_until_err_oks. eauto. }
  destruct Hop as [m' Hop]. exists m'. split; [done|].
  destruct (chown_exact env m s o m' Hop) as (p' & evs' & es & Hres' & Hw' & Hes & Hlk & Hrest).
  rewrite Hres in Hres'. injection Hres' as <-. fold wo in Hw'. rewrite Hw in Hw'. injection Hw' as <-.
  rewrite Hit, oks_until_err_oks in Hes. injection Hes as <-. split; [|done].
  intros q. rewrite Hlk. destruct (m_ents m !! q) as [x|] eqn:Hq; [|by repeat case_bool_decide].
  assert (Heq : q ∈ map e_path (oks evs) ↔ p `suffix_of` q ∧ (co_recursive o = true ∨ q = p)).
  { split.
    - intros (x' & -> & Hx')%elem_of_list_fmap. apply Hiff in Hx' as (q' & Hq' & Hs & _ & Hmax).
      rewrite (wf_key m HW _ _ Hq'). split; [done|]. subst wo. rewrite Hnf in Hmax.
      destruct (co_recursive o); [by left|right]. cbn in Hmax. apply Nat.leb_le in Hmax.
      destruct Hs as [j ->]. rewrite app_length in Hmax. destruct j; [done|cbn in Hmax; lia].
    - intros [Hs Hc]. apply elem_of_list_fmap. exists x. split; [by rewrite (wf_key m HW _ _ Hq)|].
      apply Hiff. exists q. split; [done|]. split; [done|]. subst wo. rewrite Hnf. split; [done|].
      destruct (co_recursive o); [done|]. destruct Hc as [Hc|Hc]; [done|]. subst q. cbn. rewrite Nat.sub_diag. done. }
  repeat case_bool_decide; tauto.
Qed.

(* a link has nothing below it *)
Lemma link_leaf m p e : WF m → m_ents m !! p = Some e → e_link e = true → ∀ q, p `suffix_of` q → q ≠ p → m_ents m !! q = None.
Proof.
  intros HW He Hl. apply nothing_under; [done|]. intros y Hy. rewrite He in Hy. injection Hy as <-. by apply (wf_lnk m HW p).
Qed.

(* chown without follow on a link changes the link and nothing else - in particular not its target *)
Theorem chown_link_only env m s o p r : WF m → co_follow o = false → resolve env m s = inl p → m_ents m !! p = Some r → e_link r = true →
  ∃ m', chown_op env m s o = Done (m', inl tt) ∧ m_ents m' !! p = Some (set_owner r (co_uid o) (co_gid o)) ∧
        (∀ q, q ≠ p → m_ents m' !! q = m_ents m !! q) ∧ m_data m' = m_data m.
Proof.
  intros HW Hnf Hres Hr Hl. destruct (chown_nofollow env m s o p r HW Hnf Hres Hr) as (m' & Hop & Hlk & Hd & _).
  exists m'. split; [done|]. split; [|split; [|done]].
  - rewrite Hlk. rewrite bool_decide_true by (split; [done|by right]). by rewrite Hr.
  - intros q Hne. rewrite Hlk. case_bool_decide as Hc; [|done]. destruct Hc as [Hs _].
    by rewrite (link_leaf m p r HW Hr Hl q Hs Hne).
Qed.

(* ---- a traversal that does not follow links stops at a link ---- *)
Lemma walk_link_nofollow m o pre p r : WF m → o_follow o = false → m_ents m !! p = Some r → e_link r = true →
  walk (m_ents m) o pre p = inl (Done (if selected o 0 r then [EvItem (IOk r)] else [])).
Proof.
  intros HW Hnf Hr Hl. destruct (walk_nofollow (m_ents m) o pre p r (wf_key_ok m HW) Hnf Hr) as (h & evs & Hsw & ->).
  do 2 f_equal. unfold sw_walk in Hsw. rewrite Hnf in Hsw. destruct h as [|h]; [done|].
  rewrite sw_S in Hsw. cbn zeta in Hsw. rewrite (loops_nofollow o [] r Hnf), (enters_nofollow o r Hnf), Hl in Hsw.
  rewrite andb_false_r in Hsw. cbn [andb length] in Hsw. by injection Hsw as <-.
Qed.

(* chmod without follow on a link changes nothing at all *)
Theorem chmod_link_nofollow env m s o p r : WF m → ch_follow o = false → resolve env m s = inl p → m_ents m !! p = Some r → e_link r = true →
  ∃ res, chmod_op env m s o = Done (m, res).
Proof.
  intros HW Hnf Hres Hr Hl. unfold chmod_op. rewrite Hres.
  set (wo := w_dirs_first _).
  rewrite (walk_link_nofollow m wo (chmod_pre_check o) p r HW Hnf Hr Hl).
  destruct (selected _ 0 r); cbn [chmod_events]; [|eauto].
  unfold chmod_item_apply, chmod_target. rewrite Hnf. cbn [andb]. rewrite Hl. cbn [negb andb].
  destruct (if e_dir r then _ else _); eauto.
Qed.

(* remove on a link removes the link: its entry goes, its parent no longer lists it, everything else - the target
   included - is untouched *)
Theorem remove_link_only env m s p r : WF m → resolve env m s = inl p → m_ents m !! p = Some r → e_link r = true →
  ∃ m' b d pe, p = b :: d ∧ m_ents m !! d = Some pe ∧ remove_op env m s = (m', inl tt) ∧
    m_ents m' !! p = None ∧ m_ents m' !! d = Some (entry_remove pe b) ∧
    (∀ q, q ≠ p → q ≠ d → m_ents m' !! q = m_ents m !! q) ∧ (∀ q, q ≠ p → m_data m' !! q = m_data m !! q) ∧ m_cwd m' = m_cwd m.
Proof.
  intros HW Hres Hr Hl. unfold remove_op. rewrite Hres, Hr.
  rewrite bool_decide_true by eauto. cbn [negb].
  pose proof (wf_lnk m HW p r Hr Hl) as Hfs. unfold files_of in Hfs.
  assert (Hne : (match e_files r with Some fs => negb (bool_decide (fs = ∅)) | None => false end) = false).
  { destruct (e_files r) as [fs|]; [|done]. cbn in Hfs. subst fs. by rewrite bool_decide_true. }
  rewrite Hne. destruct p as [|b d].
  - exfalso. destruct (wf_root m HW) as (r0 & Hr0 & _ & Hnl). rewrite Hr in Hr0. injection Hr0 as <-. congruence.
  - destruct (wf_par m HW _ _ _ Hr) as (pe & Hpe & [Hpd _] & _). rewrite Hpe, Hpd.
    assert (Hdne : d ≠ b :: d) by (intros E; apply (f_equal length) in E; cbn in E; lia).
    cbn [upd_ents m_ents]. rewrite lookup_insert_ne by done. rewrite Hr.
    eexists _, b, d, pe. split; [done|]. split; [done|]. split; [done|].
    destruct (e_file r); cbn [upd_ents upd_data m_ents m_data m_cwd].
    all: split; [by rewrite lookup_delete|].
    all: split; [rewrite lookup_delete_ne by done; by rewrite lookup_insert|].
    all: split; [intros q H1 H2; rewrite lookup_delete_ne by done; by rewrite lookup_insert_ne|].
    all: split; [|done].
    + intros q H1. by rewrite lookup_delete_ne.
    + done.
Qed.

(* ---- the calls a user makes right after symlink(link, target) ---- *)
From RV Require Import Memfs.Step.

Lemma resolve_same_cwd env m m' s : m_cwd m' = m_cwd m → resolve env m' s = resolve env m s.
Proof. unfold resolve. by intros ->. Qed.

Theorem symlink_then_queries env m l t m' lp : symlink_op env m l t = (m', inl lp) →
  ∃ tp, resolve env m (link_target lp t) = inl tp ∧
    step env m' (OReadlinkAbs l) = Done (m', inl (VPath (render_rpath tp))) ∧
    step env m' (OReadlink l) = Done (m', inl (VPath (relative (render_rpath tp) (render_rpath (tail lp))))) ∧
    step env m' (OIsSymlink l) = Done (m', inl (VBool true)) ∧
    step env m' (OIsFile l) = Done (m', inl (VBool false)) ∧
    step env m' (OIsDir l) = Done (m', inl (VBool false)) ∧
    step env m' (OIsSymlinkDir l) = Done (m', inl (VBool (match m_ents m !! tp with Some x => e_dir x | None => false end))) ∧
    step env m' (OIsSymlinkFile l) = Done (m', inl (VBool (negb (match m_ents m !! tp with Some x => e_dir x | None => false end)))).
Proof.
  intros H. destruct (symlink_records env m l t m' lp H) as (Hl & tp & Ht & Hlk & Hc).
  exists tp. split; [done|]. cbn [step]. unfold query_entry, query_bool. rewrite !(resolve_same_cwd env m m' l Hc), Hl, Hlk.
  cbn. by destruct (match m_ents m !! tp with Some x => e_dir x | None => false end).
Qed.

(* ---- chmod of a single entry (no recursion, no follow) ---- *)
Lemma walk_single_nofollow m o pre p r : WF m → o_follow o = false → o_max o = Some 0 → m_ents m !! p = Some r →
  walk (m_ents m) o pre p = inl (Done (if selected o 0 r then [EvItem (IOk r)] else [])).
Proof.
  intros HW Hnf Hmax Hr. destruct (walk_nofollow (m_ents m) o pre p r (wf_key_ok m HW) Hnf Hr) as (h & evs & Hsw & ->).
  do 2 f_equal. unfold sw_walk in Hsw. rewrite Hnf in Hsw. destruct h as [|h]; [done|].
  rewrite sw_S in Hsw. cbn zeta in Hsw. rewrite (loops_nofollow o [] r Hnf), Hmax in Hsw.
  cbn [length lt_max] in Hsw. rewrite andb_false_r in Hsw. by injection Hsw as <-.
Qed.

(* chmod(path, ..) without recursion and without follow is exactly one application of the per-entry rule to the entry
   stored under the path *)
Theorem chmod_single env m s o p r : WF m → ch_follow o = false → ch_recursive o = false →
  resolve env m s = inl p → m_ents m !! p = Some r →
  chmod_op env m s o = Done (let '(m', e) := chmod_item_apply o m r in (m', match e with None => inl tt | Some e => inr e end)).
Proof.
  intros HW Hnf Hnr Hres Hr. unfold chmod_op. rewrite Hres, Hnr. set (wo := w_dirs_first _).
  rewrite (walk_single_nofollow m wo (chmod_pre_check o) p r HW Hnf eq_refl Hr).
  change (selected wo 0 r) with true. cbn [chmod_events]. by destruct (chmod_item_apply o m r) as [m' [e|]].
Qed.

(* ... which, when the grammar yields a value v for the entry's kind, v is not 0 (KF-C11-octal-zero) and differs from the
   current mode, stores exactly v (with the kind's type bits) under the path and changes nothing else; a link is left alone *)
Theorem chmod_single_value env m s o p r v : WF m → ch_follow o = false → ch_recursive o = false →
  resolve env m s = inl p → m_ents m !! p = Some r → e_link r = false →
  (if e_dir r then mode_for r (ch_dirs o) (ch_sym o) else if e_file r then mode_for r (ch_files o) (ch_sym o) else inl 0%N) = inl v →
  v ≠ e_mode r → v ≠ 0%N →
  ∃ m', chmod_op env m s o = Done (m', inl tt) ∧ m_ents m' !! p = Some (set_mode r (Some v)) ∧
        (∀ q, q ≠ p → m_ents m' !! q = m_ents m !! q) ∧ m_data m' = m_data m ∧ m_cwd m' = m_cwd m.
Proof.
  intros HW Hnf Hnr Hres Hr Hl Hv Hne H0. rewrite (chmod_single env m s o p r HW Hnf Hnr Hres Hr).
  unfold chmod_item_apply, chmod_target. rewrite Hnf. cbn [andb]. rewrite Hv, Hl. cbn [negb andb].
  rewrite (proj2 (N.eqb_neq v (e_mode r)) Hne), (proj2 (N.eqb_neq v 0) H0). cbn [negb andb].
  rewrite (wf_key m HW _ _ Hr). unfold set_mode_at. rewrite Hr. eexists. split; [done|]. cbn [upd_ents m_ents m_data m_cwd].
  split; [by rewrite lookup_insert|]. split; [|done]. intros q Hq. by rewrite lookup_insert_ne.
Qed.

(* Memfs/ContentHistory.v — any sequence of content calls on one regular file behaves like a byte vector (C06): after any
   history of write_all / write_lines / append_all / append_line / append_lines on the file, every call succeeded and the
   stored content is what the byte-vector model holds; no other file's content changed. *)
From stdpp Require Import gmap.
From Coq Require Import NArith.
From RV Require Import Base.Str Base.Utf8 Path.Helpers Path.Expand Memfs.State Memfs.Ops Memfs.Step Memfs.Wf Memfs.WfMore Memfs.ContentFacts.

(* the byte-vector model of one content call *)
Definition bv_step (cur : list N) (o : op) : list N :=
  match o with
  | OWriteAll _ d => d
  | OWriteLines _ ls => match nl_join ls with [] => cur | d => d ++ [10%N] end
  | OAppendAll _ d => cur ++ d
  | OAppendLine _ l => match l with [] => cur | _ => cur ++ (l ++ [10%N]) end
  | OAppendLines _ ls => match nl_join ls with [] => cur | d => cur ++ (d ++ [10%N]) end
  | _ => cur
  end.

Definition content_call (s : list N) (o : op) : Prop :=
  (∃ d, o = OWriteAll s d) ∨ (∃ ls, o = OWriteLines s ls) ∨ (∃ d, o = OAppendAll s d) ∨ (∃ l, o = OAppendLine s l) ∨ (∃ ls, o = OAppendLines s ls).

Section OneFile.
Variables (env : envmap) (s : list N) (p : rpath) (f : entry).
Hypothesis Hff : e_file f = true.
Hypothesis Hfl : e_link f = false.
Hypothesis Hfd : e_dir f = false.

Definition holds (m : mfs) (cur : list N) : Prop :=
  WF m ∧ resolve env m s = inl p ∧ m_ents m !! p = Some f ∧ m_data m !! p = Some cur.

Lemma add_existing_file m cur : holds m cur → add m (new_file p) = (m, inl p).
Proof.
  intros (HW & Hs & Hf & Hd). unfold add. change (e_path (new_file p)) with p. destruct p as [|b dir].
  - destruct (wf_root m HW) as (r & Hr & [Hrd _]). rewrite Hf in Hr. injection Hr as <-. congruence.
  - destruct (wf_par m HW _ _ _ Hf) as (pe & Hpe & [Hpd Hpl] & _). rewrite Hpe, Hpd, Hpl. cbn [negb orb]. rewrite Hf.
    change (e_file (new_file (b :: dir))) with true. change (e_link (new_file (b :: dir))) with false. change (e_dir (new_file (b :: dir))) with false.
    rewrite Hff, Hfl. done.
Qed.

Lemma write_existing m cur d : holds m cur → write_all_op env m s d = (upd_data m (insert p d), inl tt) ∧ holds (upd_data m (insert p d)) d.
Proof.
  intros H. pose proof H as (HW & Hs & Hf & Hd). unfold write_all_op. rewrite Hs, (add_existing_file m cur H), Hd. split; [done|].
  split; [|split; [done|split; [done|cbn; by rewrite lookup_insert]]]. apply data_set_wf; [done|eauto].
Qed.

Lemma append_existing' m cur d : holds m cur → append_all_op env m s d = (upd_data m (insert p (cur ++ d)), inl tt) ∧ holds (upd_data m (insert p (cur ++ d))) (cur ++ d).
Proof.
  intros H. pose proof H as (HW & Hs & Hf & Hd). unfold append_all_op. rewrite Hs, (add_existing_file m cur H), Hd. split; [done|].
  split; [|split; [done|split; [done|cbn; by rewrite lookup_insert]]]. apply data_set_wf; [done|eauto].
Qed.

(* one call: it succeeds, the content follows the model, every other file's content is untouched *)
Lemma content_step m cur o : holds m cur → content_call s o →
  ∃ m' v, step env m o = Done (m', inl v) ∧ holds m' (bv_step cur o) ∧ (∀ q, q ≠ p → m_data m' !! q = m_data m !! q).
Proof.
  intros H [[d ->]|[[ls ->]|[[d ->]|[[l ->]|[ls ->]]]]]; cbn [step bv_step].
  - destruct (write_existing m cur d H) as [-> H']. eexists _, _. split; [done|]. split; [done|]. intros q Hq. cbn. by rewrite lookup_insert_ne.
  - destruct (nl_join ls) as [|c d0] eqn:E; [eexists _, _; split; [done|]; split; [done|done]|].
    destruct (write_existing m cur ((c :: d0) ++ [10%N]) H) as [-> H']. eexists _, _. split; [done|]. split; [done|]. intros q Hq. cbn. by rewrite lookup_insert_ne.
  - destruct (append_existing' m cur d H) as [-> H']. eexists _, _. split; [done|]. split; [done|]. intros q Hq. cbn. by rewrite lookup_insert_ne.
  - destruct l as [|c l0]; [eexists _, _; split; [done|]; split; [done|done]|].
    destruct (append_existing' m cur ((c :: l0) ++ [10%N]) H) as [-> H']. eexists _, _. split; [done|]. split; [done|]. intros q Hq. cbn. by rewrite lookup_insert_ne.
  - destruct (nl_join ls) as [|c d0] eqn:E; [eexists _, _; split; [done|]; split; [done|done]|].
    destruct (append_existing' m cur ((c :: d0) ++ [10%N]) H) as [-> H']. eexists _, _. split; [done|]. split; [done|]. intros q Hq. cbn. by rewrite lookup_insert_ne.
Qed.

(* any history of content calls on the file *)
Theorem content_history os : ∀ m cur, holds m cur → Forall (content_call s) os →
  ∃ m', run_ops env m os = Some m' ∧ holds m' (fold_left bv_step os cur) ∧ (∀ q, q ≠ p → m_data m' !! q = m_data m !! q).
Proof.
  induction os as [|o os IH]; intros m cur H Hall; [exists m; done|].
  apply Forall_cons in Hall as [Ho Hall]. destruct (content_step m cur o H Ho) as (m1 & v & Hs & H1 & Hfr).
  destruct (IH m1 (bv_step cur o) H1 Hall) as (m' & Hr & H' & Hfr'). exists m'. cbn [run_ops fold_left]. rewrite Hs. split; [done|]. split; [done|].
  intros q Hq. rewrite Hfr', Hfr; done.
Qed.

(* ... and read_all then returns exactly the model's bytes *)
Theorem content_history_read os m cur : holds m cur → Forall (content_call s) os →
  ∃ m', run_ops env m os = Some m' ∧ clone_file env m' s = inl (fold_left bv_step os cur).
Proof.
  intros H Hall. destruct (content_history os m cur H Hall) as (m' & Hr & (HW' & Hs' & Hf' & Hd') & _). exists m'. split; [done|].
  unfold clone_file. by rewrite Hs', Hf', Hff, Hd'.
Qed.
End OneFile.

(* Memfs/CopyFacts.v — copy only ever adds (C09): whatever it returns, every entry that existed before the call still
   exists afterwards under the same path with the same kind, link target, owner and (unless a chmod option was given) mode,
   directories list at least the names they listed, no file loses its content index, and cwd / root stay. In particular
   the source of a copy is never removed, re-kinded or re-targeted, and neither is anything else. *)
From stdpp Require Import gmap.
From Coq Require Import NArith.
From RV Require Import Base.Str Path.Helpers Path.Expand Memfs.State Memfs.Ops Memfs.Walk Memfs.WalkOps Memfs.Wf Memfs.WfMore.

Definition keep (km : bool) (e e' : entry) : Prop :=
  e_path e' = e_path e ∧ e_alt e' = e_alt e ∧ e_rel e' = e_rel e ∧ e_dir e' = e_dir e ∧ e_file e' = e_file e ∧
  e_link e' = e_link e ∧ e_uid e' = e_uid e ∧ e_gid e' = e_gid e ∧ e_follow e' = e_follow e ∧
  files_of e ⊆ files_of e' ∧ (km = true → e_mode e' = e_mode e).

Definition grows (km : bool) (m m' : mfs) : Prop :=
  (∀ q e, m_ents m !! q = Some e → ∃ e', m_ents m' !! q = Some e' ∧ keep km e e') ∧
  (∀ q, is_Some (m_data m !! q) → is_Some (m_data m' !! q)) ∧ m_cwd m' = m_cwd m ∧ m_root m' = m_root m.

Lemma keep_refl km e : keep km e e.
Proof. by repeat split. Qed.
Lemma keep_trans km a b c : keep km a b → keep km b c → keep km a c.
Proof.
  intros (A1&A2&A3&A4&A5&A6&A7&A8&A9&A10&A11) (B1&B2&B3&B4&B5&B6&B7&B8&B9&B10&B11).
  repeat split; try congruence; [set_solver|]. intros H. rewrite (B11 H). by apply A11.
Qed.
Lemma keep_weaken km e e' : keep true e e' → keep km e e'.
Proof. intros (A1&A2&A3&A4&A5&A6&A7&A8&A9&A10&A11). repeat split; try done. intros _. by apply A11. Qed.

Lemma grows_refl km m : grows km m m.
Proof. split; [|done]. intros q e He. exists e. split; [done|apply keep_refl]. Qed.
Lemma grows_trans km m1 m2 m3 : grows km m1 m2 → grows km m2 m3 → grows km m1 m3.
Proof.
  intros (A & Ad & Ac & Ar) (B & Bd & Bc & Br). split; [|split; [|split; congruence]].
  - intros q e He. destruct (A q e He) as (e2 & He2 & K1). destruct (B q e2 He2) as (e3 & He3 & K2). exists e3. split; [done|by eapply keep_trans].
  - intros q H. by apply Bd, Ad.
Qed.
Lemma grows_weaken km m m' : grows true m m' → grows km m m'.
Proof. intros (A & R). split; [|done]. intros q e He. destruct (A q e He) as (e' & ? & ?). exists e'. split; [done|by apply keep_weaken]. Qed.

Lemma keep_entry_add e n : keep true e (entry_add e n).1.
Proof.
  unfold entry_add, keep, files_of. destruct (e_files e) as [fs|] eqn:E; cbn [fst set_files e_path e_alt e_rel e_dir e_file e_link e_uid e_gid e_follow e_files e_mode default];
    (split_and!; try done; set_solver).
Qed.

Lemma add_grows m e : grows true m (add m e).1.
Proof.
  unfold add. destruct (e_path e) as [|b d] eqn:Hp; [destruct (e_file e); apply grows_refl|].
  destruct (m_ents m !! d) as [pe|] eqn:Hpe; [|apply grows_refl].
  destruct (negb (e_dir pe) || e_link pe); [apply grows_refl|].
  destruct (m_ents m !! (b :: d)) as [x|] eqn:Hx.
  - repeat case_match; apply grows_refl.
  - set (m1 := if negb (e_link e) && e_file e then _ else m).
    assert (Hm1e : m_ents m1 = m_ents m) by (unfold m1; by destruct (_ && _)).
    assert (Hne : d ≠ b :: d) by (intros E; apply (f_equal length) in E; cbn in E; lia).
    cbn [upd_ents m_ents]. rewrite lookup_insert_ne by done. rewrite Hm1e, Hpe.
    pose proof (keep_entry_add pe b) as Hk. destruct (entry_add pe b) as [pe' fr]. cbn [fst] in Hk.
    assert (G : grows true m (upd_ents (upd_ents m1 (insert (b :: d) e)) (insert d pe'))).
    { split; [|split].
      - intros q y Hy. cbn [upd_ents m_ents]. destruct (decide (q = d)) as [->|Hqd].
        + rewrite lookup_insert. rewrite Hpe in Hy. injection Hy as <-. eauto.
        + rewrite lookup_insert_ne by done. destruct (decide (q = b :: d)) as [->|Hqp]; [congruence|].
          rewrite lookup_insert_ne by done. rewrite Hm1e. exists y. split; [done|apply keep_refl].
      - intros q Hq. cbn [upd_ents m_data]. unfold m1. destruct (_ && _); [|done]. cbn [upd_data m_data].
        destruct (decide (q = b :: d)) as [->|]; [rewrite lookup_insert; eauto|by rewrite lookup_insert_ne].
      - unfold m1. by destruct (_ && _). }
    by destruct fr.
Qed.

Lemma mkdir_loop_grows ps : ∀ m mode, grows true m (mkdir_loop m ps mode).1.
Proof.
  induction ps as [|p ps IH]; intros m mode; cbn [mkdir_loop]; [apply grows_refl|].
  pose proof (add_grows m (new_dir p mode)) as G. destruct (add m (new_dir p mode)) as [m' [r|e]]; cbn [fst] in *; [|done].
  eapply grows_trans; [exact G|apply IH].
Qed.
Lemma mkdir_m_abs_grows m p mode : grows true m (mkdir_m_abs m p mode).1.
Proof.
  unfold mkdir_m_abs. pose proof (add_grows m (new_dir [] mode)) as G. destruct (add m (new_dir [] mode)) as [m' [r|e]]; cbn [fst] in *; [|done].
  eapply grows_trans; [exact G|apply mkdir_loop_grows].
Qed.
Lemma symlink_grows env m l t : grows true m (symlink_op env m l t).1.
Proof.
  unfold symlink_op. repeat case_match; try apply grows_refl; apply add_grows.
Qed.

Lemma set_mode_at_grows m p md : grows false m (set_mode_at m p md).
Proof.
  unfold set_mode_at. destruct (m_ents m !! p) as [x|] eqn:Hx; [|apply grows_refl]. split; [|done].
  intros q e He. cbn [upd_ents m_ents]. destruct (decide (q = p)) as [->|Hne].
  - rewrite lookup_insert. rewrite Hx in He. injection He as <-. eexists. split; [done|]. by repeat split.
  - rewrite lookup_insert_ne by done. exists e. split; [done|apply keep_refl].
Qed.

Lemma data_insert_grows km m p d : grows km m (upd_data m (insert p d)).
Proof.
  split; [|split; [|done]].
  - intros q e He. exists e. split; [done|apply keep_refl].
  - intros q Hq. cbn [upd_data m_data]. destruct (decide (q = p)) as [->|]; [rewrite lookup_insert; eauto|by rewrite lookup_insert_ne].
Qed.

Definition km_of (dm fm : option N) : bool := match dm, fm with None, None => true | _, _ => false end.

Lemma copy_file_rest_grows dm fm dst s m1 : grows (km_of dm fm) m1 (copy_file_rest fm dst s m1).1.
Proof.
  unfold copy_file_rest. set (d := set_mode _ _). pose proof (add_grows m1 d) as Ga.
  destruct (add m1 d) as [m2a [r|e]]; cbn [fst] in *; [|by apply grows_weaken].
  assert (G2 : grows (km_of dm fm) m1 (match fm with Some md => set_mode_at m2a dst md | None => m2a end)).
  { destruct fm as [md|].
    - assert (km_of dm (Some md) = false) as -> by (by destruct dm).
      eapply grows_trans; [apply grows_weaken, Ga|apply set_mode_at_grows].
    - by apply grows_weaken. }
  destruct (negb (e_link s)); [|exact G2]. destruct (negb (e_file s)); [exact G2|].
  destruct (m_data _ !! e_path s); [|exact G2]. cbn [fst]. eapply grows_trans; [exact G2|apply data_insert_grows].
Qed.

Lemma copy_one_grows env o dm fm m dst src : grows (km_of dm fm) m (copy_one env o dm fm m dst src).1.
Proof.
  unfold copy_one. destruct (negb (cp_follow o) && e_link src).
  - pose proof (symlink_grows env m (render_rpath dst) (match e_alt src with Some a => render_rpath a | None => [] end)) as G.
    destruct (symlink_op _ _ _ _) as [m' [r|e]]; cbn [fst] in *; by apply grows_weaken.
  - destruct (clone_entry m (e_path src)) as [s|e]; [|apply grows_refl].
    destruct (e_dir s); [apply grows_weaken, mkdir_m_abs_grows|].
    destruct dst as [|db ddir]; [apply grows_refl|].
    destruct (m_ents m !! ddir) as [pd|].
    + exact (copy_file_rest_grows dm fm (db :: ddir) s m).
    + destruct dm as [x|].
      * pose proof (mkdir_m_abs_grows m ddir (Some x)) as G.
        destruct (mkdir_m_abs m ddir (Some x)) as [m1 [u|e]]; cbn [fst] in *; [|by apply grows_weaken].
        eapply grows_trans; [apply grows_weaken, G|]. exact (copy_file_rest_grows (Some x) fm (db :: ddir) s m1).
      * destruct (e_path s) as [|sb sdir] eqn:Hps; [apply grows_refl|].
        destruct (clone_entry m sdir) as [pe|e]; [|apply grows_refl].
        pose proof (mkdir_m_abs_grows m ddir (Some (e_mode pe))) as G.
        destruct (mkdir_m_abs m ddir (Some (e_mode pe))) as [m1 [u|e]]; cbn [fst] in *; [|by apply grows_weaken].
        eapply grows_trans; [apply grows_weaken, G|]. rewrite <- Hps. exact (copy_file_rest_grows None fm (db :: ddir) s m1).
Qed.

Lemma copy_loop_grows env o dm fm ci dr sr is : ∀ m, grows (km_of dm fm) m (copy_loop env o dm fm ci dr sr m is).1.
Proof.
  induction is as [|it is IH]; intros m; cbn [copy_loop]; [apply grows_refl|].
  destruct it as [src|w]; [|apply grows_refl].
  destruct (if ci then _ else _) as [prefix|e]; [|apply grows_refl].
  case_bool_decide; [apply IH|].
  pose proof (copy_one_grows env o dm fm m (copy_dst dr (e_path src) prefix) src) as G.
  destruct (copy_one env o dm fm m _ src) as [m' [u|e]]; cbn [fst] in *; [|done].
  eapply grows_trans; [exact G|apply IH].
Qed.

(* C09: whatever copy returns, nothing that existed is removed, re-kinded, re-targeted or re-owned; without a chmod option no
   mode changes either *)
Theorem copy_grows env m s d o r : copy_op env m s d o = Done r →
  grows (match cp_mode o with None => true | Some _ => false end) m r.1.
Proof.
  unfold copy_op. destruct (resolve env m s) as [sp|e]; [|intros Hq; simplify_eq; apply grows_refl].
  destruct (resolve env m d) as [dp|e]; [|intros Hq; simplify_eq; apply grows_refl].
  case_bool_decide; [intros Hq; simplify_eq; apply grows_refl|].
  destruct (clone_entry m sp) as [re|e]; [|intros Hq; simplify_eq; apply grows_refl].
  destruct (walk _ _ _ _) as [[evs| |]|e]; intros Hq; simplify_eq; try apply grows_refl.
  set (dm := match cp_mode o with Some x => if cp_cdirs o || negb (cp_cfiles o) then Some x else None | None => None end).
  set (fm := match cp_mode o with Some x => if cp_cfiles o || negb (cp_cdirs o) then Some x else None | None => None end).
  pose proof (copy_loop_grows env o dm fm (is_dir_at m dp) dp (e_path (if cp_follow o then follow_e re else re)) (items_of evs) m) as G.
  destruct (cp_mode o) as [x|]; [|exact G]. destruct (km_of dm fm); [by apply grows_weaken|exact G].
Qed.

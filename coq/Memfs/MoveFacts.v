(* Memfs/MoveFacts.v — facts about move_p's validation phase (C09 / C01: a failed move_p changes nothing). *)
From stdpp Require Import gmap.
From Coq Require Import NArith.
From RV Require Import Base.Str Path.Helpers Path.Expand Memfs.State Memfs.Ops.

Definition move_validation (env : envmap) (m : mfs) (s d : list N) : unit + errkind :=
  match move_validate env m s d with MvErr e => inr e | _ => inl tt end.

(* every error the validation reports is returned with the state untouched *)
Lemma move_validation_complete env m s d e : move_validation env m s d = inr e → move_op env m s d = Done (m, inr e).
Proof. unfold move_validation, move_op. destruct (move_validate env m s d); intros H; by simplify_eq. Qed.

Lemma move_validation_frame env m s d e m' :
  move_validation env m s d = inr e → move_op env m s d = Done (m', inr e) → m' = m.
Proof. intros Hv Ho. rewrite (move_validation_complete _ _ _ _ _ Hv) in Ho. by simplify_eq. Qed.

(* moving something onto itself is a no-op *)
Lemma move_noop env m s d : move_validate env m s d = MvNoop → move_op env m s d = Done (m, inl tt).
Proof. unfold move_op. by intros ->. Qed.

(* what the validation guarantees when it lets the move proceed *)
Lemma move_go_facts env m s d sp dt : move_validate env m s d = MvGo sp dt →
  is_Some (m_ents m !! sp) ∧ dt ≠ sp ∧ is_under dt sp = false ∧
  ∃ b ddir x, dt = b :: ddir ∧ m_ents m !! ddir = Some x ∧ e_dir x = true ∧ e_link x = false ∧
    match m_ents m !! dt with
    | Some y => default ∅ (e_files y) = ∅ ∧ (is_dir_at m sp = true → e_dir y = true ∧ e_link y = false)
    | None => True
    end.
Proof.
  unfold move_validate. destruct (resolve env m s) as [sp0|]; [|done]. destruct (resolve env m d) as [dp|]; [|done].
  destruct (m_ents m !! sp0) eqn:Es; [|done].
  set (dt0 := if is_dir_at m dp then _ else _).
  destruct (bool_decide (dt0 = sp0)) eqn:Eq; [done|]. apply bool_decide_eq_false in Eq.
  destruct dt0 as [|b ddir] eqn:Edt; [done|].
  destruct (is_under (b :: ddir) sp0) eqn:Eu; [done|].
  destruct (m_ents m !! ddir) as [x|] eqn:Ex; [|done].
  destruct (negb (e_dir x && negb (e_link x))) eqn:Ed; [done|].
  destruct (m_ents m !! (b :: ddir)) as [y|] eqn:Ey.
  - destruct (is_dir_at m sp0 && negb (e_dir y && negb (e_link y))) eqn:Ec; [done|].
    destruct (negb (is_dir_at m sp0) && (e_dir y && negb (e_link y))) eqn:Ec2; [done|].
    destruct (match e_files y with Some fs => _ | None => false end) eqn:Eb; [done|].
    intros H. simplify_eq. split; [eauto|]. split; [done|]. split; [done|].
    apply negb_false_iff, andb_true_iff in Ed as [Hd Hl]. apply negb_true_iff in Hl.
    exists b, ddir, x. repeat split; try done. rewrite Ey. split.
    + destruct (e_files y) as [fs|]; [|done]. cbn. apply negb_false_iff, bool_decide_eq_true in Eb. done.
    + intros H. rewrite H in Ec. cbn in Ec. apply negb_false_iff, andb_true_iff in Ec as [Hd' Hl']. by apply negb_true_iff in Hl'.
  - intros H. simplify_eq. split; [eauto|]. split; [done|]. split; [done|].
    apply negb_false_iff, andb_true_iff in Ed as [Hd Hl]. apply negb_true_iff in Hl.
    exists b, ddir, x. rewrite Ey. repeat split; done.
Qed.

(* Memfs/WalkFollow.v — the traversal's denotation is always defined (C08): for every snapshot whose entries report the path
   they are stored under, every option record - links followed or not - every pre_op and every start, the recursion of
   Memfs/WalkSpec.v terminates: a followed link whose target is already open above it is reported as LinkLooping instead
   of being descended into, every other followed link adds a new path to the open directories, and a plain child is one
   level deeper than its parent, so no descent is endless.  (With walk_is_spec: the iterator machine returns exactly
   these events whenever its fuel covers them.) *)
From stdpp Require Import gmap.
From Coq Require Import NArith.
From RV Require Import Base.Str Path.Helpers Memfs.State Memfs.Walk Memfs.WalkFacts Memfs.WalkSpec Memfs.WalkTerm.

Section Follow.
Variables (E : gmap rpath entry) (o : wopts) (pre : entry → option errkind).
Hypothesis Hkey : key_ok E.
Variable H : nat.
Hypothesis HH : ∀ q, is_Some (E !! q) → length q ≤ H.

Definition card (stack : list rpath) : nat := size (list_to_set stack : gset rpath).
Definition NN : nat := size (dom E : gset rpath).
Definition measure (stack : list rpath) (e : entry) : nat :=
  (NN - card (e_path e :: stack)) * (H + 1) + (H + 1 - length (e_path e)).

Lemma card_le stack : (∀ q, q ∈ stack → is_Some (E !! q)) → card stack ≤ NN.
Proof.
  intros Hs. unfold card, NN. apply subseteq_size. intros q Hq. apply elem_of_list_to_set in Hq. apply elem_of_dom. by apply Hs.
Qed.

Lemma card_cons_in q stack : q ∈ stack → card (q :: stack) = card stack.
Proof. intros Hq. unfold card. cbn [list_to_set]. f_equal. apply leibniz_equiv. set_solver. Qed.

Lemma card_cons_notin q stack : q ∉ stack → card (q :: stack) = S (card stack).
Proof.
  intros Hq. unfold card. cbn [list_to_set]. rewrite size_union by set_solver. by rewrite size_singleton.
Qed.

Lemma card_cons_ge q stack : card stack ≤ card (q :: stack).
Proof. unfold card. cbn [list_to_set]. apply subseteq_size. set_solver. Qed.

(* children, links followed or not: a child is the stored entry, or that entry with path and target swapped *)
Lemma child_entries_any p fl ns c : c ∈ child_entries E p fl ns →
  ∃ n c0, E !! (n :: p) = Some c0 ∧ (c = c0 ∨ (c = follow_e c0 ∧ fl = true)).
Proof.
  induction ns as [|n ns IH]; cbn [child_entries]; [by intros Hc%elem_of_nil|].
  destruct (E !! (n :: p)) as [c0|] eqn:E0; [|by intros Hc%elem_of_nil].
  intros [->|Hc]%elem_of_cons; [|by apply IH]. exists n, c0. split; [done|]. destruct fl; [right|left]; done.
Qed.

(* a followed child either keeps its own path (one level below its parent) or is a link standing at its target *)
Lemma follow_e_cases c0 : follow_e c0 = c0 ∨ (∃ a, e_alt c0 = Some a ∧ e_path (follow_e c0) = a ∧ e_link (follow_e c0) = true).
Proof.
  unfold follow_e. destruct (e_link c0 && negb (e_follow c0)) eqn:Ec; [|by left].
  destruct (e_alt c0) as [a|]; [|by left]. right. exists a. apply andb_true_iff in Ec as [-> _]. done.
Qed.

Lemma sw_defined b : ∀ stack e, (∀ q, q ∈ stack → is_Some (E !! q)) →
  (loops o stack e = false → enters o e = true → is_Some (E !! e_path e) → measure stack e ≤ b) →
  ∃ evs, sw (S b) E o pre stack e = Some evs.
Proof.
  induction b as [|b IH]; intros stack e Hst Hm; rewrite sw_S; cbn zeta.
  all: destruct (loops o stack e) eqn:El; [eauto|].
  all: destruct (enters o e) eqn:Een; cbn [andb]; [|eauto].
  all: destruct (lt_max (length stack) (o_max o)); [|eauto].
  all: destruct (pre e); [eauto|].
  all: unfold children; destruct (E !! e_path e) as [e1|] eqn:He1; [|eauto].
  all: specialize (Hm eq_refl eq_refl ltac:(eauto)).
  all: assert (Hlen : length (e_path e) ≤ H) by (apply HH; eauto).
  all: assert (Hst' : ∀ q, q ∈ e_path e :: stack → is_Some (E !! q)) by (intros q [->|Hq]%elem_of_cons; [eauto|by apply Hst]).
  all: pose proof (card_le _ Hst') as Hc.
  - (* measure 0 is impossible for an entry that is entered *)
    unfold measure in Hm. lia.
  - set (ns := match e_files e1 with Some fs => elements fs | None => [] end).
    set (cs := child_entries E (e_path e) (o_follow o) ns).
    assert (Hkids : ∀ c, c ∈ arrange o cs → ∃ evs, sw (S b) E o pre (e_path e :: stack) c = Some evs).
    { intros c Hc'. rewrite (arrange_perm o cs) in Hc'. apply child_entries_any in Hc' as (n & c0 & Hc0 & Hcase).
      apply IH; [done|]. intros Hl Hen Hin.
      assert (Hreal : e_path c = n :: e_path e → measure (e_path e :: stack) c ≤ b).
      { intros Hp. unfold measure in *. rewrite Hp. cbn [length].
        pose proof (card_cons_ge (n :: e_path e) (e_path e :: stack)). 
        assert (NN - card ((n :: e_path e) :: e_path e :: stack) ≤ NN - card (e_path e :: stack)) by lia.
        assert ((NN - card ((n :: e_path e) :: e_path e :: stack)) * (H + 1) ≤ (NN - card (e_path e :: stack)) * (H + 1)) by (apply Nat.mul_le_mono_r; lia).
        lia. }
      destruct Hcase as [->|[-> Hfl]]; [apply Hreal; by apply Hkey|].
      destruct (follow_e_cases c0) as [Heq|(a & Ha & Hpa & Hla)]; [rewrite Heq in *; apply Hreal; by apply Hkey|].
      (* a followed link that does not loop: its target is not among the open directories *)
      assert (Hnotin : a ∉ e_path e :: stack).
      { unfold loops in Hl. rewrite Hen, Hla in Hl. cbn [andb] in Hl. rewrite Hpa in Hl.
        intros Hin'. apply not_true_iff_false in Hl. apply Hl. apply existsb_exists. exists a. split; [by apply elem_of_list_In|by apply bool_decide_eq_true]. }
      unfold measure in *. rewrite Hpa in *. rewrite (card_cons_notin a _ Hnotin).
      assert (Hst'' : ∀ q, q ∈ a :: e_path e :: stack → is_Some (E !! q)) by (intros q [->|Hq]%elem_of_cons; [done|by apply Hst']).
      pose proof (card_le _ Hst'') as Hc2. rewrite (card_cons_notin a _ Hnotin) in Hc2.
      assert (Hla' : length a ≤ H) by (by apply HH).
      assert ((NN - S (card (e_path e :: stack))) * (H + 1) + (H + 1) ≤ (NN - card (e_path e :: stack)) * (H + 1)).
      { replace (NN - card (e_path e :: stack)) with (S (NN - S (card (e_path e :: stack)))) by lia. lia. }
      lia. }
    assert (Hall : ∃ kids, concat_opt (map (sw (S b) E o pre (e_path e :: stack)) (arrange o cs)) = Some kids).
    { induction (arrange o cs) as [|c l IHl]; [by exists []|].
      destruct (Hkids c ltac:(left)) as [evs Hevs]. destruct (IHl ltac:(intros; apply Hkids; by right)) as [kids Hk].
      exists (evs ++ kids). cbn [map concat_opt]. by rewrite Hevs, Hk. }
    destruct Hall as [kids ->]. eauto.
Qed.
End Follow.

(* C08: the denotation is defined for every snapshot, every option record (links followed or not), every pre_op, every start *)
Theorem sw_always_defined (E : gmap rpath entry) o pre r : key_ok E → ∃ h evs, sw_walk h E o pre r = Some evs.
Proof.
  intros Hkey. destruct (snap_height E) as [H HH].
  set (r' := if o_follow o then follow_e r else r).
  destruct (sw_defined E o pre Hkey H HH (measure E H [] r') [] r' ltac:(by intros q Hq%elem_of_nil) ltac:(done)) as [evs Hevs].
  exists (S (measure E H [] r')), evs. exact Hevs.
Qed.

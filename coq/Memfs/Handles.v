(* Memfs/Handles.v — write / append handles as part of the state machine (Memfs::write / append
   return a MemfsFile holding a copy of the data and a reference to the filesystem; flush and drop
   write back under a fresh guard).  The filesystem state is paired with a table of open handles, so
   that handle calls can interleave with every other call of the alphabet. *)
From stdpp Require Import gmap.
From Coq Require Import NArith.
From RV Require Import Base.Str Path.Helpers Path.Expand Memfs.State Memfs.Ops Memfs.Step.

Record handle := mkHandle { h_path : rpath; h_data : list N; h_append : option nat; h_live : bool }.

Record hstate := mkH { hs_fs : mfs; hs_handles : list handle }.

Definition h_init : hstate := mkH mfs_init [].

Inductive hop :=
  | HPlain (o : op)
  | HOpenWrite (s : list N) | HOpenAppend (s : list N)
  | HWrite (h : nat) (d : list N) | HFlush (h : nat) | HDrop (h : nat).

(* MemfsFile::sync *)
Definition h_sync (m : mfs) (h : handle) : mfs * handle * bool :=
  match m_ents m !! h_path h with
  | None => (m, h, false)                          (* io::ErrorKind::NotFound *)
  | Some _ =>
      match m_data m !! h_path h with
      | None => (m, h, true)                       (* entry without data: nothing to write, Ok *)
      | Some cur =>
          match h_append h with
          | Some synced => (upd_data m (insert (h_path h) (cur ++ drop synced (h_data h))),
                            mkHandle (h_path h) (h_data h) (Some (length (h_data h))) (h_live h), true)
          | None => (upd_data m (insert (h_path h) (h_data h)), h, true)
          end
      end
  end.

Definition set_handle (hs : list handle) (i : nat) (h : handle) : list handle := <[ i := h ]> hs.

Definition hstep (env : envmap) (st : hstate) (o : hop) : outcome (hstate * result) :=
  match o with
  | HPlain o' =>
      match step env (hs_fs st) o' with
      | Done (m', r) => Done (mkH m' (hs_handles st), r)
      | Panic => Panic | OutOfFuel => OutOfFuel
      end
  | HOpenWrite s =>
      match resolve env (hs_fs st) s with
      | inr e => Done (st, inr e)
      | inl p =>
          match add (hs_fs st) (new_file p) with
          | (m', inr e) => Done (mkH m' (hs_handles st), inr e)
          | (m', inl _) => Done (mkH m' (hs_handles st ++ [mkHandle p [] None true]), inl (VNum (N.of_nat (length (hs_handles st)))))
          end
      end
  | HOpenAppend s =>
      match resolve env (hs_fs st) s with
      | inr e => Done (st, inr e)
      | inl p =>
          match add (hs_fs st) (new_file p) with
          | (m', inr e) => Done (mkH m' (hs_handles st), inr e)
          | (m', inl _) =>
              match m_data m' !! p with
              | Some cur => Done (mkH m' (hs_handles st ++ [mkHandle p cur (Some (length cur)) true]),
                                  inl (VNum (N.of_nat (length (hs_handles st)))))
              | None => Done (mkH m' (hs_handles st), inr EDoesNotExist)
              end
          end
      end
  | HWrite i d =>
      match hs_handles st !! i with
      | Some h => if h_live h then Done (mkH (hs_fs st) (set_handle (hs_handles st) i (mkHandle (h_path h) (h_data h ++ d) (h_append h) true)), inl VUnit)
                  else Done (st, inr EOther)
      | None => Done (st, inr EOther)
      end
  | HFlush i =>
      match hs_handles st !! i with
      | Some h => if h_live h then
                    let '(m', h', ok) := h_sync (hs_fs st) h in
                    Done (mkH m' (set_handle (hs_handles st) i h'), if ok then inl VUnit else inr EDoesNotExist)
                  else Done (st, inr EOther)
      | None => Done (st, inr EOther)
      end
  | HDrop i =>
      match hs_handles st !! i with
      | Some h => if h_live h then
                    let '(m', h', _) := h_sync (hs_fs st) h in
                    Done (mkH m' (set_handle (hs_handles st) i (mkHandle (h_path h') [] (h_append h') false)), inl VUnit)
                  else Done (st, inr EOther)
      | None => Done (st, inr EOther)
      end
  end.

(* Memfs/ChmodExact.v — recursive chmod without follow, tree level (C11): when the mode grammar yields a non-zero value
   for every entry (no grammar error; the value 0 is KF-C11-octal-zero), chmod succeeds and every entry at or below the
   argument (the argument alone without recursion) that is not a link carries exactly the grammar's value for its kind
   afterwards; links and everything else are untouched. *)
From stdpp Require Import gmap.
From Coq Require Import NArith.
From RV Require Import Base.Str Path.Helpers Path.Expand Chmod.Sym Memfs.State Memfs.Ops Memfs.Walk Memfs.WalkOps Memfs.WalkFacts
  Memfs.WalkSpec Memfs.WalkTerm Memfs.WalkExact Memfs.Wf Memfs.ChmodFacts.

Definition valof (o : chmod_opts) (x : entry) : mres N :=
  if e_dir x then mode_for x (ch_dirs o) (ch_sym o)
  else if e_file x then mode_for x (ch_files o) (ch_sym o) else inl 0%N.

(* the entry chmod leaves in place of x *)
Definition upd (o : chmod_opts) (x : entry) : entry :=
  if e_link x then x else
  match valof o x with
  | inl v => if N.eqb v (e_mode x) then x else set_mode x (Some v)
  | inr _ => x
  end.

Lemma set_mode_twice x a b : set_mode (set_mode x a) b = set_mode x b.
Proof. reflexivity. Qed.

(* ---- every pre_op call is on an entry that is also yielded, when the options select everything ---- *)
Lemma concat_opt_in {A B} (f : B → option (list A)) (l : list B) : ∀ kids a,
  concat_opt (map f l) = Some kids → a ∈ kids → ∃ c evs X Y, c ∈ l ∧ f c = Some evs ∧ a ∈ evs ∧ kids = X ++ evs ++ Y.
Proof.
  induction l as [|c l IH]; intros kids a Hc Ha; cbn [map concat_opt] in Hc; [simplify_eq; by apply elem_of_nil in Ha|].
  destruct (f c) as [evs|] eqn:Ef; [|done]. destruct (concat_opt _) as [kids'|] eqn:Ek; [|done]. simplify_eq.
  apply elem_of_app in Ha as [Ha|Ha].
  - exists c, evs, [], kids'. split; [left|]. done.
  - destruct (IH kids' a eq_refl Ha) as (c' & evs' & X & Y & Hc' & Hf & Hin & ->).
    exists c', evs', (evs ++ X), Y. split; [by right|]. split; [done|]. split; [done|]. by rewrite <- app_assoc.
Qed.

Lemma elem_of_oks x evs : x ∈ oks evs ↔ EvItem (IOk x) ∈ evs.
Proof.
  induction evs as [|ev evs IH]; [split; intros H; by apply elem_of_nil in H|].
  destruct ev as [e|[y|w]]; rewrite ?oks_pre, ?oks_ok.
  - rewrite IH. split; [by right|]. intros [H|H]%elem_of_cons; [done|done].
  - rewrite !elem_of_cons, IH. split; intros [H|H]; try (by right); left; congruence.
  - change (oks (EvItem (IErr w) :: evs)) with (oks evs). rewrite IH. split; [by right|]. intros [H|H]%elem_of_cons; [done|done].
Qed.

Lemma sw_pres_yielded h : ∀ m o pre stack e p evs, WF m → o_follow o = false → (∀ x, pre x = None) →
  (∀ d x, selected o d x = true) → m_ents m !! p = Some e →
  sw h (m_ents m) o pre stack e = Some evs → ∀ x, EvPre x ∈ evs → x ∈ oks evs.
Proof.
  induction h as [|h IH]; intros m o pre stack e p evs HW Hnf Hpre Hsel He Hsw x Hx; [done|].
  pose proof (wf_key m HW _ _ He) as Hp. rewrite sw_S in Hsw. cbn zeta in Hsw.
  rewrite (loops_nofollow o stack e Hnf), Hpre, Hsel in Hsw.
  destruct (enters o e && lt_max (length stack) (o_max o)).
  - unfold children in Hsw. rewrite Hp, He, Hnf in Hsw.
    set (cs := child_entries (m_ents m) p false _) in *.
    destruct (concat_opt _) as [kids|] eqn:Ek; [|done].
    assert (Hk : EvPre x ∈ kids → x ∈ oks kids).
    { intros Hin. destruct (concat_opt_in _ _ _ _ Ek Hin) as (c & evs' & X & Y & Hc & Hf & Hin' & ->).
      rewrite (arrange_perm o cs) in Hc. apply child_entries_spec in Hc as (n & _ & Hn).
      rewrite !oks_app. apply elem_of_app. right. apply elem_of_app. left.
      by apply (IH m o pre (p :: stack) c (n :: p) evs' HW Hnf Hpre Hsel Hn Hf). }
    destruct (e_dir e && o_contents_first o); simplify_eq.
    + apply elem_of_cons in Hx as [Hx|Hx].
      * injection Hx as ->. rewrite oks_pre, oks_app, oks_ok. apply elem_of_app. right. cbn. left.
      * apply elem_of_app in Hx as [Hx|Hx]; [|apply elem_of_list_singleton in Hx; done].
        rewrite oks_pre, oks_app. apply elem_of_app. left. by apply Hk.
    + apply elem_of_cons in Hx as [Hx|Hx].
      * injection Hx as ->. rewrite oks_pre, oks_ok. left.
      * apply elem_of_cons in Hx as [Hx|Hx]; [done|]. rewrite oks_pre, oks_ok. right. by apply Hk.
  - simplify_eq. apply elem_of_list_singleton in Hx. done.
Qed.

(* ---- folding the events ---- *)
Section Fold.
Variables (o : chmod_opts) (m0 : mfs).
Hypothesis Hnf : ch_follow o = false.
Hypothesis HW : WF m0.
Hypothesis Hval : ∀ q x, m_ents m0 !! q = Some x → ∃ v, valof o x = inl v ∧ v ≠ 0%N.

Definition Inv (mk : mfs) (D : list rpath) : Prop :=
  (∀ q, m_ents mk !! q = m_ents m0 !! q ∨ m_ents mk !! q = upd o <$> (m_ents m0 !! q)) ∧
  (∀ q, q ∈ D → m_ents mk !! q = upd o <$> (m_ents m0 !! q)) ∧
  m_data mk = m_data m0 ∧ m_cwd mk = m_cwd m0 ∧ m_root mk = m_root m0.

Definition snap_ev (ev : event) : Prop :=
  match ev with
  | EvPre x => m_ents m0 !! e_path x = Some x
  | EvItem (IOk x) => m_ents m0 !! e_path x = Some x
  | EvItem (IErr _) => False
  end.

Lemma target_nofollow mk x : chmod_target o mk x = x.
Proof. unfold chmod_target. by rewrite Hnf. Qed.

(* writing the grammar's value over either version of the entry gives the final version *)
Lemma set_at_final mk D x v : Inv mk D → m_ents m0 !! e_path x = Some x → e_link x = false → valof o x = inl v → v ≠ e_mode x →
  Inv (set_mode_at mk (e_path x) v) D ∧ m_ents (set_mode_at mk (e_path x) v) !! e_path x = Some (upd o x).
Proof.
  intros (Ha & Hb & Hd & Hc & Hr) Hx Hl Hv Hne.
  assert (Hu : upd o x = set_mode x (Some v)).
  { unfold upd. rewrite Hl, Hv. by rewrite (proj2 (N.eqb_neq v (e_mode x)) Hne). }
  unfold set_mode_at. destruct (Ha (e_path x)) as [Hk|Hk]; rewrite Hx in Hk; cbn in Hk; rewrite Hk.
  all: assert (Hnew : ∀ y, y = x ∨ y = upd o x → set_mode y (Some v) = upd o x) by (intros y [->| ->]; rewrite Hu; done).
  all: split; [|cbn [upd_ents m_ents]; rewrite lookup_insert; f_equal; apply Hnew; auto].
  all: split; [|split; [|done]].
  all: try (intros q; cbn [upd_ents m_ents]; destruct (decide (q = e_path x)) as [->|Hq];
            [right; rewrite lookup_insert, Hx; cbn; f_equal; apply Hnew; auto | rewrite lookup_insert_ne by done; apply Ha]).
  all: intros q Hq; cbn [upd_ents m_ents]; destruct (decide (q = e_path x)) as [->|Hqn];
       [rewrite lookup_insert, Hx; cbn; f_equal; apply Hnew; auto | rewrite lookup_insert_ne by done; by apply Hb].
Qed.

Lemma pre_step mk D x : Inv mk D → m_ents m0 !! e_path x = Some x → Inv (chmod_pre_apply o mk x) D.
Proof.
  intros HI Hx. unfold chmod_pre_apply. rewrite target_nofollow.
  destruct (mode_for x (ch_dirs o) (ch_sym o)) as [m1|] eqn:Em; [|done].
  destruct (negb (e_link x) && e_dir x && negb (revoking_mode (e_mode x) m1) && negb (N.eqb (e_mode x) m1)) eqn:Ec; [|done].
  apply andb_true_iff in Ec as [Ec Hne]. apply andb_true_iff in Ec as [Ec _]. apply andb_true_iff in Ec as [Hl Hd].
  apply negb_true_iff in Hl. apply negb_true_iff, N.eqb_neq in Hne.
  assert (Hv : valof o x = inl m1) by (unfold valof; by rewrite Hd).
  by apply (set_at_final mk D x m1 HI Hx Hl Hv).
Qed.

Lemma item_step mk D x : Inv mk D → m_ents m0 !! e_path x = Some x →
  ∃ mk', chmod_item_apply o mk x = (mk', None) ∧ Inv mk' (e_path x :: D).
Proof.
  intros HI Hx. unfold chmod_item_apply. rewrite target_nofollow. fold (valof o x).
  destruct (Hval _ _ Hx) as (v & Hv & Hv0). rewrite Hv.
  destruct (negb (e_link x) && negb (N.eqb v (e_mode x)) && negb (N.eqb v 0)) eqn:Ec.
  - apply andb_true_iff in Ec as [Ec _]. apply andb_true_iff in Ec as [Hl Hne].
    apply negb_true_iff in Hl. apply negb_true_iff, N.eqb_neq in Hne.
    destruct (set_at_final mk D x v HI Hx Hl Hv Hne) as [(Ha & Hb & Hr) Hfin].
    eexists. split; [done|]. split; [done|]. split; [|done].
    intros q [->|Hq]%elem_of_cons; [by rewrite Hfin, Hx|by apply Hb].
  - exists mk. split; [done|]. destruct HI as (Ha & Hb & Hr). split; [done|]. split; [|done].
    intros q [->|Hq]%elem_of_cons; [|by apply Hb].
    assert (Hu : upd o x = x).
    { unfold upd. destruct (e_link x) eqn:Hl; [done|]. rewrite Hv. cbn [negb andb] in Ec.
      rewrite (proj2 (N.eqb_neq v 0) Hv0) in Ec. cbn [negb] in Ec. rewrite andb_true_r in Ec. apply negb_false_iff in Ec. by rewrite Ec. }
    destruct (Ha (e_path x)) as [Hk|Hk]; rewrite Hk, Hx; cbn; by rewrite ?Hu.
Qed.

Lemma events_fold evs : ∀ mk D, Inv mk D → Forall snap_ev evs →
  ∃ m', chmod_events o mk evs = (m', inl tt) ∧ Inv m' (map e_path (oks evs) ++ D).
Proof.
  induction evs as [|ev evs IH]; intros mk D HI Hs; [exists mk; done|].
  apply Forall_cons in Hs as [Hev Hs]. destruct ev as [x|[x|w]]; cbn [chmod_events snap_ev] in *; [| |done].
  - rewrite oks_pre. apply IH; [by apply pre_step|done].
  - destruct (item_step mk D x HI Hev) as (mk' & -> & HI'). rewrite oks_ok. cbn [map app].
    destruct (IH mk' (e_path x :: D) HI' Hs) as (m' & -> & (Ha & Hb & Hr)). exists m'. split; [done|]. split; [done|]. split; [|done].
    intros q Hq. apply Hb. set_solver.
Qed.
End Fold.

(* C11: recursive (or single-entry) chmod without follow sets exactly the grammar's value on exactly the non-link entries
   at or below the argument, and changes nothing else *)
Theorem chmod_nofollow_exact env m s o p r : WF m → ch_follow o = false → resolve env m s = inl p → m_ents m !! p = Some r →
  (∀ x, chmod_pre_check o x = None) → (∀ q x, m_ents m !! q = Some x → ∃ v, valof o x = inl v ∧ v ≠ 0%N) →
  ∃ m', chmod_op env m s o = Done (m', inl tt) ∧
    (∀ q, m_ents m' !! q = if bool_decide (p `suffix_of` q ∧ (ch_recursive o = true ∨ q = p))
                           then upd o <$> (m_ents m !! q) else m_ents m !! q) ∧
    m_data m' = m_data m ∧ m_cwd m' = m_cwd m ∧ m_root m' = m_root m.
Proof.
  intros HW Hnf Hres Hr Hpre Hval. unfold chmod_op. rewrite Hres.
  set (wo := w_dirs_first _).
  assert (Hsel : ∀ d x, selected wo d x = true) by done.
  destruct (walk_nofollow (m_ents m) wo (chmod_pre_check o) p r (wf_key_ok m HW) Hnf Hr) as (h & evs & Hsw & Hw).
  destruct (walk_exact m wo (chmod_pre_check o) p r HW Hnf Hpre Hr) as (evs' & Hw' & Hit & Hiff & Hnd).
  rewrite Hw in Hw'. injection Hw' as <-. rewrite Hw.
  unfold sw_walk in Hsw. change (o_follow wo) with (ch_follow o) in Hsw. rewrite Hnf in Hsw.
  (* every event is about a snapshot entry *)
  assert (Hoks : ∀ x, x ∈ oks evs → m_ents m !! e_path x = Some x).
  { intros x Hx. apply Hiff in Hx as (q & Hq & _). by rewrite (wf_key m HW _ _ Hq). }
  assert (Hsnap : Forall (snap_ev m) evs).
  { apply Forall_forall. intros ev Hev. destruct ev as [x|[x|w]]; cbn.
    - apply Hoks. by apply (sw_pres_yielded h m wo (chmod_pre_check o) [] r p evs HW Hnf Hpre Hsel Hr Hsw).
    - apply Hoks. by apply elem_of_oks.
    - pose proof (sw_no_errors h m wo (chmod_pre_check o) [] r p evs HW Hnf Hpre Hr Hsw) as Hno.
      rewrite Forall_forall in Hno. exact (Hno _ Hev). }
  destruct (events_fold o m Hnf HW Hval evs m [] ltac:(split; [by left|split; [by intros q H%elem_of_nil|done]]) Hsnap)
    as (m' & Hev & Ha & Hb & Hd & Hc & Hrt).
  exists m'. rewrite Hev. split; [done|]. split; [|done].
  intros q. rewrite app_nil_r in Hb. case_bool_decide as Hin.
  - destruct (m_ents m !! q) as [x|] eqn:Hq.
    + rewrite <- Hq. apply Hb. apply elem_of_list_fmap. exists x. split; [by rewrite (wf_key m HW _ _ Hq)|].
      apply Hiff. exists q. split; [done|]. destruct Hin as [Hs Hc']. split; [done|]. split; [done|].
      subst wo. cbn. destruct (ch_recursive o); [done|]. destruct Hc' as [Hc'|Hc']; [done|]. subst q. by rewrite Nat.sub_diag.
    + destruct (Ha q) as [Hk|Hk]; rewrite Hk, Hq; done.
  - (* outside the range nothing is named by any event *)
    destruct (Ha q) as [Hk|Hk]; [done|]. destruct (m_ents m !! q) as [x|] eqn:Hq; [|by rewrite Hk].
    pose proof (chmod_events_rel o evs m (wf_key m HW)) as Hrel. rewrite Hev in Hrel. cbn [fst] in Hrel.
    destruct Hrel as (_ & _ & _ & Hrel). specialize (Hrel q). rewrite Hq in Hrel.
    destruct (m_ents m' !! q) as [x'|] eqn:Hq'; [|done]. destruct Hrel as [_ Hout].
    rewrite Hout; [done|]. intros Hpath. apply Hin.
    (* a path named by an event is the path of a yielded entry *)
    unfold ev_entry_paths in Hpath. apply elem_of_list_In, in_flat_map in Hpath as (ev & Hev' & Hqq). apply elem_of_list_In in Hev'.
    assert (Hy : ∃ y, y ∈ oks evs ∧ e_path y = q).
    { destruct ev as [y|[y|w]]; cbn in Hqq; [| |done]; destruct Hqq as [<-|[]]; exists y; (split; [|done]).
      - by apply (sw_pres_yielded h m wo (chmod_pre_check o) [] r p evs HW Hnf Hpre Hsel Hr Hsw).
      - by apply elem_of_oks. }
    destruct Hy as (y & Hy & <-). apply Hiff in Hy as (q' & Hq'' & Hs & _ & Hmax). rewrite (wf_key m HW _ _ Hq'').
    split; [done|]. subst wo. cbn in Hmax. destruct (ch_recursive o); [by left|right]. cbn in Hmax. apply Nat.leb_le in Hmax.
    destruct Hs as [j ->]. rewrite app_length in Hmax. destruct j; [done|cbn in Hmax; lia].
Qed.

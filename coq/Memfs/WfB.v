(* Memfs/WfB.v — a boolean checker for WF, evaluated on state snapshots by the correspondence
   runs (extracted), with its soundness proof. *)
From stdpp Require Import gmap.
From Coq Require Import NArith.
From RV Require Import Base.Str Memfs.State Memfs.Ops Memfs.Wf.


Definition wf_entry_b (m : mfs) (kv : rpath * entry) : bool :=
  let '(p, e) := kv in
  bool_decide (e_path e = p)
  && match p with
     | [] => e_dir e && negb (e_link e)
     | n :: d => match m_ents m !! d with
                 | Some pe => e_dir pe && negb (e_link pe) && bool_decide (n ∈ files_of pe)
                 | None => false
                 end
     end
  && forallb (fun n => bool_decide (is_Some (m_ents m !! (n :: p)))) (elements (files_of e))
  && bool_decide (is_Some (m_data m !! p) ↔ (e_file e = true ∧ e_link e = false))
  && bool_decide (e_files e = None ↔ e_dir e = false)
  && (negb (e_link e) || bool_decide (files_of e = ∅)).

Definition wf_b (m : mfs) : bool :=
  bool_decide (is_Some (m_ents m !! []))
  && forallb (wf_entry_b m) (map_to_list (m_ents m))
  && forallb (fun kv => bool_decide (is_Some (m_ents m !! kv.1))) (map_to_list (m_data m))
  && bool_decide (m_root m = []).

Lemma wf_entry_b_spec m p e : wf_entry_b m (p, e) = true →
  e_path e = p ∧
  match p with
  | [] => e_dir e = true ∧ e_link e = false
  | n :: d => ∃ pe, m_ents m !! d = Some pe ∧ real_dir pe ∧ n ∈ files_of pe
  end ∧
  (∀ n, n ∈ files_of e → is_Some (m_ents m !! (n :: p))) ∧
  (is_Some (m_data m !! p) ↔ (e_file e = true ∧ e_link e = false)) ∧
  (e_files e = None ↔ e_dir e = false) ∧
  (e_link e = true → files_of e = ∅).
Proof.
  unfold wf_entry_b. rewrite !andb_true_iff. intros (((((H1 & H2) & H3) & H4) & H5) & H6).
  apply bool_decide_eq_true in H1, H4, H5. split; [done|]. split; [|split; [|split; [done|split; [done|]]]].
  - destruct p as [|n d].
    + apply andb_true_iff in H2 as [? H2]. apply negb_true_iff in H2. done.
    + destruct (m_ents m !! d) as [pe|]; [|done]. rewrite !andb_true_iff in H2. destruct H2 as [[Ha Hb] Hc].
      apply negb_true_iff in Hb. apply bool_decide_eq_true in Hc. exists pe. done.
  - intros n Hin. rewrite forallb_forall in H3. apply elem_of_elements, elem_of_list_In in Hin.
    specialize (H3 n Hin). by apply bool_decide_eq_true in H3.
  - intros Hk. rewrite Hk in H6. cbn in H6. by apply bool_decide_eq_true in H6.
Qed.

Lemma wf_b_sound m : wf_b m = true → WF m.
Proof.
  unfold wf_b. rewrite !andb_true_iff. intros (((H & Hents) & Hdat) & Hroot).
  apply bool_decide_eq_true in H, Hroot. rewrite forallb_forall in Hents, Hdat.
  assert (He : ∀ p e, m_ents m !! p = Some e → wf_entry_b m (p, e) = true).
  { intros p e Hl. apply Hents. by apply elem_of_list_In, elem_of_map_to_list. }
  constructor.
  - destruct H as [r Hr]. exists r. split; [done|]. destruct (wf_entry_b_spec m [] r (He _ _ Hr)) as (_ & H2 & _). exact H2.
  - intros p e Hl. by destruct (wf_entry_b_spec m p e (He _ _ Hl)) as (H1 & _).
  - intros n d e Hl. by destruct (wf_entry_b_spec m _ e (He _ _ Hl)) as (_ & H2 & _).
  - intros p e n Hl Hin. destruct (wf_entry_b_spec m p e (He _ _ Hl)) as (_ & _ & H3 & _). by apply H3.
  - intros p. split.
    + intros Hs. assert (Hk : is_Some (m_ents m !! p)).
      { destruct Hs as [d Hd]. specialize (Hdat (p, d)). cbn in Hdat. eapply bool_decide_eq_true_1. apply Hdat.
        by apply elem_of_list_In, elem_of_map_to_list. }
      destruct Hk as [e Hl]. exists e. split; [done|]. destruct (wf_entry_b_spec m p e (He _ _ Hl)) as (_ & _ & _ & H4 & _). by apply H4.
    + intros (e & Hl & Hf & Hk). destruct (wf_entry_b_spec m p e (He _ _ Hl)) as (_ & _ & _ & H4 & _). by apply H4.
  - intros p e Hl. by destruct (wf_entry_b_spec m p e (He _ _ Hl)) as (_ & _ & _ & _ & H5 & _).
  - intros p e Hl Hk. destruct (wf_entry_b_spec m p e (He _ _ Hl)) as (_ & _ & _ & _ & _ & H6). by apply H6.
  - done.
Qed.

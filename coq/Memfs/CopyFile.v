(* Memfs/CopyFile.v — copy of a regular file to a fresh path in an existing directory (C09, C06): the call succeeds, the
   destination is a regular file with the source's content, owner and mode (the requested mode when a chmod option selects
   files), its directory lists it, and nothing else changes - the source included; source and copy share nothing. *)
From stdpp Require Import gmap.
From Coq Require Import NArith.
From RV Require Import Base.Str Base.PathLex Base.PathLexFacts Base.SpanFacts Path.Helpers Path.HelpersFacts Path.Expand
  Memfs.State Memfs.Ops Memfs.Walk Memfs.WalkOps Memfs.WalkFacts Memfs.WalkSpec Memfs.WalkTerm Memfs.Wf.

Definition names_ok (p : rpath) : Prop := List.Forall is_name p.

(* paths produced by resolve consist of proper names *)
Lemma names_of_ok s : List.Forall is_name (names_of s).
Proof.
  unfold names_of. pose proof (components_names_ok s) as H. induction (components s) as [|c cs IH]; [constructor|].
  inversion H; subst. cbn [flat_map]. destruct c; cbn [app]; try (apply IH; assumption). constructor; [assumption|apply IH; assumption].
Qed.

Lemma resolve_names_ok env m s p : resolve env m s = inl p → names_ok p.
Proof.
  unfold resolve. destruct (Abs.abs _ env s) as [r|e]; [|discriminate]. intros H. injection H as <-.
  unfold names_ok. apply List.Forall_rev. apply names_of_ok.
Qed.

Lemma names_of_abs_of ns : List.Forall is_name ns → names_of (abs_of ns) = ns.
Proof.
  intros H. unfold names_of. rewrite (components_abs_of ns H). cbn [flat_map app].
  induction ns as [|n ns IH]; [reflexivity|]. cbn [map flat_map app]. f_equal. apply IH. by inversion H.
Qed.

Lemma copy_dst_self dp sp : names_ok dp → copy_dst dp sp sp = dp.
Proof.
  intros Hd. unfold copy_dst, rp_of_string.
  rewrite <- (app_nil_r (render_rpath sp)) at 1. rewrite trim_prefix_inv.
  assert (Hne : render_rpath dp ≠ []).
  { unfold render_rpath. rewrite abs_of_string by (apply List.Forall_rev; exact Hd). discriminate. }
  unfold names_of. rewrite (mash_components _ [] Hne). cbn [strip_seps].
  change (split []) with [@nil N]. cbn [flat_map seg_comp app]. rewrite app_nil_r.
  unfold render_rpath. rewrite (components_abs_of (rev dp)) by (apply List.Forall_rev; exact Hd).
  cbn [flat_map app]. replace (flat_map _ (map CNormal (rev dp))) with (rev dp); [apply rev_involutive|].
  induction (rev dp) as [|n ns IH]; [reflexivity|]. cbn [map flat_map app]. f_equal. exact IH.
Qed.

(* a traversal started at something that is not a directory yields just that entry, links followed or not *)
Lemma walk_nondir (E : gmap rpath entry) o pre p r : E !! p = Some r → e_dir r = false → e_link r = false →
  walk E o pre p = inl (Done (if selected o 0 r then [EvItem (IOk r)] else [])).
Proof.
  intros Hr Hd Hl.
  assert (Hf : (if o_follow o then follow_e r else r) = r) by (unfold follow_e; rewrite Hl; by destruct (o_follow o)).
  assert (Hsw : sw_walk 1 E o pre r = Some (if selected o 0 r then [EvItem (IOk r)] else [])).
  { unfold sw_walk. rewrite Hf. cbn [sw]. unfold loops, enters. rewrite Hd. cbn [andb length]. done. }
  apply (walk_is_spec E o pre p r 1 _ Hr Hsw).
  - rewrite Hf. cbn [steps]. unfold loops, enters. rewrite Hd. rewrite ?andb_false_r. cbn [andb]. pose proof (walk_fuel_ge E). lia.
  - pose proof (walk_fuel_ge E). destruct (selected o 0 r); cbn; lia.
Qed.

Definition copied_entry (o : copy_opts) (r : entry) (dp : rpath) : entry :=
  let fm := match cp_mode o with Some x => if cp_cfiles o || negb (cp_cdirs o) then Some x else None | None => None end in
  match fm with
  | Some md => set_mode (set_mode (set_path r dp) (Some md)) (Some md)
  | None => set_mode (set_path r dp) (Some (e_mode r))
  end.

Theorem copy_file_fresh env m s d o sp dp db ddir r pd bytes :
  WF m → resolve env m s = inl sp → resolve env m d = inl dp → sp ≠ dp →
  m_ents m !! sp = Some r → e_file r = true → e_dir r = false → e_link r = false → m_data m !! sp = Some bytes →
  dp = db :: ddir → m_ents m !! dp = None → m_ents m !! ddir = Some pd → real_dir pd →
  ∃ m', copy_op env m s d o = Done (m', inl tt) ∧
    m_ents m' !! dp = Some (copied_entry o r dp) ∧ m_data m' !! dp = Some bytes ∧
    m_ents m' !! ddir = Some (entry_add pd db).1 ∧
    (∀ q, q ≠ dp → q ≠ ddir → m_ents m' !! q = m_ents m !! q) ∧
    (∀ q, q ≠ dp → m_data m' !! q = m_data m !! q) ∧ m_cwd m' = m_cwd m ∧ m_root m' = m_root m.
Proof.
  intros HW Hs Hd Hne Hr Hf Hdir Hl Hdat -> Hdp Hpd [Hpdd Hpdl].
  pose proof (wf_key m HW _ _ Hr) as Hkey.
  unfold copy_op. rewrite Hs, Hd. rewrite bool_decide_false by done. unfold clone_entry at 1. rewrite Hr.
  assert (Hfe : (if cp_follow o then follow_e r else r) = r) by (unfold follow_e; rewrite Hl; by destruct (cp_follow o)).
  rewrite Hfe, Hkey. rewrite (walk_nondir (m_ents m) _ no_pre sp r Hr Hdir Hl).
  change (selected (w_follow default_wopts (cp_follow o)) 0 r) with true. cbn [items_of flat_map app copy_loop].
  assert (Hci : is_dir_at m (db :: ddir) = false) by (unfold is_dir_at; by rewrite Hdp).
  rewrite Hci, Hkey. rewrite (copy_dst_self (db :: ddir) sp (resolve_names_ok env m d _ Hd)).
  rewrite bool_decide_false by done.
  set (dm := match cp_mode o with Some x => if cp_cdirs o || negb (cp_cfiles o) then Some x else None | None => None end).
  set (fm := match cp_mode o with Some x => if cp_cfiles o || negb (cp_cdirs o) then Some x else None | None => None end).
  unfold copy_one. rewrite Hl, andb_false_r. unfold clone_entry. rewrite Hkey, Hr, Hdir. cbv beta iota. rewrite Hpd.
  (* the add of the new file entry *)
  set (dst := set_mode (set_path r (db :: ddir)) (orelse fm (Some (e_mode r)))).
  assert (Hdn : ddir ≠ db :: ddir) by (intros E; apply (f_equal length) in E; cbn in E; lia).
  assert (Hfresh : db ∉ files_of pd).
  { intros Hin. destruct (wf_chl m HW _ _ _ Hpd Hin) as [x Hx]. congruence. }
  unfold add. cbv zeta. change (e_path dst) with (db :: ddir). cbv beta iota. rewrite Hpd, Hpdd, Hpdl. cbn [negb orb]. rewrite Hdp.
  change (e_link dst) with (e_link r). change (e_file dst) with (e_file r). rewrite Hl, Hf. cbn [negb andb].
  cbn [upd_ents upd_data m_ents]. rewrite lookup_insert_ne by done. rewrite Hpd.
  assert (Hea : entry_add pd db = ((entry_add pd db).1, true)).
  { unfold entry_add, files_of in *. destruct (e_files pd) as [fs|]; cbn in *; [|done]. f_equal. by rewrite bool_decide_false. }
  rewrite Hea.
  rewrite ?Hkey.
  destruct fm as [md|] eqn:Efm.
  - (* a chmod option selects files *)
    unfold set_mode_at. cbn [upd_ents upd_data m_ents m_data m_cwd m_root].
    rewrite (lookup_insert_ne _ ddir (db :: ddir)) by done. rewrite lookup_insert.
    cbn [upd_ents upd_data m_ents m_data m_cwd m_root]. rewrite lookup_insert_ne by done. rewrite Hdat.
    eexists. split; [done|]. cbn [upd_data upd_ents m_ents m_data m_cwd m_root].
    split; [rewrite lookup_insert; unfold copied_entry; fold fm; rewrite Efm; done|].
    split; [by rewrite lookup_insert|].
    split; [rewrite lookup_insert_ne by done; by rewrite lookup_insert|].
    split; [intros q H1 H2; by rewrite !lookup_insert_ne|].
    split; [intros q H1; by rewrite !lookup_insert_ne|done].
  - cbn [upd_ents upd_data m_ents m_data m_cwd m_root]. rewrite lookup_insert_ne by done. rewrite Hdat.
    eexists. split; [done|]. cbn [upd_data upd_ents m_ents m_data m_cwd m_root].
    split; [rewrite lookup_insert_ne by done; rewrite lookup_insert; unfold copied_entry; fold fm; rewrite Efm; done|].
    split; [by rewrite lookup_insert|].
    split; [by rewrite lookup_insert|].
    split; [intros q H1 H2; by rewrite !lookup_insert_ne|].
    split; [intros q H1; by rewrite !lookup_insert_ne|done].
Qed.

(* Memfs/RefineMove.v — move_p against the reference tree (C01 / C09): the reference move on the flat tree (every node at or
   below the source re-keyed under the destination, a relative link re-aimed from its new place; everything else as it was),
   its validation read off the tree alone, and the theorem that the mirror's move_p returns the reference's result and leaves
   the reference's tree. *)
From stdpp Require Import gmap.
From Coq Require Import NArith.
From RV Require Import Base.Str Base.PathLex Path.Helpers Path.Clean Path.CleanSpec Path.Expand Memfs.State Memfs.Ops Memfs.Step
  Memfs.Wf Memfs.WfMove Memfs.MoveFacts Memfs.Spec Memfs.Refine.

(* a relative link is re-aimed from the directory it now lives in *)
Definition retarget (k : rpath) (n : node) : node :=
  match n_kind n with
  | KLink => if negb (is_absolute (n_rel n))
             then mkNode (n_kind n) (n_mode n) (n_uid n) (n_gid n) (n_data n)
                         (Some (rev (names_of (clean_spec (mash (render_rpath (tail k)) (n_rel n)))))) (n_rel n) (n_tdir n)
             else n
  | _ => n
  end.

Lemma node_of_move_entry e k d : node_of (move_entry e k) d = retarget k (node_of e d).
Proof.
  unfold move_entry, retarget, node_of, kind_of_entry. cbn [n_kind n_rel].
  destruct (e_link e) eqn:El; cbn [andb].
  - destruct (negb (is_absolute (e_rel e))); cbn; rewrite ?El; done.
  - cbn. rewrite El. by destruct (e_dir e).
Qed.

(* ---- the reference move on the node map ---- *)
Definition under (r : rpath) (kn : rpath * node) : Prop := r `suffix_of` kn.1.
Global Instance under_dec r kn : Decision (under r kn).
Proof. unfold under. apply _. Defined.

Definition spec_move_nodes (T : gmap rpath node) (sr dt : rpath) : gmap rpath node :=
  list_to_map (map (λ kn : rpath * node, (rebase sr dt kn.1, retarget (rebase sr dt kn.1) kn.2)) (map_to_list (filter (under sr) T)))
  ∪ filter (λ kn, ¬ sr `suffix_of` kn.1 ∧ ¬ dt `suffix_of` kn.1) T.

Lemma spec_move_lookup T sr dt k : ¬ sr `suffix_of` dt → ¬ dt `suffix_of` sr →
  spec_move_nodes T sr dt !! k =
    if decide (dt `suffix_of` k) then retarget k <$> (T !! rebase dt sr k)
    else if decide (sr `suffix_of` k) then None else T !! k.
Proof.
  intros H1 H2. unfold spec_move_nodes. set (L := map _ _).
  assert (Hnd : NoDup L.*1).
  { subst L. rewrite <- list_fmap_compose. apply NoDup_fmap_2_strong; [|apply NoDup_map_to_list].
    intros [q n] [q' n'] Hq Hq' E. unfold compose in E. cbn [fst] in E. apply elem_of_map_to_list, map_filter_lookup_Some in Hq as [Hq Hu].
    apply elem_of_map_to_list, map_filter_lookup_Some in Hq' as [Hq' Hu']. unfold under in Hu, Hu'. cbn in Hu, Hu'.
    destruct Hu as [j ->]. destruct Hu' as [j' ->]. rewrite !rebase_app in E. apply app_inv_tail in E. subst j'. congruence. }
  assert (HL : ∀ v, (k, v) ∈ L ↔ ∃ q n, T !! q = Some n ∧ sr `suffix_of` q ∧ k = rebase sr dt q ∧ v = retarget k n).
  { intros v. subst L. rewrite elem_of_list_fmap. split.
    - intros ([q n] & E & Hin). cbn [fst snd] in E. injection E as Ek Ev. apply elem_of_map_to_list, map_filter_lookup_Some in Hin as [Hq Hu].
      exists q, n. rewrite Ek. done.
    - intros (q & n & Hq & Hu & -> & ->). exists (q, n). split; [done|]. apply elem_of_map_to_list, map_filter_lookup_Some. done. }
  destruct (decide (dt `suffix_of` k)) as [[j ->]|Hk].
  - (* under the destination: what was at the same place under the source *)
    rewrite rebase_app. destruct (T !! (j ++ sr)) as [n|] eqn:Hn; cbn.
    + apply lookup_union_Some_l. apply elem_of_list_to_map; [done|]. apply HL. exists (j ++ sr), n.
      split; [done|]. split; [by apply suffix_app_r|]. by rewrite rebase_app.
    + apply lookup_union_None. split.
      * apply not_elem_of_list_to_map. intros Hin. apply elem_of_list_fmap in Hin as ([k' v] & Ek & Hin). cbn in Ek. subst k'.
        apply HL in Hin as (q & n & Hq & [j' ->] & E & _). rewrite rebase_app in E. apply app_inv_tail in E. subst j'. congruence.
      * apply map_filter_lookup_None. right. intros n _ [_ Hd]. apply Hd. cbn. by apply suffix_app_r.
  - assert (Hnone : (list_to_map L : gmap rpath node) !! k = None).
    { apply not_elem_of_list_to_map. intros Hin. apply elem_of_list_fmap in Hin as ([k' v] & Ek & Hin). cbn in Ek. subst k'.
      apply HL in Hin as (q & n & Hq & [j' ->] & E & _). rewrite rebase_app in E. apply Hk. rewrite E. by apply suffix_app_r. }
    rewrite lookup_union_r by done. destruct (decide (sr `suffix_of` k)) as [Hs|Hs].
    + apply map_filter_lookup_None. right. intros n _ [Hns _]. by apply Hns.
    + destruct (T !! k) as [n|] eqn:Hn.
      * apply map_filter_lookup_Some. done.
      * apply map_filter_lookup_None. by left.
Qed.

(* ---- the validation, read off the tree ---- *)
Definition is_kdir (n : node) : bool := match n_kind n with KDir => true | _ => false end.

Definition spec_move_plan (env : envmap) (t : tree) (src dst : list N) : move_plan :=
  match (match Abs.abs (render_rpath (t_cwd t)) env src with inl r => inl (rev (names_of r)) | inr e => inr e end) with
  | inr e => MvErr e
  | inl sp =>
      match (match Abs.abs (render_rpath (t_cwd t)) env dst with inl r => inl (rev (names_of r)) | inr e => inr e end) with
      | inr e => MvErr e
      | inl dp =>
          let copy_into := t_is_dir t dp in
          match t_nodes t !! sp with
          | None => MvErr EDoesNotExist
          | Some _ =>
              let dt := if copy_into then match sp with [] => dp | b :: _ => b :: dp end else dp in
              if bool_decide (dt = sp) then MvNoop else
              match dt with
              | [] => MvErr EParentNotFound
              | _ :: ddir =>
                  if is_under dt sp then MvErr EParentNotFound else
                  match t_nodes t !! ddir with
                  | None => MvErr EDoesNotExist
                  | Some x =>
                      if negb (is_kdir x) then MvErr EIsNotDir else
                      let clash := match t_nodes t !! dt with Some y => t_is_dir t sp && negb (is_kdir y) | None => false end in
                      if clash then MvErr EIsNotDir else
                      let clash2 := match t_nodes t !! dt with Some y => negb (t_is_dir t sp) && is_kdir y | None => false end in
                      if clash2 then MvErr EIsNotFile else
                      let blocked := match t_nodes t !! dt with Some _ => t_has_child t dt | None => false end in
                      if blocked then MvErr EDirContainsFiles else MvGo sp dt
                  end
              end
          end
      end
  end.

Lemma is_kdir_node e d : is_kdir (node_of e d) = e_dir e && negb (e_link e).
Proof. unfold is_kdir, node_of, kind_of_entry. cbn. by destruct (e_link e), (e_dir e). Qed.

Lemma is_dir_at_abs m p : is_dir_at m p = t_is_dir (abs m) p.
Proof.
  unfold is_dir_at, t_is_dir. rewrite lookup_abs. destruct (m_ents m !! p) as [e|]; cbn; [|done].
  unfold kind_of_entry. by destruct (e_link e), (e_dir e).
Qed.

Lemma move_validate_abs env m s d : WF m → move_validate env m s d = spec_move_plan env (abs m) s d.
Proof.
  intros HW. unfold move_validate, spec_move_plan, resolve. cbn [t_cwd abs].
  destruct (Abs.abs _ env s) as [rs|e]; [|done]. destruct (Abs.abs _ env d) as [rd|e]; [|done].
  set (sp := rev (names_of rs)). set (dp := rev (names_of rd)).
  rewrite (is_dir_at_abs m dp), (lookup_abs m sp). destruct (m_ents m !! sp) as [se|] eqn:Hse; cbn [fmap option_fmap option_map]; [|done].
  set (dt := if t_is_dir (abs m) dp then _ else dp). case_bool_decide; [done|].
  destruct dt as [|b ddir] eqn:Edt; [done|]. destruct (is_under (b :: ddir) sp); [done|].
  rewrite (lookup_abs m ddir). destruct (m_ents m !! ddir) as [x|] eqn:Hx; cbn [fmap option_fmap option_map]; [|done].
  rewrite is_kdir_node. destruct (e_dir x && negb (e_link x)); cbn [negb]; [|done].
  rewrite (lookup_abs m (b :: ddir)), (is_dir_at_abs m sp).
  destruct (m_ents m !! (b :: ddir)) as [y|] eqn:Hy; cbn [fmap option_fmap option_map]; [|done].
  rewrite is_kdir_node. rewrite (has_child_files m (b :: ddir) y HW Hy). done.
Qed.

(* the reference call *)
Definition spec_move (env : envmap) (t : tree) (src dst : list N) : tree * (unit + errkind) :=
  match spec_move_plan env t src dst with
  | MvErr e => (t, inr e)
  | MvNoop => (t, inl tt)
  | MvGo sp dt => (mkTree (t_cwd t) (spec_move_nodes (t_nodes t) sp dt), inl tt)
  end.

Theorem move_refines env m s d m' r : WF m → move_op env m s d = Done (m', r) →
  abs m' = (spec_move env (abs m) s d).1 ∧ r = (spec_move env (abs m) s d).2.
Proof.
  intros HW Hm. unfold spec_move. rewrite <- (move_validate_abs env m s d HW).
  destruct (move_validate env m s d) as [e| |sp dt0] eqn:Ev.
  - unfold move_op in Hm. rewrite Ev in Hm. by simplify_eq.
  - unfold move_op in Hm. rewrite Ev in Hm. by simplify_eq.
  - destruct (move_go_facts env m s d _ _ Ev) as (_ & _ & Hu & b & ddir & x0 & -> & _).
    destruct sp as [|sb sd].
    { exfalso. assert (is_under (b :: ddir) [] = true) as Ht by (apply is_under_spec, suffix_nil). congruence. }
    destruct (move_op_spec env m s d sb sd b ddir m' r HW Ev Hm) as (se & op & x & Hse & Hop & Hx & Hxr & -> & He & Hd & Hc & _ & H1 & H2 & Hfree).
    cbn [fst snd]. split; [|done]. apply tree_eq; [done|]. intros k. cbn [t_nodes]. rewrite lookup_abs, He, Hd.
    change (t_nodes (abs m)) with (abs_nodes m). rewrite (spec_move_lookup _ _ _ k H1 H2).
    unfold Fe, Fd. destruct (decide (k = b :: ddir)) as [->|Hk1].
    + rewrite decide_True by done. assert (Hrs : rebase (b :: ddir) (sb :: sd) (b :: ddir) = sb :: sd) by (unfold rebase; by rewrite Nat.sub_diag).
      rewrite Hrs. rewrite lookup_abs_nodes, Hse. cbn. by rewrite node_of_move_entry.
    + destruct (decide ((b :: ddir) `suffix_of` k)) as [Hk2|Hk2].
      * unfold unrb. rewrite lookup_abs_nodes. destruct (m_ents m !! rebase (b :: ddir) (sb :: sd) k); cbn; [|done]. by rewrite node_of_move_entry.
      * destruct (decide ((sb :: sd) `suffix_of` k)); [done|].
        destruct (decide (k = ddir)) as [->|Hk3].
        -- rewrite lookup_abs_nodes, Hx. cbn. unfold ea, np. rewrite entry_add_node. case_decide as Hds; [|done].
           subst ddir. rewrite Hop in Hx. injection Hx as <-. by rewrite entry_remove_node.
        -- destruct (decide (k = sd)) as [->|Hk4]; [|by rewrite lookup_abs_nodes].
           rewrite lookup_abs_nodes, Hop. cbn. unfold er. by rewrite entry_remove_node.
Qed.

(* Memfs/WalkExact.v — what the recursion of Memfs/WalkSpec.v yields on the entries index of a well-formed Memfs state
   (C08): consequences for `walk` read off the recursion. *)
From stdpp Require Import gmap.
From Coq Require Import NArith Sorting.Sorted.
From RV Require Import Base.Str Path.Helpers Memfs.State Memfs.Walk Memfs.WalkFacts Memfs.WalkSpec Memfs.WalkTerm Memfs.Wf.

Lemma wf_key_ok m : WF m → key_ok (m_ents m).
Proof. intros HW p e He. by apply (wf_key m HW). Qed.

Theorem walk_nofollow_wf m o pre rootp : WF m → o_follow o = false → walk (m_ents m) o pre rootp ≠ inl OutOfFuel.
Proof. intros HW. apply walk_nofollow_terminates. by apply wf_key_ok. Qed.

(* ---- exactly the selected entries, each once ---- *)
Definition oks (evs : list event) : list entry :=
  flat_map (fun ev => match ev with EvItem (IOk x) => [x] | _ => [] end) evs.

Lemma oks_app a b : oks (a ++ b) = oks a ++ oks b.
Proof. unfold oks. by rewrite flat_map_app. Qed.
Lemma oks_pre e evs : oks (EvPre e :: evs) = oks evs.
Proof. done. Qed.
Lemma oks_ok e evs : oks (EvItem (IOk e) :: evs) = e :: oks evs.
Proof. done. Qed.

(* x is an entry at or below p that the options select, p being met at depth d *)
Definition sel_under (E : gmap rpath entry) (o : wopts) (p : rpath) (d : nat) (x : entry) : Prop :=
  ∃ q, E !! q = Some x ∧ p `suffix_of` q ∧
       selected o (d + (length q - length p)) x = true ∧ le_max (d + (length q - length p)) (o_max o) = true.

Lemma under_child m j n p x : WF m → m_ents m !! (j ++ n :: p) = Some x →
  ∃ c pe, m_ents m !! (n :: p) = Some c ∧ m_ents m !! p = Some pe ∧ real_dir pe ∧ n ∈ files_of pe.
Proof.
  intros HW Hx. destruct (wf_reachable m HW _ _ Hx (length j)) as [c Hc]; [rewrite app_length; lia|].
  rewrite (drop_app_alt j (n :: p) (length j) eq_refl) in Hc. exists c. destruct (wf_par m HW _ _ _ Hc) as (pe & Hpe & Hrd & Hin). eauto.
Qed.

Lemma child_entries_full (E : gmap rpath entry) p ns : (∀ n, n ∈ ns → is_Some (E !! (n :: p))) →
  ∀ n c, n ∈ ns → E !! (n :: p) = Some c → c ∈ child_entries E p false ns.
Proof.
  induction ns as [|n0 ns IH]; intros Hall n c Hn Hc; [by apply elem_of_nil in Hn|].
  cbn [child_entries]. destruct (Hall n0 ltac:(left)) as [c0 Hc0]. rewrite Hc0.
  apply elem_of_cons in Hn as [->|Hn]; [rewrite Hc0 in Hc; simplify_eq; left|].
  right. eapply IH; [intros; apply Hall; by right|exact Hn|exact Hc].
Qed.

Lemma strict_under_split {A} (p q : list A) : p `suffix_of` q → q ≠ p → ∃ j n, q = j ++ n :: p.
Proof.
  intros [j ->] Hne. destruct j as [|a j] using rev_ind; [done|]. exists j, a. by rewrite <- app_assoc.
Qed.

Lemma kids_exact (f : entry → option (list event)) (P : entry → entry → Prop) (p : rpath) l : ∀ kids,
  concat_opt (map f l) = Some kids →
  (∀ c evs, c ∈ l → f c = Some evs → (∀ x, x ∈ oks evs ↔ P c x) ∧ NoDup (map e_path (oks evs))) →
  (∀ c x, c ∈ l → P c x → e_path c `suffix_of` e_path x) →
  NoDup (map e_path l) → (∀ c, c ∈ l → ∃ n, e_path c = n :: p) →
  (∀ x, x ∈ oks kids ↔ ∃ c, c ∈ l ∧ P c x) ∧ NoDup (map e_path (oks kids)).
Proof.
  induction l as [|c l IH]; intros kids Hc Hf Hsuf Hnd Hp.
  - cbn in Hc. simplify_eq. split; [|constructor]. intros x. split; [by intros H%elem_of_nil|]. intros (c & Hc & _). by apply elem_of_nil in Hc.
  - cbn [map concat_opt] in Hc. destruct (f c) as [evs|] eqn:Ef; [|done]. destruct (concat_opt _) as [kids'|] eqn:Ek; [|done]. simplify_eq.
    cbn [map] in Hnd. apply NoDup_cons in Hnd as [Hnc Hnd].
    destruct (Hf c evs ltac:(left) Ef) as [Hiff Hnd1].
    destruct (IH kids' eq_refl ltac:(intros; apply Hf; [by right|done]) ltac:(intros; apply Hsuf; [by right|done]) Hnd ltac:(intros; apply Hp; by right)) as [Hiff' Hnd2].
    rewrite oks_app. split.
    + intros x. rewrite elem_of_app, Hiff, Hiff'. split.
      * intros [H|(c' & Hc' & H)]; [exists c; split; [left|done]|exists c'; split; [by right|done]].
      * intros (c' & [->|Hc']%elem_of_cons & H); [by left|right; eauto].
    + rewrite map_app. apply NoDup_app. split; [done|]. split; [|done].
      intros y Hy1 Hy2. apply elem_of_list_fmap in Hy1 as (x & -> & Hx). apply elem_of_list_fmap in Hy2 as (x' & Hpx & Hx').
      apply Hiff in Hx. apply Hiff' in Hx' as (c' & Hc' & Hx').
      pose proof (Hsuf c x ltac:(left) Hx) as S1. pose proof (Hsuf c' x' ltac:(by right) Hx') as S2.
      destruct (Hp c ltac:(left)) as [n En]. destruct (Hp c' ltac:(by right)) as [n' En']. rewrite En in S1. rewrite En', <- Hpx in S2.
      pose proof (suffix_cons_same _ _ _ _ S1 S2) as ->. apply Hnc. rewrite En, <- En'. by apply elem_of_list_fmap_1.
Qed.

Lemma enters_nofollow o e : o_follow o = false → enters o e = e_dir e && negb (e_link e).
Proof. unfold enters. intros ->. by rewrite orb_false_r. Qed.

Lemma le_max_S d mx : lt_max d mx = true → le_max (S d) mx = true.
Proof. destruct mx as [k|]; unfold lt_max, le_max; [|done]. intros H%Nat.ltb_lt. apply Nat.leb_le. lia. Qed.

Lemma lt_max_false d mx d' : lt_max d mx = false → d < d' → le_max d' mx = false.
Proof. destruct mx as [k|]; unfold lt_max, le_max; [|done]. intros H%Nat.ltb_ge Hd. apply Nat.leb_gt. lia. Qed.

Lemma sw_exact h : ∀ m o pre stack e p evs, WF m → o_follow o = false → (∀ x, pre x = None) →
  m_ents m !! p = Some e → le_max (length stack) (o_max o) = true →
  sw h (m_ents m) o pre stack e = Some evs →
  (∀ x, x ∈ oks evs ↔ sel_under (m_ents m) o p (length stack) x) ∧ NoDup (map e_path (oks evs)).
Proof.
  induction h as [|h IH]; intros m o pre stack e p evs HW Hnf Hpre He Hmax Hsw; [done|].
  pose proof (wf_key m HW _ _ He) as Hp. rewrite sw_S in Hsw. cbn zeta in Hsw.
  rewrite (loops_nofollow o stack e Hnf), (enters_nofollow o e Hnf), Hpre in Hsw.
  set (d := length stack) in *.
  (* the entry itself *)
  assert (Hself : ∀ x, sel_under (m_ents m) o p d x → e_path x = p → x = e ∧ selected o d e = true).
  { intros x (q & Hq & Hs & Hsel & _) Hxp. rewrite (wf_key m HW _ _ Hq) in Hxp. subst q. rewrite He in Hq. simplify_eq.
    rewrite Nat.sub_diag, Nat.add_0_r in Hsel. done. }
  assert (Hmk : selected o d e = true → sel_under (m_ents m) o p d e).
  { intros Hsel. exists p. rewrite Nat.sub_diag, Nat.add_0_r. done. }
  destruct (e_dir e && negb (e_link e) && lt_max d (o_max o)) eqn:Eent.
  - (* entered *)
    apply andb_true_iff in Eent as [Hrd Hlt]. apply andb_true_iff in Hrd as [Hdir Hnl]. apply negb_true_iff in Hnl.
    unfold children in Hsw. rewrite Hp, He, Hnf in Hsw.
    set (ns := match e_files e with Some fs => elements fs | None => [] end) in *.
    set (cs := child_entries (m_ents m) p false ns) in *.
    destruct (concat_opt _) as [kids|] eqn:Ek; [|done].
    pose proof (arrange_perm o cs) as Hperm.
    assert (Hns : NoDup ns) by (subst ns; destruct (e_files e); [apply NoDup_elements|constructor]).
    assert (Hcs : ∀ c, c ∈ arrange o cs → ∃ n, n ∈ ns ∧ m_ents m !! (n :: p) = Some c)
      by (intros c Hc; rewrite Hperm in Hc; by apply child_entries_spec in Hc).
    assert (Hnd : NoDup (map e_path (arrange o cs))) by (rewrite Hperm; apply child_entries_nodup; [by apply wf_key_ok|done]).
    assert (Hpaths : ∀ c, c ∈ arrange o cs → ∃ n, e_path c = n :: p)
      by (intros c Hc; destruct (Hcs c Hc) as (n & _ & Hn); exists n; by apply (wf_key m HW)).
    destruct (kids_exact (sw h (m_ents m) o pre (p :: stack)) (fun c x => sel_under (m_ents m) o (e_path c) (S d) x) p (arrange o cs) kids Ek) as [Hiff Hndk].
    { intros c evs' Hc Hf. destruct (Hcs c Hc) as (n & _ & Hn). rewrite (wf_key m HW _ _ Hn).
      apply (IH m o pre (p :: stack) c (n :: p) evs' HW Hnf Hpre Hn); [by apply le_max_S|done]. }
    { intros c x Hc (q & Hq & Hs & _). by rewrite (wf_key m HW _ _ Hq). }
    { done. } { done. }
    (* membership in the children's events *)
    assert (Hkids : ∀ x, x ∈ oks kids ↔ sel_under (m_ents m) o p d x ∧ e_path x ≠ p).
    { intros x. rewrite Hiff. split.
      - intros (c & Hc & q & Hq & Hs & Hsel & Hle). destruct (Hcs c Hc) as (n & _ & Hn). rewrite (wf_key m HW _ _ Hn) in Hs.
        assert (Hlen : length p < length q) by (apply suffix_length in Hs; cbn in Hs; lia).
        rewrite (wf_key m HW _ _ Hn) in Hsel, Hle. cbn [length] in Hsel, Hle.
        replace (S d + (length q - S (length p))) with (d + (length q - length p)) in * by lia.
        split; [exists q; split; [done|]; split; [by eapply suffix_cons_l|done]|].
        rewrite (wf_key m HW _ _ Hq). intros ->. lia.
      - intros [(q & Hq & Hs & Hsel & Hle) Hne]. rewrite (wf_key m HW _ _ Hq) in Hne.
        destruct (strict_under_split p q Hs Hne) as (j & n & ->).
        destruct (under_child m j n p x HW Hq) as (c & pe & Hc & Hpe & _ & Hin). rewrite He in Hpe. simplify_eq.
        assert (Hn : n ∈ ns). { subst ns. unfold files_of in Hin. destruct (e_files pe); cbn in Hin; [by apply elem_of_elements|set_solver]. }
        exists c. split.
        + rewrite Hperm. eapply child_entries_full; [|exact Hn|exact Hc].
          intros n' Hn'. apply (wf_chl m HW _ _ _ He). subst ns. unfold files_of. destruct (e_files pe); cbn; [by apply elem_of_elements|by apply elem_of_nil in Hn'].
        + rewrite (wf_key m HW _ _ Hc). exists (j ++ n :: e_path pe). split; [done|]. split; [by apply suffix_app_r|].
          rewrite app_length in *. cbn [length] in *.
          replace (S d + (length j + S (length (e_path pe)) - S (length (e_path pe)))) with (d + (length j + S (length (e_path pe)) - length (e_path pe))) by lia.
          done. }
    assert (Hnp : p ∉ map e_path (oks kids)).
    { intros Hin. apply elem_of_list_fmap in Hin as (x & Hx & Hin). apply Hkids in Hin as [_ Hne]. done. }
    destruct (selected o d e) eqn:Esel; [destruct (e_dir e && o_contents_first o)|]; simplify_eq.
    + rewrite oks_pre, oks_app, oks_ok. cbn [oks flat_map]. split.
      * intros x. rewrite elem_of_app, elem_of_list_singleton, Hkids. split.
        -- intros [[H _]| ->]; [done|by apply Hmk].
        -- intros H. destruct (decide (e_path x = e_path e)) as [Heq|Hne]; [right; by apply (Hself x H)|by left].
      * rewrite map_app. cbn [map]. apply NoDup_app. split; [done|]. split; [|apply NoDup_singleton].
        intros y Hy Hy2. apply elem_of_list_singleton in Hy2 as ->. done.
    + rewrite oks_pre, oks_ok. split.
      * intros x. rewrite elem_of_cons, Hkids. split.
        -- intros [->|[H _]]; [by apply Hmk|done].
        -- intros H. destruct (decide (e_path x = e_path e)) as [Heq|Hne]; [left; by apply (Hself x H)|by right].
      * cbn [map]. apply NoDup_cons. done.
    + rewrite oks_pre. split; [|done]. intros x. rewrite Hkids. split; [by intros [H _]|].
      intros H. split; [done|]. intros Heq. destruct (Hself x H Heq) as [_ ?]. congruence.
  - (* not entered: nothing below it is selected *)
    assert (Hnone : ∀ x, sel_under (m_ents m) o p d x → e_path x = p).
    { intros x (q & Hq & Hs & Hsel & Hle). rewrite (wf_key m HW _ _ Hq).
      destruct (decide (q = p)) as [|Hne]; [done|]. exfalso.
      destruct (strict_under_split p q Hs Hne) as (j & n & ->).
      destruct (under_child m j n p x HW Hq) as (c & pe & Hc & Hpe & [Hd Hl] & Hin). rewrite He in Hpe. simplify_eq.
      rewrite Hd, Hl in Eent. cbn [negb andb] in Eent.
      rewrite (lt_max_false d (o_max o) _ Eent) in Hle; [done|]. rewrite app_length. cbn. lia. }
    destruct (selected o d e) eqn:Esel; simplify_eq.
    + cbn [oks flat_map app map]. split; [|apply NoDup_singleton]. intros x. rewrite elem_of_list_singleton. split; [intros ->; by apply Hmk|].
      intros H. by apply (Hself x H (Hnone x H)).
    + split; [|constructor]. intros x. split; [by intros H%elem_of_nil|]. intros H. destruct (Hself x H (Hnone x H)) as [_ ?]. congruence.
Qed.

(* ---- no error items without links, on a well-formed state ---- *)
Definition noerr (ev : event) : Prop := match ev with EvItem (IErr _) => False | _ => True end.

Lemma concat_opt_forall {A B} (Q : A → Prop) (f : B → option (list A)) (l : list B) : ∀ kids,
  concat_opt (map f l) = Some kids → (∀ c evs, c ∈ l → f c = Some evs → Forall Q evs) → Forall Q kids.
Proof.
  induction l as [|c l IH]; intros kids Hc Hf; cbn [map concat_opt] in Hc; [by simplify_eq|].
  destruct (f c) as [evs|] eqn:Ef; [|done]. destruct (concat_opt _) as [kids'|] eqn:Ek; [|done]. simplify_eq.
  apply Forall_app. split; [apply (Hf c); [left|done]|]. apply IH; [done|]. intros; eapply Hf; [by right|done].
Qed.

Lemma sw_no_errors h : ∀ m o pre stack e p evs, WF m → o_follow o = false → (∀ x, pre x = None) →
  m_ents m !! p = Some e → sw h (m_ents m) o pre stack e = Some evs → Forall noerr evs.
Proof.
  induction h as [|h IH]; intros m o pre stack e p evs HW Hnf Hpre He Hsw; [done|].
  pose proof (wf_key m HW _ _ He) as Hp. rewrite sw_S in Hsw. cbn zeta in Hsw.
  rewrite (loops_nofollow o stack e Hnf), Hpre in Hsw.
  destruct (enters o e && lt_max (length stack) (o_max o)).
  - unfold children in Hsw. rewrite Hp, He, Hnf in Hsw.
    set (cs := child_entries (m_ents m) p false _) in *.
    destruct (concat_opt _) as [kids|] eqn:Ek; [|done].
    assert (Hk : Forall noerr kids).
    { eapply concat_opt_forall; [exact Ek|]. intros c evs' Hc Hf. rewrite (arrange_perm o cs) in Hc.
      apply child_entries_spec in Hc as (n & _ & Hn). by eapply (IH m o pre (p :: stack) c (n :: p)). }
    destruct (selected o (length stack) e); [destruct (e_dir e && o_contents_first o)|]; simplify_eq.
    + apply Forall_cons. split; [done|]. apply Forall_app. split; [done|]. by apply Forall_singleton.
    + apply Forall_cons. split; [done|]. apply Forall_cons. done.
    + apply Forall_cons. done.
  - destruct (selected o (length stack) e); simplify_eq; [by apply Forall_singleton|constructor].
Qed.

Lemma noerr_items evs : Forall noerr evs → items_of evs = map IOk (oks evs).
Proof.
  induction evs as [|ev evs IH]; intros H; [done|]. apply Forall_cons in H as [H1 H2].
  destruct ev as [e|[x|w]]; cbn in H1; [|..|done].
  - rewrite items_of_pre, oks_pre. by apply IH.
  - rewrite items_of_item, oks_ok. cbn [map]. f_equal. by apply IH.
Qed.

(* C08, links not followed, no pre_op error: the traversal of a well-formed state terminates and yields exactly the entries at
   or below the start that the depth window and the filter select - every one of them, nothing else, no errors, each once *)
Theorem walk_exact m o pre rootp r : WF m → o_follow o = false → (∀ x, pre x = None) → m_ents m !! rootp = Some r →
  ∃ evs, walk (m_ents m) o pre rootp = inl (Done evs) ∧
    items_of evs = map IOk (oks evs) ∧
    (∀ x, x ∈ oks evs ↔ ∃ q, m_ents m !! q = Some x ∧ rootp `suffix_of` q ∧
                          selected o (length q - length rootp) x = true ∧ le_max (length q - length rootp) (o_max o) = true) ∧
    NoDup (map e_path (oks evs)).
Proof.
  intros HW Hnf Hpre Hr. destruct (walk_nofollow (m_ents m) o pre rootp r (wf_key_ok m HW) Hnf Hr) as (h & evs & Hsw & Hw).
  exists evs. split; [done|]. unfold sw_walk in Hsw. rewrite Hnf in Hsw.
  assert (Hm : le_max (length (@nil rpath)) (o_max o) = true) by (destruct (o_max o); done).
  destruct (sw_exact h m o pre [] r rootp evs HW Hnf Hpre Hr Hm Hsw) as [Hiff Hnd].
  split; [apply noerr_items; by eapply sw_no_errors|]. split; [|done]. exact Hiff.
Qed.

(* ---- order: parents before their contents, after them with contents_first ---- *)
Definition before (l : list entry) (a b : entry) : Prop := ∃ l1 l2 l3, l = l1 ++ a :: l2 ++ b :: l3.

Lemma before_mid A B l a b : before l a b → before (A ++ l ++ B) a b.
Proof. intros (l1 & l2 & l3 & ->). exists (A ++ l1), l2, (l3 ++ B). rewrite <- !app_assoc. cbn [app]. rewrite <- !app_assoc. done. Qed.

Lemma before_cons_in a l b : b ∈ l → before (a :: l) a b.
Proof. intros (l2 & l3 & ->)%elem_of_list_split. by exists [], l2, l3. Qed.

Lemma before_snoc_in l a b : a ∈ l → before (l ++ [b]) a b.
Proof. intros (l1 & l2 & ->)%elem_of_list_split. exists l1, l2, []. by rewrite <- app_assoc. Qed.

Lemma concat_opt_parts {A B} (f : B → option (list A)) (l : list B) : ∀ kids,
  concat_opt (map f l) = Some kids → ∀ c, c ∈ l → ∃ evs X Y, f c = Some evs ∧ kids = X ++ evs ++ Y.
Proof.
  induction l as [|c0 l IH]; intros kids Hc c Hin; [by apply elem_of_nil in Hin|].
  cbn [map concat_opt] in Hc. destruct (f c0) as [evs0|] eqn:Ef; [|done]. destruct (concat_opt _) as [kids'|] eqn:Ek; [|done]. simplify_eq.
  apply elem_of_cons in Hin as [->|Hin].
  - exists evs0, [], kids'. done.
  - destruct (IH kids' eq_refl c Hin) as (evs & X & Y & Hf & ->). exists evs, (evs0 ++ X), Y. by rewrite <- app_assoc.
Qed.

Lemma nodup_path_inj (l : list entry) c c' : NoDup (map e_path l) → c ∈ l → c' ∈ l → e_path c = e_path c' → c = c'.
Proof.
  induction l as [|a l IH]; intros Hnd Hc Hc' Hp; [by apply elem_of_nil in Hc|].
  cbn [map] in Hnd. apply NoDup_cons in Hnd as [Hna Hnd].
  apply elem_of_cons in Hc as [->|Hc]; apply elem_of_cons in Hc' as [->|Hc']; [done| | |by apply IH].
  - exfalso. apply Hna. rewrite Hp. by apply elem_of_list_fmap_1.
  - exfalso. apply Hna. rewrite <- Hp. by apply elem_of_list_fmap_1.
Qed.

Definition strictly_above (x y : entry) : Prop := e_path x `suffix_of` e_path y ∧ e_path x ≠ e_path y.

Lemma sw_order h : ∀ m o pre stack e p evs, WF m → o_follow o = false → (∀ x, pre x = None) →
  m_ents m !! p = Some e → le_max (length stack) (o_max o) = true →
  sw h (m_ents m) o pre stack e = Some evs →
  ∀ x y, x ∈ oks evs → y ∈ oks evs → strictly_above x y →
    if o_contents_first o then before (oks evs) y x else before (oks evs) x y.
Proof.
  induction h as [|h IH]; intros m o pre stack e p evs HW Hnf Hpre He Hmax Hsw x y Hx Hy [Hxy Hne]; [done|].
  destruct (sw_exact (S h) m o pre stack e p evs HW Hnf Hpre He Hmax Hsw) as [Hiff _].
  pose proof (wf_key m HW _ _ He) as Hp. rewrite sw_S in Hsw. cbn zeta in Hsw.
  rewrite (loops_nofollow o stack e Hnf), (enters_nofollow o e Hnf), Hpre in Hsw.
  set (d := length stack) in *.
  assert (Hunder : ∀ z, z ∈ oks evs → p `suffix_of` e_path z).
  { intros z Hz. apply Hiff in Hz as (q & Hq & Hs & _). by rewrite (wf_key m HW _ _ Hq). }
  assert (Hyp : e_path y ≠ p).
  { intros Hyp. rewrite Hyp in Hxy, Hne. pose proof (Hunder x Hx) as Hpx. apply Hne. by apply (anti_symm suffix). }
  destruct (e_dir e && negb (e_link e) && lt_max d (o_max o)) eqn:Eent.
  - apply andb_true_iff in Eent as [Hrd Hlt]. apply andb_true_iff in Hrd as [Hdir Hnl].
    unfold children in Hsw. rewrite Hp, He, Hnf in Hsw.
    set (ns := match e_files e with Some fs => elements fs | None => [] end) in *.
    set (cs := child_entries (m_ents m) p false ns) in *.
    destruct (concat_opt _) as [kids|] eqn:Ek; [|done].
    pose proof (arrange_perm o cs) as Hperm.
    assert (Hns : NoDup ns) by (subst ns; destruct (e_files e); [apply NoDup_elements|constructor]).
    assert (Hcs : ∀ c, c ∈ arrange o cs → ∃ n, n ∈ ns ∧ m_ents m !! (n :: p) = Some c)
      by (intros c Hc; rewrite Hperm in Hc; by apply child_entries_spec in Hc).
    assert (Hnd : NoDup (map e_path (arrange o cs))) by (rewrite Hperm; apply child_entries_nodup; [by apply wf_key_ok|done]).
    (* an item of the children's events lies in one child's events, under that child *)
    assert (Hpart : ∀ z, z ∈ oks kids → ∃ c n evs' X Y, c ∈ arrange o cs ∧ m_ents m !! (n :: p) = Some c ∧
               sw h (m_ents m) o pre (p :: stack) c = Some evs' ∧ kids = X ++ evs' ++ Y ∧ z ∈ oks evs' ∧ (n :: p) `suffix_of` e_path z).
    { assert (Hpaths : ∀ c, c ∈ arrange o cs → ∃ n, e_path c = n :: p)
        by (intros c Hc; destruct (Hcs c Hc) as (n & _ & Hn); exists n; by apply (wf_key m HW)).
      destruct (kids_exact (sw h (m_ents m) o pre (p :: stack)) (fun c x => sel_under (m_ents m) o (e_path c) (S d) x) p (arrange o cs) kids Ek) as [Hiffk _].
      { intros c evs' Hc Hf. destruct (Hcs c Hc) as (n & _ & Hn). rewrite (wf_key m HW _ _ Hn).
        apply (sw_exact h m o pre (p :: stack) c (n :: p) evs' HW Hnf Hpre Hn); [by apply le_max_S|done]. }
      { intros c z Hc (q & Hq & Hs & _). by rewrite (wf_key m HW _ _ Hq). }
      { done. } { done. }
      intros z Hz. apply Hiffk in Hz as (c & Hc & Hsel). destruct (Hcs c Hc) as (n & _ & Hn).
      destruct (concat_opt_parts _ _ _ Ek c Hc) as (evs' & X & Y & Hf & HK).
      exists c, n, evs', X, Y. split; [done|]. split; [done|]. split; [done|]. split; [done|].
      destruct (sw_exact h m o pre (p :: stack) c (n :: p) evs' HW Hnf Hpre Hn ltac:(by apply le_max_S) Hf) as [Hiffc _].
      rewrite (wf_key m HW _ _ Hn) in Hsel. split; [by apply Hiffc|].
      destruct Hsel as (q & Hq & Hs & _). by rewrite (wf_key m HW _ _ Hq). }
    (* both below p: they are in the same child's events *)
    assert (Hboth : x ∈ oks kids → y ∈ oks kids →
              if o_contents_first o then before (oks kids) y x else before (oks kids) x y).
    { intros Hxk Hyk. destruct (Hpart x Hxk) as (c & n & evs' & X & Y & Hc & Hn & Hf & HK & Hxc & Hsx).
      destruct (Hpart y Hyk) as (c' & n' & evs'' & X' & Y' & Hc' & Hn' & Hf' & HK' & Hyc & Hsy).
      assert (n = n') as <- by (eapply suffix_cons_same; [exact (transitivity Hsx Hxy)|exact Hsy]).
      rewrite Hn in Hn'. injection Hn' as <-. rewrite Hf in Hf'. injection Hf' as <-.
      pose proof (IH m o pre (p :: stack) c (n :: p) evs' HW Hnf Hpre Hn ltac:(by apply le_max_S) Hf x y Hxc Hyc (conj Hxy Hne)) as Hb.
      rewrite HK, !oks_app. destruct (o_contents_first o); by apply before_mid. }
    assert (Hyk : y ∈ oks kids → e_path x = p → x = e).
    { intros _ Hxp. apply Hiff in Hx as (q & Hq & _). rewrite (wf_key m HW _ _ Hq) in Hxp. subst q. rewrite He in Hq. by simplify_eq. }
    destruct (selected o d e) eqn:Esel; [destruct (e_dir e && o_contents_first o) eqn:Ecf|]; simplify_eq.
    + apply andb_true_iff in Ecf as [_ Hcf]. rewrite Hcf in *. rewrite oks_pre, oks_app, oks_ok in *. cbn [oks flat_map] in *.
      apply elem_of_app in Hy as [Hy|Hy%elem_of_list_singleton]; [|by subst y].
      apply elem_of_app in Hx as [Hx|Hx%elem_of_list_singleton].
      * destruct (Hboth Hx Hy) as (l1 & l2 & l3 & ->). exists l1, l2, (l3 ++ [e]). rewrite <- !app_assoc. cbn [app]. rewrite <- !app_assoc. done.
      * subst x. by apply before_snoc_in.
    + rewrite Hdir in Ecf. cbn [andb] in Ecf. rewrite Ecf in *. rewrite oks_pre, oks_ok in *.
      apply elem_of_cons in Hy as [->|Hy]; [done|].
      apply elem_of_cons in Hx as [->|Hx]; [by apply before_cons_in|].
      destruct (Hboth Hx Hy) as (l1 & l2 & l3 & ->). exists (e :: l1), l2, l3. done.
    + rewrite oks_pre in *. by apply Hboth.
  - (* not entered: at most e itself *)
    exfalso. destruct (selected o d e); simplify_eq; cbn [oks flat_map app] in *.
    + apply elem_of_list_singleton in Hy as ->. done.
    + by apply elem_of_nil in Hy.
Qed.

Theorem walk_order m o pre rootp r evs : WF m → o_follow o = false → (∀ x, pre x = None) → m_ents m !! rootp = Some r →
  walk (m_ents m) o pre rootp = inl (Done evs) →
  ∀ x y, x ∈ oks evs → y ∈ oks evs → strictly_above x y →
    if o_contents_first o then before (oks evs) y x else before (oks evs) x y.
Proof.
  intros HW Hnf Hpre Hr Hw. destruct (walk_nofollow (m_ents m) o pre rootp r (wf_key_ok m HW) Hnf Hr) as (h & evs' & Hsw & Hw').
  rewrite Hw in Hw'. simplify_eq. unfold sw_walk in Hsw. rewrite Hnf in Hsw.
  assert (Hm : le_max (length (@nil rpath)) (o_max o) = true) by (destruct (o_max o); done).
  exact (sw_order h m o pre [] r rootp evs' HW Hnf Hpre Hr Hm Hsw).
Qed.

(* ---- order: siblings by name, grouped by kind with dirs_first / files_first ---- *)
Lemma name_leb_total a : ∀ b, name_leb a b = false → name_leb b a = true.
Proof.
  induction a as [|x a IH]; intros [|y b]; cbn; try done.
  destruct (x <? y)%N eqn:E1; [done|]. destruct (y <? x)%N eqn:E2; [done|]. apply IH.
Qed.
Lemma name_leb_trans a : ∀ b c, name_leb a b = true → name_leb b c = true → name_leb a c = true.
Proof.
  induction a as [|x a IH]; intros [|y b] [|z c]; cbn; try done.
  destruct (x <? y)%N eqn:E1; destruct (y <? z)%N eqn:E2; destruct (y <? x)%N eqn:E3; destruct (z <? y)%N eqn:E4; try done;
    rewrite ?N.ltb_lt, ?N.ltb_ge in *; intros H1 H2;
    destruct (x <? z)%N eqn:E5; try done; destruct (z <? x)%N eqn:E6; rewrite ?N.ltb_lt, ?N.ltb_ge in *; try lia.
  by eapply IH.
Qed.
Lemma name_leb_antisym a : ∀ b, name_leb a b = true → name_leb b a = true → a = b.
Proof.
  induction a as [|x a IH]; intros [|y b]; cbn; try done.
  destruct (x <? y)%N eqn:E1; destruct (y <? x)%N eqn:E2; rewrite ?N.ltb_lt, ?N.ltb_ge in *; try done; try lia.
  intros H1 H2. assert (x = y) as -> by lia. f_equal. by apply IH.
Qed.

Definition R_ent (a b : entry) : Prop := ent_leb a b = true.

Lemma ent_leb_total a b : ent_leb a b = false → ent_leb b a = true.
Proof. unfold ent_leb, oname_leb. destruct (file_name_of a), (file_name_of b); try done. apply name_leb_total. Qed.
Lemma ent_leb_trans a b c : R_ent a b → R_ent b c → R_ent a c.
Proof. unfold R_ent, ent_leb, oname_leb. destruct (file_name_of a), (file_name_of b), (file_name_of c); try done. apply name_leb_trans. Qed.
Lemma ent_leb_antisym a b : R_ent a b → R_ent b a → file_name_of a = file_name_of b.
Proof. unfold R_ent, ent_leb, oname_leb. destruct (file_name_of a), (file_name_of b); try done. intros H1 H2. f_equal. by apply name_leb_antisym. Qed.

Lemma insert_sorted_sorted x l : StronglySorted R_ent l → StronglySorted R_ent (insert_sorted x l).
Proof.
  induction l as [|y l IH]; intros Hs; cbn [insert_sorted]; [by repeat constructor|].
  apply StronglySorted_inv in Hs as [Hs Hy]. destruct (ent_leb y x) eqn:E.
  - constructor; [by apply IH|]. rewrite insert_sorted_perm. by constructor.
  - apply ent_leb_total in E. constructor; [by constructor|]. constructor; [done|].
    eapply Forall_impl; [exact Hy|]. intros z Hz. by eapply ent_leb_trans.
Qed.
Lemma sort_ents_sorted l : StronglySorted R_ent (sort_ents l).
Proof. induction l as [|x l IH]; [constructor|]. cbn. by apply insert_sorted_sorted. Qed.

Definition split_before (l : list entry) (a b : entry) : Prop := ∃ L1 L2 L3, l = L1 ++ a :: L2 ++ b :: L3.

Lemma sorted_before l a b : StronglySorted R_ent l → a ∈ l → b ∈ l → a ≠ b → ¬ R_ent b a → split_before l a b.
Proof.
  induction l as [|c l IH]; intros Hs Ha Hb Hne Hnr; [by apply elem_of_nil in Ha|].
  apply StronglySorted_inv in Hs as [Hs Hc].
  apply elem_of_cons in Ha as [->|Ha]; apply elem_of_cons in Hb as [->|Hb]; [done| | |].
  - apply elem_of_list_split in Hb as (L2 & L3 & ->). by exists [], L2, L3.
  - exfalso. apply Hnr. rewrite Forall_forall in Hc. by apply Hc.
  - destruct (IH Hs Ha Hb Hne Hnr) as (L1 & L2 & L3 & ->). by exists (c :: L1), L2, L3.
Qed.

Lemma app_before l1 l2 a b : a ∈ l1 → b ∈ l2 → split_before (l1 ++ l2) a b.
Proof.
  intros (A1 & A2 & ->)%elem_of_list_split (B1 & B2 & ->)%elem_of_list_split. exists A1, (A2 ++ B1), B2.
  rewrite <- ?app_assoc. cbn [app]. by rewrite <- ?app_assoc.
Qed.
Lemma split_before_l l1 l2 a b : split_before l1 a b → split_before (l1 ++ l2) a b.
Proof. intros (A & B & C & ->). exists A, B, (C ++ l2). rewrite <- ?app_assoc. cbn [app]. by rewrite <- ?app_assoc. Qed.
Lemma split_before_r l1 l2 a b : split_before l2 a b → split_before (l1 ++ l2) a b.
Proof. intros (A & B & C & ->). exists (l1 ++ A), B, C. by rewrite <- !app_assoc. Qed.

(* the sibling order the options ask for *)
Definition sib_le (o : wopts) (x y : entry) : bool :=
  if o_dirs_first o then (e_dir x && negb (e_dir y)) || (eqb (e_dir x) (e_dir y) && ent_leb x y)
  else if o_files_first o then (negb (e_dir x) && e_dir y) || (eqb (e_dir x) (e_dir y) && ent_leb x y)
  else ent_leb x y.

Lemma arrange_before o cs c c' : o_sort o = true → c ∈ cs → c' ∈ cs → file_name_of c ≠ file_name_of c' →
  sib_le o c c' = true → split_before (arrange o cs) c c'.
Proof.
  intros Hso Hc Hc' Hne Hle. unfold arrange. rewrite Hso. unfold sib_le in Hle.
  assert (Hcc : c ≠ c') by (intros ->; done).
  assert (Hsame : ∀ l, c ∈ l → c' ∈ l → ent_leb c c' = true → split_before (sort_ents l) c c').
  { intros l Hl Hl' He. apply sorted_before; [apply sort_ents_sorted|by rewrite sort_ents_perm|by rewrite sort_ents_perm|done|].
    intros Hr. apply Hne. by apply ent_leb_antisym. }
  assert (HinD : ∀ z, z ∈ cs → e_dir z = true → z ∈ sort_ents (filter (fun c => e_dir c) cs))
    by (intros z Hz Hd; rewrite sort_ents_perm; apply elem_of_list_filter; split; [by rewrite Hd|done]).
  assert (HinF : ∀ z, z ∈ cs → e_dir z = false → z ∈ sort_ents (filter (fun c => negb (e_dir c)) cs))
    by (intros z Hz Hd; rewrite sort_ents_perm; apply elem_of_list_filter; split; [by rewrite Hd|done]).
  assert (HfD : ∀ z, z ∈ cs → e_dir z = true → z ∈ filter (fun c => e_dir c) cs)
    by (intros z Hz Hd; apply elem_of_list_filter; split; [by rewrite Hd|done]).
  assert (HfF : ∀ z, z ∈ cs → e_dir z = false → z ∈ filter (fun c => negb (e_dir c)) cs)
    by (intros z Hz Hd; apply elem_of_list_filter; split; [by rewrite Hd|done]).
  destruct (o_dirs_first o).
  - destruct (e_dir c) eqn:Ed, (e_dir c') eqn:Ed'; cbn in Hle; try done.
    + apply split_before_l. apply Hsame; auto.
    + apply app_before; auto.
    + apply split_before_r. apply Hsame; auto.
  - destruct (o_files_first o); [|by apply Hsame].
    destruct (e_dir c) eqn:Ed, (e_dir c') eqn:Ed'; cbn in Hle; try done.
    + apply split_before_r. apply Hsame; auto.
    + apply app_before; auto.
    + apply split_before_l. apply Hsame; auto.
Qed.

Lemma concat_opt_two {A B} (f : B → option (list A)) (L1 : list B) c L2 c' L3 kids :
  concat_opt (map f (L1 ++ c :: L2 ++ c' :: L3)) = Some kids →
  ∃ e1 e2 X Y Z, f c = Some e1 ∧ f c' = Some e2 ∧ kids = X ++ e1 ++ Y ++ e2 ++ Z.
Proof.
  revert kids. induction L1 as [|a L1 IH]; intros kids Hc.
  - cbn [app map concat_opt] in Hc. destruct (f c) as [e1|] eqn:E1; [|done]. destruct (concat_opt _) as [k1|] eqn:Ek; [|done]. simplify_eq.
    destruct (concat_opt_parts f (L2 ++ c' :: L3) k1 Ek c' ltac:(apply elem_of_app; right; left)) as (e2 & Y & Z & E2 & ->).
    exists e1, e2, [], Y, Z. done.
  - cbn [app map concat_opt] in Hc. destruct (f a) as [ea|] eqn:Ea; [|done]. destruct (concat_opt _) as [k1|] eqn:Ek; [|done]. simplify_eq.
    destruct (IH k1 eq_refl) as (e1 & e2 & X & Y & Z & E1 & E2 & ->). exists e1, e2, (ea ++ X), Y, Z. by rewrite <- app_assoc.
Qed.

Definition kid_names (e : entry) : list (list N) := match e_files e with Some fs => elements fs | None => [] end.

(* an item of the children's events lies in the events of exactly one child, at or below that child *)
Lemma kids_part h m o pre stack e p kids : WF m → o_follow o = false → (∀ x, pre x = None) → m_ents m !! p = Some e →
  le_max (S (length stack)) (o_max o) = true →
  concat_opt (map (sw h (m_ents m) o pre (p :: stack)) (arrange o (child_entries (m_ents m) p false (kid_names e)))) = Some kids →
  ∀ z, z ∈ oks kids → ∃ c n evs' X Y, c ∈ arrange o (child_entries (m_ents m) p false (kid_names e)) ∧ m_ents m !! (n :: p) = Some c ∧
     sw h (m_ents m) o pre (p :: stack) c = Some evs' ∧ kids = X ++ evs' ++ Y ∧ z ∈ oks evs' ∧ (n :: p) `suffix_of` e_path z ∧
     m_ents m !! e_path z = Some z.
Proof.
  intros HW Hnf Hpre He Hmax Ek. set (ns := kid_names e) in *. set (cs := child_entries (m_ents m) p false ns) in *.
  pose proof (arrange_perm o cs) as Hperm.
  assert (Hns : NoDup ns) by (subst ns; unfold kid_names; destruct (e_files e); [apply NoDup_elements|constructor]).
  assert (Hcs : ∀ c, c ∈ arrange o cs → ∃ n, n ∈ ns ∧ m_ents m !! (n :: p) = Some c)
    by (intros c Hc; rewrite Hperm in Hc; by apply child_entries_spec in Hc).
  assert (Hnd : NoDup (map e_path (arrange o cs))) by (rewrite Hperm; apply child_entries_nodup; [by apply wf_key_ok|done]).
  assert (Hpaths : ∀ c, c ∈ arrange o cs → ∃ n, e_path c = n :: p)
    by (intros c Hc; destruct (Hcs c Hc) as (n & _ & Hn); exists n; by apply (wf_key m HW)).
  destruct (kids_exact (sw h (m_ents m) o pre (p :: stack)) (fun c x => sel_under (m_ents m) o (e_path c) (S (length stack)) x) p (arrange o cs) kids Ek) as [Hiffk _].
  { intros c evs' Hc Hf. destruct (Hcs c Hc) as (n & _ & Hn). rewrite (wf_key m HW _ _ Hn).
    apply (sw_exact h m o pre (p :: stack) c (n :: p) evs' HW Hnf Hpre Hn); done. }
  { intros c z Hc (q & Hq & Hs & _). by rewrite (wf_key m HW _ _ Hq). }
  { done. } { done. }
  intros z Hz. apply Hiffk in Hz as (c & Hc & Hsel). destruct (Hcs c Hc) as (n & _ & Hn).
  destruct (concat_opt_parts _ _ _ Ek c Hc) as (evs' & X & Y & Hf & HK).
  exists c, n, evs', X, Y. split; [done|]. split; [done|]. split; [done|]. split; [done|].
  destruct (sw_exact h m o pre (p :: stack) c (n :: p) evs' HW Hnf Hpre Hn Hmax Hf) as [Hiffc _].
  rewrite (wf_key m HW _ _ Hn) in Hsel. split; [by apply Hiffc|].
  destruct Hsel as (q & Hq & Hs & _). rewrite (wf_key m HW _ _ Hq). done.
Qed.

Lemma before_two X A Y B Z x y : x ∈ A → y ∈ B → before (X ++ A ++ Y ++ B ++ Z) x y.
Proof.
  intros (A1 & A2 & ->)%elem_of_list_split (B1 & B2 & ->)%elem_of_list_split.
  exists (X ++ A1), (A2 ++ Y ++ B1), (B2 ++ Z). rewrite <- ?app_assoc. cbn [app]. rewrite <- ?app_assoc. cbn [app]. done.
Qed.

Lemma suffix_cons_cases {A} (a b : A) p q : (a :: p) `suffix_of` (b :: q) → (a = b ∧ p = q) ∨ (a :: p) `suffix_of` q.
Proof.
  intros [j Hj]. destruct j as [|c j]; [left; by injection Hj|]. right. cbn in Hj. injection Hj as _ ->. by exists j.
Qed.

Lemma sw_siblings h : ∀ m o pre stack e p evs, WF m → o_follow o = false → (∀ x, pre x = None) → o_sort o = true →
  m_ents m !! p = Some e → le_max (length stack) (o_max o) = true →
  sw h (m_ents m) o pre stack e = Some evs →
  ∀ x y q n n', x ∈ oks evs → y ∈ oks evs → e_path x = n :: q → e_path y = n' :: q → n ≠ n' → sib_le o x y = true →
    before (oks evs) x y.
Proof.
  induction h as [|h IH]; intros m o pre stack e p evs HW Hnf Hpre Hso He Hmax Hsw x y q n n' Hx Hy Hpx Hpy Hnn Hle; [done|].
  destruct (sw_exact (S h) m o pre stack e p evs HW Hnf Hpre He Hmax Hsw) as [Hiff _].
  pose proof (wf_key m HW _ _ He) as Hp. rewrite sw_S in Hsw. cbn zeta in Hsw.
  rewrite (loops_nofollow o stack e Hnf), (enters_nofollow o e Hnf), Hpre in Hsw.
  set (d := length stack) in *.
  assert (Hunder : ∀ z, z ∈ oks evs → p `suffix_of` e_path z).
  { intros z Hz. apply Hiff in Hz as (q' & Hq & Hs & _). by rewrite (wf_key m HW _ _ Hq). }
  (* neither is the entry at p itself *)
  assert (Hxp : e_path x ≠ p).
  { intros E. pose proof (Hunder y Hy) as Hs. rewrite <- E, Hpx, Hpy in Hs.
    apply suffix_cons_cases in Hs as [[? _]|Hs]; [done|]. apply suffix_length in Hs. cbn in Hs. lia. }
  assert (Hyp : e_path y ≠ p).
  { intros E. pose proof (Hunder x Hx) as Hs. rewrite <- E, Hpx, Hpy in Hs.
    apply suffix_cons_cases in Hs as [[? _]|Hs]; [done|]. apply suffix_length in Hs. cbn in Hs. lia. }
  destruct (e_dir e && negb (e_link e) && lt_max d (o_max o)) eqn:Eent.
  - apply andb_true_iff in Eent as [Hrd Hlt].
    unfold children in Hsw. rewrite Hp, He, Hnf in Hsw. fold (kid_names e) in Hsw.
    destruct (concat_opt _) as [kids|] eqn:Ek; [|done].
    pose proof (kids_part h m o pre stack e p kids HW Hnf Hpre He ltac:(by apply le_max_S) Ek) as Hpart.
    set (cs := child_entries (m_ents m) p false (kid_names e)) in *.
    assert (Hboth : x ∈ oks kids → y ∈ oks kids → before (oks kids) x y).
    { intros Hxk Hyk. destruct (Hpart x Hxk) as (c & n1 & evs1 & X & Y & Hc & Hn1 & Hf1 & HK & Hxc & Hsx & Hmx).
      destruct (Hpart y Hyk) as (c' & n2 & evs2 & X' & Y' & Hc' & Hn2 & Hf2 & HK' & Hyc & Hsy & Hmy).
      rewrite Hpx in Hsx, Hmx. rewrite Hpy in Hsy, Hmy.
      apply suffix_cons_cases in Hsx as [[-> ->]|Hsx].
      - (* x and y are children of p themselves *)
        apply suffix_cons_cases in Hsy as [[-> _]|Hsy]; [|apply suffix_length in Hsy; cbn in Hsy; lia].
        rewrite Hn1 in Hmx. rewrite Hn2 in Hmy. simplify_eq.
        assert (Hfn : file_name_of x ≠ file_name_of y) by (unfold file_name_of; rewrite Hpx, Hpy; cbn; congruence).
        pose proof (arrange_perm o cs) as Hperm.
        destruct (arrange_before o cs x y Hso ltac:(by rewrite <- Hperm) ltac:(by rewrite <- Hperm) Hfn Hle) as (L1 & L2 & L3 & HL).
        rewrite HL in Ek. destruct (concat_opt_two _ _ _ _ _ _ _ Ek) as (e1 & e2 & X1 & Y1 & Z1 & E1 & E2 & HK1).
        rewrite Hf1 in E1. rewrite Hf2 in E2. simplify_eq. rewrite HK1, !oks_app. by apply before_two.
      - (* deeper: both below the same child *)
        apply suffix_cons_cases in Hsy as [[-> Hq]|Hsy]; [subst q; apply suffix_length in Hsx; cbn in Hsx; lia|].
        pose proof (suffix_cons_same _ _ _ _ Hsx Hsy) as ->. rewrite Hn1 in Hn2. injection Hn2 as <-.
        rewrite Hf1 in Hf2. injection Hf2 as <-.
        pose proof (IH m o pre (p :: stack) c (n2 :: p) evs1 HW Hnf Hpre Hso Hn1 ltac:(by apply le_max_S) Hf1 x y q n n' Hxc Hyc Hpx Hpy Hnn Hle) as Hb.
        rewrite HK, !oks_app. by apply before_mid. }
    assert (Hself : ∀ z, z ∈ oks evs → e_path z ≠ p → z ∈ oks kids).
    { intros z Hz Hzp. destruct (selected o d e); [destruct (e_dir e && o_contents_first o)|]; simplify_eq.
      - rewrite oks_pre, oks_app, oks_ok in Hz. cbn [oks flat_map] in Hz. apply elem_of_app in Hz as [Hz|Hz%elem_of_list_singleton]; [done|by subst z].
      - rewrite oks_pre, oks_ok in Hz. apply elem_of_cons in Hz as [->|Hz]; done.
      - by rewrite oks_pre in Hz. }
    pose proof (Hboth (Hself x Hx Hxp) (Hself y Hy Hyp)) as (l1 & l2 & l3 & Hl).
    destruct (selected o d e); [destruct (e_dir e && o_contents_first o)|]; simplify_eq.
    + rewrite oks_pre, oks_app, oks_ok, Hl. cbn [oks flat_map]. exists l1, l2, (l3 ++ [e]). rewrite <- ?app_assoc. cbn [app]. by rewrite <- ?app_assoc.
    + rewrite oks_pre, oks_ok, Hl. by exists (e :: l1), l2, l3.
    + rewrite oks_pre, Hl. by exists l1, l2, l3.
  - exfalso. destruct (selected o d e); simplify_eq; cbn [oks flat_map app] in *.
    + apply elem_of_list_singleton in Hx as ->. done.
    + by apply elem_of_nil in Hx.
Qed.

Theorem walk_siblings m o pre rootp r evs : WF m → o_follow o = false → (∀ x, pre x = None) → o_sort o = true →
  m_ents m !! rootp = Some r → walk (m_ents m) o pre rootp = inl (Done evs) →
  ∀ x y q n n', x ∈ oks evs → y ∈ oks evs → e_path x = n :: q → e_path y = n' :: q → n ≠ n' → sib_le o x y = true →
    before (oks evs) x y.
Proof.
  intros HW Hnf Hpre Hso Hr Hw. destruct (walk_nofollow (m_ents m) o pre rootp r (wf_key_ok m HW) Hnf Hr) as (h & evs' & Hsw & Hw').
  rewrite Hw in Hw'. simplify_eq. unfold sw_walk in Hsw. rewrite Hnf in Hsw.
  assert (Hm : le_max (length (@nil rpath)) (o_max o) = true) by (destruct (o_max o); done).
  exact (sw_siblings h m o pre [] r rootp evs' HW Hnf Hpre Hso Hr Hm Hsw).
Qed.

(* ---- the listing helpers: paths / dirs / files / all_paths / all_dirs / all_files ---- *)
From RV Require Import Path.Expand Memfs.Ops Memfs.WalkOps.

Definition shallow (k : listing) : bool := match k with LPaths | LDirs | LFiles => true | _ => false end.
Definition kind_sel (k : listing) (x : entry) : bool :=
  match k with LDirs | LAllDirs => e_dir x | LFiles | LAllFiles => e_file x | _ => true end.

Lemma oks_until_err_oks es : oks_until_err (map IOk es) = (es, None).
Proof. induction es as [|e es IH]; [done|]. cbn. by rewrite IH. Qed.

(* a listing of an existing directory succeeds with exactly the entries strictly below it (one level for the shallow
   helpers) of the asked kind, each once; the argument itself is never included *)
Theorem listing_exact env m k s p : WF m → resolve env m s = inl p → is_dir_at m p = true →
  ∃ es, listing_op env m k s = Done (inl (map (fun e => render_rpath (e_path e)) es)) ∧ NoDup (map e_path es) ∧
    ∀ x, x ∈ es ↔ ∃ q, m_ents m !! q = Some x ∧ p `suffix_of` q ∧ q ≠ p ∧
                     (shallow k = true → length q = S (length p)) ∧ kind_sel k x = true.
Proof.
  intros HW Hres Hd. unfold listing_op. rewrite Hres, Hd. cbn [negb].
  unfold is_dir_at in Hd. destruct (m_ents m !! p) as [r|] eqn:Hr; [|done].
  destruct (walk_exact m (listing_opts k) no_pre p r HW ltac:(by destruct k) ltac:(done) Hr) as (evs & -> & Hit & Hiff & Hnd).
  rewrite Hit, oks_until_err_oks. exists (oks evs). split; [done|]. split; [done|].
  intros x. rewrite Hiff. split.
  - intros (q & Hq & Hs & Hsel & Hmax). exists q. split; [done|]. split; [done|].
    pose proof (suffix_length _ _ Hs) as Hl.
    assert (Hmin : 1 ≤ length q - length p).
    { unfold selected in Hsel. apply andb_true_iff in Hsel as [Hm _]. apply negb_true_iff, Nat.ltb_ge in Hm. by destruct k. }
    split; [intros ->; lia|]. split.
    + intros Hsh. destruct k; try done; cbn in Hmax; apply Nat.leb_le in Hmax; lia.
    + unfold selected in Hsel. apply andb_true_iff in Hsel as [_ Hp]. by destruct k.
  - intros (q & Hq & Hs & Hne & Hsh & Hk). exists q. split; [done|]. split; [done|].
    pose proof (suffix_length _ _ Hs) as Hl.
    assert (Hlt : length p < length q).
    { destruct (decide (length q = length p)) as [E|]; [|lia]. exfalso. apply Hne. destruct Hs as [j ->].
      rewrite app_length in E. destruct j; [done|cbn in E; lia]. }
    split.
    + unfold selected. apply andb_true_iff. split; [|by destruct k].
      apply negb_true_iff, Nat.ltb_ge. destruct k; cbn; lia.
    + destruct k; cbn; try done; specialize (Hsh eq_refl); apply Nat.leb_le; lia.
Qed.

(* Memfs/WalkExact.v — what the recursion of Memfs/WalkSpec.v yields on the entries index of a well-formed Memfs state
   (C08): consequences for `walk` read off the recursion. *)
From stdpp Require Import gmap.
From Coq Require Import NArith.
From RV Require Import Base.Str Path.Helpers Memfs.State Memfs.Walk Memfs.WalkFacts Memfs.WalkSpec Memfs.WalkTerm Memfs.Wf.

Lemma wf_key_ok m : WF m → key_ok (m_ents m).
Proof. intros HW p e He. by apply (wf_key m HW). Qed.

Theorem walk_nofollow_wf m o pre rootp : WF m → o_follow o = false → walk (m_ents m) o pre rootp ≠ inl OutOfFuel.
Proof. intros HW. apply walk_nofollow_terminates. by apply wf_key_ok. Qed.

(* Memfs/RefineChmodSym.v — chmod without follow refines the reference tree filesystem for every option set the grammar
   accepts (octal or symbolic; recursive or not; dirs / files / all selectors), C01 / C11: every non-link node at or below the
   argument (the argument alone without recursion) gets the value the documented grammar defines for its kind and current
   mode, nothing else changes.  Guards, all decidable on the tree: the expression is accepted (which does not depend on the
   entry, Chmod/SymIndep.v) and no node's value is 0 (0 means "no mode given", KF-C11-octal-zero). *)
From stdpp Require Import gmap.
From Coq Require Import NArith.
From RV Require Import Base.Str Path.Helpers Path.Expand Chmod.Sym Chmod.SymIndep Memfs.State Memfs.Ops Memfs.Walk Memfs.WalkOps Memfs.Wf Memfs.Spec Memfs.Refine
  Memfs.ChmodExact Memfs.RefineChmod Gen.Consts.

Definition ekind_of_node (n : node) : ekind :=
  match n_kind n with
  | KDir => {| k_dir := true; k_file := false; k_link := false |}
  | KFile => {| k_dir := false; k_file := true; k_link := false |}
  | KLink => {| k_dir := n_tdir n; k_file := negb (n_tdir n); k_link := true |}
  end.

(* the value the grammar defines for a node *)
Definition node_val (o : chmod_opts) (n : node) : cres N :=
  let k := ekind_of_node n in
  sym_mode k (n_mode n) (if k_dir k then ch_dirs o else ch_files o) (ch_sym o).

Definition node_chmod_sym (o : chmod_opts) (n : node) : node :=
  match n_kind n with
  | KLink => n
  | KDir => match node_val o n with inl v => with_mode n v c_type_bits_dir | inr _ => n end
  | KFile => match node_val o n with inl v => with_mode n v c_type_bits_file | inr _ => n end
  end.

Definition spec_chmod_sym (t : tree) (p : rpath) (o : chmod_opts) : tree :=
  mkTree (t_cwd t) (map_imap (λ q n, Some (if bool_decide (p `suffix_of` q ∧ (ch_recursive o = true ∨ q = p)) then node_chmod_sym o n else n)) (t_nodes t)).

(* the guards *)
Definition chmod_accepts (o : chmod_opts) : bool :=
  match sym_mode {| k_dir := true; k_file := false; k_link := false |} 0 (ch_dirs o) (ch_sym o) with inl _ => true | inr _ => false end.
Definition chmod_vals_ok (t : tree) (o : chmod_opts) : bool :=
  forallb (λ qn : rpath * node, match node_val o qn.2 with inl v => negb (N.eqb v 0) | inr _ => false end) (map_to_list (t_nodes t)).

Lemma ekind_of_node_of x d : kind_ok x → ekind_of_node (node_of x d) = kind_of x.
Proof.
  intros Hk. unfold kind_ok in Hk. unfold ekind_of_node, node_of, kind_of, kind_of_entry. cbn.
  destruct (e_link x) eqn:El, (e_dir x) eqn:Ed, (e_file x) eqn:Ef; cbn in *; try done.
Qed.

Lemma valof_node_val o x d : kind_ok x →
  valof o x = match node_val o (node_of x d) with inl v => inl v | inr c => inr (chmod_err_kind c) end.
Proof.
  intros Hk. unfold valof, node_val, mode_for. rewrite (ekind_of_node_of x d Hk). unfold kind_of. cbn [k_dir].
  change (n_mode (node_of x d)) with (e_mode x). unfold kind_ok in Hk.
  destruct (e_dir x) eqn:Ed; [done|]. assert (Hf : e_file x = true) by (symmetry in Hk; by apply negb_false_iff in Hk). by rewrite Hf.
Qed.

Lemma node_of_upd_sym o x d : kind_ok x → node_of (upd o x) d = node_chmod_sym o (node_of x d).
Proof.
  intros Hk. unfold upd. rewrite (valof_node_val o x d Hk). unfold node_chmod_sym.
  change (n_kind (node_of x d)) with (kind_of_entry x). unfold kind_of_entry. unfold kind_ok in Hk.
  destruct (e_link x) eqn:El; [done|].
  destruct (node_val o (node_of x d)) as [v|c] eqn:Ev; [|by destruct (e_dir x)].
  unfold with_mode. change (n_mode (node_of x d)) with (e_mode x).
  destruct (e_dir x) eqn:Ed; cbv beta iota; destruct (N.eqb v (e_mode x)) eqn:E; try done.
  - unfold node_of, kind_of_entry. cbn. rewrite El, Ed. symmetry in Hk. apply negb_true_iff in Hk. by rewrite Hk.
  - unfold node_of, kind_of_entry. cbn. rewrite El, Ed. assert (Hf : e_file x = true) by (symmetry in Hk; by apply negb_false_iff in Hk). by rewrite Hf.
Qed.

Theorem chmod_sym_refines env m s o p r : WF m → kinds_ok m → ch_follow o = false → chmod_accepts o = true → chmod_vals_ok (abs m) o = true →
  resolve env m s = inl p → m_ents m !! p = Some r →
  ∃ m', chmod_op env m s o = Done (m', inl tt) ∧ abs m' = spec_chmod_sym (abs m) p o.
Proof.
  intros HW HK Hnf Hacc Hvals Hres Hr.
  destruct (chmod_nofollow_exact env m s o p r HW Hnf Hres Hr) as (m' & Hop & Hlk & Hdat & Hc & _).
  - (* the pre-check never fails: acceptance does not depend on the entry *)
    intros x. unfold chmod_pre_check, mode_for. unfold chmod_accepts in Hacc.
    destruct (sym_mode {| k_dir := true; k_file := false; k_link := false |} 0 (ch_dirs o) (ch_sym o)) as [v|e] eqn:E; [|done].
    destruct (sym_mode_accept_indep _ (kind_of x) _ (e_mode x) _ _ _ E) as [v' ->]. done.
  - (* every entry has a defined non-zero value *)
    intros q x Hx. unfold chmod_vals_ok in Hvals. rewrite forallb_forall in Hvals.
    specialize (Hvals (q, node_of x (m_data m !! q))). cbn [snd] in Hvals.
    rewrite (valof_node_val o x (m_data m !! q) (HK _ _ Hx)).
    destruct (node_val o (node_of x (m_data m !! q))) as [v|c].
    + exists v. split; [done|]. apply N.eqb_neq. apply negb_true_iff. apply Hvals.
      apply elem_of_list_In, elem_of_map_to_list. by rewrite lookup_abs, Hx.
    + exfalso. assert (false = true); [|done]. apply Hvals. apply elem_of_list_In, elem_of_map_to_list. by rewrite lookup_abs, Hx.
  - exists m'. split; [done|]. apply tree_eq; [done|]. intros q. cbn [spec_chmod_sym t_nodes]. rewrite map_lookup_imap, !lookup_abs, Hlk, Hdat.
    case_bool_decide; destruct (m_ents m !! q) as [x|] eqn:Hx; cbn; try done.
    f_equal. apply node_of_upd_sym. exact (HK _ _ Hx).
Qed.

(* Memfs/WfMove.v — C03: move_p keeps the namespace well formed.
   The relocation loop moves one entry at a time from under the source root to under the destination and passes
   through states that are not well formed (children whose parent has already gone). The proof does not track
   those states' shape. It looks at each state through a *display* function — every entry still waiting under
   the source root is shown at the place it is going to, already re-keyed — and shows that the display never
   changes after the first iteration; when the work list is empty nothing is left under the source root, so the
   final state is its own display, and the display of the state after the first iteration is well formed. *)
From stdpp Require Import gmap.
From Coq Require Import NArith.
From RV Require Import Base.Str Base.PathLex Path.Helpers Path.CleanSpec Path.Expand Memfs.State Memfs.Ops Memfs.Wf Memfs.MoveFacts.

(* ---- paths under a root (reversed name lists: q is under r iff r is a suffix of q) ---- *)
Lemma is_under_spec p r : is_under p r = true ↔ r `suffix_of` p.
Proof.
  unfold is_under. rewrite bool_decide_eq_true. split.
  - intros H. exists (take (length p - length r) p). rewrite <- (take_drop (length p - length r) p) at 1. by rewrite H.
  - intros [k ->]. rewrite app_length. replace (length k + length r - length r) with (length k) by lia. by rewrite drop_app.
Qed.

Lemma rebase_app sr dt k : rebase sr dt (k ++ sr) = k ++ dt.
Proof. unfold rebase. rewrite app_length. replace (length k + length sr - length sr) with (length k) by lia. by rewrite take_app. Qed.

Lemma suffix_disjoint (sr dt q : rpath) : ¬ sr `suffix_of` dt → ¬ dt `suffix_of` sr → sr `suffix_of` q → dt `suffix_of` q → False.
Proof. intros H1 H2 Hs Hd. destruct (suffix_weak_total _ _ _ Hs Hd); auto. Qed.

(* the entry as move_p re-keys it *)
Definition move_entry (se : entry) (dp : rpath) : entry :=
  if e_link se && negb (is_absolute (e_rel se))
  then set_alt (set_path se dp) (Some (rev (names_of (clean_spec (mash (render_rpath (tail dp)) (e_rel se))))))
  else set_path se dp.

Lemma move_entry_shape se dp :
  e_path (move_entry se dp) = dp ∧ e_dir (move_entry se dp) = e_dir se ∧ e_file (move_entry se dp) = e_file se ∧
  e_link (move_entry se dp) = e_link se ∧ e_files (move_entry se dp) = e_files se.
Proof. unfold move_entry. destruct (_ && _); done. Qed.

Lemma files_of_move_entry se dp : files_of (move_entry se dp) = files_of se.
Proof. unfold files_of. by destruct (move_entry_shape se dp) as (_ & _ & _ & _ & ->). Qed.

Section Move.
Variables (sr dt : rpath).
Hypothesis Hsr_dt : ¬ sr `suffix_of` dt.     (* the destination is not inside the source *)
Hypothesis Hdt_sr : ¬ dt `suffix_of` sr.     (* nor the source inside the destination *)

Definition rb (q : rpath) : rpath := rebase sr dt q.
Definition unrb (k : rpath) : rpath := rebase dt sr k.

Lemma unrb_rb q : sr `suffix_of` q → unrb (rb q) = q.
Proof. intros [k ->]. unfold rb, unrb. by rewrite !rebase_app. Qed.
Lemma rb_unrb k : dt `suffix_of` k → rb (unrb k) = k.
Proof. intros [j ->]. unfold rb, unrb. by rewrite !rebase_app. Qed.
Lemma rb_under q : sr `suffix_of` q → dt `suffix_of` rb q.
Proof. intros [k ->]. unfold rb. rewrite rebase_app. by exists k. Qed.
Lemma unrb_under k : dt `suffix_of` k → sr `suffix_of` unrb k.
Proof. intros [j ->]. unfold unrb. rewrite rebase_app. by exists j. Qed.
Lemma not_both q : sr `suffix_of` q → dt `suffix_of` q → False.
Proof. by apply suffix_disjoint. Qed.

(* ---- the display ---- *)
Definition disp_e (m : mfs) (k : rpath) : option entry :=
  if decide (dt `suffix_of` k) then
    match m_ents m !! unrb k with
    | Some e => Some (move_entry e k)
    | None => m_ents m !! k
    end
  else if decide (sr `suffix_of` k) then None
  else m_ents m !! k.

Definition disp_d (m : mfs) (k : rpath) : option (list N) :=
  if decide (dt `suffix_of` k) then
    match m_data m !! unrb k with Some d => Some d | None => m_data m !! k end
  else if decide (sr `suffix_of` k) then None
  else m_data m !! k.

(* one iteration of the loop on a path whose old parent has already gone *)
Definition moved (m : mfs) (w : rpath) (e : entry) : mfs :=
  let m1 := upd_ents m (fun es => insert (rb w) (move_entry e (rb w)) (delete w es)) in
  match m_data m1 !! w with
  | Some d => upd_data m1 (fun ds => insert (rb w) d (delete w ds))
  | None => m1
  end.

Lemma moved_ents m w e : m_ents (moved m w e) = <[rb w := move_entry e (rb w)]> (delete w (m_ents m)).
Proof. unfold moved. cbn. by destruct (m_data m !! w). Qed.
Lemma moved_data m w e : m_data (moved m w e) =
  match m_data m !! w with Some d => <[rb w := d]> (delete w (m_data m)) | None => m_data m end.
Proof. unfold moved. cbn. by destruct (m_data m !! w). Qed.

Lemma moved_disp_e m w e k : sr `suffix_of` w → m_ents m !! w = Some e → disp_e (moved m w e) k = disp_e m k.
Proof.
  intros Hw He. unfold disp_e. rewrite moved_ents.
  assert (Hrw : rb w ≠ w) by (intros E; apply (not_both w Hw); rewrite <- E; by apply rb_under).
  destruct (decide (dt `suffix_of` k)) as [Hk|Hk].
  - pose proof (unrb_under k Hk) as Hq.
    destruct (decide (unrb k = w)) as [Eq|Nq].
    + assert (k = rb w) as -> by (rewrite <- Eq; symmetry; by apply rb_unrb).
      rewrite Eq, He. rewrite lookup_insert_ne by done. rewrite lookup_delete. by rewrite lookup_insert.
    + assert (unrb k ≠ rb w) by (intros E; apply (not_both (unrb k) Hq); rewrite E; by apply rb_under).
      rewrite lookup_insert_ne by done. rewrite lookup_delete_ne by done.
      destruct (m_ents m !! unrb k); [done|].
      assert (k ≠ rb w) by (intros ->; apply Nq; by apply unrb_rb).
      assert (k ≠ w) by (intros ->; by apply (not_both w)).
      rewrite lookup_insert_ne by done. by rewrite lookup_delete_ne.
  - destruct (decide (sr `suffix_of` k)) as [Hs|Hs]; [done|].
    assert (k ≠ rb w) by (intros ->; apply Hk; by apply rb_under).
    assert (k ≠ w) by (intros ->; done).
    rewrite lookup_insert_ne by done. by rewrite lookup_delete_ne.
Qed.

Lemma moved_disp_d m w e k : sr `suffix_of` w → disp_d (moved m w e) k = disp_d m k.
Proof.
  intros Hw. unfold disp_d. rewrite moved_data.
  assert (Hrw : rb w ≠ w) by (intros E; apply (not_both w Hw); rewrite <- E; by apply rb_under).
  destruct (m_data m !! w) as [d|] eqn:Ed; [|done].
  destruct (decide (dt `suffix_of` k)) as [Hk|Hk].
  - pose proof (unrb_under k Hk) as Hq.
    destruct (decide (unrb k = w)) as [Eq|Nq].
    + assert (k = rb w) as -> by (rewrite <- Eq; symmetry; by apply rb_unrb).
      rewrite Eq, Ed. rewrite lookup_insert_ne by done. rewrite lookup_delete. by rewrite lookup_insert.
    + assert (unrb k ≠ rb w) by (intros E; apply (not_both (unrb k) Hq); rewrite E; by apply rb_under).
      rewrite lookup_insert_ne by done. rewrite lookup_delete_ne by done.
      destruct (m_data m !! unrb k); [done|].
      assert (k ≠ rb w) by (intros ->; apply Nq; by apply unrb_rb).
      assert (k ≠ w) by (intros ->; by apply (not_both w)).
      rewrite lookup_insert_ne by done. by rewrite lookup_delete_ne.
  - destruct (decide (sr `suffix_of` k)) as [Hs|Hs]; [done|].
    assert (k ≠ rb w) by (intros ->; apply Hk; by apply rb_under).
    assert (k ≠ w) by (intros ->; done).
    rewrite lookup_insert_ne by done. by rewrite lookup_delete_ne.
Qed.

(* ---- the loop invariant (after the first iteration: the source root itself has gone) ---- *)
Definition strictly_under (q : rpath) : Prop := ∃ k, k ≠ [] ∧ q = k ++ sr.

Record Inv (m : mfs) (ws : list rpath) : Prop := {
  iv_exists : ∀ w, w ∈ ws → is_Some (m_ents m !! w);
  iv_under : ∀ w, w ∈ ws → strictly_under w;
  iv_orphan : ∀ w, w ∈ ws → m_ents m !! tail w = None;
  iv_nodup : NoDup ws;
  (* children of entries still waiting under the source root are still there *)
  iv_kids : ∀ q e n, sr `suffix_of` q → m_ents m !! q = Some e → n ∈ files_of e → is_Some (m_ents m !! (n :: q));
  (* everything still under the source root is on the work list or hangs off something that is still there *)
  iv_cover : ∀ q, sr `suffix_of` q → is_Some (m_ents m !! q) →
             q ∈ ws ∨ ∃ n d e, q = n :: d ∧ sr `suffix_of` d ∧ m_ents m !! d = Some e ∧ n ∈ files_of e;
  iv_data : ∀ q, sr `suffix_of` q → is_Some (m_data m !! q) → is_Some (m_ents m !! q)
}.

Lemma strictly_under_suffix q : strictly_under q → sr `suffix_of` q.
Proof. intros (k & _ & ->). by exists k. Qed.

Lemma strictly_under_tail q : strictly_under q → sr `suffix_of` tail q.
Proof. intros (k & Hk & ->). destruct k as [|n k]; [done|]. cbn. by exists k. Qed.

Lemma files_elements e : e_files e = Some (files_of e) ∨ (e_files e = None ∧ files_of e = ∅).
Proof. unfold files_of. destruct (e_files e); cbn; auto. Qed.

Definition kids_of (e : entry) : list (list N) := match e_files e with Some fs => elements fs | None => [] end.

Lemma kids_of_spec e n : n ∈ kids_of e ↔ n ∈ files_of e.
Proof. unfold kids_of, files_of. destruct (e_files e); cbn; [apply elem_of_elements | set_solver]. Qed.

Lemma kids_of_nodup e : NoDup (kids_of e).
Proof. unfold kids_of. destruct (e_files e); [apply NoDup_elements | constructor]. Qed.

Lemma inv_step m w rest e : Inv m (w :: rest) → m_ents m !! w = Some e →
  Inv (moved m w e) (map (λ n, n :: w) (kids_of e) ++ rest).
Proof.
  intros I He.
  assert (Hw : strictly_under w) by (apply (iv_under _ _ I); left).
  pose proof (strictly_under_suffix _ Hw) as Hws.
  assert (Hrw : rb w ≠ w) by (intros E; apply (not_both w Hws); rewrite <- E; by apply rb_under).
  assert (Hlk : ∀ q, sr `suffix_of` q → q ≠ w → m_ents (moved m w e) !! q = m_ents m !! q).
  { intros q Hq Hne. rewrite moved_ents. assert (q ≠ rb w) by (intros ->; apply (not_both (rb w)); [done | by apply rb_under]).
    rewrite lookup_insert_ne by done. by rewrite lookup_delete_ne. }
  assert (Hgone : m_ents (moved m w e) !! w = None).
  { rewrite moved_ents. rewrite lookup_insert_ne by done. by rewrite lookup_delete. }
  pose proof (iv_nodup _ _ I) as Hnd. apply NoDup_cons in Hnd as [Hwn Hnd].
  constructor.
  - (* exists *) intros x Hx. apply elem_of_app in Hx as [Hx|Hx].
    + apply elem_of_list_fmap in Hx as (n & -> & Hn). apply kids_of_spec in Hn.
      rewrite Hlk; [by eapply (iv_kids _ _ I) | by apply suffix_cons_r | intros E; apply (f_equal length) in E; cbn in E; lia].
    + rewrite Hlk; [apply (iv_exists _ _ I); by right | apply strictly_under_suffix, (iv_under _ _ I); by right | intros ->; done].
  - (* under *) intros x Hx. apply elem_of_app in Hx as [Hx|Hx].
    + apply elem_of_list_fmap in Hx as (n & -> & Hn). destruct Hw as (k & Hk & ->). exists (n :: k). done.
    + apply (iv_under _ _ I). by right.
  - (* orphan *) intros x Hx. apply elem_of_app in Hx as [Hx|Hx].
    + apply elem_of_list_fmap in Hx as (n & -> & Hn). cbn [tail]. exact Hgone.
    + assert (Hxu : strictly_under x) by (apply (iv_under _ _ I); by right).
      pose proof (iv_orphan _ _ I x ltac:(by right)) as Ho.
      destruct (decide (tail x = w)) as [->|Hne]; [exact Hgone|].
      rewrite Hlk; [exact Ho | by apply strictly_under_tail | exact Hne].
  - (* nodup *) apply NoDup_app. split; [|split].
    + apply NoDup_fmap_2; [intros a b E; by simplify_eq | apply kids_of_nodup].
    + intros x Hx Hr. apply elem_of_list_fmap in Hx as (n & -> & Hn).
      pose proof (iv_orphan _ _ I (n :: w) ltac:(by right)) as Ho. cbn [tail] in Ho. congruence.
    + exact Hnd.
  - (* kids *) intros q e' n Hq Hl Hn.
    destruct (decide (q = w)) as [->|Hne]; [congruence|]. rewrite Hlk in Hl by done.
    destruct (decide (n :: q = w)) as [E|Hne2].
    + (* q would be the old parent of w, which has gone *)
      pose proof (iv_orphan _ _ I w ltac:(left)) as Ho. rewrite <- E in Ho. cbn [tail] in Ho. congruence.
    + rewrite Hlk; [by eapply (iv_kids _ _ I) | by apply suffix_cons_r | done].
  - (* cover *) intros q Hq Hs.
    destruct (decide (q = w)) as [->|Hne]; [rewrite Hgone in Hs; by destruct Hs|]. rewrite Hlk in Hs by done.
    destruct (iv_cover _ _ I q Hq Hs) as [Hin|(n & d & e' & -> & Hd & Hl & Hn)].
    + left. apply elem_of_cons in Hin as [->|Hin]; [done|]. apply elem_of_app. by right.
    + destruct (decide (d = w)) as [->|Hdw].
      * left. apply elem_of_app. left. apply elem_of_list_fmap. exists n. split; [done|]. apply kids_of_spec. congruence.
      * right. exists n, d, e'. repeat split; try done. by rewrite Hlk.
  - (* data *) intros q Hq Hs. rewrite moved_data in Hs.
    destruct (decide (q = w)) as [->|Hne].
    + destruct (m_data m !! w) eqn:Ed.
      * rewrite lookup_insert_ne in Hs by done. rewrite lookup_delete in Hs. by destruct Hs.
      * rewrite Ed in Hs. by destruct Hs.
    + rewrite Hlk by done. apply (iv_data _ _ I q Hq).
      destruct (m_data m !! w); [|done].
      assert (q ≠ rb w) by (intros ->; apply (not_both (rb w)); [done | by apply rb_under]).
      rewrite lookup_insert_ne in Hs by done. by rewrite lookup_delete_ne in Hs.
Qed.

(* nothing is left under the source root when the work list is empty *)
Lemma inv_done_ents m : Inv m [] → m_ents m !! sr = None → ∀ q, sr `suffix_of` q → m_ents m !! q = None.
Proof.
  intros I Hsr q. remember (length q) as len eqn:Hl. revert q Hl.
  induction len as [len IH] using lt_wf_ind. intros q Hl Hq.
  destruct (m_ents m !! q) as [e|] eqn:He; [|done]. exfalso.
  destruct (iv_cover _ _ I q Hq ltac:(eauto)) as [Hin|(n & d & e' & -> & Hd & Hld & Hn)]; [by apply elem_of_nil in Hin|].
  rewrite (IH (length d)) in Hld; [done | cbn in Hl; lia | reflexivity | exact Hd].
Qed.

(* the loop: every later iteration is `moved`, and the display never changes *)
Lemma loop_display fuel : ∀ m ws m' r, Inv m ws → m_ents m !! sr = None →
  move_loop fuel m sr dt ws = Done (m', r) →
  r = inl tt ∧ (∀ k, disp_e m' k = disp_e m k) ∧ (∀ k, disp_d m' k = disp_d m k) ∧ Inv m' [] ∧ m_ents m' !! sr = None ∧
  m_cwd m' = m_cwd m ∧ m_root m' = m_root m.
Proof.
  induction fuel as [|f IH]; intros m ws m' r I Hsr; cbn [move_loop]; [done|].
  destruct ws as [|w rest]; [intros H; simplify_eq; done|].
  destruct (iv_exists _ _ I w ltac:(left)) as [e He]. rewrite He.
  assert (Hw : strictly_under w) by (apply (iv_under _ _ I); left).
  pose proof (strictly_under_suffix _ Hw) as Hws.
  destruct Hw as (kw & Hkw & Ew). destruct kw as [|wb kw']; [done|]. cbn in Ew.
  fold (move_entry e (rebase sr dt w)). fold (rb w).
  change (match m_data (upd_ents m (λ es, <[rb w:=move_entry e (rb w)]> (delete w es))) !! w with
          | Some d => upd_data (upd_ents m (λ es, <[rb w:=move_entry e (rb w)]> (delete w es))) (λ ds, <[rb w:=d]> (delete w ds))
          | None => upd_ents m (λ es, <[rb w:=move_entry e (rb w)]> (delete w es))
          end) with (moved m w e).
  rewrite Ew at 1. 
  pose proof (iv_orphan _ _ I w ltac:(left)) as Ho. rewrite Ew in Ho. cbn [tail] in Ho.
  assert (Hgp : m_ents (moved m w e) !! (kw' ++ sr) = None).
  { rewrite moved_ents.
    assert (kw' ++ sr ≠ rb w) by (intros E; apply (not_both (kw' ++ sr)); [by exists kw' | rewrite E; by apply rb_under]).
    assert (kw' ++ sr ≠ w) by (rewrite Ew; intros E; apply (f_equal length) in E; cbn in E; lia).
    rewrite lookup_insert_ne by done. by rewrite lookup_delete_ne. }
  rewrite Hgp. fold (kids_of e).
  intros Hloop.
  assert (Hsr' : m_ents (moved m w e) !! sr = None).
  { rewrite moved_ents. assert (sr ≠ rb w) by (intros E; apply (not_both sr); [done | rewrite E; by apply rb_under]).
    assert (sr ≠ w) by (rewrite Ew; intros E; apply (f_equal length) in E; cbn in E; rewrite app_length in E; lia).
    rewrite lookup_insert_ne by done. by rewrite lookup_delete_ne. }
  destruct (IH _ _ _ _ (inv_step m w rest e I He) Hsr' Hloop) as (Hr & Hde & Hdd & Hi & Hs2 & Hc & Hrt).
  split; [exact Hr|]. split; [intros k; rewrite Hde; by apply moved_disp_e|].
  split; [intros k; rewrite Hdd; by apply moved_disp_d|]. split; [exact Hi|]. split; [exact Hs2|].
  unfold moved in Hc, Hrt. split; [rewrite Hc | rewrite Hrt]; by destruct (m_data _ !! w).
Qed.

(* when nothing is left under the source root the state is its own display *)
Lemma disp_final m : Inv m [] → m_ents m !! sr = None →
  (∀ k, disp_e m k = m_ents m !! k) ∧ (∀ k, disp_d m k = m_data m !! k).
Proof.
  intros I Hsr. pose proof (inv_done_ents m I Hsr) as Hn.
  assert (Hnd : ∀ q, sr `suffix_of` q → m_data m !! q = None).
  { intros q Hq. destruct (m_data m !! q) eqn:E; [|done]. destruct (iv_data _ _ I q Hq ltac:(eauto)) as [x Hx]. rewrite Hn in Hx; done. }
  split; intros k.
  - unfold disp_e. destruct (decide (dt `suffix_of` k)) as [Hk|Hk]; [by rewrite (Hn _ (unrb_under k Hk))|].
    destruct (decide (sr `suffix_of` k)); [by rewrite Hn | done].
  - unfold disp_d. destruct (decide (dt `suffix_of` k)) as [Hk|Hk]; [by rewrite (Hnd _ (unrb_under k Hk))|].
    destruct (decide (sr `suffix_of` k)); [by rewrite Hnd | done].
Qed.

End Move.

(* ---- the display of the state after the first iteration, and why it is well formed ---- *)
Section Target.
Variables (M : mfs) (sb db : list N) (sd dd : rpath) (se op x : entry).
Notation sr := (sb :: sd).
Notation dt := (db :: dd).
Hypothesis HW : WF M.
Hypothesis Hsr_dt : ¬ sr `suffix_of` dt.
Hypothesis Hdt_sr : ¬ dt `suffix_of` sr.
Hypothesis Hse : m_ents M !! sr = Some se.
Hypothesis Hop : m_ents M !! sd = Some op.
Hypothesis Hx : m_ents M !! dd = Some x.
Hypothesis Hxd : real_dir x.
(* the destination is free: absent, or a leaf *)
Hypothesis Hfree : ∀ k, dt `suffix_of` k → k ≠ dt → m_ents M !! k = None.

Definition np : entry := if decide (dd = sd) then entry_remove op sb else x.
Definition ea : entry := (entry_add np db).1.
Definition er : entry := entry_remove op sb.

Definition Fe (k : rpath) : option entry :=
  if decide (k = dt) then Some (move_entry se dt)
  else if decide (dt `suffix_of` k) then (λ e, move_entry e k) <$> (m_ents M !! unrb sr dt k)
  else if decide (sr `suffix_of` k) then None
  else if decide (k = dd) then Some ea
  else if decide (k = sd) then Some er
  else m_ents M !! k.

Definition Fd (k : rpath) : option (list N) :=
  if decide (k = dt) then m_data M !! sr
  else if decide (dt `suffix_of` k) then m_data M !! unrb sr dt k
  else if decide (sr `suffix_of` k) then None
  else m_data M !! k.

Lemma op_real : real_dir op.
Proof. destruct (wf_par M HW _ _ _ Hse) as (pe & Hpe & Hr & _). congruence. Qed.

Lemma np_real : real_dir np ∧ e_path np = dd ∧ e_files np ≠ None.
Proof.
  unfold np. destruct (decide (dd = sd)) as [E|E].
  - destruct (entry_remove_same op sb) as (P & D & _ & L & F). destruct op_real as [Hd Hl].
    split; [split; congruence|]. split; [rewrite P, E; by eapply wf_key|].
    rewrite F. intros Hn. apply (wf_fls M HW _ _ Hop) in Hn. congruence.
  - split; [exact Hxd|]. split; [by eapply wf_key|]. intros Hn. apply (wf_fls M HW _ _ Hx) in Hn. destruct Hxd. congruence.
Qed.

Lemma ea_facts : real_dir ea ∧ e_path ea = dd ∧ files_of ea = {[ db ]} ∪ files_of np ∧ e_files ea ≠ None ∧ e_file ea = e_file np.
Proof.
  destruct np_real as ((Hd & Hl) & Hp & Hf). destruct (entry_add_same np db) as (P & D & Fi & L & F). fold ea in P, D, Fi, L, F.
  split; [split; congruence|]. split; [congruence|]. split; [by apply files_of_entry_add|]. done.
Qed.

Lemma er_facts : real_dir er ∧ e_path er = sd ∧ files_of er = files_of op ∖ {[ sb ]} ∧ e_files er ≠ None ∧ e_file er = e_file op.
Proof.
  destruct (entry_remove_same op sb) as (P & D & Fi & L & F). destruct op_real as [Hd Hl]. fold er in P, D, Fi, L, F.
  split; [split; congruence|]. split; [rewrite P; by eapply wf_key|]. split; [apply files_of_entry_remove|].
  split; [|done]. rewrite F. intros Hn. apply (wf_fls M HW _ _ Hop) in Hn. congruence.
Qed.

Lemma files_np_sub n : n ∈ files_of np → n ∈ files_of (if decide (dd = sd) then op else x) ∧ (dd = sd → n ≠ sb).
Proof.
  unfold np. destruct (decide (dd = sd)); [|done]. rewrite files_of_entry_remove. set_solver.
Qed.

(* path arithmetic *)
Lemma dd_not_under_dt : ¬ dt `suffix_of` dd.
Proof. intros H. apply suffix_length in H. cbn in H. lia. Qed.
Lemma sd_not_under_sr : ¬ sr `suffix_of` sd.
Proof. intros H. apply suffix_length in H. cbn in H. lia. Qed.
Lemma dd_not_under_sr : ¬ sr `suffix_of` dd.
Proof. intros H. apply Hsr_dt. by apply suffix_cons_r. Qed.
Lemma sd_not_under_dt : ¬ dt `suffix_of` sd.
Proof. intros H. apply Hdt_sr. by apply suffix_cons_r. Qed.
Lemma dt_ne_sr : dt ≠ sr.
Proof. intros E. apply Hsr_dt. by rewrite E. Qed.

Lemma unrb_cons n d : dt `suffix_of` d → unrb sr dt (n :: d) = n :: unrb sr dt d.
Proof. intros [j ->]. unfold unrb. change (n :: j ++ dt) with ((n :: j) ++ dt). by rewrite !rebase_app. Qed.
Lemma unrb_dt : unrb sr dt dt = sr.
Proof. unfold unrb. change dt with ([] ++ dt) at 2. by rewrite rebase_app. Qed.

Lemma Fe_shape k e' : Fe k = Some e' → e_path e' = k ∧
  ∃ q e, m_ents M !! q = Some e ∧ e_dir e' = e_dir e ∧ e_file e' = e_file e ∧ e_link e' = e_link e ∧
         (e_files e' = None ↔ e_files e = None) ∧ (e_link e = true → files_of e' = ∅).
Proof.
  unfold Fe. intros H.
  destruct (decide (k = dt)) as [->|Hk1].
  { simplify_eq. destruct (move_entry_shape se dt) as (P & D & F & L & Fs). split; [done|]. exists sr, se. rewrite D, F, L, Fs. repeat split; try done.
    intros Hl. rewrite files_of_move_entry. by eapply (wf_lnk M HW). }
  destruct (decide (dt `suffix_of` k)) as [Hk2|Hk2].
  { destruct (m_ents M !! unrb sr dt k) as [e|] eqn:E; [|done]. cbn in H. simplify_eq.
    destruct (move_entry_shape e k) as (P & D & F & L & Fs). split; [done|]. exists (unrb sr dt k), e. rewrite D, F, L, Fs. repeat split; try done.
    intros Hl. rewrite files_of_move_entry. by eapply (wf_lnk M HW). }
  destruct (decide (sr `suffix_of` k)); [done|].
  destruct (decide (k = dd)) as [->|Hk3].
  { simplify_eq. destruct ea_facts as ((D & L) & P & Fs & Fn & Fi). destruct np_real as ((Dn & Ln) & _ & _).
    split; [done|]. exists dd, x. destruct Hxd as [Dx Lx]. rewrite D, L, Dx, Lx. repeat split; try done.
    - unfold np in Fi. destruct (decide (dd = sd)) as [E|E]; [|done].
      destruct (entry_remove_same op sb) as (_ & _ & F2 & _). rewrite Fi, F2. rewrite E in Hx. congruence.
    - intros Hn. pose proof (proj1 (wf_fls M HW _ _ Hx) Hn). congruence. }
  destruct (decide (k = sd)) as [->|Hk4].
  { simplify_eq. destruct er_facts as ((D & L) & P & Fs & Fn & Fi). destruct op_real as [Do Lo].
    split; [done|]. exists sd, op. rewrite D, L, Do, Lo, Fi. repeat split; try done.
    intros Hn. pose proof (proj1 (wf_fls M HW _ _ Hop) Hn). congruence. }
  split; [by eapply wf_key|]. exists k, e'. repeat split; try done. intros Hl. by eapply (wf_lnk M HW).
Qed.

(* the parent of an entry of the target is there, is a real directory and lists it *)
Lemma Fe_parent n d e' : Fe (n :: d) = Some e' → ∃ pe, Fe d = Some pe ∧ real_dir pe ∧ n ∈ files_of pe.
Proof.
  unfold Fe at 1. intros H.
  destruct (decide (n :: d = dt)) as [E|Hk1].
  { (* the moved root: its new parent *)
    injection E as -> ->. exists ea. destruct ea_facts as (R & _ & Fs & _). unfold Fe.
    rewrite decide_False by (intros E; apply (f_equal length) in E; cbn in E; lia).
    rewrite decide_False by apply dd_not_under_dt. rewrite decide_False by apply dd_not_under_sr.
    rewrite decide_True by done. split; [done|]. split; [done|]. rewrite Fs. set_solver. }
  destruct (decide (dt `suffix_of` n :: d)) as [Hk2|Hk2].
  { (* strictly inside the moved subtree *)
    apply suffix_cons_inv in Hk2 as [E|Hd]; [done|].
    rewrite (unrb_cons n d Hd) in H. destruct (m_ents M !! (n :: unrb sr dt d)) as [e|] eqn:E; [|done].
    destruct (wf_par M HW _ _ _ E) as (pe & Hpe & Hr & Hin).
    destruct (decide (d = dt)) as [->|Hne].
    - rewrite unrb_dt in Hpe. assert (pe = se) as -> by congruence.
      exists (move_entry se dt). unfold Fe. rewrite decide_True by done.
      destruct (move_entry_shape se dt) as (_ & D & _ & L & _). destruct Hr. split; [done|]. split; [split; congruence|]. by rewrite files_of_move_entry.
    - exists (move_entry pe d). unfold Fe. rewrite decide_False by done. rewrite decide_True by done. rewrite Hpe. cbn.
      destruct (move_entry_shape pe d) as (_ & D & _ & L & _). destruct Hr. split; [done|]. split; [split; congruence|]. by rewrite files_of_move_entry. }
  destruct (decide (sr `suffix_of` n :: d)) as [Hk3|Hk3]; [done|].
  assert (Hd_dt : d ≠ dt) by (intros ->; apply Hk2; by apply suffix_cons_r).
  assert (Hd_udt : ¬ dt `suffix_of` d) by (intros Hs; apply Hk2; by apply suffix_cons_r).
  assert (Hd_usr : ¬ sr `suffix_of` d) by (intros Hs; apply Hk3; by apply suffix_cons_r).
  assert (Hpar : ∀ e0, m_ents M !! (n :: d) = Some e0 → ∃ pe, Fe d = Some pe ∧ real_dir pe ∧ n ∈ files_of pe).
  { intros e0 He0. destruct (wf_par M HW _ _ _ He0) as (pe & Hpe & Hr & Hin).
    unfold Fe. rewrite decide_False by done. rewrite decide_False by done. rewrite decide_False by done.
    destruct (decide (d = dd)) as [->|Hdd].
    - exists ea. destruct ea_facts as (R & _ & Fs & _). split; [done|]. split; [done|]. rewrite Fs. apply elem_of_union. right.
      unfold np. destruct (decide (dd = sd)) as [Es|Es].
      + rewrite files_of_entry_remove. rewrite Es in Hpe. assert (pe = op) as -> by congruence.
        apply elem_of_difference. split; [done|]. intros Hn. apply elem_of_singleton in Hn. subst n. apply Hk3. rewrite Es. done.
      + assert (pe = x) as -> by congruence. done.
    - destruct (decide (d = sd)) as [->|Hsd].
      + exists er. destruct er_facts as (R & _ & Fs & _). split; [done|]. split; [done|]. rewrite Fs.
        assert (pe = op) as -> by congruence. apply elem_of_difference. split; [done|].
        intros Hn. apply elem_of_singleton in Hn. subst n. by apply Hk3.
      + exists pe. done. }
  destruct (decide (n :: d = dd)) as [E|Hk4]; [rewrite E in *; eapply Hpar; exact Hx|].
  destruct (decide (n :: d = sd)) as [E|Hk5]; [rewrite E in *; eapply Hpar; exact Hop|].
  eapply Hpar; exact H.
Qed.

(* every name a directory of the target lists is there *)
Lemma Fe_child p e' n : Fe p = Some e' → n ∈ files_of e' → is_Some (Fe (n :: p)).
Proof.
  unfold Fe at 1. intros H Hn.
  (* a child that exists in M and is neither the source root nor inside either subtree shows through *)
  assert (Hshow : ∀ k, is_Some (m_ents M !! k) → k ≠ dt → ¬ dt `suffix_of` k → ¬ sr `suffix_of` k → is_Some (Fe k)).
  { intros k Hs H1 H2 H3. unfold Fe. rewrite decide_False by done. rewrite decide_False by done. rewrite decide_False by done.
    destruct (decide (k = dd)); [eauto|]. destruct (decide (k = sd)); [eauto|]. done. }
  destruct (decide (p = dt)) as [->|Hk1].
  { simplify_eq. rewrite files_of_move_entry in Hn. unfold Fe.
    rewrite decide_False by (intros E; apply (f_equal length) in E; cbn in E; lia).
    rewrite decide_True by (by apply suffix_cons_r). rewrite unrb_cons by done. rewrite unrb_dt.
    destruct (wf_chl M HW _ _ _ Hse Hn) as [c Hc]. rewrite Hc. eauto. }
  destruct (decide (dt `suffix_of` p)) as [Hk2|Hk2].
  { destruct (m_ents M !! unrb sr dt p) as [e|] eqn:E; [|done]. cbn in H. simplify_eq. rewrite files_of_move_entry in Hn.
    unfold Fe. rewrite decide_False by (intros E2; injection E2 as -> ->; by apply dd_not_under_dt in Hk2).
    rewrite decide_True by (by apply suffix_cons_r). rewrite unrb_cons by done.
    destruct (wf_chl M HW _ _ _ E Hn) as [c Hc]. rewrite Hc. eauto. }
  destruct (decide (sr `suffix_of` p)) as [Hk3|Hk3]; [done|].
  assert (Hnd : ∀ k, ¬ dt `suffix_of` p → dt `suffix_of` (k :: p) → k :: p = dt).
  { intros k Hp Hs. apply suffix_cons_inv in Hs as [E|Hs]; done. }
  destruct (decide (p = dd)) as [->|Hk4].
  { simplify_eq. destruct ea_facts as (_ & _ & Fs & _). rewrite Fs in Hn. apply elem_of_union in Hn as [Hn|Hn].
    - apply elem_of_singleton in Hn. subst n. unfold Fe. rewrite decide_True by done. eauto.
    - destruct (decide (n = db)) as [->|Hdb]; [unfold Fe; rewrite decide_True by done; eauto|].
      destruct (files_np_sub n Hn) as [Hin Hsb].
      apply Hshow.
      + destruct (decide (dd = sd)) as [E|E]; [rewrite E; by eapply (wf_chl M HW) | by eapply (wf_chl M HW)].
      + intros E; injection E as ->; done.
      + intros Hs. apply (Hnd n dd_not_under_dt) in Hs. injection Hs as ->. done.
      + intros Hs. apply suffix_cons_inv in Hs as [E|Hs]; [|by apply dd_not_under_sr].
        injection E as -> E. by apply Hsb. }
  destruct (decide (p = sd)) as [->|Hk5].
  { simplify_eq. destruct er_facts as (_ & _ & Fs & _). rewrite Fs in Hn. apply elem_of_difference in Hn as [Hin Hsb].
    apply Hshow.
    + by eapply (wf_chl M HW).
    + intros E. injection E as -> E. done.
    + intros Hs. apply (Hnd n sd_not_under_dt) in Hs. injection Hs as -> E. done.
    + intros Hs. apply suffix_cons_inv in Hs as [E|Hs]; [|by apply sd_not_under_sr]. injection E as ->. set_solver. }
  destruct (decide (n :: p = dt)) as [E|Hne]; [rewrite E; unfold Fe; rewrite decide_True by done; eauto|].
  apply Hshow.
  - by eapply (wf_chl M HW).
  - done.
  - intros Hs. by apply (Hnd n Hk2) in Hs.
  - intros Hs. apply suffix_cons_inv in Hs as [E|Hs]; [|done]. injection E as -> ->. done.
Qed.

(* exactly the regular non-link files of the target have byte content *)
Lemma Fd_dat k : is_Some (Fd k) ↔ ∃ e, Fe k = Some e ∧ e_file e = true ∧ e_link e = false.
Proof.
  unfold Fd, Fe.
  destruct (decide (k = dt)) as [->|Hk1].
  { rewrite (wf_dat M HW sr). destruct (move_entry_shape se dt) as (_ & _ & F & L & _). split.
    - intros (e & He & Hf & Hl). assert (e = se) as -> by congruence. exists (move_entry se dt). split; [done|]. split; congruence.
    - intros (e & He & Hf & Hl). simplify_eq. exists se. split; [done|]. split; congruence. }
  destruct (decide (dt `suffix_of` k)) as [Hk2|Hk2].
  { rewrite (wf_dat M HW (unrb sr dt k)). split.
    - intros (e & He & Hf & Hl). rewrite He. cbn. exists (move_entry e k). destruct (move_entry_shape e k) as (_ & _ & F & L & _). split; [done|]. split; congruence.
    - intros (e' & He & Hf & Hl). destruct (m_ents M !! unrb sr dt k) as [e|]; [|done]. cbn in He. simplify_eq.
      destruct (move_entry_shape e k) as (_ & _ & F & L & _). exists e. split; [done|]. split; congruence. }
  destruct (decide (sr `suffix_of` k)) as [Hk3|Hk3]; [split; [intros [? ?]; done | intros (? & ? & _); done]|].
  rewrite (wf_dat M HW k).
  destruct (decide (k = dd)) as [->|Hk4].
  { destruct ea_facts as ((D & L) & _ & _ & _ & Fi). destruct Hxd as [Dx Lx]. split.
    - intros (e & He & Hf & Hl). assert (e = x) as -> by congruence. exists ea. split; [done|]. split; [|done].
      rewrite Fi. unfold np. destruct (decide (dd = sd)) as [E|E]; [|done].
      destruct (entry_remove_same op sb) as (_ & _ & F2 & _). rewrite F2. rewrite E in Hx. congruence.
    - intros (e & He & Hf & Hl). simplify_eq. exists x. split; [done|]. split; [|done].
      rewrite Fi in Hf. unfold np in Hf. destruct (decide (dd = sd)) as [E|E]; [|done].
      destruct (entry_remove_same op sb) as (_ & _ & F2 & _). rewrite F2 in Hf. rewrite E in Hx. congruence. }
  destruct (decide (k = sd)) as [->|Hk5].
  { destruct er_facts as ((D & L) & _ & _ & _ & Fi). destruct op_real as [Do Lo]. split.
    - intros (e & He & Hf & Hl). assert (e = op) as -> by congruence. exists er. split; [done|]. split; congruence.
    - intros (e & He & Hf & Hl). simplify_eq. exists op. split; [done|]. split; congruence. }
  done.
Qed.

(* a state whose indexes look like the target is well formed *)
Lemma target_wf m' : (∀ k, m_ents m' !! k = Fe k) → (∀ k, m_data m' !! k = Fd k) → m_root m' = [] → WF m'.
Proof.
  intros He Hd Hr. constructor.
  - (* root *) rewrite He. destruct (wf_root M HW) as (r & Hroot & Rr).
    unfold Fe. rewrite decide_False by done.
    rewrite decide_False by (intros H; apply suffix_nil_inv in H; done).
    rewrite decide_False by (intros H; apply suffix_nil_inv in H; done).
    destruct (decide ([] = dd)) as [E|E]; [exists ea; split; [done | apply ea_facts]|].
    destruct (decide ([] = sd)) as [E2|E2]; [exists er; split; [done | apply er_facts]|]. eauto.
  - (* keys *) intros p e Hl. rewrite He in Hl. by destruct (Fe_shape p e Hl).
  - (* parents *) intros n d e Hl. rewrite He in Hl. destruct (Fe_parent n d e Hl) as (pe & Hp & R & Hin). exists pe. rewrite He. done.
  - (* children *) intros p e n Hl Hin. rewrite He in Hl. rewrite He. by eapply Fe_child.
  - (* data *) intros p. rewrite Hd, Fd_dat. split; intros (e & H1 & H2); exists e; [rewrite He | rewrite He in H1]; done.
  - (* files sets *) intros p e Hl. rewrite He in Hl. destruct (Fe_shape p e Hl) as (_ & q & e0 & H0 & D & _ & _ & Fs & _).
    rewrite Fs, D. by eapply wf_fls.
  - (* links *) intros p e Hl Hlk. rewrite He in Hl. destruct (Fe_shape p e Hl) as (_ & q & e0 & H0 & _ & _ & L & _ & Hf).
    apply Hf. congruence.
  - exact Hr.
Qed.

End Target.

(* ---- the first iteration (the source root itself) and the assembly ---- *)
Section First.
Variables (M : mfs) (sb db : list N) (sd dd : rpath) (se op x : entry).
Notation sr := (sb :: sd).
Notation dt := (db :: dd).
Hypothesis HW : WF M.
Hypothesis Hsr_dt : ¬ sr `suffix_of` dt.
Hypothesis Hdt_sr : ¬ dt `suffix_of` sr.
Hypothesis Hse : m_ents M !! sr = Some se.
Hypothesis Hop : m_ents M !! sd = Some op.
Hypothesis Hx : m_ents M !! dd = Some x.
Hypothesis Hxd : real_dir x.
Hypothesis Hfree : ∀ k, dt `suffix_of` k → k ≠ dt → m_ents M !! k = None.

Definition M0 : mfs := match m_ents M !! dt with Some _ => upd_data M (delete dt) | None => M end.
Definition M1 : mfs :=
  let m2 := moved sr dt M0 sr se in
  let m3 := upd_ents m2 (insert sd (entry_remove op sb)) in
  upd_ents m3 (insert dd (ea sb db sd dd op x)).

Lemma M0_ents : m_ents M0 = m_ents M.
Proof. unfold M0. by destruct (m_ents M !! dt). Qed.

Lemma rb_sr : rb sr dt sr = dt.
Proof. unfold rb. change sr with ([] ++ sr) at 2. by rewrite rebase_app. Qed.

Lemma M1_ents k : m_ents M1 !! k =
  if decide (k = dd) then Some (ea sb db sd dd op x) else if decide (k = sd) then Some (entry_remove op sb)
  else if decide (k = dt) then Some (move_entry se dt) else if decide (k = sr) then None else m_ents M !! k.
Proof.
  unfold M1. cbn [upd_ents m_ents]. rewrite moved_ents, M0_ents, rb_sr.
  destruct (decide (k = dd)) as [->|H1]; [by rewrite lookup_insert|]. rewrite lookup_insert_ne by done.
  destruct (decide (k = sd)) as [->|H2]; [by rewrite lookup_insert|]. rewrite lookup_insert_ne by done.
  destruct (decide (k = dt)) as [->|H3]; [by rewrite lookup_insert|]. rewrite lookup_insert_ne by done.
  destruct (decide (k = sr)) as [->|H4]; [by rewrite lookup_delete|]. by rewrite lookup_delete_ne.
Qed.

Lemma M0_data k : m_data M0 !! k = if decide (k = dt) then None else m_data M !! k.
Proof.
  unfold M0. destruct (m_ents M !! dt) as [y|] eqn:Ey; cbn.
  - destruct (decide (k = dt)) as [->|H]; [by rewrite lookup_delete | by rewrite lookup_delete_ne].
  - destruct (decide (k = dt)) as [->|H]; [|done].
    destruct (m_data M !! dt) eqn:Ed; [|done]. assert (is_Some (m_data M !! dt)) as Hs by eauto.
    apply (wf_dat M HW) in Hs as (e & He & _). congruence.
Qed.

Lemma M1_data k : m_data M1 !! k =
  if decide (k = dt) then m_data M !! sr else if decide (k = sr) then None else m_data M !! k.
Proof.
  assert (Hne : dt ≠ sr) by (intros E; apply Hsr_dt; by rewrite E).
  unfold M1. cbn [upd_ents m_data]. rewrite moved_data, rb_sr. rewrite (M0_data sr). rewrite decide_False by done.
  destruct (m_data M !! sr) as [d|] eqn:Ed.
  - destruct (decide (k = dt)) as [->|H1]; [by rewrite lookup_insert|]. rewrite lookup_insert_ne by done.
    destruct (decide (k = sr)) as [->|H2]; [by rewrite lookup_delete|]. rewrite lookup_delete_ne by done.
    rewrite M0_data. by rewrite decide_False.
  - rewrite M0_data. destruct (decide (k = dt)) as [->|H1]; [done|].
    destruct (decide (k = sr)) as [->|H2]; [done|]. done.
Qed.

Lemma np_eq : m_ents (upd_ents (moved sr dt M0 sr se) (insert sd (entry_remove op sb))) !! dd = Some (np sb sd dd op x).
Proof.
  cbn [upd_ents m_ents]. rewrite moved_ents, M0_ents, rb_sr. unfold np.
  destruct (decide (dd = sd)) as [->|H]; [by rewrite lookup_insert|]. rewrite lookup_insert_ne by done.
  assert (dd ≠ dt) by (intros E; apply (f_equal length) in E; cbn in E; lia).
  assert (dd ≠ sr) by (intros E; apply Hsr_dt; rewrite <- E; by apply suffix_cons_r).
  rewrite lookup_insert_ne by done. by rewrite lookup_delete_ne.
Qed.

(* the display of M1 is the target *)
Lemma disp_M1_e k : disp_e sr dt M1 k = Fe M sb db sd dd se op x k.
Proof.
  assert (Hne : dt ≠ sr) by (intros E; apply Hsr_dt; by rewrite E).
  unfold disp_e, Fe.
  destruct (decide (dt `suffix_of` k)) as [Hk|Hk].
  - destruct (decide (k = dt)) as [->|Hkd].
    + rewrite (unrb_dt sb db sd dd). rewrite M1_ents.
      rewrite decide_False by (intros E; apply (dd_not_under_sr sb db sd dd Hsr_dt); by rewrite <- E).
      rewrite decide_False by (intros E; apply (f_equal length) in E; cbn in E; lia).
      rewrite decide_False by (intros E; by symmetry in E). rewrite decide_True by done.
      rewrite M1_ents.
      rewrite decide_False by (intros E; apply (f_equal length) in E; cbn in E; lia).
      rewrite decide_False by (intros E; apply (sd_not_under_dt sb db sd dd Hdt_sr); by rewrite <- E).
      by rewrite decide_True.
    + pose proof (unrb_under sr dt k Hk) as Hq. rewrite M1_ents.
      rewrite decide_False by (intros E; apply (dd_not_under_sr sb db sd dd Hsr_dt); by rewrite E in Hq).
      rewrite decide_False by (intros E; apply (sd_not_under_sr sb sd); by rewrite E in Hq).
      rewrite decide_False by (intros E; apply Hsr_dt; by rewrite E in Hq).
      rewrite decide_False by (intros E; apply Hkd; rewrite <- (rb_unrb sr dt k Hk), E; apply rb_sr).
      destruct (m_ents M !! unrb sr dt k) as [e|]; [done|]. cbn. rewrite M1_ents.
      rewrite decide_False by (intros ->; by apply (dd_not_under_dt db dd)).
      rewrite decide_False by (intros ->; by apply (sd_not_under_dt sb db sd dd Hdt_sr)).
      rewrite decide_False by done. rewrite decide_False by (intros ->; by apply Hdt_sr).
      by apply Hfree.
  - rewrite (decide_False (P := k = dt)) by (intros E; apply Hk; by rewrite E).
    destruct (decide (sr `suffix_of` k)) as [Hs|Hs]; [done|]. rewrite M1_ents.
    destruct (decide (k = dd)); [done|]. destruct (decide (k = sd)); [done|].
    rewrite (decide_False (P := k = dt)) by (intros E; apply Hk; by rewrite E).
    rewrite (decide_False (P := k = sr)) by (intros E; apply Hs; by rewrite E). done.
Qed.

Lemma disp_M1_d k : disp_d sr dt M1 k = Fd M sb db sd dd k.
Proof.
  assert (Hne : dt ≠ sr) by (intros E; apply Hsr_dt; by rewrite E).
  unfold disp_d, Fd.
  destruct (decide (dt `suffix_of` k)) as [Hk|Hk].
  - destruct (decide (k = dt)) as [->|Hkd].
    + rewrite (unrb_dt sb db sd dd). rewrite (M1_data sr). rewrite decide_False by (intros E; by symmetry in E). rewrite decide_True by done.
      rewrite M1_data. by rewrite decide_True.
    + pose proof (unrb_under sr dt k Hk) as Hq. rewrite M1_data.
      rewrite decide_False by (intros E; apply Hsr_dt; by rewrite <- E).
      rewrite decide_False by (intros E; apply Hkd; rewrite <- (rb_unrb sr dt k Hk), E; apply rb_sr).
      destruct (m_data M !! unrb sr dt k) as [d|]; [done|]. rewrite M1_data.
      rewrite decide_False by done. rewrite decide_False by (intros ->; by apply Hdt_sr).
      destruct (m_data M !! k) eqn:Ed; [|done]. assert (is_Some (m_data M !! k)) as Hs by eauto.
      apply (wf_dat M HW) in Hs as (e & He & _). rewrite Hfree in He; done.
  - rewrite (decide_False (P := k = dt)) by (intros E; apply Hk; by rewrite E).
    destruct (decide (sr `suffix_of` k)) as [Hs|Hs]; [done|]. rewrite M1_data.
    rewrite (decide_False (P := k = dt)) by (intros E; apply Hk; by rewrite E).
    rewrite (decide_False (P := k = sr)) by (intros E; apply Hs; by rewrite E). done.
Qed.

Lemma M1_under q : sr `suffix_of` q → q ≠ sr → m_ents M1 !! q = m_ents M !! q ∧ m_data M1 !! q = m_data M !! q.
Proof.
  intros Hq Hne. rewrite M1_ents, M1_data.
  rewrite decide_False by (intros ->; by apply (dd_not_under_sr sb db sd dd Hsr_dt)).
  rewrite decide_False by (intros ->; by apply (sd_not_under_sr sb sd)).
  rewrite decide_False by (intros ->; by apply Hsr_dt). rewrite decide_False by done.
  rewrite decide_False by (intros ->; by apply Hsr_dt). by rewrite decide_False.
Qed.

Lemma M1_sr : m_ents M1 !! sr = None.
Proof.
  rewrite M1_ents.
  rewrite decide_False by (intros E; apply (dd_not_under_sr sb db sd dd Hsr_dt); by rewrite <- E).
  rewrite decide_False by (intros E; apply (f_equal length) in E; cbn in E; lia).
  rewrite decide_False by (intros E; apply Hsr_dt; by rewrite E). by rewrite decide_True.
Qed.

Lemma inv_M1 : Inv sr M1 (map (λ n, n :: sr) (kids_of se)).
Proof.
  assert (Hstrict : ∀ n, sr `suffix_of` (n :: sr) ∧ n :: sr ≠ sr).
  { intros n. split; [by apply suffix_cons_r|]. intros E. apply (f_equal length) in E. cbn in E. lia. }
  constructor.
  - intros w Hw. apply elem_of_list_fmap in Hw as (n & -> & Hn). apply (kids_of_spec sr dt Hsr_dt Hdt_sr) in Hn.
    destruct (Hstrict n) as [H1 H2]. rewrite (proj1 (M1_under _ H1 H2)). by eapply (wf_chl M HW).
  - intros w Hw. apply elem_of_list_fmap in Hw as (n & -> & Hn). exists [n]. done.
  - intros w Hw. apply elem_of_list_fmap in Hw as (n & -> & Hn). cbn [tail]. apply M1_sr.
  - apply NoDup_fmap_2; [intros a b E; by simplify_eq | apply kids_of_nodup].
  - intros q e n Hq Hl Hn. destruct (decide (q = sr)) as [->|Hne]; [rewrite M1_sr in Hl; done|].
    rewrite (proj1 (M1_under q Hq Hne)) in Hl.
    assert (Hc : sr `suffix_of` (n :: q)) by (by apply suffix_cons_r).
    assert (Hcn : n :: q ≠ sr) by (intros E; apply suffix_length in Hq; rewrite <- E in Hq; cbn in Hq; lia).
    rewrite (proj1 (M1_under _ Hc Hcn)). by eapply (wf_chl M HW).
  - intros q Hq Hs. destruct (decide (q = sr)) as [->|Hne]; [rewrite M1_sr in Hs; by destruct Hs|].
    rewrite (proj1 (M1_under q Hq Hne)) in Hs. destruct Hs as [e He].
    destruct Hq as [j Hj]. destruct j as [|n j]; [done|]. cbn in Hj. subst q.
    destruct (wf_par M HW _ _ _ He) as (pe & Hpe & _ & Hin).
    destruct j as [|n2 j].
    + left. cbn in *. apply elem_of_list_fmap. exists n. split; [done|]. apply (kids_of_spec sr dt Hsr_dt Hdt_sr). congruence.
    + right. exists n, ((n2 :: j) ++ sr), pe. split; [done|]. split; [by exists (n2 :: j)|]. split; [|done].
      rewrite (proj1 (M1_under ((n2 :: j) ++ sr) ltac:(by exists (n2 :: j)) ltac:(intros E; apply (f_equal length) in E; cbn in E; rewrite app_length in E; cbn in E; lia))). done.
  - intros q Hq Hs. destruct (decide (q = sr)) as [->|Hne].
    + rewrite M1_data in Hs. rewrite decide_False in Hs by (intros E; apply Hsr_dt; by rewrite E). rewrite decide_True in Hs by done. by destruct Hs.
    + rewrite (proj2 (M1_under q Hq Hne)) in Hs. rewrite (proj1 (M1_under q Hq Hne)).
      apply (wf_dat M HW) in Hs as (e & He & _). eauto.
Qed.

Lemma move_loop_first f :
  move_loop (S f) M0 sr dt [sr] = move_loop f M1 sr dt (map (λ n, n :: sr) (kids_of se) ++ []).
Proof.
  cbn [move_loop]. rewrite M0_ents, Hse.
  fold (move_entry se (rebase sr dt sr)). fold (rb sr dt sr).
  change (match m_data (upd_ents M0 (λ es, <[rb sr dt sr:=move_entry se (rb sr dt sr)]> (delete sr es))) !! sr with
          | Some d => upd_data (upd_ents M0 (λ es, <[rb sr dt sr:=move_entry se (rb sr dt sr)]> (delete sr es))) (λ ds, <[rb sr dt sr:=d]> (delete sr ds))
          | None => upd_ents M0 (λ es, <[rb sr dt sr:=move_entry se (rb sr dt sr)]> (delete sr es))
          end) with (moved sr dt M0 sr se).
  assert (Hsd : m_ents (moved sr dt M0 sr se) !! sd = Some op).
  { rewrite moved_ents, M0_ents, rb_sr.
    rewrite lookup_insert_ne by (intros E; apply (sd_not_under_dt sb db sd dd Hdt_sr); by rewrite <- E).
    rewrite lookup_delete_ne by (intros E; apply (f_equal length) in E; cbn in E; lia). done. }
  rewrite Hsd. destruct (op_real M sb sd se op HW Hse Hop) as [Hod Hol]. rewrite Hod. cbn [negb].
  rewrite rb_sr. rewrite np_eq.
  destruct (np_real M sb sd dd se op x HW Hse Hop Hx Hxd) as ((Hnd & _) & _). rewrite Hnd. cbn [negb].
  reflexivity.
Qed.

End First.

(* nothing lives strictly below a path that is absent or a leaf *)
Lemma nothing_under m (t : rpath) : WF m → (∀ y, m_ents m !! t = Some y → files_of y = ∅) →
  ∀ k, t `suffix_of` k → k ≠ t → m_ents m !! k = None.
Proof.
  intros HW Hleaf k [j ->] Hne. destruct (m_ents m !! (j ++ t)) as [e|] eqn:He; [|done]. exfalso.
  destruct j as [|c0 j0] using rev_ind; [done|]. clear IHj0.
  (* the child of t on the way to k exists, so t lists it *)
  pose proof (wf_reachable m HW _ _ He (length j0)) as Hr.
  rewrite <- app_assoc in Hr. rewrite drop_app_le in Hr by lia. rewrite drop_all in Hr. cbn in Hr.
  destruct Hr as [c Hc]; [rewrite !app_length; cbn; lia|].
  destruct (wf_par m HW _ _ _ Hc) as (y & Hy & _ & Hin). rewrite (Hleaf y Hy) in Hin. set_solver.
Qed.

(* ---- what a successful move_p does, exactly (C09): the final indexes ARE the target ---- *)
Theorem move_op_spec env m s d sb sd db dd m' r : WF m → move_validate env m s d = MvGo (sb :: sd) (db :: dd) →
  move_op env m s d = Done (m', r) →
  ∃ se op x, m_ents m !! (sb :: sd) = Some se ∧ m_ents m !! sd = Some op ∧ m_ents m !! dd = Some x ∧ real_dir x ∧
    r = inl tt ∧
    (∀ k, m_ents m' !! k = Fe m sb db sd dd se op x k) ∧ (∀ k, m_data m' !! k = Fd m sb db sd dd k) ∧
    m_cwd m' = m_cwd m ∧ m_root m' = m_root m ∧
    ¬ (sb :: sd) `suffix_of` (db :: dd) ∧ ¬ (db :: dd) `suffix_of` (sb :: sd) ∧
    (∀ k, (db :: dd) `suffix_of` k → k ≠ db :: dd → m_ents m !! k = None).
Proof.
  intros HW Ev. unfold move_op. rewrite Ev.
  destruct (move_go_facts env m s d _ _ Ev) as ([se Hse] & Hne & Hu & b & ddir & x & Heq & Hx & Hxd & Hxl & Hy).
  injection Heq as <- <-.
  assert (Hsr_dt : ¬ (sb :: sd) `suffix_of` (db :: dd)).
  { intros Hs. apply is_under_spec in Hs. congruence. }
  assert (Hleaf : ∀ y, m_ents m !! (db :: dd) = Some y → files_of y = ∅).
  { intros y Hyy. rewrite Hyy in Hy. unfold files_of. apply Hy. }
  pose proof (nothing_under m (db :: dd) HW Hleaf) as Hfree.
  assert (Hdt_sr : ¬ (db :: dd) `suffix_of` (sb :: sd)).
  { intros Hs. rewrite (Hfree _ Hs) in Hse; [done | congruence]. }
  destruct (wf_par m HW _ _ _ Hse) as (op & Hop & _ & _).
  assert (Hxr : real_dir x) by done.
  change (match m_ents m !! (db :: dd) with Some _ => upd_data m (delete (db :: dd)) | None => m end) with (M0 m db dd).
  remember (2 * size (m_ents m) + 2) as fuel eqn:Hf. destruct fuel as [|f]; [lia|].
  assert (Hfirst : move_loop (S f) (M0 m db dd) (sb :: sd) (db :: dd) [sb :: sd] =
                   move_loop f (M1 m sb db sd dd se op x) (sb :: sd) (db :: dd) (map (λ n, n :: sb :: sd) (kids_of se) ++ []))
    by (eapply move_loop_first; eauto).
  rewrite Hfirst, app_nil_r. intros Hloop.
  assert (Hinv : Inv (sb :: sd) (M1 m sb db sd dd se op x) (map (λ n, n :: sb :: sd) (kids_of se))) by (eapply inv_M1; eauto).
  assert (Hgone : m_ents (M1 m sb db sd dd se op x) !! (sb :: sd) = None) by (eapply M1_sr; eauto).
  destruct (loop_display _ _ Hsr_dt Hdt_sr f _ _ _ _ Hinv Hgone Hloop) as (Hr & Hde & Hdd & Hi & Hs2 & Hcw & Hrt).
  destruct (disp_final (sb :: sd) (db :: dd) m' Hi Hs2) as [He2 Hd2].
  exists se, op, x. repeat split; try done.
  - intros k. rewrite <- He2, Hde. eapply disp_M1_e; eauto.
  - intros k. rewrite <- Hd2, Hdd. eapply disp_M1_d; eauto.
  - rewrite Hcw. unfold M1. cbn. unfold moved. cbn. destruct (m_data _ !! _); cbn; unfold M0; destruct (m_ents m !! (db :: dd)); reflexivity.
  - rewrite Hrt. unfold M1. cbn. unfold moved. cbn. destruct (m_data _ !! _); cbn; unfold M0; destruct (m_ents m !! (db :: dd)); reflexivity.
Qed.

(* ---- C03 for move_p: for every state, source and destination ---- *)
Theorem move_op_wf env m s d m' r : WF m → move_op env m s d = Done (m', r) → WF m'.
Proof.
  intros HW Hm. destruct (move_validate env m s d) as [e| |sp dt0] eqn:Ev.
  - unfold move_op in Hm. rewrite Ev in Hm. by simplify_eq.
  - unfold move_op in Hm. rewrite Ev in Hm. by simplify_eq.
  - destruct (move_go_facts env m s d _ _ Ev) as (_ & _ & Hu & b & ddir & x0 & -> & _).
    destruct sp as [|sb sd].
    { exfalso. assert (is_under (b :: ddir) [] = true) as Ht by (apply is_under_spec, suffix_nil). congruence. }
    destruct (move_op_spec env m s d sb sd b ddir m' r HW Ev Hm) as (se & op & x & Hse & Hop & Hx & Hxr & _ & He & Hd & _ & Hrt & H1 & H2 & Hfree).
    eapply (target_wf m sb b sd ddir se op x); eauto. rewrite Hrt. apply (wf_rootpath m HW).
Qed.

(* ---- every call, every history ---- *)
From RV Require Import Memfs.Walk Memfs.WalkOps Memfs.Step Memfs.WfMore.

Theorem wf_step env m o m' r : WF m → step env m o = Done (m', r) → WF m'.
Proof.
  intros HW Hs. destruct (is_move_p o) eqn:Hm; [|by eapply wf_step_nonmovep].
  destruct o; cbn [is_move_p] in Hm; try discriminate. cbn [step] in Hs.
  destruct (move_op env m s d) as [r0| |] eqn:E; try discriminate.
  apply done_fst in Hs. rewrite <- Hs, lift_unit_fst. destruct r0 as [m1 r1]. by eapply move_op_wf.
Qed.

Theorem wf_all_histories env os : ∀ m m', WF m → run_ops env m os = Some m' → WF m'.
Proof.
  induction os as [|o os IH]; intros m m' HW Hr; cbn in *; [by simplify_eq|].
  destruct (step env m o) as [[m1 r]| |] eqn:Hs; try discriminate.
  eapply IH; [|exact Hr]. by eapply wf_step.
Qed.

Example wf_all_histories_nonvacuous :
  match run_ops (fun _ => None) mfs_init
          [OMkdirP [47; 97; 47; 98]%N; OWriteAll [47; 97; 47; 98; 47; 102]%N [1]%N; OSymlink [47; 97; 47; 108]%N [47; 97; 47; 98]%N;
           OMkdirP [47; 99]%N; OMoveP [47; 97]%N [47; 99]%N; OMoveP [47; 99; 47; 97; 47; 98]%N [47; 100]%N] with
  | Some m' => size (m_ents m') =? 6
  | None => false
  end = true.
Proof. vm_compute. reflexivity. Qed.

(* ---- C09: readable consequences of the exact description ---- *)
Section MoveLaws.
Variables (env : envmap) (m m' : mfs) (s d : list N) (sb db : list N) (sd dd : rpath) (r : mres unit).
Hypothesis HW : WF m.
Hypothesis Ev : move_validate env m s d = MvGo (sb :: sd) (db :: dd).
Hypothesis Hm : move_op env m s d = Done (m', r).
Notation sr := (sb :: sd).
Notation dt := (db :: dd).

(* the source disappears, with everything below it *)
Theorem move_source_gone k : sr `suffix_of` k → m_ents m' !! k = None ∧ m_data m' !! k = None.
Proof.
  intros Hk. destruct (move_op_spec env m s d sb sd db dd m' r HW Ev Hm) as (se & op & x & _ & _ & _ & _ & _ & He & Hd & _ & _ & H1 & H2 & _).
  rewrite He, Hd. unfold Fe, Fd.
  assert (¬ dt `suffix_of` k) by (intros Hs; by apply (suffix_disjoint sr dt k)).
  rewrite !(decide_False (P := k = dt)) by (intros ->; done).
  rewrite !(decide_False (P := dt `suffix_of` k)) by done. by rewrite !decide_True.
Qed.

(* the destination is the former source subtree: same relative paths, same kind, files set, mode, owner, content *)
Theorem move_destination j : 
  m_ents m' !! (j ++ dt) = (λ e, move_entry e (j ++ dt)) <$> (m_ents m !! (j ++ sr)) ∧
  m_data m' !! (j ++ dt) = m_data m !! (j ++ sr).
Proof.
  destruct (move_op_spec env m s d sb sd db dd m' r HW Ev Hm) as (se & op & x & Hse & _ & _ & _ & _ & He & Hd & _ & _ & H1 & H2 & _).
  rewrite He, Hd. unfold Fe, Fd. destruct j as [|n j].
  - cbn [app]. rewrite !decide_True by done. by rewrite Hse.
  - rewrite !(decide_False (P := (n :: j) ++ dt = dt)) by (intros E; apply (f_equal length) in E; rewrite app_length in E; cbn in E; lia).
    rewrite !decide_True by (by exists (n :: j)). unfold unrb. by rewrite rebase_app.
Qed.

(* nothing else changes, apart from the two parents' name lists *)
Theorem move_frame k : ¬ sr `suffix_of` k → ¬ dt `suffix_of` k →
  m_data m' !! k = m_data m !! k ∧ (k ≠ sd → k ≠ dd → m_ents m' !! k = m_ents m !! k).
Proof.
  intros H1 H2. destruct (move_op_spec env m s d sb sd db dd m' r HW Ev Hm) as (se & op & x & _ & _ & _ & _ & _ & He & Hd & _).
  rewrite He, Hd. unfold Fe, Fd.
  rewrite !(decide_False (P := k = dt)) by (intros ->; by apply H2).
  rewrite !(decide_False (P := dt `suffix_of` k)) by done. rewrite !(decide_False (P := sr `suffix_of` k)) by done.
  split; [done|]. intros H3 H4. by rewrite !decide_False.
Qed.

Theorem move_cwd_root : m_cwd m' = m_cwd m ∧ m_root m' = m_root m ∧ r = inl tt.
Proof. destruct (move_op_spec env m s d sb sd db dd m' r HW Ev Hm) as (se & op & x & _ & _ & _ & _ & Hr & _ & _ & Hc & Hrt & _). done. Qed.

End MoveLaws.

(* ---- C12: move_p terminates within its fuel (2 * entries + 2), for every well-formed state ---- *)
Lemma size_filter_le {A} (P : rpath * A → Prop) `{!∀ x, Decision (P x)} (m : gmap rpath A) : size (filter P m) ≤ size m.
Proof.
  induction m as [|i x m Hi IH] using map_ind; [by rewrite map_filter_empty|].
  rewrite map_filter_insert. rewrite (map_size_insert_None i x m Hi). case_decide.
  - rewrite map_size_insert_None; [lia|]. apply map_filter_lookup_None. by left.
  - rewrite delete_notin by done. lia.
Qed.

Section Fuel.
Variables (sr dt : rpath).
Hypothesis Hsr_dt : ¬ sr `suffix_of` dt.
Hypothesis Hdt_sr : ¬ dt `suffix_of` sr.

Definition under_sr (kv : rpath * entry) : Prop := sr `suffix_of` kv.1.
Global Instance under_sr_dec kv : Decision (under_sr kv).
Proof. unfold under_sr. apply _. Defined.
Definition cnt (m : mfs) : nat := size (filter under_sr (m_ents m)).

Lemma cnt_moved m w e : sr `suffix_of` w → m_ents m !! w = Some e → cnt (moved sr dt m w e) = pred (cnt m).
Proof.
  intros Hw He. unfold cnt. rewrite moved_ents.
  rewrite map_filter_insert_not by (intros y Hy; unfold under_sr in Hy; cbn in Hy; apply (not_both sr dt Hsr_dt Hdt_sr (rb sr dt w)); [done | by apply rb_under]).
  rewrite map_filter_delete. apply map_size_delete_Some. exists e. apply map_filter_lookup_Some. done.
Qed.

Lemma move_loop_step f m w rest e : Inv sr m (w :: rest) → m_ents m !! w = Some e →
  move_loop (S f) m sr dt (w :: rest) = move_loop f (moved sr dt m w e) sr dt (map (λ n, n :: w) (kids_of e) ++ rest).
Proof.
  intros I He. cbn [move_loop]. rewrite He.
  assert (Hw : strictly_under sr w) by (apply (iv_under _ _ _ I); left).
  pose proof (strictly_under_suffix sr w Hw) as Hws.
  destruct Hw as (kw & Hkw & Ew). destruct kw as [|wb kw']; [done|]. cbn in Ew.
  fold (move_entry e (rebase sr dt w)). fold (rb sr dt w).
  change (match m_data (upd_ents m (λ es, <[rb sr dt w:=move_entry e (rb sr dt w)]> (delete w es))) !! w with
          | Some d => upd_data (upd_ents m (λ es, <[rb sr dt w:=move_entry e (rb sr dt w)]> (delete w es))) (λ ds, <[rb sr dt w:=d]> (delete w ds))
          | None => upd_ents m (λ es, <[rb sr dt w:=move_entry e (rb sr dt w)]> (delete w es))
          end) with (moved sr dt m w e).
  rewrite Ew at 1.
  pose proof (iv_orphan _ _ _ I w ltac:(left)) as Ho. rewrite Ew in Ho. cbn [tail] in Ho.
  assert (Hgp : m_ents (moved sr dt m w e) !! (kw' ++ sr) = None).
  { rewrite moved_ents.
    assert (kw' ++ sr ≠ rb sr dt w) by (intros E; apply (not_both sr dt Hsr_dt Hdt_sr (kw' ++ sr)); [by exists kw' | rewrite E; by apply rb_under]).
    assert (kw' ++ sr ≠ w) by (rewrite Ew; intros E; apply (f_equal length) in E; cbn in E; lia).
    rewrite lookup_insert_ne by done. by rewrite lookup_delete_ne. }
  rewrite Hgp. reflexivity.
Qed.

Lemma loop_terminates fuel : ∀ m ws, Inv sr m ws → m_ents m !! sr = None → cnt m < fuel → move_loop fuel m sr dt ws ≠ OutOfFuel.
Proof.
  induction fuel as [|f IH]; intros m ws I Hsr Hc; [lia|].
  destruct ws as [|w rest]; [done|].
  destruct (iv_exists _ _ _ I w ltac:(left)) as [e He].
  rewrite (move_loop_step f m w rest e I He).
  assert (Hws : sr `suffix_of` w) by (apply strictly_under_suffix, (iv_under _ _ _ I); left).
  apply IH.
  - by apply inv_step.
  - rewrite moved_ents.
    assert (sr ≠ rb sr dt w) by (intros E; apply (not_both sr dt Hsr_dt Hdt_sr sr); [done | rewrite E; by apply rb_under]).
    assert (sr ≠ w) by (intros <-; congruence).
    rewrite lookup_insert_ne by done. by rewrite lookup_delete_ne.
  - rewrite cnt_moved by done.
    assert (1 ≤ cnt m); [|lia]. unfold cnt.
    assert (Hin : filter under_sr (m_ents m) !! w = Some e) by (apply map_filter_lookup_Some; done).
    destruct (size (filter under_sr (m_ents m))) eqn:Es; [|lia].
    apply map_size_empty_inv in Es. rewrite Es in Hin. by rewrite lookup_empty in Hin.
Qed.

End Fuel.

Theorem move_op_terminates env m s d : WF m → move_op env m s d ≠ OutOfFuel.
Proof.
  intros HW. unfold move_op. destruct (move_validate env m s d) as [e| |sp dt0] eqn:Ev; [done|done|].
  destruct (move_go_facts env m s d _ _ Ev) as ([se Hse] & Hne & Hu & b & ddir & x & -> & Hx & Hxd & Hxl & Hy).
  destruct sp as [|sb sd].
  { exfalso. assert (is_under (b :: ddir) [] = true) as Ht by (apply is_under_spec, suffix_nil). congruence. }
  assert (Hsr_dt : ¬ (sb :: sd) `suffix_of` (b :: ddir)).
  { intros Hs. apply is_under_spec in Hs. congruence. }
  assert (Hleaf : ∀ y, m_ents m !! (b :: ddir) = Some y → files_of y = ∅).
  { intros y Hyy. rewrite Hyy in Hy. unfold files_of. apply Hy. }
  pose proof (nothing_under m (b :: ddir) HW Hleaf) as Hfree.
  assert (Hdt_sr : ¬ (b :: ddir) `suffix_of` (sb :: sd)).
  { intros Hs. rewrite (Hfree _ Hs) in Hse; [done | congruence]. }
  destruct (wf_par m HW _ _ _ Hse) as (op & Hop & _ & _).
  assert (Hxr : real_dir x) by done.
  change (match m_ents m !! (b :: ddir) with Some _ => upd_data m (delete (b :: ddir)) | None => m end) with (M0 m b ddir).
  remember (2 * size (m_ents m) + 2) as fuel eqn:Hf. destruct fuel as [|f]; [lia|].
  assert (Hfirst : move_loop (S f) (M0 m b ddir) (sb :: sd) (b :: ddir) [sb :: sd] =
                   move_loop f (M1 m sb b sd ddir se op x) (sb :: sd) (b :: ddir) (map (λ n, n :: sb :: sd) (kids_of se) ++ []))
    by (eapply move_loop_first; eauto).
  rewrite Hfirst, app_nil_r.
  assert (HM1s : m_ents (M1 m sb b sd ddir se op x) !! (sb :: sd) = None) by (eapply M1_sr; eauto).
  apply loop_terminates; [done | done | eapply inv_M1; eauto | exact HM1s |].
  (* the entries still under the source root in M1 are entries of m *)
  assert (Hsub : filter (under_sr (sb :: sd)) (m_ents (M1 m sb b sd ddir se op x)) = delete (sb :: sd) (filter (under_sr (sb :: sd)) (m_ents m))).
  { apply map_eq. intros k. apply option_eq. intros e.
    rewrite map_filter_lookup_Some, lookup_delete_Some, map_filter_lookup_Some. unfold under_sr. cbn [fst]. split.
    - intros [Hl Hk]. destruct (decide (k = sb :: sd)) as [->|Hn]; [congruence|].
      assert (Hu2 : m_ents (M1 m sb b sd ddir se op x) !! k = m_ents m !! k) by (eapply M1_under; eauto).
      rewrite Hu2 in Hl. done.
    - intros (Hn & Hl & Hk). split; [|done].
      assert (Hu2 : m_ents (M1 m sb b sd ddir se op x) !! k = m_ents m !! k) by (eapply M1_under; eauto). by rewrite Hu2. }
  unfold cnt. rewrite Hsub. rewrite map_size_delete.
  pose proof (size_filter_le (under_sr (sb :: sd)) (m_ents m)) as Hle.
  destruct (filter _ (m_ents m) !! (sb :: sd)); cbn; lia.
Qed.

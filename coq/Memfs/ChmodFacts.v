(* Memfs/ChmodFacts.v — C11 at tree level, over the mirror of _chown / _chmod:
   chown sets the requested ids on exactly the entries the traversal yields and changes nothing else;
   chmod changes nothing but mode fields, and only of entries named by the traversal's events (the pre_op calls and the
   yielded items, through chmod_target for followed links); names, kinds, child lists, owners, byte contents, cwd and
   every other entry stay as they were. *)
From stdpp Require Import gmap.
From Coq Require Import NArith.
From RV Require Import Base.Str Path.Helpers Path.Expand Chmod.Sym Memfs.State Memfs.Ops Memfs.Walk Memfs.WalkOps.

(* ---- chown ---- *)
Definition chown1 (u g : option N) (acc : mfs) (e : entry) : mfs :=
  match m_ents acc !! e_path e with
  | Some x => upd_ents acc (insert (e_path e) (set_owner x u g))
  | None => acc
  end.
Definition chown_fold (u g : option N) (es : list entry) (m : mfs) : mfs := fold_left (chown1 u g) es m.

Lemma chown_fold_cons u g e es m : chown_fold u g (e :: es) m = chown_fold u g es (chown1 u g m e).
Proof. reflexivity. Qed.

Lemma set_owner_idem x u g : set_owner (set_owner x u g) u g = set_owner x u g.
Proof. unfold set_owner. destruct x, u, g; reflexivity. Qed.

Lemma chown_fold_lookup u g es : ∀ m p,
  m_ents (chown_fold u g es m) !! p =
  if bool_decide (p ∈ map e_path es) then (λ x, set_owner x u g) <$> (m_ents m !! p) else m_ents m !! p.
Proof.
  induction es as [|e es IH]; intros m p.
  - cbn. rewrite bool_decide_eq_false_2 by set_solver. done.
  - rewrite chown_fold_cons, IH. clear IH. cbn [map]. unfold chown1.
    destruct (m_ents m !! e_path e) as [x|] eqn:Ex.
    + cbn [upd_ents m_ents]. destruct (decide (p = e_path e)) as [->|Hne].
      * rewrite lookup_insert, Ex. rewrite (bool_decide_eq_true_2 (e_path e ∈ e_path e :: map e_path es)) by set_solver.
        cbn. case_bool_decide; cbn; [by rewrite set_owner_idem | done].
      * rewrite lookup_insert_ne by done. 
        assert (Hiff : p ∈ map e_path es ↔ p ∈ e_path e :: map e_path es) by set_solver.
        destruct (decide (p ∈ map e_path es)) as [Hin|Hin].
        -- rewrite !bool_decide_eq_true_2 by (done || by apply Hiff). done.
        -- rewrite !bool_decide_eq_false_2 by (done || (intros H; by apply Hiff in H)). done.
    + destruct (decide (p = e_path e)) as [->|Hne].
      * rewrite Ex. by repeat case_bool_decide.
      * assert (Hiff : p ∈ map e_path es ↔ p ∈ e_path e :: map e_path es) by set_solver.
        destruct (decide (p ∈ map e_path es)) as [Hin|Hin].
        -- rewrite !bool_decide_eq_true_2 by (done || by apply Hiff). done.
        -- rewrite !bool_decide_eq_false_2 by (done || (intros H; by apply Hiff in H)). done.
Qed.

Lemma chown_fold_rest u g es : ∀ m, m_data (chown_fold u g es m) = m_data m ∧ m_cwd (chown_fold u g es m) = m_cwd m ∧ m_root (chown_fold u g es m) = m_root m.
Proof.
  induction es as [|e es IH]; intros m; [done|]. rewrite chown_fold_cons.
  destruct (IH (chown1 u g m e)) as (H1 & H2 & H3). rewrite H1, H2, H3. unfold chown1. by destruct (m_ents m !! e_path e).
Qed.

(* chown: exactly the yielded entries get exactly the requested ids; nothing else changes *)
Theorem chown_exact env m s o m' : chown_op env m s o = Done (m', inl tt) →
  ∃ p evs es, resolve env m s = inl p ∧
    walk (m_ents m) (w_follow (w_max_depth default_wopts (if co_recursive o then None else Some 0)) (co_follow o)) no_pre p = inl (Done evs) ∧
    oks_until_err (items_of evs) = (es, None) ∧
    (∀ q, m_ents m' !! q = if bool_decide (q ∈ map e_path es) then (λ x, set_owner x (co_uid o) (co_gid o)) <$> (m_ents m !! q) else m_ents m !! q) ∧
    m_data m' = m_data m ∧ m_cwd m' = m_cwd m ∧ m_root m' = m_root m.
Proof.
  unfold chown_op. destruct (resolve env m s) as [p|e]; [|intros H; by simplify_eq].
  destruct (walk _ _ _ p) as [[evs| |]|e] eqn:Ew; try (intros H; by simplify_eq).
  destruct (oks_until_err (items_of evs)) as [es err] eqn:Eo. destruct err as [e|]; [intros H; by simplify_eq|].
  intros H. injection H as <-. exists p, evs, es. split; [done|]. split; [done|]. split; [done|].
  split; [intros q; apply (chown_fold_lookup (co_uid o) (co_gid o) es m q)|]. apply (chown_fold_rest (co_uid o) (co_gid o) es m).
Qed.

(* ---- chmod ---- *)
(* e' is e with possibly another mode *)
Definition mode_only (e e' : entry) : Prop :=
  e_path e' = e_path e ∧ e_alt e' = e_alt e ∧ e_rel e' = e_rel e ∧ e_dir e' = e_dir e ∧ e_file e' = e_file e ∧ e_link e' = e_link e ∧
  e_uid e' = e_uid e ∧ e_gid e' = e_gid e ∧ e_follow e' = e_follow e ∧ e_files e' = e_files e.

Lemma mode_only_refl e : mode_only e e. Proof. by repeat split. Qed.
Lemma mode_only_trans a b c : mode_only a b → mode_only b c → mode_only a c.
Proof. unfold mode_only. intros (?&?&?&?&?&?&?&?&?&?) (?&?&?&?&?&?&?&?&?&?). repeat split; congruence. Qed.
Lemma mode_only_set_mode e md : mode_only e (set_mode e md). Proof. by repeat split. Qed.

(* the state relation chmod maintains: same keys, every entry differs at most in its mode, and entries outside T are untouched *)
Definition chmod_rel (T : rpath → Prop) (m m' : mfs) : Prop :=
  m_data m' = m_data m ∧ m_cwd m' = m_cwd m ∧ m_root m' = m_root m ∧
  ∀ q, match m_ents m !! q, m_ents m' !! q with
       | Some e, Some e' => mode_only e e' ∧ (¬ T q → e' = e)
       | None, None => True
       | _, _ => False
       end.

Lemma chmod_rel_refl T m : chmod_rel T m m.
Proof. repeat split; try done. intros q. destruct (m_ents m !! q); [split; [apply mode_only_refl | done] | done]. Qed.

Lemma chmod_rel_trans T m1 m2 m3 : chmod_rel T m1 m2 → chmod_rel T m2 m3 → chmod_rel T m1 m3.
Proof.
  intros (D1 & C1 & R1 & H1) (D2 & C2 & R2 & H2). repeat split; try congruence. intros q. specialize (H1 q). specialize (H2 q).
  destruct (m_ents m1 !! q), (m_ents m2 !! q), (m_ents m3 !! q); try done.
  destruct H1 as [A1 B1], H2 as [A2 B2]. split; [by eapply mode_only_trans|]. intros Hn. rewrite (B2 Hn). by apply B1.
Qed.

Lemma chmod_rel_weaken (T T' : rpath → Prop) m m' : (∀ q, T q → T' q) → chmod_rel T m m' → chmod_rel T' m m'.
Proof.
  intros Hs (D & C & R & H). repeat split; try done. intros q. specialize (H q).
  destruct (m_ents m !! q), (m_ents m' !! q); try done. destruct H as [A B]. split; [done|]. intros Hn. apply B. intros Ht. by apply Hn, Hs.
Qed.

Lemma set_mode_at_rel m p md : chmod_rel (λ q, q = p) m (set_mode_at m p md).
Proof.
  unfold set_mode_at. destruct (m_ents m !! p) as [x|] eqn:E; [|apply chmod_rel_refl].
  repeat split; try done. intros q. cbn [upd_ents m_ents]. destruct (decide (q = p)) as [->|Hn].
  - rewrite lookup_insert, E. split; [apply mode_only_set_mode | done].
  - rewrite lookup_insert_ne by done. destruct (m_ents m !! q); [split; [apply mode_only_refl | done] | done].
Qed.

(* the paths an event can touch in state m *)
Definition ev_paths (o : chmod_opts) (m : mfs) (ev : event) : list rpath :=
  match ev with
  | EvPre x => [e_path (chmod_target o m x)]
  | EvItem (IOk src) => [e_path (chmod_target o m src)]
  | EvItem (IErr _) => []
  end.

(* chmod_target only renames an entry to the one stored at the same path *)
Lemma chmod_target_path o m x : e_path (chmod_target o m x) = e_path x ∨ ∃ t, m_ents m !! e_path x = Some t ∧ chmod_target o m x = t.
Proof. unfold chmod_target. destruct (ch_follow o && e_link x); [|by left]. destruct (m_ents m !! e_path x) as [t|] eqn:E; [right; eauto | by left]. Qed.

Lemma chmod_pre_apply_rel o m x : chmod_rel (λ q, q = e_path (chmod_target o m x)) m (chmod_pre_apply o m x).
Proof. unfold chmod_pre_apply. repeat case_match; try apply chmod_rel_refl; apply set_mode_at_rel. Qed.

Lemma chmod_item_apply_rel o m x : chmod_rel (λ q, q = e_path (chmod_target o m x)) m (chmod_item_apply o m x).1.
Proof. unfold chmod_item_apply. repeat case_match; cbn [fst]; try apply chmod_rel_refl; apply set_mode_at_rel. Qed.

(* the traversal's event entries: every path chmod can touch is the path of an event entry (as yielded: for a followed link
   that is the link's target path) *)
Definition ev_entry_paths (evs : list event) : list rpath :=
  flat_map (λ ev, match ev with EvPre x => [e_path x] | EvItem (IOk x) => [e_path x] | EvItem (IErr _) => [] end) evs.

Lemma chmod_target_same_path o m x (WK : ∀ q t, m_ents m !! q = Some t → e_path t = q) : e_path (chmod_target o m x) = e_path x.
Proof. destruct (chmod_target_path o m x) as [H|(t & Ht & ->)]; [done | by apply WK]. Qed.

Lemma chmod_events_rel o evs : ∀ m, (∀ q t, m_ents m !! q = Some t → e_path t = q) →
  chmod_rel (λ q, q ∈ ev_entry_paths evs) m (chmod_events o m evs).1.
Proof.
  induction evs as [|ev evs IH]; intros m WK; cbn [chmod_events]; [apply chmod_rel_refl|].
  assert (Hkeep : ∀ m', chmod_rel (λ q, q = e_path (match ev with EvPre x => x | EvItem (IOk x) => x | _ => mkEntry [] None [] false false false 0 0 0 false None end)) m m' →
            ∀ q t, m_ents m' !! q = Some t → e_path t = q).
  { intros m' (_ & _ & _ & H) q t Hq. specialize (H q). rewrite Hq in H. destruct (m_ents m !! q) as [e|] eqn:E; [|done].
    destruct H as [(P & _) _]. rewrite P. by apply WK. }
  destruct ev as [x|[src|w]]; cbn [ev_entry_paths flat_map].
  - pose proof (chmod_pre_apply_rel o m x) as H1. rewrite (chmod_target_same_path o m x WK) in H1.
    eapply chmod_rel_trans.
    + eapply chmod_rel_weaken; [|exact H1]. intros q ->. set_solver.
    + eapply chmod_rel_weaken; [|apply IH; by apply (Hkeep _ H1)]. intros q Hq. set_solver.
  - pose proof (chmod_item_apply_rel o m src) as H1. rewrite (chmod_target_same_path o m src WK) in H1.
    destruct (chmod_item_apply o m src) as [m' [e|]] eqn:Ei; cbn [fst] in *.
    + eapply chmod_rel_weaken; [|exact H1]. intros q ->. set_solver.
    + eapply chmod_rel_trans.
      * eapply chmod_rel_weaken; [|exact H1]. intros q ->. set_solver.
      * eapply chmod_rel_weaken; [|apply IH; by apply (Hkeep _ H1)]. intros q Hq. set_solver.
  - apply chmod_rel_refl.
Qed.

(* chmod: whatever it returns, only mode fields changed, and only of entries the traversal named *)
Theorem chmod_frame env m s o m' r : (∀ q t, m_ents m !! q = Some t → e_path t = q) → chmod_op env m s o = Done (m', r) →
  ∃ T : list rpath, chmod_rel (λ q, q ∈ T) m m' ∧
    (∀ p evs, resolve env m s = inl p →
       walk (m_ents m) (w_dirs_first (w_follow (w_max_depth (w_contents_first default_wopts) (if ch_recursive o then None else Some 0)) (ch_follow o)))
            (chmod_pre_check o) p = inl (Done evs) → T = ev_entry_paths evs).
Proof.
  intros WK. unfold chmod_op. destruct (resolve env m s) as [p|e].
  2:{ intros H. simplify_eq. exists []. split; [apply chmod_rel_refl | intros; done]. }
  destruct (walk _ _ _ p) as [[evs| |]|e] eqn:Ew; try discriminate.
  - intros H. injection H as H. exists (ev_entry_paths evs). split; [pose proof (chmod_events_rel o evs m WK) as Hr; by rewrite H in Hr|]. intros p0 evs0 Hp Hw. injection Hp as <-. rewrite Ew in Hw. injection Hw as <-. done.
  - intros H. simplify_eq. exists []. split; [apply chmod_rel_refl|]. intros p0 evs0 Hp Hw. injection Hp as <-. rewrite Ew in Hw. discriminate.
Qed.

(* Memfs/Posix.v — C02: why the two backends can agree at all.
   Memfs looks a path up lexically: the cleaned absolute path IS the key of the entry.  A real filesystem
   resolves a path component by component and follows every symlink it meets on the way (all but the last
   component, for the lstat-style calls both backends make).  The property restricts the guarantee to
   arguments that do not pass through a symlink as an intermediate component; this file states POSIX-style
   resolution over the same state and proves that inside that domain it coincides with the lexical lookup,
   and that the domain is exactly what is needed: one intermediate link whose target is elsewhere makes
   the two differ. *)
From stdpp Require Import gmap.
From Coq Require Import NArith Lia.
From RV Require Import Memfs.State.

(* resolution from [cur] through the remaining components; a link met before the last component is replaced
   by the components of its absolute target (and resolution restarts from the root); the last component is
   not followed.  Fuel bounds the number of steps (a link cycle exhausts it). *)
Fixpoint presolve (fuel : nat) (m : mfs) (cur : rpath) (comps : list (list N)) : option rpath :=
  match fuel with
  | O => None
  | S f =>
      match comps with
      | [] => Some cur
      | c :: rest =>
          let nxt := c :: cur in
          match rest with
          | [] => Some nxt
          | _ :: _ =>
              match m_ents m !! nxt with
              | Some e =>
                  if e_link e then
                    match e_alt e with
                    | Some t => presolve f m [] (rev t ++ rest)
                    | None => None
                    end
                  else presolve f m nxt rest
              | None => presolve f m nxt rest
              end
          end
      end
  end.

(* a stored path (reversed names) resolved from the root *)
Definition posix_lookup (fuel : nat) (m : mfs) (p : rpath) : option rpath := presolve fuel m [] (rev p).

Definition is_link_at (m : mfs) (p : rpath) : bool :=
  match m_ents m !! p with Some e => e_link e | None => false end.

(* the argument does not pass through a symlink: no proper, non-root ancestor of p is a link *)
Definition no_link_above (m : mfs) (p : rpath) : Prop :=
  ∀ k, 0 < k → k < length p → is_link_at m (drop k p) = false.

Lemma presolve_lexical fuel m cur comps :
  length comps < fuel →
  (∀ pre c post, comps = pre ++ c :: post → post ≠ [] → is_link_at m (c :: rev pre ++ cur) = false) →
  presolve fuel m cur comps = Some (rev comps ++ cur).
Proof.
  revert cur comps. induction fuel as [|f IH]; intros cur comps Hf Hno; [lia|].
  destruct comps as [|c rest]; [reflexivity|]. cbn [presolve].
  destruct rest as [|c2 rest'].
  - reflexivity.
  - assert (Hc : is_link_at m (c :: cur) = false) by (apply (Hno [] c (c2 :: rest')); [reflexivity | discriminate]).
    unfold is_link_at in Hc.
    assert (Hrec : presolve f m (c :: cur) (c2 :: rest') = Some (rev (c2 :: rest') ++ c :: cur)).
    { apply IH; [cbn [length] in *; lia|]. intros pre c' post Heq Hne.
      specialize (Hno (c :: pre) c' post). cbn [app rev] in Hno. rewrite <- app_assoc in Hno. cbn [app] in Hno.
      apply Hno; [by rewrite Heq | done]. }
    replace (rev (c :: c2 :: rest') ++ cur) with (rev (c2 :: rest') ++ c :: cur) by (cbn [rev]; rewrite <- !app_assoc; reflexivity).
    destruct (m_ents m !! (c :: cur)) as [e|]; [|exact Hrec]. rewrite Hc. exact Hrec.
Qed.

(* inside the domain POSIX resolution of a stored path is the lexical lookup *)
Theorem posix_is_lexical m p : no_link_above m p → posix_lookup (S (length p)) m p = Some p.
Proof.
  intros Hno. unfold posix_lookup. rewrite presolve_lexical.
  - by rewrite rev_involutive, app_nil_r.
  - rewrite rev_length. lia.
  - intros pre c post Heq Hne. rewrite app_nil_r.
    assert (Hp : p = rev post ++ c :: rev pre).
    { rewrite <- (rev_involutive p), Heq, rev_app_distr. cbn [rev]. by rewrite <- app_assoc. }
    replace (c :: rev pre) with (drop (length (rev post)) p) by (rewrite Hp at 1; apply drop_app).
    apply Hno.
    + rewrite rev_length. destruct post; [done | cbn; lia].
    + rewrite Hp, app_length. cbn. lia.
Qed.

(* ... and outside it they differ: an intermediate link whose target is another directory sends the real
   filesystem there while Memfs keeps the lexical key *)
Example outside_domain_differs :
  let l := [[108%N]] in let t := [[116%N]] in let x := [120%N] in
  let m := mkMfs [] [] (<[ l := new_link l t true ]> (<[ t := new_dir t None ]> (m_ents mfs_init))) ∅ in
  posix_lookup 5 m (x :: l) = Some (x :: t) ∧ x :: l ≠ x :: t ∧ ¬ no_link_above m (x :: l).
Proof.
  split; [vm_compute; reflexivity|]. split; [discriminate|].
  intros H. specialize (H 1). cbn in H. assert (false = true) as Hc; [|discriminate].
  rewrite <- H; [vm_compute; reflexivity | lia | lia].
Qed.

(* the hypothesis is satisfiable by a state that does contain links *)
Example domain_nonvacuous :
  let l := [[108%N]] in let t := [[116%N]] in
  let m := mkMfs [] [] (<[ l := new_link l t true ]> (<[ t := new_dir t None ]> (m_ents mfs_init))) ∅ in
  no_link_above m ([120%N] :: t) ∧ no_link_above m l.
Proof. split; intros k Hk Hlt; cbn in Hlt; assert (k = 1) as -> by lia || lia; vm_compute; reflexivity. Qed.
